package main

// C14 — client-maintained referrers indexes lose no update.
// Rules: R1 merge protocol order (Merge.Do / assign / commit / complete),
// R2 lock discipline of Merge and Pool, R3 the read-modify-write of a
// referrers index is serialised per referrers tag, R4 the detected referrers
// capability never flips.

import (
	"fmt"
	"go/constant"
	"go/token"
	"go/types"
	"sort"
	"strings"

	"golang.org/x/tools/go/ssa"
)

func init() {
	register(&propDef{
		ID: "C14",
		Explain: "Decided: (R1) syncutil.Merge.Do runs prepare, then commit on every path, resolves exactly the committed slice iff prepare succeeded, " +
			"hands the resulting error to complete on every path and returns it, the non-main callers return the status they received; complete closes the status " +
			"channel on success, sends exactly len(items)-1 failure notices otherwise, then reopens the window and promotes the pending batch with one main token; " +
			"assign appends to items only while the window is open and to pending otherwise, and creates exactly one main token per batch; " +
			"(R2) every access to Merge.{committed,items,status,pending,pendingStatus} and Pool.items/poolItem.refCount holds the lock (one exception with its premise proved); " +
			"(R3) the only push under a referrers tag is the update closure handed to Merge.Do of the repository-wide pool entry keyed by that tag, it applies the changes to the list " +
			"fetched by prepare, leaves an unchanged index alone, never deletes before a push, deletes the old index only when GC is on and an old index exists, and reports a failed delete as " +
			"ReferrersError{Op: DeleteReferrersIndex}; indexing is reached exactly when the manifest has a subject and the Referrers API is not available; " +
			"(R4) Repository.referrersState is only touched by atomic.CompareAndSwapInt32(unknown -> known) and atomic.LoadInt32, and Repository values are never copied. " +
			"NOT decided (not applicable to static analysis): absence of lost updates over all interleavings of HTTP exchanges, equality with a Referrers-API listing, applyReferrerChanges set semantics, registry behaviour.",
		Run:     runC14,
		Mutants: c14Mutants,
	})
}

const (
	c14PkgSync   = "internal/syncutil"
	c14PkgRemote = "registry/remote"
	c14TMerge    = "~/internal/syncutil.Merge"
	c14TPool     = "~/internal/syncutil.Pool"
)

// c14N: the unexported state of Merge / Pool, identified by type and role (not by name).
// items/pending/status/pendingStatus are access paths relative to the Merge
// receiver ("items" or "current.items"); runB/pendB are the two batch
// sub-objects when the pairs live in a nested struct ("" otherwise).
type c14Names struct {
	lock, committed                         string
	items, pending, status, pendingStatus   string
	runB, pendB                             string
	mergeFields                             []string    // guarded direct fields of Merge
	stateFields                             [][2]string // (type, field) pairs holding items/status of a batch
	main, err                               string      // the status message
	poolLock, poolItems, poolItem, refCount string      // Pool
}

var c14N c14Names

// c14ResolveNames fills c14N; returns what could not be identified.
func c14ResolveNames(c *Ctx) string {
	c14N = c14Names{}
	mt := c.P.Named(c14PkgSync, "Merge")
	if mt == nil {
		return "~/internal/syncutil.Merge"
	}
	st, ok := mt.Underlying().(*types.Struct)
	if !ok {
		return "~/internal/syncutil.Merge is not a struct"
	}
	isMutex := func(t types.Type) bool {
		n, ok := t.(*types.Named)
		return ok && n.Obj().Pkg() != nil && n.Obj().Pkg().Path() == "sync" && (n.Obj().Name() == "Mutex" || n.Obj().Name() == "RWMutex")
	}
	// slice and channel members of a struct
	members := func(st *types.Struct) (slices, chans []string, msg *types.Named) {
		for i := 0; i < st.NumFields(); i++ {
			f := st.Field(i)
			switch t := f.Type().Underlying().(type) {
			case *types.Slice:
				slices = append(slices, f.Name())
			case *types.Chan:
				chans = append(chans, f.Name())
				msg, _ = t.Elem().(*types.Named)
			}
		}
		return
	}
	var batches []string
	var batchT *types.Named
	for i := 0; i < st.NumFields(); i++ {
		f := st.Field(i)
		switch t := f.Type().Underlying().(type) {
		case *types.Basic:
			if t.Kind() == types.Bool {
				if c14N.committed != "" {
					return "Merge has several bool fields: cannot tell the window flag"
				}
				c14N.committed = f.Name()
			}
		case *types.Struct:
			if isMutex(f.Type()) {
				c14N.lock = f.Name()
				continue
			}
			if n, isN := f.Type().(*types.Named); isN {
				if sl, ch, _ := members(t); len(sl) == 1 && len(ch) == 1 {
					batches = append(batches, f.Name())
					batchT = n
				}
			}
		}
	}
	if c14N.lock == "" || c14N.committed == "" {
		return "Merge: expected one mutex and one bool (window closed) field"
	}
	// which of a pair is the running one: the destination of the promotion `x = <load of the other>`
	promoted := func(pair []string) (dst, src string) {
		for _, f := range c.P.FuncsOfPkg(c14PkgSync) {
			for _, d := range pair {
				for _, s := range c14FieldStores(f, c14TMerge, d) {
					for _, o := range pair {
						if o != d && c14IsLoadOfField(s.Val, c14TMerge, o) {
							dst, src = d, o
						}
					}
				}
			}
		}
		return
	}
	slices, chans, msgT := members(st)
	switch {
	case len(slices) == 2 && len(chans) == 2 && len(batches) == 0:
		c14N.items, c14N.pending = promoted(slices)
		c14N.status, c14N.pendingStatus = promoted(chans)
		c14N.mergeFields = []string{c14N.committed, c14N.items, c14N.status, c14N.pending, c14N.pendingStatus}
		c14N.stateFields = [][2]string{{c14TMerge, c14N.items}, {c14TMerge, c14N.status}}
	case len(slices) == 0 && len(chans) == 0 && len(batches) == 2:
		c14N.runB, c14N.pendB = promoted(batches)
		bs := batchT.Underlying().(*types.Struct)
		sl, ch, mt2 := members(bs)
		msgT = mt2
		if c14N.runB != "" {
			c14N.items, c14N.pending = c14N.runB+"."+sl[0], c14N.pendB+"."+sl[0]
			c14N.status, c14N.pendingStatus = c14N.runB+"."+ch[0], c14N.pendB+"."+ch[0]
		}
		bt := short(batchT.Obj().Pkg().Path() + "." + batchT.Obj().Name())
		c14N.mergeFields = []string{c14N.committed, c14N.runB, c14N.pendB}
		c14N.stateFields = [][2]string{{bt, sl[0]}, {bt, ch[0]}, {c14TMerge, c14N.runB}}
	default:
		return "Merge: expected two slices and two status channels, or two batch sub-objects holding one of each"
	}
	if c14N.items == "" || c14N.status == "" || msgT == nil {
		return "Merge: cannot tell the running batch from the pending one (no promotion `x = pending` found)"
	}
	if ms, ok := msgT.Underlying().(*types.Struct); ok {
		for i := 0; i < ms.NumFields(); i++ {
			f := ms.Field(i)
			if b, isB := f.Type().Underlying().(*types.Basic); isB && b.Kind() == types.Bool {
				c14N.main = f.Name()
			}
			if isErrorType(f.Type()) {
				c14N.err = f.Name()
			}
		}
	}
	if c14N.main == "" || c14N.err == "" {
		return "the status message of Merge: expected a bool (main) and an error field"
	}
	// Pool
	if pt := c.P.Named(c14PkgSync, "Pool"); pt != nil {
		if ps, ok := pt.Underlying().(*types.Struct); ok {
			for i := 0; i < ps.NumFields(); i++ {
				f := ps.Field(i)
				if isMutex(f.Type()) {
					c14N.poolLock = f.Name()
				}
				if mp, isMap := f.Type().Underlying().(*types.Map); isMap {
					c14N.poolItems = f.Name()
					if ptr, isPtr := mp.Elem().Underlying().(*types.Pointer); isPtr {
						if it, isNamed := ptr.Elem().(*types.Named); isNamed && it.Obj().Pkg() != nil {
							c14N.poolItem = short(it.Obj().Pkg().Path() + "." + it.Obj().Name())
							if is, isStruct := it.Underlying().(*types.Struct); isStruct {
								for j := 0; j < is.NumFields(); j++ {
									if b, isB := is.Field(j).Type().Underlying().(*types.Basic); isB && b.Info()&types.IsInteger != 0 {
										c14N.refCount = is.Field(j).Name()
									}
								}
							}
						}
					}
				}
			}
		}
	}
	return ""
}

// c14RepoFields: the unexported Repository state by type: the capability word
// (the only int32 / atomic.Int32 field) and the per-tag merge pool (the field
// whose type is a syncutil.Pool).
func c14RepoFields(c *Ctx) (state, pool string) {
	rt := c.P.Named(c14PkgRemote, "Repository")
	if rt == nil {
		return "", ""
	}
	st, ok := rt.Underlying().(*types.Struct)
	if !ok {
		return "", ""
	}
	nState := 0
	for i := 0; i < st.NumFields(); i++ {
		f := st.Field(i)
		if f.Exported() {
			continue
		}
		if b, isB := f.Type().Underlying().(*types.Basic); isB && b.Kind() == types.Int32 {
			state = f.Name()
			nState++
		}
		if n, isN := f.Type().(*types.Named); isN && n.Obj().Pkg() != nil {
			if n.Obj().Pkg().Path() == "sync/atomic" && n.Obj().Name() == "Int32" {
				state = f.Name()
				nState++
			}
			if n.Obj().Pkg().Path() == pkgPath(c14PkgSync) && n.Obj().Name() == "Pool" {
				pool = f.Name()
			}
		}
	}
	if nState != 1 {
		state = ""
	}
	return
}

func runC14(c *Ctx) {
	m := c14FindMerge(c)
	c14R1(c, m)
	c14R2(c, m)
	c14R3(c)
	c14R4(c)
}

// ---------- shared helpers (prefixed c14) ----------

// c14NamedOf returns the short name ("~/pkg.T") of the named struct type t
// points to (instantiations are named by their origin), or "".
func c14NamedOf(t types.Type) string {
	if p, ok := t.Underlying().(*types.Pointer); ok {
		t = p.Elem()
	}
	n, ok := t.(*types.Named)
	if !ok || n.Obj().Pkg() == nil {
		return ""
	}
	return short(n.Obj().Pkg().Path() + "." + n.Obj().Name())
}

// c14FieldAddrs lists the FieldAddr instructions of fn that address field
// `field` of named struct type typeName.
func c14FieldAddrs(fn *ssa.Function, typeName, field string) []*ssa.FieldAddr {
	var out []*ssa.FieldAddr
	AllInstrs(fn, func(in ssa.Instruction) {
		fa, ok := in.(*ssa.FieldAddr)
		if !ok || c14NamedOf(fa.X.Type()) != typeName {
			return
		}
		if fieldName(fa.X.Type(), fa.Field) == typeName+"."+field {
			out = append(out, fa)
		}
	})
	return out
}

// c14HasField reports whether named type pkg.T has the given field.
func c14HasField(p *Prog, pkg, typ, field string) bool {
	n := p.Named(pkg, typ)
	if n == nil {
		return false
	}
	st, ok := n.Underlying().(*types.Struct)
	if !ok {
		return false
	}
	for i := 0; i < st.NumFields(); i++ {
		if st.Field(i).Name() == field {
			return true
		}
	}
	return false
}

// c14FieldStores returns the Store instructions of fn that write field `field`
// of typeName.
func c14FieldStores(fn *ssa.Function, typeName, field string) []*ssa.Store {
	var out []*ssa.Store
	for _, fa := range c14FieldAddrs(fn, typeName, field) {
		for _, r := range *fa.Referrers() {
			if s, ok := r.(*ssa.Store); ok && s.Addr == fa {
				out = append(out, s)
			}
		}
	}
	return out
}

// c14FieldLoads returns the loads of field `field` of typeName in fn.
func c14FieldLoads(fn *ssa.Function, typeName, field string) []*ssa.UnOp {
	var out []*ssa.UnOp
	for _, fa := range c14FieldAddrs(fn, typeName, field) {
		for _, r := range *fa.Referrers() {
			if u, ok := r.(*ssa.UnOp); ok && u.Op == token.MUL && u.X == fa {
				out = append(out, u)
			}
		}
	}
	return out
}

// c14IsLoadOfField: v (through cells/phis) is a load of typeName.field.
func c14IsLoadOfField(v ssa.Value, typeName, field string) bool {
	rs := Roots(v)
	if len(rs) == 0 {
		return false
	}
	for _, r := range rs {
		u, ok := r.(*ssa.UnOp)
		if !ok || u.Op != token.MUL {
			return false
		}
		fa, ok := u.X.(*ssa.FieldAddr)
		if !ok || fieldName(fa.X.Type(), fa.Field) != typeName+"."+field {
			return false
		}
	}
	return true
}

// c14Sends lists the Send instructions of fn.
func c14Sends(fn *ssa.Function) []*ssa.Send {
	var out []*ssa.Send
	AllInstrs(fn, func(in ssa.Instruction) {
		if s, ok := in.(*ssa.Send); ok {
			out = append(out, s)
		}
	})
	return out
}

// c14StructLitField: v is a load of a local struct literal (complit); returns
// the values stored into its field `field` (nil slice if never stored: zero).
func c14StructLitField(v ssa.Value, field string) (vals []ssa.Value, ok bool) {
	u, isLoad := v.(*ssa.UnOp)
	if !isLoad || u.Op != token.MUL {
		return nil, false
	}
	a, isAlloc := u.X.(*ssa.Alloc)
	if !isAlloc {
		return nil, false
	}
	for _, r := range *a.Referrers() {
		fa, isFA := r.(*ssa.FieldAddr)
		if !isFA {
			continue
		}
		if !strings.HasSuffix(fieldName(fa.X.Type(), fa.Field), "."+field) {
			continue
		}
		for _, r2 := range *fa.Referrers() {
			if s, isStore := r2.(*ssa.Store); isStore && s.Addr == fa {
				vals = append(vals, s.Val)
			}
		}
	}
	return vals, true
}

func c14ConstBool(v ssa.Value) (bool, bool) {
	k, ok := v.(*ssa.Const)
	if !ok || k.Value == nil || k.Value.Kind() != constant.Bool {
		return false, false
	}
	return constant.BoolVal(k.Value), true
}

// c14AnyReturnReachable: some Return of the function is reachable from the
// start of block b without hitting the cut.
func c14AnyReturnReachable(b *ssa.BasicBlock, cu *cut) *ssa.Return {
	for _, r := range Returns(b.Parent()) {
		if reach(b, 0, r, cu) {
			return r
		}
	}
	return nil
}

// c14FreeCell: v is a load of a free variable; returns the unique parent
// Alloc bound to it at every MakeClosure (nil if not unique / not an Alloc).
func c14FreeCell(v ssa.Value) *ssa.Alloc {
	u, ok := v.(*ssa.UnOp)
	if !ok || u.Op != token.MUL {
		return nil
	}
	fv, ok := u.X.(*ssa.FreeVar)
	if !ok {
		return nil
	}
	return c14FreeVarAlloc(fv)
}

func c14FreeVarAlloc(fv *ssa.FreeVar) *ssa.Alloc {
	var cell *ssa.Alloc
	for _, b := range freeVarBindings(fv) {
		a, ok := b.(*ssa.Alloc)
		if !ok || (cell != nil && cell != a) {
			return nil
		}
		cell = a
	}
	return cell
}

// c14CellWriters: every store to heap cell a, in its function and in the
// closures that capture it (one level).
func c14CellStores(a *ssa.Alloc) []*ssa.Store {
	out := storesTo(a)
	for _, r := range *a.Referrers() {
		mc, ok := r.(*ssa.MakeClosure)
		if !ok {
			continue
		}
		f := mc.Fn.(*ssa.Function)
		for i, b := range mc.Bindings {
			if b != a {
				continue
			}
			for _, r2 := range *f.FreeVars[i].Referrers() {
				if s, ok := r2.(*ssa.Store); ok && s.Addr == f.FreeVars[i] {
					out = append(out, s)
				}
			}
		}
	}
	return out
}

// c14SameTag: v denotes the value of cell `tag` (directly in the parent, or as
// a free-variable load in a closure).
func c14DenotesCell(v ssa.Value, cell *ssa.Alloc) bool {
	v = strip(v)
	if a := c14FreeCell(v); a != nil && a == cell {
		return true
	}
	if a := cellOf(v); a != nil && a == cell {
		return true
	}
	return false
}

func c14SortedKeys(m map[string]bool) []string {
	var out []string
	for k := range m {
		out = append(out, k)
	}
	sort.Strings(out)
	return out
}

var _ = fmt.Sprintf

// ---------- anchors: the Merge protocol functions, by role ----------

// ---------- R3 helpers ----------

func c14OriginIs(f, gen *ssa.Function) bool {
	if f == nil || gen == nil {
		return false
	}
	if f == gen {
		return true
	}
	return f.Origin() == gen
}

// c14Derives: v is computed from a value of set (through calls, extracts,
// conversions, slices, literals).
func c14Derives(v ssa.Value, set map[ssa.Value]bool, depth int) bool {
	if depth > 6 || v == nil {
		return false
	}
	for _, r := range Roots(v) {
		if set[r] {
			return true
		}
		switch u := r.(type) {
		case *ssa.Extract:
			if set[u.Tuple] || c14Derives(u.Tuple, set, depth+1) {
				return true
			}
		case *ssa.Call:
			for _, a := range u.Call.Args {
				if c14Derives(a, set, depth+1) {
					return true
				}
			}
		case *ssa.UnOp:
			if u.Op == token.MUL {
				if _, isAlloc := u.X.(*ssa.Alloc); !isAlloc && c14Derives(u.X, set, depth+1) {
					return true
				}
			}
		case *ssa.FieldAddr:
			if c14Derives(u.X, set, depth+1) {
				return true
			}
		default:
			if derivesFromAny(r, set, depth+1) {
				return true
			}
		}
	}
	return false
}

// c14ParamOf: v is (a copy of) a parameter of fn, possibly through the heap
// cell a captured parameter is spilled into; returns the parameter.
func c14ParamOf(v ssa.Value, fn *ssa.Function) *ssa.Parameter {
	rs := Roots(v)
	if len(rs) != 1 {
		return nil
	}
	if p, ok := rs[0].(*ssa.Parameter); ok && p.Parent() == fn {
		return p
	}
	if a := cellOf(rs[0]); a != nil {
		sts := c14CellStores(a)
		if len(sts) == 1 {
			if p, ok := sts[0].Val.(*ssa.Parameter); ok && p.Parent() == fn {
				return p
			}
		}
	}
	return nil
}

// c14ConstTable: m is a load of a package-level map that is written only by the
// package initialiser, with constant integer values all different from `not`.
func c14ConstTable(c *Ctx, m ssa.Value, not int64) bool {
	rs := Roots(m)
	if len(rs) != 1 {
		return false
	}
	ld, ok := rs[0].(*ssa.UnOp)
	if !ok || ld.Op != token.MUL {
		return false
	}
	g, ok := ld.X.(*ssa.Global)
	if !ok {
		return false
	}
	n := 0
	for f := range c.P.All {
		if f.Pkg != g.Pkg || len(f.Blocks) == 0 {
			continue
		}
		isInit := f.Name() == "init" || strings.HasPrefix(f.Name(), "init#")
		bad := false
		AllInstrs(f, func(in ssa.Instruction) {
			switch x := in.(type) {
			case *ssa.Store:
				if x.Addr == ssa.Value(g) && !isInit {
					bad = true
				}
			case *ssa.MapUpdate:
				fromG := false
				for _, r := range Roots(x.Map) {
					if u, isU := r.(*ssa.UnOp); isU && u.X == ssa.Value(g) {
						fromG = true
					}
					if mk, isMk := r.(*ssa.MakeMap); isMk && isInit {
						// the literal being built for g: its value is stored into g in init
						for _, ref := range *mk.Referrers() {
							if st, isSt := ref.(*ssa.Store); isSt && st.Addr == ssa.Value(g) {
								fromG = true
							}
						}
					}
				}
				if !fromG {
					return
				}
				k, isK := constInt(x.Value)
				if !isInit || !isK || k == not {
					bad = true
				}
				n++
			}
		})
		if bad {
			return false
		}
	}
	return n > 0
}

// c14IsStateField: fa addresses an int32 / atomic.Int32 field.
func c14IsStateField(fa *ssa.FieldAddr) bool {
	pt, ok := fa.Type().Underlying().(*types.Pointer)
	if !ok {
		return false
	}
	if b, isB := pt.Elem().Underlying().(*types.Basic); isB && b.Kind() == types.Int32 {
		return true
	}
	n, isN := pt.Elem().(*types.Named)
	return isN && n.Obj().Pkg() != nil && n.Obj().Pkg().Path() == "sync/atomic" && n.Obj().Name() == "Int32"
}

// c14ReturnsAtomicState: g returns atomic.LoadInt32(&x.referrersState).
func c14ReturnsAtomicState(g *ssa.Function) bool {
	n := 0
	for _, a := range RetAtoms(g, 0) {
		call, ok := a.Val.(*ssa.Call)
		if !ok || (CalleeName(call) != "sync/atomic.LoadInt32" && CalleeName(call) != "(*sync/atomic.Int32).Load") {
			return false
		}
		fa, ok := call.Call.Args[0].(*ssa.FieldAddr)
		if !ok || !strings.HasPrefix(fieldName(fa.X.Type(), fa.Field), "~/registry/remote.Repository.") || !c14IsStateField(fa) {
			return false
		}
		n++
	}
	return n > 0
}

// ---------- R4 ----------

func c14R4(c *Ctx) {
	const R = "C14.R4.capability-never-flips"
	c.Expect(R, 2)
	stateField, _ := c14RepoFields(c)
	if stateField == "" {
		c.LostAnchor(R, "the capability word of ~/registry/remote.Repository (its only int32 / atomic.Int32 field)")
		return
	}
	k, ok := c.P.Obj(c14PkgRemote, "referrersStateUnknown").(*types.Const)
	if !ok {
		c.LostAnchor(R, "constant ~/registry/remote.referrersStateUnknown")
		return
	}
	unknown, _ := constant.Int64Val(k.Val())
	repoT := c.P.Named(c14PkgRemote, "Repository")
	var fns []*ssa.Function
	for f := range c.P.All {
		if inModule(f) && len(f.Blocks) > 0 {
			fns = append(fns, f)
		}
	}
	sort.Slice(fns, func(i, j int) bool { return fns[i].String() < fns[j].String() })
	nCAS, nLoad := 0, 0
	for _, f := range fns {
		idx := map[string]int{}
		for _, fa := range c14FieldAddrsAny(f, repoT, stateField) {
			for _, r := range *fa.Referrers() {
				if _, dbg := r.(*ssa.DebugRef); dbg {
					continue
				}
				in := r.(ssa.Instruction)
				call, isCall := r.(*ssa.Call)
				name := ""
				if isCall {
					name = CalleeName(call)
				}
				switch {
				case isCall && (name == "sync/atomic.LoadInt32" || name == "(*sync/atomic.Int32).Load") && call.Call.Args[0] == ssa.Value(fa):
					nLoad++
					idx["load"]++
					c.Exists(R, fmt.Sprintf("%s|atomic-load#%d", FnName(f), idx["load"]), in.Pos(), true, "atomic read of the capability")
				case isCall && (name == "sync/atomic.CompareAndSwapInt32" || name == "(*sync/atomic.Int32).CompareAndSwap") && call.Call.Args[0] == ssa.Value(fa):
					nCAS++
					idx["cas"]++
					// old/new resolved through helpers of the module (e.g. a bool -> state conversion)
					vw := c14NewView(f, 3, func(g *ssa.Function) bool { return inModule(g) })
					okOld := len(vw.Leaves(call.Call.Args[1])) > 0
					for _, ov := range vw.Leaves(call.Call.Args[1]) {
						if n, isK := constInt(ov); !isK || n != unknown {
							okOld = false
						}
					}
					okNew := len(vw.Leaves(call.Call.Args[2])) > 0
					for _, nv := range vw.Leaves(call.Call.Args[2]) {
						if n, isK := constInt(nv); isK && n != unknown {
							continue
						}
						if lk, isLk := nv.(*ssa.Lookup); isLk && c14ConstTable(c, lk.X, unknown) {
							continue // a package-level conversion table filled with known states only
						}
						okNew = false
					}
					okCAS := okOld && okNew
					c.Check(R, fmt.Sprintf("%s|cas-from-unknown#%d", FnName(f), idx["cas"]), in.Pos(), okCAS,
						ifelse(okCAS, "the only write is CompareAndSwap(unknown -> supported|unsupported)", "the capability can be swapped from a known state (or back to unknown): a repository detected as lacking the Referrers API flips while index updates are in flight, and half of the referrers are recorded nowhere"))
				default:
					idx["other"]++
					c.Violation(R, fmt.Sprintf("%s|non-atomic-access#%d", FnName(f), idx["other"]), in.Pos(),
						"Repository.referrersState is accessed other than by atomic.LoadInt32 / atomic.CompareAndSwapInt32(unknown, state): a plain or unconditional write lets the detected capability flip, a plain read races with the CAS")
				}
			}
		}
		// whole-struct copies of a Repository carry the state along
		AllInstrs(f, func(in ssa.Instruction) {
			ld, ok := in.(*ssa.UnOp)
			if !ok || ld.Op != token.MUL || repoT == nil {
				return
			}
			if _, isStruct := ld.Type().Underlying().(*types.Struct); !isStruct || !types.Identical(ld.Type().Underlying(), repoT.Underlying()) {
				return
			}
			if a, isAlloc := ld.X.(*ssa.Alloc); isAlloc && len(c14CellStores(a)) == 0 {
				return // zero value
			}
			idx["copy"]++
			c.Violation(R, fmt.Sprintf("%s|repository-copied-by-value#%d", FnName(f), idx["copy"]), in.Pos(),
				"a Repository (or RepositoryOptions) value is copied as a whole, including referrersState and the merge pool: the copy's capability can diverge from the original's and their index updates are not serialised")
		})
	}
	if nCAS == 0 {
		c.LostAnchor(R, "atomic.CompareAndSwapInt32(&Repository.referrersState, ...)")
	}
	if nLoad == 0 {
		c.LostAnchor(R, "atomic.LoadInt32(&Repository.referrersState)")
	}
}

// c14FieldAddrsAny: FieldAddrs of field `field` on any named type whose
// underlying struct is identical to named's (Repository and RepositoryOptions).
func c14FieldAddrsAny(fn *ssa.Function, named *types.Named, field string) []*ssa.FieldAddr {
	var out []*ssa.FieldAddr
	if named == nil {
		return nil
	}
	AllInstrs(fn, func(in ssa.Instruction) {
		fa, ok := in.(*ssa.FieldAddr)
		if !ok {
			return
		}
		pt, ok := fa.X.Type().Underlying().(*types.Pointer)
		if !ok {
			return
		}
		st, ok := pt.Elem().Underlying().(*types.Struct)
		if !ok || !types.Identical(st, named.Underlying()) {
			return
		}
		if st.Field(fa.Field).Name() == field {
			out = append(out, fa)
		}
	})
	return out
}

var c14Mutants = []Mutant{
	// D10 regression: the fix (8b98a49) reverted
	{Name: "d10-manifest-delete-skipped-after-index-cleanup-failure", File: "registry/remote/repository.go",
		Old: "\t\t\tif deleteErr := s.repo.delete(ctx, target, true); deleteErr != nil {\n\t\t\t\treturn deleteErr\n\t\t\t}\n\t\t\treturn err\n",
		New: "\t\t\treturn err\n", Expect: "C14.R3.indexing-iff-subject-and-no-api"},
	// R1
	{Name: "complete-skipped-on-prepare-error", File: "internal/syncutil/merge.go", Old: "\t\terr := prepare()\n\t\titems := m.commit()\n", New: "\t\terr := prepare()\n\t\tif err != nil {\n\t\t\treturn err\n\t\t}\n\t\titems := m.commit()\n", Expect: "C14.R1"},
	{Name: "resolve-not-given-committed-slice", File: "internal/syncutil/merge.go", Old: "\t\t\terr = resolve(items)\n", New: "\t\t\terr = resolve(items[:1])\n", Expect: "C14.R1"},
	{Name: "one-failure-notice-too-many", File: "internal/syncutil/merge.go", Old: "\t\tremaining := len(m.items) - 1\n", New: "\t\tremaining := len(m.items)\n", Expect: "C14.R1"},
	{Name: "promoted-batch-gets-no-main", File: "internal/syncutil/merge.go", Old: "\tif m.status != nil {\n\t\tm.status <- mergeStatus{main: true}\n\t}\n}", New: "}", Expect: "C14.R1"},
	{Name: "pending-item-joins-running-batch", File: "internal/syncutil/merge.go", Old: "\t\tm.pending = append(m.pending, item)\n", New: "\t\tm.items = append(m.items, item)\n", Expect: "C14.R1"},
	{Name: "waiter-returns-nil", File: "internal/syncutil/merge.go", Old: "\treturn status.err\n", New: "\t_ = status.err\n\treturn nil\n", Expect: "C14.R1"},
	{Name: "commit-keeps-window-open", File: "internal/syncutil/merge.go", Old: "\tm.committed = true\n", New: "", Expect: "C14.R1"},
	{Name: "main-reports-success-after-failed-resolve", File: "internal/syncutil/merge.go", Old: "\t\tm.complete(err)\n\t\treturn err\n", New: "\t\tm.complete(nil)\n\t\treturn err\n", Expect: "C14.R1"},
	{Name: "second-main-token", File: "internal/syncutil/merge.go", Old: "\tif m.status == nil {\n\t\tm.status = make(chan mergeStatus, 1)\n\t\tm.status <- mergeStatus{main: true}\n\t}\n", New: "\tif m.status == nil {\n\t\tm.status = make(chan mergeStatus, 1)\n\t}\n\tif len(m.items) == 0 {\n\t\tm.status <- mergeStatus{main: true}\n\t}\n", Expect: "C14.R1"},
	// R2
	{Name: "release-closure-without-lock", File: "internal/syncutil/pool.go", Old: "\treturn &item.value, func() {\n\t\tp.lock.Lock()\n\t\tdefer p.lock.Unlock()\n", New: "\treturn &item.value, func() {\n", Expect: "C14.R2"},
	{Name: "reopen-before-lock", File: "internal/syncutil/merge.go", Old: "\tm.lock.Lock()\n\tdefer m.lock.Unlock()\n\n\tm.committed = false\n", New: "\tm.committed = false\n\tm.lock.Lock()\n\tdefer m.lock.Unlock()\n\n", Expect: "C14.R2"},
	{Name: "commit-without-lock", File: "internal/syncutil/merge.go", Old: "func (m *Merge[T]) commit() []T {\n\tm.lock.Lock()\n\tdefer m.lock.Unlock()\n", New: "func (m *Merge[T]) commit() []T {\n", Expect: "C14.R2"},
	// R3
	{Name: "no-update-falls-through-to-delete", File: "registry/remote/repository.go", Old: "\t\tif err != nil {\n\t\t\tif err == errNoReferrerUpdate {\n\t\t\t\treturn nil\n\t\t\t}\n\t\t\treturn err\n\t\t}", New: "\t\tif err != nil && err != errNoReferrerUpdate {\n\t\t\treturn err\n\t\t}", Expect: "C14.R3"},
	{Name: "leader-fast-path-on-own-removal", File: "registry/remote/repository.go", Old: "\t\t\tif errors.Is(err, errdef.ErrNotFound) {\n\t\t\t\t// valid case: no old referrers index\n\t\t\t\treturn nil\n\t\t\t}", New: "\t\t\tif errors.Is(err, errdef.ErrNotFound) {\n\t\t\t\tif change.operation == referrerOperationRemove {\n\t\t\t\t\treturn errNoReferrerUpdate\n\t\t\t\t}\n\t\t\t\treturn nil\n\t\t\t}", Expect: "C14.R3.serialised-rmw"},
	{Name: "skip-gc-ignored", File: "registry/remote/repository.go", Old: "\t\tif s.repo.SkipReferrersGC || oldIndexDesc == nil {\n\t\t\treturn nil\n\t\t}", New: "\t\tif oldIndexDesc == nil {\n\t\t\treturn nil\n\t\t}", Expect: "C14.R3"},
	{Name: "delete-failure-not-marked", File: "registry/remote/repository.go", Old: "\t\t\treturn &ReferrersError{\n\t\t\t\tOp:      opDeleteReferrersIndex,\n", New: "\t\t\treturn &ReferrersError{\n\t\t\t\tOp:      \"DeleteIndex\",\n", Expect: "C14.R3"},
	{Name: "merge-not-from-pool", File: "registry/remote/repository.go", Old: "\tmerge, done := s.repo.referrersMergePool.Get(referrersTag)\n\tdefer done()\n\treturn merge.Do(change, prepare, update)", New: "\tvar merge syncutil.Merge[referrerChange]\n\treturn merge.Do(change, prepare, update)", Expect: "C14.R3"},
	{Name: "pool-entry-released-early", File: "registry/remote/repository.go", Old: "\tmerge, done := s.repo.referrersMergePool.Get(referrersTag)\n\tdefer done()\n", New: "\tmerge, done := s.repo.referrersMergePool.Get(referrersTag)\n\tdone()\n", Expect: "C14.R3"},
	{Name: "index-push-error-ignored", File: "registry/remote/repository.go", Old: "\t\t\tif err := s.push(ctx, newIndexDesc, bytes.NewReader(newIndex), referrersTag); err != nil {\n\t\t\t\treturn fmt.Errorf(\"failed to push referrers index tagged by %s: %w\", referrersTag, err)\n\t\t\t}", New: "\t\t\t_ = s.push(ctx, newIndexDesc, bytes.NewReader(newIndex), referrersTag)", Expect: "C14.R3"},
	{Name: "delete-indexing-ignores-ping", File: "registry/remote/repository.go", Old: "\tif ok {\n\t\t// referrers API is available, no client-side indexing needed\n\t\treturn nil\n\t}\n\treturn s.updateReferrersIndex(", New: "\t_ = ok\n\treturn s.updateReferrersIndex(", Expect: "C14.R3.indexing"},
	{Name: "capability-error-skips-indexing", File: "registry/remote/repository.go", Old: "\ts.repo.SetReferrersCapability(false)\n\treturn s.updateReferrersIndex(", New: "\tif err := s.repo.SetReferrersCapability(false); err != nil {\n\t\treturn nil\n\t}\n\treturn s.updateReferrersIndex(", Expect: "C14.R3.indexing"},
	{Name: "push-indexing-skipped-for-index-manifests", File: "registry/remote/repository.go", Old: "\t\tsubject = *manifest.Subject\n\t\tdesc.ArtifactType = manifest.ArtifactType\n\t\tdesc.Annotations = manifest.Annotations\n\tdefault:", New: "\t\treturn nil\n\tdefault:", Expect: "C14.R3.indexing"},
	{Name: "tag-resolved-outside-merge", File: "registry/remote/repository.go", Old: "\t\t\t\t// valid case: no old referrers index\n\t\t\t\treturn nil\n", New: "\t\t\t\t_ = s.repo.Tag(ctx, subject, referrersTag)\n\t\t\t\treturn nil\n", Expect: "C14.R3.referrers-tag-users"},
	{Name: "tag-handed-to-unlisted-callee", File: "registry/remote/repository.go", Old: "\tmerge, done := s.repo.referrersMergePool.Get(referrersTag)\n", New: "\tif _, perr := s.repo.ParseReference(referrersTag); perr != nil {\n\t\treturn perr\n\t}\n\tmerge, done := s.repo.referrersMergePool.Get(referrersTag)\n", Expect: "C14.R3.referrers-tag-users"},
	// R4
	{Name: "capability-swapped-unconditionally", File: "registry/remote/repository.go", Old: "if swapped := atomic.CompareAndSwapInt32(&r.referrersState, referrersStateUnknown, state); !swapped {", New: "if swapped := atomic.SwapInt32(&r.referrersState, state) == referrersStateUnknown; !swapped {", Expect: "C14.R4"},
	{Name: "cas-from-any-state", File: "registry/remote/repository.go", Old: "atomic.CompareAndSwapInt32(&r.referrersState, referrersStateUnknown, state)", New: "atomic.CompareAndSwapInt32(&r.referrersState, r.loadReferrersState(), state)", Expect: "C14.R4"},
	{Name: "clone-copies-state", File: "registry/remote/repository.go", Old: "\t\tSkipReferrersGC:      r.SkipReferrersGC,\n\t\tHandleWarning:", New: "\t\tSkipReferrersGC:      r.SkipReferrersGC,\n\t\treferrersState:       r.referrersState,\n\t\tHandleWarning:", Expect: "C14.R4"},
}
