package main

// C14 — client-maintained referrers indexes lose no update.
// Rules: R1 merge protocol order (Merge.Do / assign / commit / complete),
// R2 lock discipline of Merge and Pool, R3 the read-modify-write of a
// referrers index is serialised per referrers tag, R4 the detected referrers
// capability never flips.

import (
	"fmt"
	"go/constant"
	"go/token"
	"go/types"
	"sort"
	"strings"

	"golang.org/x/tools/go/ssa"
)

func init() {
	register(&propDef{
		ID: "C14",
		Explain: "Decided: (R1) syncutil.Merge.Do runs prepare, then commit on every path, resolves exactly the committed slice iff prepare succeeded, " +
			"hands the resulting error to complete on every path and returns it, the non-main callers return the status they received; complete closes the status " +
			"channel on success, sends exactly len(items)-1 failure notices otherwise, then reopens the window and promotes the pending batch with one main token; " +
			"assign appends to items only while the window is open and to pending otherwise, and creates exactly one main token per batch; " +
			"(R2) every access to Merge.{committed,items,status,pending,pendingStatus} and Pool.items/poolItem.refCount holds the lock (one exception with its premise proved); " +
			"(R3) the only push under a referrers tag is the update closure handed to Merge.Do of the repository-wide pool entry keyed by that tag, it applies the changes to the list " +
			"fetched by prepare, leaves an unchanged index alone, never deletes before a push, deletes the old index only when GC is on and an old index exists, and reports a failed delete as " +
			"ReferrersError{Op: DeleteReferrersIndex}; indexing is reached exactly when the manifest has a subject and the Referrers API is not available; " +
			"(R4) Repository.referrersState is only touched by atomic.CompareAndSwapInt32(unknown -> known) and atomic.LoadInt32, and Repository values are never copied. " +
			"NOT decided (not applicable to static analysis): absence of lost updates over all interleavings of HTTP exchanges, equality with a Referrers-API listing, applyReferrerChanges set semantics, registry behaviour.",
		Run:     runC14,
		Mutants: c14Mutants,
	})
}

const (
	c14PkgSync   = "internal/syncutil"
	c14PkgRemote = "registry/remote"
	c14TMerge    = "~/internal/syncutil.Merge"
	c14TPool     = "~/internal/syncutil.Pool"
	c14TPoolItem = "~/internal/syncutil.poolItem"
)

func runC14(c *Ctx) {
	m := c14FindMerge(c)
	c14R1(c, m)
	c14R2(c, m)
	c14R3(c)
	c14R4(c)
}

// ---------- shared helpers (prefixed c14) ----------

// c14NamedOf returns the short name ("~/pkg.T") of the named struct type t
// points to (instantiations are named by their origin), or "".
func c14NamedOf(t types.Type) string {
	if p, ok := t.Underlying().(*types.Pointer); ok {
		t = p.Elem()
	}
	n, ok := t.(*types.Named)
	if !ok || n.Obj().Pkg() == nil {
		return ""
	}
	return short(n.Obj().Pkg().Path() + "." + n.Obj().Name())
}

// c14FieldAddrs lists the FieldAddr instructions of fn that address field
// `field` of named struct type typeName.
func c14FieldAddrs(fn *ssa.Function, typeName, field string) []*ssa.FieldAddr {
	var out []*ssa.FieldAddr
	AllInstrs(fn, func(in ssa.Instruction) {
		fa, ok := in.(*ssa.FieldAddr)
		if !ok || c14NamedOf(fa.X.Type()) != typeName {
			return
		}
		if fieldName(fa.X.Type(), fa.Field) == typeName+"."+field {
			out = append(out, fa)
		}
	})
	return out
}

// c14HasField reports whether named type pkg.T has the given field.
func c14HasField(p *Prog, pkg, typ, field string) bool {
	n := p.Named(pkg, typ)
	if n == nil {
		return false
	}
	st, ok := n.Underlying().(*types.Struct)
	if !ok {
		return false
	}
	for i := 0; i < st.NumFields(); i++ {
		if st.Field(i).Name() == field {
			return true
		}
	}
	return false
}

// c14FieldStores returns the Store instructions of fn that write field `field`
// of typeName.
func c14FieldStores(fn *ssa.Function, typeName, field string) []*ssa.Store {
	var out []*ssa.Store
	for _, fa := range c14FieldAddrs(fn, typeName, field) {
		for _, r := range *fa.Referrers() {
			if s, ok := r.(*ssa.Store); ok && s.Addr == fa {
				out = append(out, s)
			}
		}
	}
	return out
}

// c14FieldLoads returns the loads of field `field` of typeName in fn.
func c14FieldLoads(fn *ssa.Function, typeName, field string) []*ssa.UnOp {
	var out []*ssa.UnOp
	for _, fa := range c14FieldAddrs(fn, typeName, field) {
		for _, r := range *fa.Referrers() {
			if u, ok := r.(*ssa.UnOp); ok && u.Op == token.MUL && u.X == fa {
				out = append(out, u)
			}
		}
	}
	return out
}

// c14IsLoadOfField: v (through cells/phis) is a load of typeName.field.
func c14IsLoadOfField(v ssa.Value, typeName, field string) bool {
	rs := Roots(v)
	if len(rs) == 0 {
		return false
	}
	for _, r := range rs {
		u, ok := r.(*ssa.UnOp)
		if !ok || u.Op != token.MUL {
			return false
		}
		fa, ok := u.X.(*ssa.FieldAddr)
		if !ok || fieldName(fa.X.Type(), fa.Field) != typeName+"."+field {
			return false
		}
	}
	return true
}

// c14Sends lists the Send instructions of fn.
func c14Sends(fn *ssa.Function) []*ssa.Send {
	var out []*ssa.Send
	AllInstrs(fn, func(in ssa.Instruction) {
		if s, ok := in.(*ssa.Send); ok {
			out = append(out, s)
		}
	})
	return out
}

// c14StructLitField: v is a load of a local struct literal (complit); returns
// the values stored into its field `field` (nil slice if never stored: zero).
func c14StructLitField(v ssa.Value, field string) (vals []ssa.Value, ok bool) {
	u, isLoad := v.(*ssa.UnOp)
	if !isLoad || u.Op != token.MUL {
		return nil, false
	}
	a, isAlloc := u.X.(*ssa.Alloc)
	if !isAlloc {
		return nil, false
	}
	for _, r := range *a.Referrers() {
		fa, isFA := r.(*ssa.FieldAddr)
		if !isFA {
			continue
		}
		if !strings.HasSuffix(fieldName(fa.X.Type(), fa.Field), "."+field) {
			continue
		}
		for _, r2 := range *fa.Referrers() {
			if s, isStore := r2.(*ssa.Store); isStore && s.Addr == fa {
				vals = append(vals, s.Val)
			}
		}
	}
	return vals, true
}

func c14ConstBool(v ssa.Value) (bool, bool) {
	k, ok := v.(*ssa.Const)
	if !ok || k.Value == nil || k.Value.Kind() != constant.Bool {
		return false, false
	}
	return constant.BoolVal(k.Value), true
}

// c14AnyReturnReachable: some Return of the function is reachable from the
// start of block b without hitting the cut.
func c14AnyReturnReachable(b *ssa.BasicBlock, cu *cut) *ssa.Return {
	for _, r := range Returns(b.Parent()) {
		if reach(b, 0, r, cu) {
			return r
		}
	}
	return nil
}

// c14FreeCell: v is a load of a free variable; returns the unique parent
// Alloc bound to it at every MakeClosure (nil if not unique / not an Alloc).
func c14FreeCell(v ssa.Value) *ssa.Alloc {
	u, ok := v.(*ssa.UnOp)
	if !ok || u.Op != token.MUL {
		return nil
	}
	fv, ok := u.X.(*ssa.FreeVar)
	if !ok {
		return nil
	}
	return c14FreeVarAlloc(fv)
}

func c14FreeVarAlloc(fv *ssa.FreeVar) *ssa.Alloc {
	var cell *ssa.Alloc
	for _, b := range freeVarBindings(fv) {
		a, ok := b.(*ssa.Alloc)
		if !ok || (cell != nil && cell != a) {
			return nil
		}
		cell = a
	}
	return cell
}

// c14CellWriters: every store to heap cell a, in its function and in the
// closures that capture it (one level).
func c14CellStores(a *ssa.Alloc) []*ssa.Store {
	out := storesTo(a)
	for _, r := range *a.Referrers() {
		mc, ok := r.(*ssa.MakeClosure)
		if !ok {
			continue
		}
		f := mc.Fn.(*ssa.Function)
		for i, b := range mc.Bindings {
			if b != a {
				continue
			}
			for _, r2 := range *f.FreeVars[i].Referrers() {
				if s, ok := r2.(*ssa.Store); ok && s.Addr == f.FreeVars[i] {
					out = append(out, s)
				}
			}
		}
	}
	return out
}

// c14SameTag: v denotes the value of cell `tag` (directly in the parent, or as
// a free-variable load in a closure).
func c14DenotesCell(v ssa.Value, cell *ssa.Alloc) bool {
	v = strip(v)
	if a := c14FreeCell(v); a != nil && a == cell {
		return true
	}
	if a := cellOf(v); a != nil && a == cell {
		return true
	}
	return false
}

func c14SortedKeys(m map[string]bool) []string {
	var out []string
	for k := range m {
		out = append(out, k)
	}
	sort.Strings(out)
	return out
}

var _ = fmt.Sprintf

// ---------- anchors: the Merge protocol functions, by role ----------

type c14Merge struct {
	Do, Assign, Commit, Complete *ssa.Function
	AssignCall, CommitCall       ssa.CallInstruction
	PrepareCalls, ResolveCalls   []ssa.CallInstruction
	CompleteCalls                []ssa.CallInstruction
	Prepare, Resolve             *ssa.Parameter
}

// c14FindMerge resolves, for every instantiation of the exported
// syncutil.Merge.Do, the unexported protocol steps by their role inside Do:
// assign = the method whose channel result Do receives from; commit = the
// method whose result is handed to the resolve callback; complete = the
// remaining method of the same receiver that takes the error.
func c14FindMerge(c *Ctx) []*c14Merge {
	const R = "C14.R1.merge-protocol"
	gen := c.P.Fn(c14PkgSync, "Merge.Do")
	if gen == nil {
		c.LostAnchor(R, "~/internal/syncutil.Merge.Do")
		return nil
	}
	for _, f := range []string{"lock", "committed", "items", "status", "pending", "pendingStatus"} {
		if !c14HasField(c.P, c14PkgSync, "Merge", f) {
			c.LostAnchor(R, "field ~/internal/syncutil.Merge."+f)
			return nil
		}
	}
	var out []*c14Merge
	for _, D := range c.P.Instances(gen) {
		if len(D.TypeArgs()) == 0 && D.TypeParams().Len() > 0 {
			continue // generic template body: the instantiations are analysed
		}
		m := &c14Merge{Do: D}
		dn := FnName(D)
		for _, p := range D.Params {
			sig, ok := p.Type().Underlying().(*types.Signature)
			if !ok {
				continue
			}
			if sig.Params().Len() == 0 && ErrResultIndex(sig) == 0 {
				m.Prepare = p
			}
			if sig.Params().Len() == 1 && ErrResultIndex(sig) == 0 {
				m.Resolve = p
			}
		}
		if m.Prepare == nil || m.Resolve == nil {
			c.LostAnchor(R, dn+": prepare/resolve callback parameters")
			continue
		}
		recv := D.Params[0]
		for _, call := range Calls(D, func(string) bool { return true }) {
			cc := call.Common()
			switch {
			case cc.Value == ssa.Value(m.Prepare):
				m.PrepareCalls = append(m.PrepareCalls, call)
			case cc.Value == ssa.Value(m.Resolve):
				m.ResolveCalls = append(m.ResolveCalls, call)
			}
			g := StaticCallee(call)
			if g == nil || len(cc.Args) == 0 || cc.Args[0] != ssa.Value(recv) || g.Signature.Recv() == nil {
				continue
			}
			v := call.Value()
			isRecvd := false
			if v != nil {
				for _, r := range *v.Referrers() {
					if u, ok := r.(*ssa.UnOp); ok && u.Op == token.ARROW {
						isRecvd = true
					}
				}
			}
			switch {
			case isRecvd:
				m.Assign, m.AssignCall = g, call
			case len(cc.Args) == 2 && isErrorType(cc.Args[1].Type()):
				m.Complete = g
				m.CompleteCalls = append(m.CompleteCalls, call)
			}
		}
		for _, rc := range m.ResolveCalls {
			if len(rc.Common().Args) != 1 {
				continue
			}
			for _, r := range Roots(rc.Common().Args[0]) {
				if call, ok := r.(*ssa.Call); ok {
					if g := StaticCallee(call); g != nil && len(call.Call.Args) == 1 && call.Call.Args[0] == ssa.Value(recv) {
						m.Commit, m.CommitCall = g, call
					}
				}
			}
		}
		if m.Commit == nil {
			// resolve may have been disconnected from commit (that is what R1 reports);
			// fall back to: the receiver method that sets committed=true
			for _, call := range Calls(D, func(string) bool { return true }) {
				g := StaticCallee(call)
				if g == nil || g == m.Assign || g == m.Complete || len(call.Common().Args) != 1 || call.Common().Args[0] != ssa.Value(recv) {
					continue
				}
				for _, s := range c14FieldStores(g, c14TMerge, "committed") {
					if b, ok := c14ConstBool(s.Val); ok && b {
						m.Commit, m.CommitCall = g, call
					}
				}
			}
		}
		ok := true
		for what, f := range map[string]*ssa.Function{"assign (channel result received)": m.Assign, "commit (result handed to resolve / sets committed)": m.Commit, "complete (takes the error)": m.Complete} {
			if f == nil {
				c.LostAnchor(R, dn+": step "+what)
				ok = false
			}
		}
		if ok {
			out = append(out, m)
		}
	}
	if len(out) == 0 {
		c.LostAnchor(R, "instantiation of ~/internal/syncutil.Merge.Do with resolvable steps")
	}
	return out
}

// ---------- R1 ----------

// c14RecvField: v is field `name` of the mergeStatus value received from the
// channel returned by call (through the local the value was stored in).
func c14RecvField(v ssa.Value, call ssa.CallInstruction) string {
	isRecv := func(x ssa.Value) bool {
		for _, r := range Roots(x) {
			u, ok := r.(*ssa.UnOp)
			if !ok || u.Op != token.ARROW || u.X != call.Value() {
				return false
			}
		}
		return true
	}
	for _, r := range Roots(v) {
		switch u := r.(type) {
		case *ssa.Field:
			if isRecv(u.X) {
				return u.X.Type().Underlying().(*types.Struct).Field(u.Field).Name()
			}
		case *ssa.UnOp:
			fa, ok := u.X.(*ssa.FieldAddr)
			if !ok || u.Op != token.MUL {
				continue
			}
			a, ok := fa.X.(*ssa.Alloc)
			if !ok {
				continue
			}
			sts := storesTo(a)
			if len(sts) == 1 && isRecv(sts[0].Val) {
				return a.Type().Underlying().(*types.Pointer).Elem().Underlying().(*types.Struct).Field(fa.Field).Name()
			}
		}
	}
	return ""
}

func c14RootSet(v ssa.Value) map[ssa.Value]bool {
	out := map[ssa.Value]bool{}
	for _, r := range Roots(v) {
		out[r] = true
	}
	return out
}

func c14R1(c *Ctx, ms []*c14Merge) {
	const R = "C14.R1.merge-protocol"
	c.Expect(R, 34)
	for _, m := range ms {
		c14R1Do(c, m)
		c14R1Complete(c, m)
		c14R1Assign(c, m)
		c14R1Commit(c, m)
	}
}

func c14R1Do(c *Ctx, m *c14Merge) {
	const R = "C14.R1.merge-protocol"
	D := m.Do
	dn := FnName(D)
	// the main test
	mainVals := map[ssa.Value]bool{}
	for _, i := range Ifs(D) {
		cond, _, _ := ifEdges(i)
		if c14RecvField(cond, m.AssignCall) == "main" {
			mainVals[cond] = true
		}
	}
	te, fe := BoolTests(D, mainVals)
	if !c.Check(R, dn+"|main-test", D.Pos(), len(te) == 1, "Do branches on the `main` flag of the status it received from assign's channel") {
		return
	}
	mainE, otherE := te[0], fe[0]
	mainCut := newCut().Edges(mainE)
	all := func(cs []ssa.CallInstruction, f func(ssa.CallInstruction) bool) bool {
		for _, x := range cs {
			if !f(x) {
				return false
			}
		}
		return len(cs) > 0
	}
	onMain := func(x ssa.CallInstruction) bool { return MustPass(x.(ssa.Instruction), mainCut) }
	var commits []ssa.CallInstruction
	for _, call := range Calls(D, func(string) bool { return true }) {
		if StaticCallee(call) == m.Commit {
			commits = append(commits, call)
		}
	}
	ok := all(m.PrepareCalls, onMain) && all(commits, onMain) && all(m.ResolveCalls, onMain) && all(m.CompleteCalls, onMain)
	c.Check(R, dn+"|only-main-runs-the-batch", mainE.From.Instrs[len(mainE.From.Instrs)-1].Pos(), ok,
		ifelse(ok, "prepare, commit, resolve and complete are reached only on the main==true edge", "a caller that is not the batch's main can run prepare/commit/resolve/complete (two read-modify-write cycles of one index run concurrently: lost update)"))
	// prepare runs on every main path, before resolve
	r := c14AnyReturnReachable(mainE.To, newCut().Calls(m.PrepareCalls))
	c.Check(R, dn+"|prepare-on-every-main-path", D.Pos(), r == nil && len(m.PrepareCalls) > 0, "every path of the main branch calls prepare()")
	// commit on every main path
	r = c14AnyReturnReachable(mainE.To, newCut().Calls(commits))
	c.Check(R, dn+"|commit-on-every-path", D.Pos(), r == nil,
		ifelse(r == nil, "every path of the main branch (also after a prepare error) calls commit()", "a path of the main branch returns without commit(): complete() then reopens a window that was never closed and the batch bookkeeping is off"))
	// resolve: with commit's result, iff prepare succeeded
	var prepNil, prepNonNil []Edge
	prepErr := map[ssa.Value]bool{}
	for _, pc := range m.PrepareCalls {
		if e := ErrOf(pc); e != nil {
			for a := range Aliases(e) {
				prepErr[a] = true
			}
		}
	}
	prepNil, prepNonNil, _ = NilTests(D, prepErr)
	for i, rc := range m.ResolveCalls {
		key := fmt.Sprintf("%s|resolve#%d", dn, i+1)
		okArg := len(rc.Common().Args) == 1 && m.CommitCall != nil && SameValue(rc.Common().Args[0], m.CommitCall.Value())
		c.Check(R, key+"|gets-committed-items", rc.Pos(), okArg,
			ifelse(okArg, "resolve receives exactly the slice returned by commit()", "resolve is not called with the slice returned by commit(): changes batched by concurrent callers are dropped"))
		okPre := len(prepNil) > 0 && MustPass(rc.(ssa.Instruction), newCut().Edges(prepNil...))
		c.Check(R, key+"|only-after-prepare-ok", rc.Pos(), okPre,
			ifelse(okPre, "resolve is reached only on the nil edge of prepare's error", "resolve can run although prepare failed (the update is computed from a list that was never fetched)"))
		okOrder := true
		for _, cm := range commits {
			if Reachable(rc.(ssa.Instruction), cm.(ssa.Instruction)) {
				okOrder = false
			}
		}
		c.Check(R, key+"|after-commit", rc.Pos(), okOrder, "no commit() after resolve")
	}
	if len(m.ResolveCalls) == 0 {
		c.Violation(R, dn+"|resolve#1|gets-committed-items", D.Pos(), "Do never calls resolve")
	}
	for _, e := range prepNil {
		r := c14AnyReturnReachable(e.To, newCut().Calls(m.ResolveCalls))
		c.Check(R, dn+"|resolve-whenever-prepare-ok", e.From.Instrs[len(e.From.Instrs)-1].Pos(), r == nil,
			ifelse(r == nil, "after a successful prepare every path calls resolve", "a path returns after a successful prepare without calling resolve: the batch is reported done but never applied"))
	}
	// complete on every main path, with the error of prepare/resolve, which is also returned
	r = c14AnyReturnReachable(mainE.To, newCut().Calls(m.CompleteCalls))
	c.Check(R, dn+"|complete-on-every-path", D.Pos(), r == nil,
		ifelse(r == nil, "every path of the main branch calls complete() before returning", "a path of the main branch returns without complete(): every later updater of this subject parks forever"))
	resErr := map[ssa.Value]bool{}
	for _, rc := range m.ResolveCalls {
		if e := ErrOf(rc); e != nil {
			resErr[e] = true
		}
	}
	for i, cc := range m.CompleteCalls {
		key := fmt.Sprintf("%s|complete#%d", dn, i+1)
		arg := cc.Common().Args[1]
		roots := c14RootSet(arg)
		okSrc, hasNilConst := true, false
		for v := range roots {
			if !prepErr[v] && !resErr[v] {
				if isNilConst(v) {
					hasNilConst = true
				} else {
					okSrc = false
				}
			}
		}
		needsRes := false
		for _, rc := range m.ResolveCalls {
			if Reachable(rc.(ssa.Instruction), cc.(ssa.Instruction)) {
				needsRes = true
			}
		}
		if needsRes {
			has := false
			for v := range roots {
				if resErr[v] {
					has = true
				}
			}
			okSrc = okSrc && has
		}
		needsPrep := false
		for _, e := range prepNonNil {
			if reach(e.To, 0, cc.(ssa.Instruction), newCut().Calls(m.ResolveCalls)) {
				needsPrep = true
			}
		}
		if needsPrep {
			has := false
			for v := range roots {
				if prepErr[v] {
					has = true
				}
			}
			okSrc = okSrc && has
		}
		switch {
		case okSrc && hasNilConst:
			c.Undecided(R, key+"|gets-the-batch-error", cc.Pos(), "complete() may receive a literal nil on some path; cannot decide which outcome it reports")
		default:
			c.Check(R, key+"|gets-the-batch-error", cc.Pos(), okSrc,
				ifelse(okSrc, "complete receives prepare's error on the failure path and resolve's error otherwise", "complete() does not receive the error of prepare/resolve: waiting callers are told the update succeeded although it failed (or the reverse)"))
		}
		okOrder := true
		for _, x := range append(append([]ssa.CallInstruction{}, m.ResolveCalls...), commits...) {
			if Reachable(cc.(ssa.Instruction), x.(ssa.Instruction)) {
				okOrder = false
			}
		}
		c.Check(R, key+"|is-last", cc.Pos(), okOrder, ifelse(okOrder, "no commit/resolve after complete", "commit or resolve can run after complete(): the window was already reopened"))
		for _, ret := range Returns(D) {
			if !Reachable(cc.(ssa.Instruction), ret) {
				continue
			}
			rr := c14RootSet(ret.Results[0])
			same := len(rr) == len(roots)
			for v := range rr {
				if !roots[v] {
					same = false
				}
			}
			c.Check(R, key+"|main-returns-same-error", ret.Pos(), same,
				ifelse(same, "the main caller returns the error it broadcast", "the main caller returns something else than the error it handed to complete()"))
		}
	}
	// non-main: returns the received status error
	n := 0
	for _, ret := range Returns(D) {
		if !reach(otherE.To, 0, ret, nil) {
			continue
		}
		if reach(mainE.To, 0, ret, nil) {
			c.Undecided(R, dn+"|non-main-returns-status-err", ret.Pos(), "a return shared by the main and the waiting branch: shape not recognised")
			continue
		}
		n++
		ok := c14RecvField(ret.Results[0], m.AssignCall) == "err"
		c.Check(R, dn+"|non-main-returns-status-err", ret.Pos(), ok,
			ifelse(ok, "a waiting caller returns the err field of the status it received", "a waiting caller does not return the error broadcast by the main caller: a failed batch is reported as success"))
	}
	if n == 0 {
		c.Violation(R, dn+"|non-main-returns-status-err", D.Pos(), "no return on the main==false edge")
	}
}

// c14Lin evaluates v as a*L+b where L = len(<load of Merge.items>).
func c14Lin(v ssa.Value, depth int) (a, b int64, ok bool) {
	if depth > 6 {
		return 0, 0, false
	}
	rs := Roots(v)
	if len(rs) != 1 {
		return 0, 0, false
	}
	switch u := rs[0].(type) {
	case *ssa.Const:
		if k, isInt := constInt(u); isInt {
			return 0, k, true
		}
	case *ssa.Call:
		if CalleeName(u) == "builtin:len" {
			x := u.Call.Args[0]
			if c14IsLoadOfField(x, c14TMerge, "items") {
				return 1, 0, true
			}
			for _, r := range Roots(x) {
				if sl, isSl := r.(*ssa.Slice); isSl && sl.Max == nil && c14IsLoadOfField(sl.X, c14TMerge, "items") {
					var lo, hi int64
					hiA := int64(1)
					if sl.Low != nil {
						k, isInt := constInt(sl.Low)
						if !isInt {
							return 0, 0, false
						}
						lo = k
					}
					if sl.High != nil {
						ha, hb, okH := c14Lin(sl.High, depth+1)
						if !okH {
							return 0, 0, false
						}
						hiA, hi = ha, hb
					}
					return hiA, hi - lo, len(Roots(x)) == 1
				}
			}
		}
	case *ssa.BinOp:
		xa, xb, ok1 := c14Lin(u.X, depth+1)
		ya, yb, ok2 := c14Lin(u.Y, depth+1)
		if ok1 && ok2 {
			switch u.Op {
			case token.ADD:
				return xa + ya, xb + yb, true
			case token.SUB:
				return xa - ya, xb - yb, true
			}
		}
	}
	return 0, 0, false
}

// c14TripCount returns the number of iterations of l as a*L+b for the
// recognised counting-loop shapes (counter phi with step ±1 compared with a
// loop-invariant bound; range over a slice of items).
func c14TripCount(l *Loop) (a, b int64, ok bool, why string) {
	if ranged, _, _, _, isRange := l.RangeIndex(); isRange {
		// len(ranged): build via the len call the lowering already made
		h := l.Header
		ifi := h.Instrs[len(h.Instrs)-1].(*ssa.If)
		ln := ifi.Cond.(*ssa.BinOp).Y
		_ = ranged
		a, b, ok = c14Lin(ln, 0)
		return a, b, ok, "range loop"
	}
	h := l.Header
	ifi, isIf := h.Instrs[len(h.Instrs)-1].(*ssa.If)
	if !isIf {
		return 0, 0, false, "loop header does not end in a condition"
	}
	cond, t, f := ifEdges(ifi)
	bo, isBin := cond.(*ssa.BinOp)
	if !isBin {
		return 0, 0, false, "loop condition is not a comparison"
	}
	op := bo.Op
	var phi *ssa.Phi
	var bound ssa.Value
	if p, isPhi := bo.X.(*ssa.Phi); isPhi && p.Block() == h {
		phi, bound = p, bo.Y
	} else if p, isPhi := bo.Y.(*ssa.Phi); isPhi && p.Block() == h {
		phi, bound = p, bo.X
		op = map[token.Token]token.Token{token.LSS: token.GTR, token.GTR: token.LSS, token.LEQ: token.GEQ, token.GEQ: token.LEQ, token.NEQ: token.NEQ, token.EQL: token.EQL}[op]
	} else {
		return 0, 0, false, "loop condition does not test a loop counter"
	}
	switch {
	case l.Blocks[t.To] && !l.Blocks[f.To]:
	case l.Blocks[f.To] && !l.Blocks[t.To]:
		op = map[token.Token]token.Token{token.LSS: token.GEQ, token.GTR: token.LEQ, token.LEQ: token.GTR, token.GEQ: token.LSS, token.NEQ: token.EQL, token.EQL: token.NEQ}[op]
	default:
		return 0, 0, false, "loop condition does not separate body and exit"
	}
	var init ssa.Value
	step := int64(0)
	for i, e := range phi.Edges {
		if !l.Blocks[h.Preds[i]] {
			if init != nil {
				return 0, 0, false, "counter has several initial values"
			}
			init = e
			continue
		}
		nb, isBin := e.(*ssa.BinOp)
		if !isBin {
			return 0, 0, false, "counter update is not ±1"
		}
		k, isK := constInt(nb.Y)
		if nb.X != ssa.Value(phi) || !isK || k != 1 || (nb.Op != token.ADD && nb.Op != token.SUB) {
			return 0, 0, false, "counter update is not ±1"
		}
		s := int64(1)
		if nb.Op == token.SUB {
			s = -1
		}
		if step != 0 && step != s {
			return 0, 0, false, "counter moves in both directions"
		}
		step = s
	}
	if init == nil || step == 0 {
		return 0, 0, false, "counter shape not recognised"
	}
	ia, ib, ok1 := c14Lin(init, 0)
	ba, bb, ok2 := c14Lin(bound, 0)
	if !ok1 || !ok2 {
		return 0, 0, false, "counter start/bound is not an affine function of len(items)"
	}
	switch {
	case step == 1 && (op == token.LSS || op == token.NEQ):
		return ba - ia, bb - ib, true, ""
	case step == 1 && op == token.LEQ:
		return ba - ia, bb - ib + 1, true, ""
	case step == -1 && (op == token.GTR || op == token.NEQ):
		return ia - ba, ib - bb, true, ""
	case step == -1 && op == token.GEQ:
		return ia - ba, ib - bb + 1, true, ""
	}
	return 0, 0, false, "comparison direction does not match the counter direction"
}

func c14R1Complete(c *Ctx, m *c14Merge) {
	const R = "C14.R1.merge-protocol"
	F := m.Complete
	fn := FnName(F)
	if len(F.Params) != 2 {
		c.LostAnchor(R, fn+": (receiver, err) parameters")
		return
	}
	errP := F.Params[1]
	nilE, nonNilE, _ := NilTests(F, Aliases(errP))
	if !c.Check(R, fn+"|tests-the-error", F.Pos(), len(nilE) > 0, "complete branches on err == nil") {
		return
	}
	// success: close(m.status)
	var closes []ssa.CallInstruction
	for _, cl := range CallsTo(F, "builtin:close") {
		if c14IsLoadOfField(cl.Common().Args[0], c14TMerge, "status") {
			closes = append(closes, cl)
		}
	}
	okClose := len(closes) > 0
	for _, cl := range closes {
		if !MustPass(cl.(ssa.Instruction), newCut().Edges(nilE...)) {
			okClose = false
		}
	}
	c.Check(R, fn+"|close-only-on-success", F.Pos(), okClose,
		ifelse(okClose, "close(m.status) is reached only on the err==nil edge", "the status channel can be closed although the batch failed: waiting callers return nil for an update that was not applied"))
	okAll := okClose
	for _, e := range nilE {
		if c14AnyReturnReachable(e.To, newCut().Calls(closes)) != nil {
			okAll = false
		}
	}
	c.Check(R, fn+"|close-on-every-success-path", F.Pos(), okAll,
		ifelse(okAll, "on success every path closes the status channel", "a success path does not close the status channel: the waiting callers of this batch park forever"))
	// classify sends
	var failSends, mainSends []*ssa.Send
	for _, s := range c14Sends(F) {
		errVals, isLit := c14StructLitField(s.X, "err")
		mainVals, _ := c14StructLitField(s.X, "main")
		isMain := false
		for _, v := range mainVals {
			if b, ok := c14ConstBool(v); ok && b {
				isMain = true
			} else {
				isLit = false
			}
		}
		isFail := false
		for _, v := range errVals {
			if Aliases(errP)[v] {
				isFail = true
			}
		}
		switch {
		case isLit && isMain && !isFail:
			mainSends = append(mainSends, s)
		case isLit && isFail && !isMain:
			failSends = append(failSends, s)
		default:
			c.Undecided(R, fn+"|send", s.Pos(), "a send in complete() that is neither mergeStatus{err: err} nor mergeStatus{main: true}: shape not recognised")
		}
	}
	// failure notices: exactly len(items)-1, on the old status channel, only on failure
	loops := Loops(F)
	if len(failSends) == 0 {
		c.Violation(R, fn+"|failure-notices", F.Pos(), "complete() never sends the batch error to the waiting callers")
	}
	for i, s := range failSends {
		key := fmt.Sprintf("%s|failure-notice#%d", fn, i+1)
		okEdge := len(nonNilE) > 0 && MustPass(s, newCut().Edges(nonNilE...))
		c.Check(R, key+"|only-on-failure", s.Pos(), okEdge, "the failure notice is sent only on the err!=nil edge")
		okCh := c14IsLoadOfField(s.Chan, c14TMerge, "status")
		c.Check(R, key+"|on-status-channel", s.Pos(), okCh, ifelse(okCh, "sent on m.status", "the failure notice is not sent on the batch's status channel"))
		var in []*Loop
		for _, l := range loops {
			if l.Contains(s) {
				in = append(in, l)
			}
		}
		if len(in) != 1 {
			c.Violation(R, key+"|count", s.Pos(), fmt.Sprintf("the failure notice is inside %d loops (expected one counting loop of len(items)-1 iterations): some waiting caller parks forever, or the main caller blocks on a send nobody receives", len(in)))
			continue
		}
		l := in[0]
		a, b, ok, why := c14TripCount(l)
		if !ok {
			c.Undecided(R, key+"|count", s.Pos(), "cannot determine the number of failure notices: "+why)
			continue
		}
		// exactly one send per iteration
		perIter := true
		for _, be := range l.Backs {
			_ = be
		}
		for _, succ := range l.Header.Succs {
			if l.Blocks[succ] && reach(succ, 0, l.Header.Instrs[0], newCut().Instr(s)) {
				perIter = false
			}
		}
		okCount := a == 1 && b == -1 && perIter
		c.Check(R, key+"|count", s.Pos(), okCount,
			ifelse(okCount, "exactly len(items)-1 notices: one per waiting caller of the batch",
				fmt.Sprintf("the loop sends %d*len(items)%+d notices (one per iteration: %v) instead of len(items)-1: a waiting caller parks forever, or the main caller blocks on a send nobody receives and the subject is wedged", a, b, perIter)))
	}
	// reopen the window and promote the pending batch
	var reopen []ssa.Instruction
	for _, s := range c14FieldStores(F, c14TMerge, "committed") {
		if b, ok := c14ConstBool(s.Val); ok && !b {
			reopen = append(reopen, s)
		} else {
			c.Violation(R, fn+"|reopens-window", s.Pos(), "complete() stores something else than false into committed")
		}
	}
	okRe := len(reopen) > 0
	for _, ret := range Returns(F) {
		if ReachableFromEntry(ret) && !MustPass(ret, newCut().Instr(reopen...)) {
			okRe = false
		}
	}
	c.Check(R, fn+"|reopens-window", F.Pos(), okRe,
		ifelse(okRe, "every path stores committed=false", "a path leaves complete() with committed still true: every later change goes to a pending batch that nobody will ever run"))
	promo := func(dst, src string) (stores []ssa.Instruction, srcLoads []ssa.Instruction, ok bool) {
		ok = true
		for _, s := range c14FieldStores(F, c14TMerge, dst) {
			if isNilConst(s.Val) {
				continue
			}
			if !c14IsLoadOfField(s.Val, c14TMerge, src) {
				ok = false
			}
			stores = append(stores, s)
			for _, r := range Roots(s.Val) {
				if in, isIn := r.(ssa.Instruction); isIn {
					srcLoads = append(srcLoads, in)
				}
			}
		}
		if len(stores) == 0 {
			ok = false
		}
		for _, ret := range Returns(F) {
			if ReachableFromEntry(ret) && !MustPass(ret, newCut().Instr(stores...)) {
				ok = false
			}
		}
		return
	}
	clears := func(field string, after []ssa.Instruction) bool {
		var cl []ssa.Instruction
		for _, s := range c14FieldStores(F, c14TMerge, field) {
			if !isNilConst(s.Val) {
				return false
			}
			cl = append(cl, s)
			for _, ld := range after {
				if Reachable(s, ld) {
					return false
				}
			}
		}
		if len(cl) == 0 {
			return false
		}
		for _, ret := range Returns(F) {
			if ReachableFromEntry(ret) && !MustPass(ret, newCut().Instr(cl...)) {
				return false
			}
		}
		return true
	}
	_, itemLoads, okI := promo("items", "pending")
	c.Check(R, fn+"|promotes-pending-items", F.Pos(), okI, ifelse(okI, "every path stores m.items = m.pending", "the pending items are not promoted to the next batch on every path: changes assigned while the batch ran are lost"))
	statusStores, statusLoads, okS := promo("status", "pendingStatus")
	c.Check(R, fn+"|promotes-pending-status", F.Pos(), okS, ifelse(okS, "every path stores m.status = m.pendingStatus", "the pending status channel is not promoted with its items: the callers of the next batch wait on a channel nobody serves"))
	okC := clears("pending", itemLoads) && clears("pendingStatus", statusLoads)
	c.Check(R, fn+"|clears-pending", F.Pos(), okC, ifelse(okC, "pending and pendingStatus are reset to nil after they were promoted, on every path", "the pending batch is not cleared after promotion (or cleared before it is read): a batch is run twice or dropped"))
	// one main token for the promoted batch
	promoted := map[ssa.Value]bool{}
	for _, s := range statusStores {
		for a := range Aliases(s.(*ssa.Store).Val) {
			promoted[a] = true
		}
	}
	for _, ld := range c14FieldLoads(F, c14TMerge, "status") {
		if len(statusStores) > 0 && MustPass(ld, newCut().Instr(statusStores...)) {
			promoted[ld] = true
		}
	}
	pNil, pNonNil, _ := NilTests(F, promoted)
	okTok := len(mainSends) == 1 && len(pNonNil) > 0
	for _, s := range mainSends {
		if !promoted[s.Chan] || !MustPass(s, newCut().Edges(pNonNil...)) || !MustPass(s, newCut().Instr(statusStores...)) || Reachable(s, s) {
			okTok = false
		}
	}
	if okTok {
		cu := newCut().Edges(pNil...)
		for _, s := range mainSends {
			cu.Instr(s)
		}
		for _, ret := range Returns(F) {
			if ReachableFromEntry(ret) && !MustPass(ret, cu) {
				okTok = false
			}
		}
	}
	pos := F.Pos()
	if len(mainSends) > 0 {
		pos = mainSends[0].Pos()
	}
	c.Check(R, fn+"|one-main-token-for-promoted-batch", pos, okTok,
		ifelse(okTok, "exactly when a pending batch was promoted, one mergeStatus{main:true} is sent on its channel", "the promoted batch does not receive exactly one main token (none: its callers park forever; two: two updaters of one index run concurrently)"))
}

func c14R1Assign(c *Ctx, m *c14Merge) {
	const R = "C14.R1.merge-protocol"
	F := m.Assign
	fn := FnName(F)
	if len(F.Params) != 2 {
		c.LostAnchor(R, fn+": (receiver, item) parameters")
		return
	}
	item := F.Params[1]
	cl := map[ssa.Value]bool{}
	for _, ld := range c14FieldLoads(F, c14TMerge, "committed") {
		cl[ld] = true
	}
	te, fe := BoolTests(F, cl)
	if !c.Check(R, fn+"|tests-committed", F.Pos(), len(te) > 0, "assign branches on m.committed") {
		return
	}
	appendStores := func(field string) (out []ssa.Instruction, ok bool) {
		ok = true
		for _, s := range c14FieldStores(F, c14TMerge, field) {
			call, isCall := s.Val.(*ssa.Call)
			if !isCall || CalleeName(call) != "builtin:append" {
				ok = false
				continue
			}
			if !c14IsLoadOfField(call.Call.Args[0], c14TMerge, field) || !derivesFromAny(call.Call.Args[1], map[ssa.Value]bool{item: true}, 0) {
				ok = false
			}
			out = append(out, s)
		}
		return out, ok && len(out) > 0
	}
	itemStores, okI := appendStores("items")
	pendStores, okP := appendStores("pending")
	okOpen := okI
	for _, s := range itemStores {
		if !MustPass(s, newCut().Edges(fe...)) {
			okOpen = false
		}
	}
	for _, e := range fe {
		if c14AnyReturnReachable(e.To, newCut().Instr(itemStores...)) != nil {
			okOpen = false
		}
	}
	c.Check(R, fn+"|items-only-while-open", F.Pos(), okOpen,
		ifelse(okOpen, "m.items = append(m.items, item) happens exactly on the committed==false edge", "assign can append to (or skip) m.items while the batch is committed: the change is missing from the slice being resolved, or the running batch's slice is mutated under the resolver"))
	okPend := okP
	for _, s := range pendStores {
		if !MustPass(s, newCut().Edges(te...)) {
			okPend = false
		}
	}
	for _, e := range te {
		if c14AnyReturnReachable(e.To, newCut().Instr(pendStores...)) != nil {
			okPend = false
		}
	}
	c.Check(R, fn+"|pending-while-committed", F.Pos(), okPend,
		ifelse(okPend, "m.pending = append(m.pending, item) happens exactly on the committed==true edge", "a change arriving while a batch is running is not queued in m.pending on every path: it is lost"))
	// returned channel matches the batch the item joined
	okRet := true
	for _, a := range RetAtoms(F, 0) {
		if !ReachableFromEntry(a.Ret) {
			continue
		}
		fromT, fromF := false, false
		for _, e := range te {
			if reach(e.To, 0, a.Ret, nil) {
				fromT = true
			}
		}
		for _, e := range fe {
			if reach(e.To, 0, a.Ret, nil) {
				fromF = true
			}
		}
		switch {
		case fromT && !fromF:
			okRet = okRet && c14IsLoadOfField(a.Val, c14TMerge, "pendingStatus")
		case fromF && !fromT:
			okRet = okRet && c14IsLoadOfField(a.Val, c14TMerge, "status")
		default:
			okRet = false
		}
	}
	c.Check(R, fn+"|returns-channel-of-joined-batch", F.Pos(), okRet,
		ifelse(okRet, "the committed edge returns m.pendingStatus, the open edge returns m.status", "assign returns the status channel of a batch the item did not join: the caller gets the verdict of the wrong batch"))
	// channel creation and the single main token
	mk := func(field string, side []Edge) (ok bool, makes []*ssa.MakeChan) {
		lds := map[ssa.Value]bool{}
		for _, ld := range c14FieldLoads(F, c14TMerge, field) {
			lds[ld] = true
		}
		nilE, _, _ := NilTests(F, lds)
		ok = true
		n := 0
		for _, s := range c14FieldStores(F, c14TMerge, field) {
			mc, isMk := s.Val.(*ssa.MakeChan)
			if !isMk {
				ok = false
				continue
			}
			n++
			makes = append(makes, mc)
			if len(nilE) == 0 || !MustPass(s, newCut().Edges(nilE...)) || !MustPass(s, newCut().Edges(side...)) {
				ok = false
			}
		}
		return ok && n > 0, makes
	}
	okMkS, makesS := mk("status", fe)
	c.Check(R, fn+"|status-created-once", F.Pos(), okMkS,
		ifelse(okMkS, "m.status is created only when it is nil, on the open edge", "m.status can be replaced while callers already wait on it: they park forever"))
	okMkP, _ := mk("pendingStatus", te)
	c.Check(R, fn+"|pending-status-created-once", F.Pos(), okMkP,
		ifelse(okMkP, "m.pendingStatus is created only when it is nil, on the committed edge", "m.pendingStatus can be replaced while callers already wait on it: they park forever"))
	okBuf := len(makesS) > 0
	for _, mc := range makesS {
		if k, ok := constInt(mc.Size); !ok || k < 1 {
			okBuf = false
		}
	}
	c.Check(R, fn+"|status-buffered", F.Pos(), okBuf,
		ifelse(okBuf, "the status channel has capacity >= 1 for the main token sent under the lock", "the status channel is unbuffered: assign blocks on sending the main token while holding the lock (deadlock on first use)"))
	// main token: exactly on creation of m.status
	var mainSends []ssa.Instruction
	okTok := true
	stLoads := map[ssa.Value]bool{}
	for _, ld := range c14FieldLoads(F, c14TMerge, "status") {
		stLoads[ld] = true
	}
	for _, mc := range makesS {
		stLoads[mc] = true
	}
	stNil, _, _ := NilTests(F, stLoads)
	for _, s := range c14Sends(F) {
		mainVals, isLit := c14StructLitField(s.X, "main")
		isMain := false
		for _, v := range mainVals {
			if b, ok := c14ConstBool(v); ok && b {
				isMain = true
			}
		}
		if !isLit || !isMain {
			c.Undecided(R, fn+"|send", s.Pos(), "a send in assign() that is not mergeStatus{main: true}: shape not recognised")
			continue
		}
		mainSends = append(mainSends, s)
		if !stLoads[s.Chan] || len(stNil) == 0 || !MustPass(s, newCut().Edges(stNil...)) || !MustPass(s, newCut().Edges(fe...)) || Reachable(s, s) {
			okTok = false
		}
	}
	okTok = okTok && len(mainSends) > 0
	for _, e := range stNil {
		if c14AnyReturnReachable(e.To, newCut().Instr(mainSends...)) != nil {
			okTok = false
		}
	}
	c.Check(R, fn+"|one-main-token-per-new-batch", F.Pos(), okTok,
		ifelse(okTok, "exactly when assign creates m.status it sends one mergeStatus{main:true}", "a new batch does not get exactly one main token (none: all its callers park forever; more: two updaters of one index run concurrently and one overwrites the other)"))
}

func c14R1Commit(c *Ctx, m *c14Merge) {
	const R = "C14.R1.merge-protocol"
	F := m.Commit
	fn := FnName(F)
	var sets []ssa.Instruction
	ok := true
	for _, s := range c14FieldStores(F, c14TMerge, "committed") {
		if b, isB := c14ConstBool(s.Val); isB && b {
			sets = append(sets, s)
		} else {
			ok = false
		}
	}
	ok = ok && len(sets) > 0
	for _, ret := range Returns(F) {
		if ReachableFromEntry(ret) && !MustPass(ret, newCut().Instr(sets...)) {
			ok = false
		}
	}
	c.Check(R, fn+"|closes-window", F.Pos(), ok,
		ifelse(ok, "every path stores committed=true", "commit() does not close the assignment window on every path: assign keeps appending to the slice being resolved"))
	okRet := true
	n := 0
	for _, a := range RetAtoms(F, 0) {
		if !ReachableFromEntry(a.Ret) {
			continue
		}
		n++
		if !c14IsLoadOfField(a.Val, c14TMerge, "items") {
			okRet = false
		}
	}
	c.Check(R, fn+"|returns-items", F.Pos(), okRet && n > 0,
		ifelse(okRet && n > 0, "commit returns m.items", "commit() does not return the batch's items"))
}

// ---------- R2 ----------

func c14R2(c *Ctx, ms []*c14Merge) {
	const R = "C14.R2.lock-discipline"
	c.Expect(R, 22)
	mergeFields := []string{"committed", "items", "status", "pending", "pendingStatus"}
	const reason = "complete() reads m.items/m.status before locking: while committed==true (set by commit() before complete() is reached) assign() writes neither, so there is no concurrent writer; the premise is proved by the |premise obligations"
	exempt := map[string]string{}
	for _, m := range ms {
		exempt[FnName(m.Complete)] = reason
		if o := m.Complete.Origin(); o != nil {
			exempt[FnName(o)] = reason
		}
	}
	if !c14HasField(c.P, c14PkgSync, "Pool", "items") || !c14HasField(c.P, c14PkgSync, "Pool", "lock") || !c14HasField(c.P, c14PkgSync, "poolItem", "refCount") {
		c.LostAnchor(R, "~/internal/syncutil.Pool.{items,lock} / poolItem.refCount")
		return
	}
	LockCheck(c, R, []GuardSpec{
		{Type: c14TMerge, Fields: mergeFields, Lock: "lock", Exempt: exempt},
		{Type: c14TPool, Fields: []string{"items"}, Lock: "lock"},
	}, []string{c14PkgSync})

	fields := map[string]bool{}
	for _, f := range mergeFields {
		fields[f] = true
	}
	for _, m := range ms {
		F := m.Complete
		fn := FnName(F)
		// the exception, checked locally: writes hold the lock; unlocked reads are
		// only of items/status and happen before the window is reopened
		h := heldAt(F, heldSet{})
		var reopen []*ssa.Store
		for _, s := range c14FieldStores(F, c14TMerge, "committed") {
			reopen = append(reopen, s)
		}
		okW, okR := true, true
		detail := ""
		for _, a := range fieldAccesses(F, c14TMerge, fields) {
			lp := accessPath(a.Base) + ".lock"
			if h[a.At][lp] >= modeW {
				continue
			}
			if a.Mode == modeW {
				okW = false
				detail = fmt.Sprintf("write of Merge.%s at %s without m.lock", a.Field, c.P.Pos(a.At.Pos()))
				continue
			}
			if a.Field != "items" && a.Field != "status" {
				okR = false
				detail = fmt.Sprintf("unlocked read of Merge.%s at %s", a.Field, c.P.Pos(a.At.Pos()))
			}
			for _, s := range reopen {
				if Reachable(s, a.At) {
					okR = false
					detail = fmt.Sprintf("unlocked read of Merge.%s at %s after the window was reopened", a.Field, c.P.Pos(a.At.Pos()))
				}
			}
		}
		c.Check(R, fn+"|exception:writes-hold-lock", F.Pos(), okW, ifelse(okW, "every write of a guarded Merge field in complete() holds m.lock", detail+" — assign() can run concurrently (data race, lost batch)"))
		c.Check(R, fn+"|exception:unlocked-reads-only-items-status-before-reopen", F.Pos(), okR,
			ifelse(okR, "the only unlocked accesses are reads of m.items/m.status before committed is reset", detail+" — assign() may write it concurrently (data race)"))
		// premise 1: committed==true whenever complete() runs
		okP := len(m.CompleteCalls) > 0
		var commits []ssa.CallInstruction
		for _, call := range Calls(m.Do, func(string) bool { return true }) {
			if StaticCallee(call) == m.Commit {
				commits = append(commits, call)
			}
		}
		for _, cc := range m.CompleteCalls {
			if !MustPass(cc.(ssa.Instruction), newCut().Calls(commits)) {
				okP = false
			}
		}
		c.Check(R, FnName(m.Do)+"|premise:commit-precedes-complete", m.Do.Pos(), okP,
			ifelse(okP, "every path to complete() has passed commit() (committed==true)", "complete() can run without a preceding commit(): its unlocked reads of m.items/m.status race with assign()"))
	}
	// premise 2: writers of items/status are assign (on the open edge, see R1) and complete only
	allowed := map[*ssa.Function]bool{}
	for _, m := range ms {
		allowed[m.Assign], allowed[m.Complete] = true, true
		if o := m.Assign.Origin(); o != nil {
			allowed[o] = true
		}
		if o := m.Complete.Origin(); o != nil {
			allowed[o] = true
		}
	}
	okW := true
	detail := "m.items / m.status are written only by assign() (on the committed==false edge, R1) and complete() (under the lock)"
	for _, f := range c.P.FuncsOfPkg(c14PkgSync) {
		if allowed[f] {
			continue
		}
		if len(c14FieldStores(f, c14TMerge, "items"))+len(c14FieldStores(f, c14TMerge, "status")) > 0 {
			okW = false
			detail = FnName(f) + " writes Merge.items/status: the exception for complete()'s unlocked reads no longer holds"
		}
	}
	c.Check(R, "~/internal/syncutil|premise:writers-of-items-status", token.NoPos, okW, detail)

	// poolItem.refCount is guarded by the pool's lock, also inside the release closure
	gen := c.P.Fn(c14PkgSync, "Pool.Get")
	if gen == nil {
		c.LostAnchor(R, "~/internal/syncutil.Pool.Get")
		return
	}
	n := 0
	for _, G := range c.P.Instances(gen) {
		for _, f := range append([]*ssa.Function{G}, Anons(G)...) {
			var accs []ssa.Instruction
			for _, fa := range c14FieldAddrs(f, c14TPoolItem, "refCount") {
				for _, r := range *fa.Referrers() {
					if in, ok := r.(ssa.Instruction); ok {
						if _, dbg := r.(*ssa.DebugRef); !dbg {
							accs = append(accs, in)
						}
					}
				}
			}
			if len(accs) == 0 {
				continue
			}
			n++
			h := heldAt(f, heldSet{})
			ok := true
			for _, at := range accs {
				held := false
				for lp, mode := range h[at] {
					if mode >= modeW && strings.HasSuffix(lp, ".lock") && (strings.HasPrefix(lp, "P:"+G.Params[0].Name()) || strings.HasPrefix(lp, "FV:"+G.Params[0].Name())) {
						held = true
					}
				}
				if !held {
					ok = false
				}
			}
			c.Check(R, FnName(f)+"|"+c14TPoolItem+".refCount|W", f.Pos(), ok,
				ifelse(ok, "every access of refCount holds the pool's lock", "refCount is accessed without the pool's lock: the per-tag Merge can be dropped from the pool while another updater still uses it (two Merge objects for one referrers tag: updates are no longer serialised)"))
		}
	}
	if n < 2 {
		c.LostAnchor(R, "refCount accesses in Pool.Get and its release closure")
	}
	// other functions touching refCount
	for _, f := range c.P.FuncsOfPkg(c14PkgSync) {
		if len(c14FieldAddrs(f, c14TPoolItem, "refCount")) == 0 {
			continue
		}
		root := f
		for root.Parent() != nil {
			root = root.Parent()
		}
		if o := root.Origin(); o != nil {
			root = o
		}
		if root != gen {
			c.Violation(R, FnName(f)+"|"+c14TPoolItem+".refCount|unclassified", f.Pos(), "refCount is accessed outside Pool.Get and its release closure: not covered by the confirmed lock discipline")
		}
	}
}

// ---------- R3 ----------

func c14OriginIs(f, gen *ssa.Function) bool {
	if f == nil || gen == nil {
		return false
	}
	if f == gen {
		return true
	}
	return f.Origin() == gen
}

// c14Derives: v is computed from a value of set (through calls, extracts,
// conversions, slices, literals).
func c14Derives(v ssa.Value, set map[ssa.Value]bool, depth int) bool {
	if depth > 6 || v == nil {
		return false
	}
	for _, r := range Roots(v) {
		if set[r] {
			return true
		}
		switch u := r.(type) {
		case *ssa.Extract:
			if set[u.Tuple] || c14Derives(u.Tuple, set, depth+1) {
				return true
			}
		case *ssa.Call:
			for _, a := range u.Call.Args {
				if c14Derives(a, set, depth+1) {
					return true
				}
			}
		case *ssa.UnOp:
			if u.Op == token.MUL {
				if _, isAlloc := u.X.(*ssa.Alloc); !isAlloc && c14Derives(u.X, set, depth+1) {
					return true
				}
			}
		case *ssa.FieldAddr:
			if c14Derives(u.X, set, depth+1) {
				return true
			}
		default:
			if derivesFromAny(r, set, depth+1) {
				return true
			}
		}
	}
	return false
}

// c14ParamOf: v is (a copy of) a parameter of fn, possibly through the heap
// cell a captured parameter is spilled into; returns the parameter.
func c14ParamOf(v ssa.Value, fn *ssa.Function) *ssa.Parameter {
	rs := Roots(v)
	if len(rs) != 1 {
		return nil
	}
	if p, ok := rs[0].(*ssa.Parameter); ok && p.Parent() == fn {
		return p
	}
	if a := cellOf(rs[0]); a != nil {
		sts := c14CellStores(a)
		if len(sts) == 1 {
			if p, ok := sts[0].Val.(*ssa.Parameter); ok && p.Parent() == fn {
				return p
			}
		}
	}
	return nil
}

type c14Upd struct {
	U               *ssa.Function
	DoCall, GetCall ssa.CallInstruction
	TagCall         *ssa.Call
	TagFn           *ssa.Function
	TagVal          ssa.Value
	TagCell         *ssa.Alloc
	Prep, Upd       *ssa.Function
}

// isTag: v denotes the referrers tag computed in U (in U itself or inside one
// of its closures through the captured cell).
func (u *c14Upd) isTag(v ssa.Value) bool {
	v = strip(v)
	if SameValue(v, u.TagVal) {
		return true
	}
	if u.TagCell != nil {
		if a := c14FreeCell(v); a == u.TagCell {
			return true
		}
	}
	return false
}

func c14R3(c *Ctx) {
	const R = "C14.R3.serialised-rmw"
	c.Expect(R, 20)
	doGen := c.P.Fn(c14PkgSync, "Merge.Do")
	getGen := c.P.Fn(c14PkgSync, "Pool.Get")
	if doGen == nil || getGen == nil {
		c.LostAnchor(R, "~/internal/syncutil.Merge.Do / Pool.Get")
		return
	}
	if !c14HasField(c.P, c14PkgRemote, "Repository", "referrersMergePool") || !c14HasField(c.P, c14PkgRemote, "Repository", "SkipReferrersGC") {
		c.LostAnchor(R, "~/registry/remote.Repository.{referrersMergePool,SkipReferrersGC}")
		return
	}
	// every user of Merge.Do in the module
	var us []*c14Upd
	var fns []*ssa.Function
	for f := range c.P.All {
		if inModule(f) && len(f.Blocks) > 0 && fnPkgPath(f) != pkgPath(c14PkgSync) {
			fns = append(fns, f)
		}
	}
	sort.Slice(fns, func(i, j int) bool { return fns[i].String() < fns[j].String() })
	for _, f := range fns {
		for _, call := range Calls(f, func(string) bool { return true }) {
			if c14OriginIs(StaticCallee(call), doGen) {
				us = append(us, &c14Upd{U: f, DoCall: call})
			}
		}
	}
	if len(us) == 0 {
		c.LostAnchor(R, "a caller of syncutil.Merge.Do in the module (the referrers index updater)")
		return
	}
	for _, u := range us {
		if fnPkgPath(u.U) != pkgPath(c14PkgRemote) {
			c.Violation(R, FnName(u.U)+"|merge-user", u.DoCall.Pos(), "unclassified user of syncutil.Merge.Do outside registry/remote")
			continue
		}
		c14R3Updater(c, u, getGen)
	}
	c14R3Callers(c, us)
	c14R3TagInventory(c, us)
}

func c14R3Updater(c *Ctx, u *c14Upd, getGen *ssa.Function) {
	const R = "C14.R3.serialised-rmw"
	U := u.U
	un := FnName(U)
	args := u.DoCall.Common().Args
	if len(args) != 4 {
		c.LostAnchor(R, un+": Merge.Do(recv, item, prepare, resolve)")
		return
	}
	// the Merge object comes from the repository-wide pool, keyed by the tag
	ok := false
	for _, r := range Roots(args[0]) {
		if ex, isEx := r.(*ssa.Extract); isEx && ex.Index == 0 {
			if call, isCall := ex.Tuple.(*ssa.Call); isCall && c14OriginIs(StaticCallee(call), getGen) && len(Roots(args[0])) == 1 {
				u.GetCall = call
				ok = true
			}
		}
	}
	if !c.Check(R, un+"|merge-from-pool", u.DoCall.Pos(), ok,
		ifelse(ok, "the Merge object is the one returned by Pool.Get", "the Merge object does not come from the per-tag pool: concurrent updaters of one index do not share it (unserialised read-modify-write: lost update)")) {
		return
	}
	gargs := u.GetCall.Common().Args
	fa, isFA := gargs[0].(*ssa.FieldAddr)
	okPool := isFA && fieldName(fa.X.Type(), fa.Field) == "~/registry/remote.Repository.referrersMergePool"
	c.Check(R, un+"|pool-is-repository-wide", u.GetCall.Pos(), okPool,
		ifelse(okPool, "the pool is the Repository.referrersMergePool field", "the pool is not the repository-wide Repository.referrersMergePool: updaters on the same Repository do not meet in one Merge"))
	// key = tag = tagFn(subject)
	key := strip(gargs[1])
	kr := Roots(key)
	if len(kr) == 1 {
		if ex, isEx := kr[0].(*ssa.Extract); isEx && ex.Index == 0 {
			if call, isCall := ex.Tuple.(*ssa.Call); isCall && StaticCallee(call) != nil && inModule(StaticCallee(call)) {
				u.TagCall, u.TagFn, u.TagVal = call, StaticCallee(call), ex
			}
		}
	}
	if u.TagCall == nil {
		c.Undecided(R, un+"|pool-key-is-referrers-tag", u.GetCall.Pos(), "cannot resolve the pool key to the result of a tag-building function")
		return
	}
	if a := cellOf(key); a != nil {
		u.TagCell = a
	}
	okSubj := len(u.TagCall.Call.Args) == 1 && c14ParamOf(u.TagCall.Call.Args[0], U) != nil
	c.Check(R, un+"|pool-key-is-referrers-tag", u.GetCall.Pos(), okSubj,
		ifelse(okSubj, "the pool key is "+FnName(u.TagFn)+"(subject parameter)", "the pool key is not the referrers tag of the subject being updated: updaters of one index are not serialised with each other"))
	// the entry is not released before Do returns
	okRel := true
	if done := ResultOf(u.GetCall, 1); done != nil {
		for a := range Aliases(done) {
			for _, r := range *a.Referrers() {
				if call, isCall := r.(*ssa.Call); isCall && call.Call.Value == a && (Reachable(call, u.DoCall.(ssa.Instruction)) || call == u.DoCall) {
					okRel = false
				}
			}
		}
	}
	c.Check(R, un+"|no-release-before-do", u.DoCall.Pos(), okRel,
		ifelse(okRel, "the pool entry is not released on any path before Merge.Do", "the pool entry can be released before Merge.Do runs: the pool forgets the Merge while it is in use and the next updater gets a fresh one (two concurrent read-modify-write cycles)"))
	// closures
	pm, ok1 := args[2].(*ssa.MakeClosure)
	um, ok2 := args[3].(*ssa.MakeClosure)
	if !ok1 || !ok2 {
		c.Undecided(R, un+"|prepare-update-closures", u.DoCall.Pos(), "prepare/update are not function literals of the updater: shape not recognised")
		return
	}
	u.Prep, u.Upd = pm.Fn.(*ssa.Function), um.Fn.(*ssa.Function)
	P, Up := u.Prep, u.Upd
	pn, upn := FnName(P), FnName(Up)
	// tag cell is written once
	if u.TagCell != nil {
		sts := c14CellStores(u.TagCell)
		okT := len(sts) == 1 && SameValue(sts[0].Val, u.TagVal)
		c.Check(R, un+"|tag-fixed", u.TagCall.Pos(), okT, ifelse(okT, "the referrers tag variable is assigned once", "the referrers tag variable is reassigned: fetch, push and pool key may name different tags"))
	}
	// prepare: fetch by tag, publish into the shared cells
	var fetches []ssa.CallInstruction
	for _, call := range Calls(P, func(n string) bool { return n != "fmt.Errorf" }) {
		for _, a := range call.Common().Args {
			if u.isTag(a) {
				fetches = append(fetches, call)
				break
			}
		}
	}
	if len(fetches) != 1 {
		c.Violation(R, pn+"|fetches-index-by-tag", P.Pos(), fmt.Sprintf("prepare makes %d calls with the referrers tag (expected exactly the fetch of the current index)", len(fetches)))
		return
	}
	fetch := fetches[0]
	okF := CalleeName(fetch) == "(*~/registry/remote.Repository).referrersFromIndex"
	if !okF {
		c.Undecided(R, pn+"|fetches-index-by-tag", fetch.Pos(), "prepare passes the tag to "+CalleeName(fetch)+", not the confirmed index reader referrersFromIndex: classify it")
	} else {
		c.OK(R, pn+"|fetches-index-by-tag", fetch.Pos(), "prepare reads the index through referrersFromIndex(ctx, tag)")
	}
	rf := ErrFlow(fetch, ErrFlowOpts{Tolerated: []string{"~/errdef.ErrNotFound"}})
	c.Check(R, pn+"|fetch-error-surfaces", fetch.Pos(), rf.OK, ifelse(rf.OK, rf.How, "a failed read of the old index (other than not-found) is swallowed: the update would start from an empty list and drop every existing referrer. "+rf.Detail))
	fetched := map[ssa.Value]bool{fetch.Value(): true}
	var cellRefs, cellDesc *ssa.Alloc
	var pubStores []ssa.Instruction
	for _, fv := range P.FreeVars {
		for _, r := range *fv.Referrers() {
			s, isStore := r.(*ssa.Store)
			if !isStore || s.Addr != ssa.Value(fv) {
				continue
			}
			cell := c14FreeVarAlloc(fv)
			if cell == nil {
				continue
			}
			src := s.Val
			if a, isAlloc := src.(*ssa.Alloc); isAlloc {
				// &indexDesc: the local that received the fetched descriptor
				okSrc := false
				for _, st := range storesTo(a) {
					if c14Derives(st.Val, fetched, 0) {
						okSrc = true
					}
				}
				if okSrc {
					cellDesc = cell
					pubStores = append(pubStores, s)
				}
				continue
			}
			if c14Derives(src, fetched, 0) {
				if _, isSlice := src.Type().Underlying().(*types.Slice); isSlice {
					cellRefs = cell
					pubStores = append(pubStores, s)
				}
			}
		}
	}
	if !c.Check(R, pn+"|publishes-fetched-state", P.Pos(), cellRefs != nil && cellDesc != nil,
		ifelse(cellRefs != nil && cellDesc != nil, "prepare stores the fetched referrers list and index descriptor into variables shared with update", "prepare does not hand the fetched referrers list / index descriptor to update")) {
		return
	}
	if e := ErrOf(fetch); e != nil {
		ne, _, _ := NilTests(P, Aliases(e))
		okPub := len(ne) > 0
		for _, s := range pubStores {
			if !MustPass(s, newCut().Edges(ne...)) {
				okPub = false
			}
		}
		c.Check(R, pn+"|publishes-only-on-success", P.Pos(), okPub, ifelse(okPub, "the shared variables are set only on the nil-error edge of the fetch", "the shared variables can be set from a failed fetch"))
	}
	okOnly := true
	for _, cell := range []*ssa.Alloc{cellRefs, cellDesc} {
		for _, s := range c14CellStores(cell) {
			if s.Parent() != P {
				okOnly = false
			}
		}
	}
	c.Check(R, un+"|shared-state-written-only-by-prepare", U.Pos(), okOnly, ifelse(okOnly, "only prepare writes oldReferrers/oldIndexDesc", "oldReferrers/oldIndexDesc are also written outside prepare: update may work from a list that is not the one just fetched"))

	// update
	isCellLoad := func(v ssa.Value, cell *ssa.Alloc) bool { return c14FreeCell(strip(v)) == cell }
	var apply ssa.CallInstruction
	for _, call := range Calls(Up, func(string) bool { return true }) {
		hasOld, hasBatch := false, false
		for _, a := range call.Common().Args {
			if isCellLoad(a, cellRefs) {
				hasOld = true
			}
			if len(Up.Params) == 1 && a == ssa.Value(Up.Params[0]) {
				hasBatch = true
			}
		}
		if hasOld && hasBatch && StaticCallee(call) != nil {
			apply = call
		}
	}
	if !c.Check(R, upn+"|applies-batch-to-fetched-list", Up.Pos(), apply != nil,
		ifelse(apply != nil, "update computes the new list from (the list fetched by prepare, the committed batch)", "update does not combine the list fetched by prepare with the whole committed batch: batched changes are lost")) {
		return
	}
	applied := map[ssa.Value]bool{apply.Value(): true}
	newList := ResultOf(apply, 0)
	applyErr := ErrOf(apply)
	var sentinel string
	if applyErr != nil {
		al := Aliases(applyErr)
		for _, i := range Ifs(Up) {
			cond, _, _ := ifEdges(i)
			switch x := cond.(type) {
			case *ssa.BinOp:
				if al[x.X] && sentinelName(x.Y) != "" {
					sentinel = sentinelName(x.Y)
				} else if al[x.Y] && sentinelName(x.X) != "" {
					sentinel = sentinelName(x.X)
				}
			case *ssa.Call:
				if CalleeName(x) == "errors.Is" && al[x.Call.Args[0]] {
					sentinel = sentinelName(x.Call.Args[1])
				}
			}
		}
	}
	var tol []string
	if sentinel != "" {
		tol = []string{sentinel}
	}
	ra := ErrFlow(apply, ErrFlowOpts{Tolerated: tol})
	c.Check(R, upn+"|apply-error-surfaces", apply.Pos(), ra.OK, ifelse(ra.OK, ra.How, ra.Detail))
	var tolE []Edge
	if applyErr != nil {
		tolE = toleratedEdges(Up, Aliases(applyErr), tol)
	}
	var pushes, deletes []ssa.CallInstruction
	for _, call := range Calls(Up, func(n string) bool { return n != "fmt.Errorf" }) {
		for _, a := range call.Common().Args {
			if u.isTag(a) {
				pushes = append(pushes, call)
				break
			}
		}
		for _, a := range call.Common().Args {
			if d, isDeref := a.(*ssa.UnOp); isDeref && d.Op == token.MUL && isCellLoad(d.X, cellDesc) {
				deletes = append(deletes, call)
				break
			}
		}
	}
	okKinds := len(pushes) > 0 && len(deletes) > 0
	for _, p := range pushes {
		if CalleeName(p) != "(*~/registry/remote.manifestStore).push" {
			c.Undecided(R, upn+"|effects-classified", p.Pos(), "update passes the referrers tag to "+CalleeName(p)+": not the confirmed index push, classify it")
			okKinds = false
		}
	}
	for _, d := range deletes {
		if CalleeName(d) != "(*~/registry/remote.Repository).delete" {
			c.Undecided(R, upn+"|effects-classified", d.Pos(), "update passes the old index descriptor to "+CalleeName(d)+": not the confirmed delete, classify it")
			okKinds = false
		}
	}
	if !c.Check(R, upn+"|effects-classified", Up.Pos(), okKinds, ifelse(okKinds, "update pushes the new index under the tag and deletes the old index descriptor", "update lacks the push of the new index under the referrers tag or the delete of the old index")) {
		return
	}
	toI := func(cs []ssa.CallInstruction) []ssa.Instruction {
		var o []ssa.Instruction
		for _, x := range cs {
			o = append(o, x.(ssa.Instruction))
		}
		return o
	}
	// pushed content derives from the applied list
	okContent := true
	for _, p := range pushes {
		d := false
		for _, a := range p.Common().Args {
			if !u.isTag(a) && c14Derives(a, applied, 0) {
				d = true
			}
		}
		okContent = okContent && d
	}
	c.Check(R, upn+"|pushes-the-applied-list", pushes[0].Pos(), okContent, ifelse(okContent, "the pushed index is generated from the list returned by the apply step", "the index pushed under the tag is not generated from the updated list"))
	// no-update sentinel: nothing is pushed or deleted
	okNo := len(tolE) > 0
	for _, e := range tolE {
		for _, x := range append(toI(pushes), toI(deletes)...) {
			if reach(e.To, 0, x, nil) {
				okNo = false
			}
		}
	}
	c.Check(R, upn+"|no-update-leaves-index-alone", apply.Pos(), okNo,
		ifelse(okNo, "on "+sentinel+" neither push nor delete is reachable", "when the apply step reports that nothing changed, update can still delete (or re-push) the index: the unchanged, still current index is deleted and all referrers of the subject vanish"))
	// ordering
	okOrd := true
	for _, d := range deletes {
		for _, p := range pushes {
			if Reachable(d.(ssa.Instruction), p.(ssa.Instruction)) {
				okOrd = false
			}
		}
		cu := newCut().Calls(pushes)
		if newList != nil {
			cu.Edges(lenZeroEdges(Up, newList)...)
		}
		if !MustPass(d.(ssa.Instruction), cu) {
			okOrd = false
		}
	}
	c.Check(R, upn+"|push-precedes-delete", deletes[0].Pos(), okOrd,
		ifelse(okOrd, "every path to the delete of the old index has pushed the new one, or the new list is empty", "the old index can be deleted before (or without) the push of a non-empty new index: a crash or failure in between leaves the subject without any referrers index"))
	for i, p := range pushes {
		rp := ErrFlow(p, ErrFlowOpts{})
		okP := rp.OK
		if e := ErrOf(p); e != nil {
			_, nn, _ := NilTests(Up, Aliases(e))
			for _, ed := range nn {
				for _, d := range deletes {
					if reach(ed.To, 0, d.(ssa.Instruction), nil) {
						okP = false
					}
				}
			}
		}
		c.Check(R, fmt.Sprintf("%s|push#%d-failure-stops", upn, i+1), p.Pos(), okP,
			ifelse(okP, "a failed push is returned and the old index is not deleted", "after a failed push of the new index update continues (old index deleted, or nil returned): referrers are lost. "+rp.Detail))
	}
	// delete iff GC enabled and an old index exists
	gcLoads := map[ssa.Value]bool{}
	for _, ld := range c14FieldLoads(Up, "~/registry/remote.Repository", "SkipReferrersGC") {
		gcLoads[ld] = true
	}
	skipT, skipF := BoolTests(Up, gcLoads)
	descLoads := map[ssa.Value]bool{}
	AllInstrs(Up, func(in ssa.Instruction) {
		if ld, isLd := in.(*ssa.UnOp); isLd && ld.Op == token.MUL && isCellLoad(ld, cellDesc) {
			descLoads[ld] = true
		}
	})
	descNil, descNonNil, _ := NilTests(Up, descLoads)
	okGuard := len(skipF) > 0 && len(descNonNil) > 0
	for _, d := range deletes {
		if !MustPass(d.(ssa.Instruction), newCut().Edges(skipF...)) || !MustPass(d.(ssa.Instruction), newCut().Edges(descNonNil...)) {
			okGuard = false
		}
	}
	c.Check(R, upn+"|delete-only-if-gc-and-old-index", deletes[0].Pos(), okGuard,
		ifelse(okGuard, "the delete is reached only with SkipReferrersGC==false and oldIndexDesc!=nil", "the old index can be deleted with SkipReferrersGC set, or dereferenced when no old index exists"))
	errVals := map[ssa.Value]bool{}
	AllInstrs(Up, func(in ssa.Instruction) {
		if v, isV := in.(ssa.Value); isV && isErrorType(v.Type()) {
			if _, isCall := in.(*ssa.Call); isCall {
				errVals[v] = true
			}
			if _, isEx := in.(*ssa.Extract); isEx {
				errVals[v] = true
			}
		}
	})
	_, errNonNil, _ := NilTests(Up, errVals)
	cuDone := newCut().Calls(deletes).Edges(skipT...).Edges(descNil...).Edges(tolE...).Edges(errNonNil...)
	okIff := true
	for _, ret := range Returns(Up) {
		if ReachableFromEntry(ret) && !MustPass(ret, cuDone) {
			okIff = false
		}
	}
	c.Check(R, upn+"|superseded-index-deleted", deletes[0].Pos(), okIff,
		ifelse(okIff, "every successful path either deletes the old index, or GC is skipped, or there was no old index, or nothing changed", "a successful update can return without deleting the superseded index although GC is enabled and an old index exists (dangling index manifests accumulate)"))
	// a failed delete is reported as ReferrersError{Op: opDeleteReferrersIndex}
	var opConst string
	if k, isK := c.P.Obj(c14PkgRemote, "opDeleteReferrersIndex").(*types.Const); isK && k.Val().Kind() == constant.String {
		opConst = constant.StringVal(k.Val())
	} else {
		c.LostAnchor(R, "constant ~/registry/remote.opDeleteReferrersIndex")
		return
	}
	for i, d := range deletes {
		rd := ErrFlow(d, ErrFlowOpts{})
		okD := rd.OK
		detail := rd.Detail
		if e := ErrOf(d); e != nil && okD {
			_, nn, _ := NilTests(Up, Aliases(e))
			n := 0
			for _, a := range RetAtoms(Up, ErrResultIndex(Up.Signature)) {
				from := false
				for _, ed := range nn {
					if reach(ed.To, 0, a.Ret, nil) {
						from = true
					}
				}
				if !from {
					continue
				}
				n++
				mi, isMI := a.Val.(*ssa.MakeInterface)
				if !isMI || c14NamedOf(mi.X.Type()) != "~/registry/remote.ReferrersError" {
					okD, detail = false, "the value returned after a failed delete is not a *ReferrersError"
					continue
				}
				al, isAlloc := mi.X.(*ssa.Alloc)
				if !isAlloc {
					okD, detail = false, "cannot resolve the returned *ReferrersError to a literal"
					continue
				}
				opOK, errOK := false, false
				for _, r := range *al.Referrers() {
					fa, isFA := r.(*ssa.FieldAddr)
					if !isFA {
						continue
					}
					name := fieldName(fa.X.Type(), fa.Field)
					for _, r2 := range *fa.Referrers() {
						st, isSt := r2.(*ssa.Store)
						if !isSt {
							continue
						}
						if strings.HasSuffix(name, ".Op") {
							if s, isS := constString(st.Val); isS && s == opConst {
								opOK = true
							}
						}
						if strings.HasSuffix(name, ".Err") && c14Derives(st.Val, Aliases(e), 0) {
							errOK = true
						}
					}
				}
				if !opOK || !errOK {
					okD, detail = false, "the returned ReferrersError does not carry Op=opDeleteReferrersIndex and the delete's error"
				}
			}
			if n == 0 {
				okD, detail = false, "no return on the failure edge of the delete"
			}
		}
		c.Check(R, fmt.Sprintf("%s|delete#%d-failure-is-index-delete-error", upn, i+1), d.Pos(), okD,
			ifelse(okD, "a failed delete of the old index is returned as *ReferrersError{Op: "+opConst+", Err: wraps the cause}", "a failed delete of the superseded index is not reported as the referrers-index-delete error callers are told to tolerate: "+detail))
	}
}

// c14Evidence returns, for function f, the edges on which the Referrers API is
// known not to be (known as) supported, and the complementary edges.
func c14Evidence(c *Ctx, f *ssa.Function, supported int64) (notAvail, avail []Edge) {
	probe := map[ssa.Value]bool{}
	state := map[ssa.Value]bool{}
	for _, call := range Calls(f, func(string) bool { return true }) {
		g := StaticCallee(call)
		if g == nil || !inModule(g) || call.Value() == nil {
			continue
		}
		res := g.Signature.Results()
		switch {
		case res.Len() == 2 && ErrResultIndex(g.Signature) == 1 && types.Identical(res.At(0).Type(), types.Typ[types.Bool]) &&
			len(CallsTo(g, "(*~/registry/remote.Repository).SetReferrersCapability")) > 0:
			if ok := ResultOf(call, 0); ok != nil {
				for a := range Aliases(ok) {
					probe[a] = true
				}
			}
		case res.Len() == 1 && c14ReturnsAtomicState(g):
			// the recorded state is evidence only when it is read after an
			// exchange that could have recorded "supported" (a callee that sets
			// the capability from the registry's answer)
			var probes []ssa.CallInstruction
			for _, pc := range Calls(f, func(string) bool { return true }) {
				pg := StaticCallee(pc)
				if pg == nil || !inModule(pg) || pc == call {
					continue
				}
				if reachesCall(pg, 3, func(n string, _ ssa.CallInstruction) bool {
					return n == "(*~/registry/remote.Repository).SetReferrersCapability"
				}) {
					probes = append(probes, pc)
				}
			}
			if len(probes) == 0 || !MustPass(call.(ssa.Instruction), newCut().Calls(probes)) {
				continue
			}
			for a := range Aliases(call.Value()) {
				state[a] = true
			}
		}
	}
	t, fl := BoolTests(f, probe)
	avail, notAvail = append(avail, t...), append(notAvail, fl...)
	for _, i := range Ifs(f) {
		cond, te, fe := ifEdges(i)
		bo, ok := cond.(*ssa.BinOp)
		if !ok || (bo.Op != token.EQL && bo.Op != token.NEQ) {
			continue
		}
		var k ssa.Value
		if state[bo.X] {
			k = bo.Y
		} else if state[bo.Y] {
			k = bo.X
		} else {
			continue
		}
		if n, isK := constInt(k); !isK || n != supported {
			continue
		}
		if bo.Op == token.EQL {
			avail, notAvail = append(avail, te), append(notAvail, fe)
		} else {
			avail, notAvail = append(avail, fe), append(notAvail, te)
		}
	}
	return
}

// c14ReturnsAtomicState: g returns atomic.LoadInt32(&x.referrersState).
func c14ReturnsAtomicState(g *ssa.Function) bool {
	n := 0
	for _, a := range RetAtoms(g, 0) {
		call, ok := a.Val.(*ssa.Call)
		if !ok || CalleeName(call) != "sync/atomic.LoadInt32" {
			return false
		}
		fa, ok := call.Call.Args[0].(*ssa.FieldAddr)
		if !ok || fieldName(fa.X.Type(), fa.Field) != "~/registry/remote.Repository.referrersState" {
			return false
		}
		n++
	}
	return n > 0
}

func c14R3Callers(c *Ctx, us []*c14Upd) {
	const R = "C14.R3.indexing-iff-subject-and-no-api"
	c.Expect(R, 6)
	k, ok := c.P.Obj(c14PkgRemote, "referrersStateSupported").(*types.Const)
	if !ok {
		c.LostAnchor(R, "constant ~/registry/remote.referrersStateSupported")
		return
	}
	supported, _ := constant.Int64Val(k.Val())
	isU := map[*ssa.Function]bool{}
	for _, u := range us {
		isU[u.U] = true
	}
	fns := c.P.FuncsOfPkg(c14PkgRemote)
	callersOf := func(g *ssa.Function) []ssa.CallInstruction {
		var out []ssa.CallInstruction
		for _, f := range fns {
			for _, call := range Calls(f, func(string) bool { return true }) {
				if StaticCallee(call) == g {
					out = append(out, call)
				}
			}
		}
		return out
	}
	var guarded func(call ssa.CallInstruction, depth int) (bool, string)
	guarded = func(call ssa.CallInstruction, depth int) (bool, string) {
		f := call.Parent()
		notAvail, _ := c14Evidence(c, f, supported)
		if len(notAvail) > 0 && MustPass(call.(ssa.Instruction), newCut().Edges(notAvail...)) {
			return true, "in " + FnName(f)
		}
		if depth >= 2 {
			return false, FnName(f) + " reaches it without testing the capability"
		}
		if f.Object() != nil && f.Object().Exported() {
			return false, "exported " + FnName(f) + " reaches it without testing the capability"
		}
		cs := callersOf(f)
		if len(cs) == 0 {
			return false, FnName(f) + " has no static caller that tests the capability"
		}
		for _, cc := range cs {
			if ok, why := guarded(cc, depth+1); !ok {
				return false, why
			}
		}
		return true, "in every caller of " + FnName(f)
	}
	n := 0
	for _, f := range fns {
		for _, call := range Calls(f, func(string) bool { return true }) {
			if !isU[StaticCallee(call)] {
				continue
			}
			n++
			fn := FnName(f)
			// subject present
			subj := map[ssa.Value]bool{}
			AllInstrs(f, func(in ssa.Instruction) {
				if ld, ok := in.(*ssa.UnOp); ok && ld.Op == token.MUL && isFieldLoad(ld, "Subject") {
					if _, isPtr := ld.Type().Underlying().(*types.Pointer); isPtr {
						subj[ld] = true
					}
				}
			})
			_, nonNil, _ := NilTests(f, subj)
			okS := len(nonNil) > 0 && MustPass(call.(ssa.Instruction), newCut().Edges(nonNil...))
			// the subject argument is the decoded subject
			okArg := false
			for _, a := range call.Common().Args {
				rs := Roots(a)
				all := len(rs) > 0
				for _, r := range rs {
					d, isDeref := r.(*ssa.UnOp)
					if !isDeref || d.Op != token.MUL || !isFieldLoad(d.X, "Subject") {
						all = false
					}
				}
				if all {
					okArg = true
				}
			}
			c.Check(R, fn+"|only-with-subject", call.Pos(), okS && okArg,
				ifelse(okS && okArg, "the index update is reached only on the Subject!=nil edge and is given the decoded subject", "the referrers index update is reached without a (decoded) subject, or is given another descriptor than the manifest's subject"))
			okG, why := guarded(call, 0)
			c.Check(R, fn+"|only-without-referrers-api", call.Pos(), okG,
				ifelse(okG, "every path to the index update has seen the Referrers API as not supported ("+why+")", "the client-side index is updated although the Referrers API may be known as supported: "+why))
			// converse: with a subject and no API the update is not skipped
			_, avail := c14Evidence(c, f, supported)
			errVals := map[ssa.Value]bool{}
			AllInstrs(f, func(in ssa.Instruction) {
				if v, isV := in.(ssa.Value); isV && isErrorType(v.Type()) {
					switch in.(type) {
					case *ssa.Call, *ssa.Extract:
						errVals[v] = true
					}
				}
			})
			_, errNonNil, _ := NilTests(f, errVals)
			var ucalls []ssa.CallInstruction
			for _, x := range Calls(f, func(string) bool { return true }) {
				if isU[StaticCallee(x)] {
					ucalls = append(ucalls, x)
				}
			}
			cu := newCut().Calls(ucalls).Edges(avail...).Edges(errNonNil...)
			okC := len(nonNil) > 0
			for _, e := range nonNil {
				if c14AnyReturnReachable(e.To, cu) != nil {
					okC = false
				}
			}
			c.Check(R, fn+"|never-skipped-with-subject", call.Pos(), okC,
				ifelse(okC, "once a subject was decoded every non-error path updates the index unless the Referrers API is available", "a manifest with a subject can be pushed/deleted without updating the referrers index although the registry has no Referrers API: the referrer is never listed (or listed forever)"))
		}
	}
	if n == 0 {
		c.LostAnchor(R, "callers of the referrers index updater")
	}
}

// c14R3TagInventory: who receives a referrers tag.  Every call that is handed
// the result of the tag builder (directly, through a captured variable, or one
// level down through a parameter) must be on the confirmed list; the only
// write among them is the push in the update closure.
func c14R3TagInventory(c *Ctx, us []*c14Upd) {
	const R = "C14.R3.referrers-tag-users"
	c.Expect(R, 7)
	var tagFn *ssa.Function
	for _, u := range us {
		if u.TagFn != nil {
			tagFn = u.TagFn
		}
	}
	if tagFn == nil {
		c.LostAnchor(R, "the referrers tag builder (producer of the pool key)")
		return
	}
	table := map[string]string{
		"(*~/registry/remote.manifestStore).updateReferrersIndex|(*~/internal/syncutil.Pool[T]).Get":                   "pool key (serialisation point)",
		"(*~/registry/remote.manifestStore).updateReferrersIndex$1|(*~/registry/remote.Repository).referrersFromIndex": "read of the current index inside prepare",
		"(*~/registry/remote.manifestStore).updateReferrersIndex$2|(*~/registry/remote.manifestStore).push":            "THE write: push of the new index inside the update closure run by Merge.Do",
		"(*~/registry/remote.Repository).referrersByTagSchema|(*~/registry/remote.Repository).referrersFromIndex":      "read-only listing",
		"(*~/registry/remote.Repository).referrersFromIndex|(*~/registry/remote.Repository).FetchReference":            "read (GET by tag)",
		"(*~/registry/remote.Repository).referrersFromIndex|fmt.Errorf":                                                "error text",
		"(*~/registry/remote.manifestStore).updateReferrersIndex$2|fmt.Errorf":                                         "error text",
		"(*~/registry/remote.manifestStore).updateReferrersIndex$1|fmt.Errorf":                                         "error text",
		"(*~/registry/remote.Repository).referrersByTagSchema|fmt.Errorf":                                              "error text",
		"(*~/registry/remote.manifestStore).updateReferrersIndex|fmt.Errorf":                                           "error text",
	}
	required := []string{
		"(*~/registry/remote.manifestStore).updateReferrersIndex|(*~/internal/syncutil.Pool[T]).Get",
		"(*~/registry/remote.manifestStore).updateReferrersIndex$2|(*~/registry/remote.manifestStore).push",
	}
	seen := map[string]token.Pos{}
	argIs := func(a ssa.Value, is func(ssa.Value) bool) bool {
		if is(strip(a)) {
			return true
		}
		// variadic []any{..., tag, ...}
		if sl, ok := a.(*ssa.Slice); ok {
			if al, ok := sl.X.(*ssa.Alloc); ok {
				for _, r := range *al.Referrers() {
					if ia, ok := r.(*ssa.IndexAddr); ok {
						for _, r2 := range *ia.Referrers() {
							if st, ok := r2.(*ssa.Store); ok && is(strip(st.Val)) {
								return true
							}
						}
					}
				}
			}
		}
		return false
	}
	var down []struct {
		g   *ssa.Function
		idx int
	}
	record := func(f *ssa.Function, is func(ssa.Value) bool, follow bool) {
		for _, call := range Calls(f, func(n string) bool { return !strings.HasPrefix(n, "builtin:") }) {
			for i, a := range call.Common().Args {
				if !argIs(a, is) {
					continue
				}
				k := FnName(f) + "|" + CalleeName(call)
				if _, ok := seen[k]; !ok {
					seen[k] = call.Pos()
				}
				if g := StaticCallee(call); follow && g != nil && inModule(g) && fnPkgPath(g) == pkgPath(c14PkgRemote) && i < len(g.Params) {
					down = append(down, struct {
						g   *ssa.Function
						idx int
					}{g, i})
				}
			}
		}
	}
	nTagCalls := 0
	theWrite := c.P.Fn(c14PkgRemote, "manifestStore.push")
	if theWrite == nil {
		c.LostAnchor(R, "~/registry/remote.manifestStore.push")
		return
	}
	for _, f := range c.P.FuncsOfPkg(c14PkgRemote) {
		for _, tc := range Calls(f, func(string) bool { return true }) {
			if StaticCallee(tc) != tagFn {
				continue
			}
			nTagCalls++
			tv := ResultOf(tc, 0)
			if tv == nil {
				continue
			}
			al := Aliases(tv)
			var cells []*ssa.Alloc
			for _, r := range *tv.Referrers() {
				if st, ok := r.(*ssa.Store); ok && st.Val == tv {
					if a, ok := st.Addr.(*ssa.Alloc); ok {
						cells = append(cells, a)
					}
				}
			}
			record(f, func(v ssa.Value) bool { return al[v] }, true)
			for _, an := range Anons(f) {
				record(an, func(v ssa.Value) bool {
					a := c14FreeCell(v)
					if a == nil {
						return false
					}
					for _, cell := range cells {
						if a == cell {
							return true
						}
					}
					return false
				}, true)
			}
		}
	}
	doneDown := map[*ssa.Function]bool{}
	for _, d := range down {
		if doneDown[d.g] || d.g == theWrite {
			continue // the write itself is the effect; its internals belong to C13
		}
		doneDown[d.g] = true
		p := d.g.Params[d.idx]
		al := Aliases(p)
		record(d.g, func(v ssa.Value) bool { return al[v] }, false)
	}
	if nTagCalls < 2 {
		c.LostAnchor(R, "calls of the referrers tag builder "+FnName(tagFn))
	}
	keys := make([]string, 0, len(seen))
	for k := range seen {
		keys = append(keys, k)
	}
	sort.Strings(keys)
	for _, k := range keys {
		if role, ok := table[k]; ok {
			c.Exists(R, k, seen[k], true, role)
		} else {
			c.Violation(R, k, seen[k], "unclassified use of a referrers tag: this call receives a referrers tag but is not on the confirmed list (read of the index, pool key, or the single push inside the Merge-protected update closure); a push/tag/delete by referrers tag outside Merge.Do is an unserialised read-modify-write")
		}
	}
	for _, k := range required {
		if _, ok := seen[k]; !ok {
			c.ob(R, k, token.NoPos, Lost, true, "required use of the referrers tag no longer present: "+table[k])
		}
	}
}

// ---------- R4 ----------

func c14R4(c *Ctx) {
	const R = "C14.R4.capability-never-flips"
	c.Expect(R, 2)
	if !c14HasField(c.P, c14PkgRemote, "Repository", "referrersState") {
		c.LostAnchor(R, "field ~/registry/remote.Repository.referrersState")
		return
	}
	k, ok := c.P.Obj(c14PkgRemote, "referrersStateUnknown").(*types.Const)
	if !ok {
		c.LostAnchor(R, "constant ~/registry/remote.referrersStateUnknown")
		return
	}
	unknown, _ := constant.Int64Val(k.Val())
	repoT := c.P.Named(c14PkgRemote, "Repository")
	var fns []*ssa.Function
	for f := range c.P.All {
		if inModule(f) && len(f.Blocks) > 0 {
			fns = append(fns, f)
		}
	}
	sort.Slice(fns, func(i, j int) bool { return fns[i].String() < fns[j].String() })
	nCAS, nLoad := 0, 0
	for _, f := range fns {
		idx := map[string]int{}
		for _, fa := range c14FieldAddrsAny(f, repoT, "referrersState") {
			for _, r := range *fa.Referrers() {
				if _, dbg := r.(*ssa.DebugRef); dbg {
					continue
				}
				in := r.(ssa.Instruction)
				call, isCall := r.(*ssa.Call)
				name := ""
				if isCall {
					name = CalleeName(call)
				}
				switch {
				case isCall && name == "sync/atomic.LoadInt32":
					nLoad++
					idx["load"]++
					c.Exists(R, fmt.Sprintf("%s|atomic-load#%d", FnName(f), idx["load"]), in.Pos(), true, "atomic read of the capability")
				case isCall && name == "sync/atomic.CompareAndSwapInt32" && call.Call.Args[0] == ssa.Value(fa):
					nCAS++
					idx["cas"]++
					old, okOld := constInt(call.Call.Args[1])
					okNew := true
					for _, nv := range Roots(call.Call.Args[2]) {
						if n, isK := constInt(nv); !isK || n == unknown {
							okNew = false
						}
					}
					okCAS := okOld && old == unknown && okNew
					c.Check(R, fmt.Sprintf("%s|cas-from-unknown#%d", FnName(f), idx["cas"]), in.Pos(), okCAS,
						ifelse(okCAS, "the only write is CompareAndSwap(unknown -> supported|unsupported)", "the capability can be swapped from a known state (or back to unknown): a repository detected as lacking the Referrers API flips while index updates are in flight, and half of the referrers are recorded nowhere"))
				default:
					idx["other"]++
					c.Violation(R, fmt.Sprintf("%s|non-atomic-access#%d", FnName(f), idx["other"]), in.Pos(),
						"Repository.referrersState is accessed other than by atomic.LoadInt32 / atomic.CompareAndSwapInt32(unknown, state): a plain or unconditional write lets the detected capability flip, a plain read races with the CAS")
				}
			}
		}
		// whole-struct copies of a Repository carry the state along
		AllInstrs(f, func(in ssa.Instruction) {
			ld, ok := in.(*ssa.UnOp)
			if !ok || ld.Op != token.MUL || repoT == nil {
				return
			}
			if _, isStruct := ld.Type().Underlying().(*types.Struct); !isStruct || !types.Identical(ld.Type().Underlying(), repoT.Underlying()) {
				return
			}
			if a, isAlloc := ld.X.(*ssa.Alloc); isAlloc && len(c14CellStores(a)) == 0 {
				return // zero value
			}
			idx["copy"]++
			c.Violation(R, fmt.Sprintf("%s|repository-copied-by-value#%d", FnName(f), idx["copy"]), in.Pos(),
				"a Repository (or RepositoryOptions) value is copied as a whole, including referrersState and the merge pool: the copy's capability can diverge from the original's and their index updates are not serialised")
		})
	}
	if nCAS == 0 {
		c.LostAnchor(R, "atomic.CompareAndSwapInt32(&Repository.referrersState, ...)")
	}
	if nLoad == 0 {
		c.LostAnchor(R, "atomic.LoadInt32(&Repository.referrersState)")
	}
}

// c14FieldAddrsAny: FieldAddrs of field `field` on any named type whose
// underlying struct is identical to named's (Repository and RepositoryOptions).
func c14FieldAddrsAny(fn *ssa.Function, named *types.Named, field string) []*ssa.FieldAddr {
	var out []*ssa.FieldAddr
	if named == nil {
		return nil
	}
	AllInstrs(fn, func(in ssa.Instruction) {
		fa, ok := in.(*ssa.FieldAddr)
		if !ok {
			return
		}
		pt, ok := fa.X.Type().Underlying().(*types.Pointer)
		if !ok {
			return
		}
		st, ok := pt.Elem().Underlying().(*types.Struct)
		if !ok || !types.Identical(st, named.Underlying()) {
			return
		}
		if st.Field(fa.Field).Name() == field {
			out = append(out, fa)
		}
	})
	return out
}

var c14Mutants = []Mutant{
	// R1
	{Name: "complete-skipped-on-prepare-error", File: "internal/syncutil/merge.go", Old: "\t\terr := prepare()\n\t\titems := m.commit()\n", New: "\t\terr := prepare()\n\t\tif err != nil {\n\t\t\treturn err\n\t\t}\n\t\titems := m.commit()\n", Expect: "C14.R1"},
	{Name: "resolve-not-given-committed-slice", File: "internal/syncutil/merge.go", Old: "\t\t\terr = resolve(items)\n", New: "\t\t\terr = resolve(items[:1])\n", Expect: "C14.R1"},
	{Name: "one-failure-notice-too-many", File: "internal/syncutil/merge.go", Old: "\t\tremaining := len(m.items) - 1\n", New: "\t\tremaining := len(m.items)\n", Expect: "C14.R1"},
	{Name: "promoted-batch-gets-no-main", File: "internal/syncutil/merge.go", Old: "\tif m.status != nil {\n\t\tm.status <- mergeStatus{main: true}\n\t}\n}", New: "}", Expect: "C14.R1"},
	{Name: "pending-item-joins-running-batch", File: "internal/syncutil/merge.go", Old: "\t\tm.pending = append(m.pending, item)\n", New: "\t\tm.items = append(m.items, item)\n", Expect: "C14.R1"},
	{Name: "waiter-returns-nil", File: "internal/syncutil/merge.go", Old: "\treturn status.err\n", New: "\t_ = status.err\n\treturn nil\n", Expect: "C14.R1"},
	{Name: "commit-keeps-window-open", File: "internal/syncutil/merge.go", Old: "\tm.committed = true\n", New: "", Expect: "C14.R1"},
	{Name: "main-reports-success-after-failed-resolve", File: "internal/syncutil/merge.go", Old: "\t\tm.complete(err)\n\t\treturn err\n", New: "\t\tm.complete(nil)\n\t\treturn err\n", Expect: "C14.R1"},
	{Name: "second-main-token", File: "internal/syncutil/merge.go", Old: "\tif m.status == nil {\n\t\tm.status = make(chan mergeStatus, 1)\n\t\tm.status <- mergeStatus{main: true}\n\t}\n", New: "\tif m.status == nil {\n\t\tm.status = make(chan mergeStatus, 1)\n\t}\n\tif len(m.items) == 0 {\n\t\tm.status <- mergeStatus{main: true}\n\t}\n", Expect: "C14.R1"},
	// R2
	{Name: "release-closure-without-lock", File: "internal/syncutil/pool.go", Old: "\treturn &item.value, func() {\n\t\tp.lock.Lock()\n\t\tdefer p.lock.Unlock()\n", New: "\treturn &item.value, func() {\n", Expect: "C14.R2"},
	{Name: "reopen-before-lock", File: "internal/syncutil/merge.go", Old: "\tm.lock.Lock()\n\tdefer m.lock.Unlock()\n\n\tm.committed = false\n", New: "\tm.committed = false\n\tm.lock.Lock()\n\tdefer m.lock.Unlock()\n\n", Expect: "C14.R2"},
	{Name: "commit-without-lock", File: "internal/syncutil/merge.go", Old: "func (m *Merge[T]) commit() []T {\n\tm.lock.Lock()\n\tdefer m.lock.Unlock()\n", New: "func (m *Merge[T]) commit() []T {\n", Expect: "C14.R2"},
	// R3
	{Name: "no-update-falls-through-to-delete", File: "registry/remote/repository.go", Old: "\t\tif err != nil {\n\t\t\tif err == errNoReferrerUpdate {\n\t\t\t\treturn nil\n\t\t\t}\n\t\t\treturn err\n\t\t}", New: "\t\tif err != nil && err != errNoReferrerUpdate {\n\t\t\treturn err\n\t\t}", Expect: "C14.R3"},
	{Name: "skip-gc-ignored", File: "registry/remote/repository.go", Old: "\t\tif s.repo.SkipReferrersGC || oldIndexDesc == nil {\n\t\t\treturn nil\n\t\t}", New: "\t\tif oldIndexDesc == nil {\n\t\t\treturn nil\n\t\t}", Expect: "C14.R3"},
	{Name: "delete-failure-not-marked", File: "registry/remote/repository.go", Old: "\t\t\treturn &ReferrersError{\n\t\t\t\tOp:      opDeleteReferrersIndex,\n", New: "\t\t\treturn &ReferrersError{\n\t\t\t\tOp:      \"DeleteIndex\",\n", Expect: "C14.R3"},
	{Name: "merge-not-from-pool", File: "registry/remote/repository.go", Old: "\tmerge, done := s.repo.referrersMergePool.Get(referrersTag)\n\tdefer done()\n\treturn merge.Do(change, prepare, update)", New: "\tvar merge syncutil.Merge[referrerChange]\n\treturn merge.Do(change, prepare, update)", Expect: "C14.R3"},
	{Name: "pool-entry-released-early", File: "registry/remote/repository.go", Old: "\tmerge, done := s.repo.referrersMergePool.Get(referrersTag)\n\tdefer done()\n", New: "\tmerge, done := s.repo.referrersMergePool.Get(referrersTag)\n\tdone()\n", Expect: "C14.R3"},
	{Name: "index-push-error-ignored", File: "registry/remote/repository.go", Old: "\t\t\tif err := s.push(ctx, newIndexDesc, bytes.NewReader(newIndex), referrersTag); err != nil {\n\t\t\t\treturn fmt.Errorf(\"failed to push referrers index tagged by %s: %w\", referrersTag, err)\n\t\t\t}", New: "\t\t\t_ = s.push(ctx, newIndexDesc, bytes.NewReader(newIndex), referrersTag)", Expect: "C14.R3"},
	{Name: "delete-indexing-ignores-ping", File: "registry/remote/repository.go", Old: "\tif ok {\n\t\t// referrers API is available, no client-side indexing needed\n\t\treturn nil\n\t}\n\treturn s.updateReferrersIndex(", New: "\t_ = ok\n\treturn s.updateReferrersIndex(", Expect: "C14.R3.indexing"},
	{Name: "push-indexing-skipped-for-index-manifests", File: "registry/remote/repository.go", Old: "\t\tsubject = *manifest.Subject\n\t\tdesc.ArtifactType = manifest.ArtifactType\n\t\tdesc.Annotations = manifest.Annotations\n\tdefault:", New: "\t\treturn nil\n\tdefault:", Expect: "C14.R3.indexing"},
	{Name: "tag-resolved-outside-merge", File: "registry/remote/repository.go", Old: "\t\t\t\t// valid case: no old referrers index\n\t\t\t\treturn nil\n", New: "\t\t\t\t_ = s.repo.Tag(ctx, subject, referrersTag)\n\t\t\t\treturn nil\n", Expect: "C14.R3.referrers-tag-users"},
	{Name: "tag-handed-to-unlisted-callee", File: "registry/remote/repository.go", Old: "\tmerge, done := s.repo.referrersMergePool.Get(referrersTag)\n", New: "\tif _, perr := s.repo.ParseReference(referrersTag); perr != nil {\n\t\treturn perr\n\t}\n\tmerge, done := s.repo.referrersMergePool.Get(referrersTag)\n", Expect: "C14.R3.referrers-tag-users"},
	// R4
	{Name: "capability-swapped-unconditionally", File: "registry/remote/repository.go", Old: "if swapped := atomic.CompareAndSwapInt32(&r.referrersState, referrersStateUnknown, state); !swapped {", New: "if swapped := atomic.SwapInt32(&r.referrersState, state) == referrersStateUnknown; !swapped {", Expect: "C14.R4"},
	{Name: "cas-from-any-state", File: "registry/remote/repository.go", Old: "atomic.CompareAndSwapInt32(&r.referrersState, referrersStateUnknown, state)", New: "atomic.CompareAndSwapInt32(&r.referrersState, r.loadReferrersState(), state)", Expect: "C14.R4"},
	{Name: "clone-copies-state", File: "registry/remote/repository.go", Old: "\t\tSkipReferrersGC:      r.SkipReferrersGC,\n\t\tHandleWarning:", New: "\t\tSkipReferrersGC:      r.SkipReferrersGC,\n\t\treferrersState:       r.referrersState,\n\t\tHandleWarning:", Expect: "C14.R4"},
}
