package main

// Helpers owned by C05/C06/C07 (prefix c05): a small path-sensitive
// interpreter over a single SSA function (acyclic path enumeration with
// store->load forwarding of field cells and pruning of contradictory branch
// conditions), plus value-provenance helpers.
//
// The interpreter exists because the verifier (content.VerifyReader.Verify)
// returns `vr.err` on some paths: whether that value can be nil depends on the
// branch conditions taken (`vr.err == nil` false edge) and on the stores that
// precede the load on the path.  Plain cut-reachability cannot express that.

import (
	"fmt"
	"go/constant"
	"go/token"
	"go/types"
	"sort"
	"strings"

	"golang.org/x/tools/go/ssa"
)

// c05Path is one feasible acyclic path entry -> End (a Return, or a chosen
// target instruction).
type c05Path struct {
	Blocks []*ssa.BasicBlock
	Edges  map[Edge]bool
	End    ssa.Instruction
	st     *c05State
	Conds  map[c05CondKey]bool // conditions decided through short-circuit phis
}

type c05MemVal struct {
	sym string
	val ssa.Value // nil if unknown
}

type c05State struct {
	facts map[string]bool
	mem   map[string]c05MemVal
	sym   map[ssa.Value]string
	val   map[ssa.Value]ssa.Value // phi / load -> value it denotes on this path
	epoch int
}

func (s *c05State) clone() *c05State {
	n := &c05State{facts: make(map[string]bool, len(s.facts)), mem: make(map[string]c05MemVal, len(s.mem)),
		sym: make(map[ssa.Value]string, len(s.sym)), val: make(map[ssa.Value]ssa.Value, len(s.val)), epoch: s.epoch}
	for k, v := range s.facts {
		n.facts[k] = v
	}
	for k, v := range s.mem {
		n.mem[k] = v
	}
	for k, v := range s.sym {
		n.sym[k] = v
	}
	for k, v := range s.val {
		n.val[k] = v
	}
	return n
}

// symOf: canonical symbol of a value in the current path state.
func (s *c05State) symOf(v ssa.Value) string {
	if v == nil {
		return "?"
	}
	v = strip(v)
	if x, ok := s.sym[v]; ok {
		return x
	}
	switch u := v.(type) {
	case *ssa.Const:
		if u.Value == nil {
			return "const:nil"
		}
		return "const:" + u.Value.ExactString()
	case *ssa.Parameter:
		return "P:" + u.Name()
	case *ssa.FreeVar:
		return "FV:" + u.Name()
	case *ssa.Global:
		return "g:" + short(u.Pkg.Pkg.Path()+"."+u.Name())
	case *ssa.Alloc:
		if !c05AllocEscapes(u) {
			return "alloc!" + u.Name()
		}
		return "alloc:" + u.Name()
	case *ssa.FieldAddr:
		return s.symOf(u.X) + "." + c05FieldNameOf(u.X.Type(), u.Field)
	case *ssa.IndexAddr:
		return s.symOf(u.X) + "[" + s.symOf(u.Index) + "]"
	case *ssa.Field:
		return s.symOf(u.X) + "." + c05FieldNameOf(u.X.Type(), u.Field)
	case *ssa.Extract:
		return s.symOf(u.Tuple) + "#" + fmt.Sprint(u.Index)
	}
	return "v:" + v.Name()
}

func c05FieldNameOf(t types.Type, idx int) string {
	if p, ok := t.Underlying().(*types.Pointer); ok {
		t = p.Elem()
	}
	if st, ok := t.Underlying().(*types.Struct); ok && idx < st.NumFields() {
		return st.Field(idx).Name()
	}
	return fmt.Sprint("#", idx)
}

// resolve: the value v denotes on this path (through phi selection and
// store->load forwarding); v itself when unknown.
func (s *c05State) resolve(v ssa.Value) ssa.Value {
	for i := 0; i < 16; i++ {
		w, ok := s.val[v]
		if !ok || w == nil || w == v {
			if sv := strip(v); sv != v {
				v = sv
				continue
			}
			return v
		}
		v = w
	}
	return v
}

// loadPathSym evaluates a field path from a base symbol as a sequence of
// loads in the current state: loadPathSym("P:vr","base","N") is the symbol a
// fresh `vr.base.N` would yield now.
func (s *c05State) loadPathSym(base string, fields ...string) string {
	cur := base
	for _, f := range fields {
		ap := cur + "." + f
		if m, ok := s.mem[ap]; ok {
			cur = m.sym
		} else {
			cur = fmt.Sprintf("mem:%s@%d", ap, s.epoch)
		}
	}
	return cur
}

func c05EqKey(a, b string) string {
	if a > b {
		a, b = b, a
	}
	return "eq(" + a + "," + b + ")"
}

// condKey canonicalises a branch condition into (key, polarity-on-true-edge).
func (s *c05State) condKey(cond ssa.Value) (string, bool) {
	pol := true
	for {
		u, ok := cond.(*ssa.UnOp)
		if !ok || u.Op != token.NOT {
			break
		}
		cond = u.X
		pol = !pol
	}
	if bo, ok := cond.(*ssa.BinOp); ok {
		a, b := s.symOf(bo.X), s.symOf(bo.Y)
		switch bo.Op {
		case token.EQL:
			return c05EqKey(a, b), pol
		case token.NEQ:
			return c05EqKey(a, b), !pol
		case token.LSS:
			return "lt(" + a + "," + b + ")", pol
		case token.GTR:
			return "lt(" + b + "," + a + ")", pol
		case token.LEQ:
			return "lt(" + b + "," + a + ")", !pol
		case token.GEQ:
			return "lt(" + a + "," + b + ")", !pol
		}
	}
	return "b:" + s.symOf(cond), pol
}

// nonNil reports whether value v is known non-nil on this path.
func (s *c05State) nonNil(v ssa.Value) bool {
	r := s.resolve(v)
	if ErrNilStatus(r, 0) == NonNil {
		return true
	}
	if f, ok := s.facts[c05EqKey(s.symOf(v), "const:nil")]; ok && !f {
		return true
	}
	if f, ok := s.facts[c05EqKey(s.symOf(r), "const:nil")]; ok && !f {
		return true
	}
	// the result of an in-module helper that hands back its own argument (`return vr.fail(err)`)
	if call, ok := strip(r).(*ssa.Call); ok {
		if i := c05ReturnsOwnParam(StaticCallee(call)); i >= 0 && i < len(call.Call.Args) {
			return s.nonNil(call.Call.Args[i])
		}
	}
	return false
}

// c05ReturnsOwnParam: every return of single-result in-module function h yields its parameter #i; -1 otherwise.
func c05ReturnsOwnParam(h *ssa.Function) int {
	if h == nil || !inModule(h) || len(h.Blocks) == 0 || h.Signature.Results().Len() != 1 || h.Recover != nil {
		return -1
	}
	idx := -1
	for _, r := range Returns(h) {
		p := c05ParamOf(r.Results[0])
		if p == nil || p.Parent() != h {
			return -1
		}
		for i, q := range h.Params {
			if q == p {
				if idx >= 0 && idx != i {
					return -1
				}
				idx = i
			}
		}
	}
	return idx
}

func c05AllocEscapes(a *ssa.Alloc) bool {
	for _, r := range *a.Referrers() {
		switch u := r.(type) {
		case *ssa.Store:
			if u.Val == ssa.Value(a) {
				return true
			}
		case *ssa.UnOp, *ssa.FieldAddr, *ssa.IndexAddr, *ssa.DebugRef:
		default:
			return true
		}
	}
	return false
}

// step executes one non-control instruction.
func (s *c05State) step(in ssa.Instruction) {
	switch u := in.(type) {
	case *ssa.UnOp:
		if u.Op != token.MUL {
			return
		}
		if g, ok := u.X.(*ssa.Global); ok {
			s.sym[u] = "g:" + short(g.Pkg.Pkg.Path()+"."+g.Name())
			return
		}
		ap := s.symOf(u.X)
		if m, ok := s.mem[ap]; ok {
			s.sym[u] = m.sym
			if m.val != nil {
				s.val[u] = m.val
			}
		} else {
			s.sym[u] = fmt.Sprintf("mem:%s@%d", ap, s.epoch)
		}
	case *ssa.Store:
		ap := s.symOf(u.Addr)
		s.mem[ap] = c05MemVal{sym: s.symOf(u.Val), val: s.resolve(u.Val)}
		// a store through a field address invalidates whole-struct knowledge and vice versa
		for k := range s.mem {
			if k != ap && (strings.HasPrefix(k, ap+".") || strings.HasPrefix(ap, k+".")) {
				delete(s.mem, k)
			}
		}
	case *ssa.MapUpdate:
		s.epoch++
	case ssa.CallInstruction:
		if _, isDefer := in.(*ssa.Defer); isDefer {
			return // runs at RunDefers
		}
		if b, ok := u.Common().Value.(*ssa.Builtin); ok {
			switch b.Name() {
			case "len", "cap", "min", "max":
				return
			}
		}
		if c05PureCall(u, 0) {
			return // computes a value, writes nothing: what is known about memory stays known
		}
		s.havoc()
	case *ssa.RunDefers:
		s.epoch++
		for k := range s.mem {
			delete(s.mem, k)
		}
	}
}

// havoc forgets everything a callee may have changed: all memory except
// local cells that never escape.
func (s *c05State) havoc() {
	s.epoch++
	for k := range s.mem {
		if strings.HasPrefix(k, "alloc!") {
			continue
		}
		delete(s.mem, k)
	}
}

const c05PathBudget = 20000

// c05EnumPaths enumerates the feasible acyclic paths of fn from entry to
// every Return (target == nil) or to the given target instruction.  ok=false
// when the budget is exceeded.
func c05EnumPaths(fn *ssa.Function, target ssa.Instruction) (paths []*c05Path, ok bool) {
	if len(fn.Blocks) == 0 {
		return nil, true
	}
	ok = true
	onPath := map[*ssa.BasicBlock]bool{}
	var blocks []*ssa.BasicBlock
	edges := []Edge{}
	conds := map[c05CondKey]int{}
	var walk func(b, pred *ssa.BasicBlock, st *c05State)
	finish := func(end ssa.Instruction, st *c05State) {
		if len(paths) >= c05PathBudget {
			ok = false
			return
		}
		p := &c05Path{Blocks: append([]*ssa.BasicBlock{}, blocks...), Edges: map[Edge]bool{}, End: end, st: st, Conds: map[c05CondKey]bool{}}
		for _, e := range edges {
			p.Edges[e] = true
		}
		for k, n := range conds {
			if n > 0 {
				p.Conds[k] = true
			}
		}
		paths = append(paths, p)
	}
	walk = func(b, pred *ssa.BasicBlock, st *c05State) {
		if !ok || onPath[b] {
			return
		}
		onPath[b] = true
		blocks = append(blocks, b)
		defer func() { onPath[b] = false; blocks = blocks[:len(blocks)-1] }()
		// phis first (parallel assignment)
		type pa struct {
			phi *ssa.Phi
			sym string
			val ssa.Value
		}
		var pas []pa
		for _, in := range b.Instrs {
			phi, isPhi := in.(*ssa.Phi)
			if !isPhi {
				break
			}
			for i, p := range b.Preds {
				if p == pred {
					pas = append(pas, pa{phi, st.symOf(phi.Edges[i]), st.resolve(phi.Edges[i])})
					break
				}
			}
		}
		for _, x := range pas {
			st.sym[x.phi] = x.sym
			st.val[x.phi] = x.val
		}
		for _, in := range b.Instrs {
			if in == target {
				finish(in, st)
				return
			}
			switch u := in.(type) {
			case *ssa.Phi:
				continue
			case *ssa.Return:
				if target == nil {
					finish(u, st)
				}
				return
			case *ssa.Panic:
				return
			case *ssa.If:
				// the condition as it is on this path: a phi of `&&` / `||` denotes the operand selected by the edge taken
				rc := st.resolve(u.Cond)
				key, pol := st.condKey(rc)
				for i, succ := range b.Succs {
					want := pol
					if i == 1 {
						want = !pol
					}
					if b.Succs[0] == b.Succs[1] {
						if i == 1 {
							continue
						}
					} else if k, isK := rc.(*ssa.Const); isK && k.Value != nil && k.Value.Kind() == constant.Bool {
						if constant.BoolVal(k.Value) != (i == 0) {
							continue // decided by the constant operand of the short-circuit
						}
					} else if have, known := st.facts[key]; known && have != want {
						continue // contradicts an earlier branch on this path
					}
					ns := st.clone()
					if b.Succs[0] != b.Succs[1] {
						ns.facts[key] = want
					}
					edges = append(edges, Edge{b, succ})
					var ck c05CondKey
					if rc != u.Cond {
						// the outcome of the underlying condition, so that labels attached to its own If edges apply
						cv, cp := c05StripNot(rc)
						ck = c05CondKey{cv, cp == (i == 0)}
						conds[ck]++
					}
					walk(succ, b, ns)
					if ck.v != nil {
						conds[ck]--
					}
					edges = edges[:len(edges)-1]
				}
				return
			case *ssa.Jump:
				edges = append(edges, Edge{b, b.Succs[0]})
				walk(b.Succs[0], b, st)
				edges = edges[:len(edges)-1]
				return
			default:
				st.step(in)
			}
		}
	}
	walk(fn.Blocks[0], nil, &c05State{facts: map[string]bool{}, mem: map[string]c05MemVal{}, sym: map[ssa.Value]string{}, val: map[ssa.Value]ssa.Value{}})
	return paths, ok
}

// took reports whether the path takes one of the edges.
func (p *c05Path) took(es []Edge) bool {
	for _, e := range es {
		if p.Edges[e] {
			return true
		}
		if k, isPseudo := c05PseudoOf[e.To]; isPseudo {
			if p.Conds[k] {
				return true
			}
			continue
		}
		// the same condition decided through a short-circuit phi elsewhere on the path
		if e.From == nil {
			continue
		}
		if n := len(e.From.Instrs); n > 0 && len(p.Conds) > 0 {
			if ifi, ok := e.From.Instrs[n-1].(*ssa.If); ok && len(e.From.Succs) == 2 && e.From.Succs[0] != e.From.Succs[1] {
				cv, cp := c05StripNot(ifi.Cond)
				if p.Conds[c05CondKey{cv, cp == (e.To == e.From.Succs[0])}] {
					return true
				}
			}
		}
	}
	return false
}

// c05CondSite: a place where a boolean condition is decided: an If (T and F
// are its edges, swapped under negation), or an operand of a short-circuit
// phi (`a && b`), for which T and F are pseudo-edges that no CFG walk ever
// takes but that the path interpreter recognises (c05Path.took) when the phi
// selects that operand and the branch on the phi decides it.
type c05CondSite struct {
	Cond ssa.Value
	T, F Edge
}

var c05Pseudo = map[c05CondKey]*ssa.BasicBlock{}
var c05PseudoOf = map[*ssa.BasicBlock]c05CondKey{}

func c05PseudoEdge(v ssa.Value, truth bool) Edge {
	k := c05CondKey{v, truth}
	b := c05Pseudo[k]
	if b == nil {
		b = &ssa.BasicBlock{Comment: "pseudo"}
		c05Pseudo[k] = b
		c05PseudoOf[b] = k
	}
	in, _ := v.(ssa.Instruction)
	var from *ssa.BasicBlock
	if in != nil {
		from = in.Block()
	}
	return Edge{from, b}
}

func c05CondSites(fn *ssa.Function, pseudo bool) []c05CondSite {
	var out []c05CondSite
	direct := map[ssa.Value]bool{}
	for _, i := range Ifs(fn) {
		cond, t, f := ifEdges(i)
		direct[cond] = true
		out = append(out, c05CondSite{cond, t, f})
	}
	if !pseudo {
		return out
	}
	seen := map[ssa.Value]bool{}
	AllInstrs(fn, func(in ssa.Instruction) {
		phi, ok := in.(*ssa.Phi)
		if !ok {
			return
		}
		if b, isB := phi.Type().Underlying().(*types.Basic); !isB || b.Info()&types.IsBoolean == 0 {
			return
		}
		for _, e := range phi.Edges {
			cv, pol := c05StripNot(e)
			switch cv.(type) {
			case *ssa.Const, *ssa.Phi:
				continue
			}
			if direct[cv] || seen[cv] {
				continue
			}
			if _, isInstr := cv.(ssa.Instruction); !isInstr {
				continue
			}
			seen[cv] = true
			_ = pol // the site's condition is the stripped value: T is the pseudo-edge on which cv holds
			out = append(out, c05CondSite{cv, c05PseudoEdge(cv, true), c05PseudoEdge(cv, false)})
		}
	})
	return out
}

// c05CondKey: condition value v evaluated to `truth` on the path.
type c05CondKey struct {
	v     ssa.Value
	truth bool
}

// c05StripNot removes negations: the underlying condition and whether the given value has its polarity.
func c05StripNot(v ssa.Value) (ssa.Value, bool) {
	pol := true
	for {
		u, ok := v.(*ssa.UnOp)
		if !ok || u.Op != token.NOT {
			return v, pol
		}
		v, pol = u.X, !pol
	}
}

func (p *c05Path) String() string {
	var s []string
	for _, b := range p.Blocks {
		s = append(s, fmt.Sprint("b", b.Index))
	}
	return strings.Join(s, ">")
}

// ---------- static condition labelling ----------

// c05LoadPath renders the access path of a value that is a chain of loads
// from a parameter: `vr.base.N` -> "P:vr.base*.N*".
func c05LoadPath(v ssa.Value) string {
	v = strip(v)
	if u, ok := v.(*ssa.UnOp); ok && u.Op == token.MUL {
		return accessPath(u.X) + "*"
	}
	return accessPath(v)
}

// c05CmpEdges returns the edges of fn on which a comparison `x OP k` between a
// value satisfying isX and a value satisfying isK is known to hold (rel is
// one of "==", "!=", "<=0" (x not positive, k must be 0/1 const handled by caller)).
func c05EqEdges(fn *ssa.Function, isA, isB func(v ssa.Value) bool) (eq, ne []Edge) {
	return c05EqEdgesP(fn, isA, isB, false)
}

// c05EqEdgesP: with pseudo, operands of short-circuit phis are labelled too
// (pseudo-edges, meaningful to the path interpreter only: c05Path.took).
func c05EqEdgesP(fn *ssa.Function, isA, isB func(v ssa.Value) bool, pseudo bool) (eq, ne []Edge) {
	for _, cs := range c05CondSites(fn, pseudo) {
		cond, t, f := cs.Cond, cs.T, cs.F
		switch c := cond.(type) {
		case *ssa.BinOp:
			if c.Op != token.EQL && c.Op != token.NEQ {
				continue
			}
			if !(isA(c.X) && isB(c.Y)) && !(isA(c.Y) && isB(c.X)) {
				continue
			}
			if c.Op == token.EQL {
				eq, ne = append(eq, t), append(ne, f)
			} else {
				eq, ne = append(eq, f), append(ne, t)
			}
		case *ssa.Call:
			if CalleeName(c) == "errors.Is" && len(c.Call.Args) == 2 && isA(c.Call.Args[0]) && isB(c.Call.Args[1]) {
				eq, ne = append(eq, t), append(ne, f)
				continue
			}
			// a boolean helper that merely wraps the comparison: func isEOF(err error) bool { return err == io.EOF }
			if x, y, neg, ok := c05BoolHelperCmp(c); ok && ((isA(x) && isB(y)) || (isA(y) && isB(x))) {
				if neg {
					eq, ne = append(eq, f), append(ne, t)
				} else {
					eq, ne = append(eq, t), append(ne, f)
				}
			}
		}
	}
	return
}

// c05BoolHelperCmp: call is to an in-module helper whose body is a single
// `return a == b` / `a != b` / `errors.Is(a, b)`; x and y are the compared
// values with the helper's parameters replaced by the call's arguments.
func c05BoolHelperCmp(call *ssa.Call) (x, y ssa.Value, negated, ok bool) {
	h := StaticCallee(call)
	if h == nil || !inModule(h) || len(h.Blocks) != 1 || h.Signature.Results().Len() != 1 {
		return
	}
	rets := Returns(h)
	if len(rets) != 1 {
		return
	}
	subst := func(v ssa.Value) ssa.Value {
		if p, isP := strip(v).(*ssa.Parameter); isP {
			for i, q := range h.Params {
				if q == p && i < len(call.Call.Args) {
					return call.Call.Args[i]
				}
			}
		}
		return v
	}
	switch r := rets[0].Results[0].(type) {
	case *ssa.BinOp:
		if r.Op != token.EQL && r.Op != token.NEQ {
			return
		}
		return subst(r.X), subst(r.Y), r.Op == token.NEQ, true
	case *ssa.Call:
		if CalleeName(r) == "errors.Is" && len(r.Call.Args) == 2 {
			return subst(r.Call.Args[0]), subst(r.Call.Args[1]), false, true
		}
	}
	return
}

// c05NotPositiveEdges: edges on which integer x (isX) is known <= 0, and
// edges on which it is known > 0.
func c05NotPositiveEdges(fn *ssa.Function, isX func(v ssa.Value) bool) (le0, gt0 []Edge) {
	return c05NotPositiveEdgesP(fn, isX, false)
}

func c05NotPositiveEdgesP(fn *ssa.Function, isX func(v ssa.Value) bool, pseudo bool) (le0, gt0 []Edge) {
	for _, cs := range c05CondSites(fn, pseudo) {
		cond, t, f := cs.Cond, cs.T, cs.F
		bo, ok := cond.(*ssa.BinOp)
		if !ok {
			continue
		}
		op := bo.Op
		x, k := bo.X, bo.Y
		if !isX(x) {
			if !isX(bo.Y) {
				continue
			}
			// k OP x  ->  x OP' k
			x, k = bo.Y, bo.X
			switch op {
			case token.LSS:
				op = token.GTR
			case token.GTR:
				op = token.LSS
			case token.LEQ:
				op = token.GEQ
			case token.GEQ:
				op = token.LEQ
			}
		}
		n, isConst := constInt(k)
		if !isConst {
			continue
		}
		switch {
		case op == token.GTR && n == 0, op == token.GEQ && n == 1: // x > 0
			gt0, le0 = append(gt0, t), append(le0, f)
		case op == token.LEQ && n == 0, op == token.LSS && n == 1: // x <= 0
			le0, gt0 = append(le0, t), append(gt0, f)
		case op == token.EQL && n == 0: // x == 0 implies not positive; the other edge says nothing
			le0 = append(le0, t)
		case op == token.NEQ && n == 0:
			le0 = append(le0, f)
		}
	}
	return
}

// c05IsGlobalLoad: v is a load of package-level variable pkg.name (short form "io.EOF").
func c05IsGlobalLoad(v ssa.Value, name string) bool {
	for _, r := range Roots(v) {
		u, ok := r.(*ssa.UnOp)
		if !ok || u.Op != token.MUL {
			return false
		}
		g, ok := u.X.(*ssa.Global)
		if !ok || short(g.Pkg.Pkg.Path()+"."+g.Name()) != name {
			return false
		}
	}
	return true
}

// ---------- provenance ----------

// c05ParamOf resolves v to the function parameter it is a copy of: the
// parameter itself, a load of a local that is only ever assigned the
// parameter (struct parameters are spilled to a local so their fields can be
// addressed), or — inside a closure — a load of a captured such local.
func c05ParamOf(v ssa.Value) *ssa.Parameter {
	for depth := 0; depth < 6; depth++ {
		v = strip(v)
		switch u := v.(type) {
		case *ssa.Parameter:
			return u
		case *ssa.UnOp:
			if u.Op != token.MUL {
				return nil
			}
			switch a := u.X.(type) {
			case *ssa.Alloc:
				p := c05SingleStoredValue(a)
				if p == nil {
					return nil
				}
				v = p
				continue
			case *ssa.FreeVar:
				bs := freeVarBindings(a)
				if len(bs) != 1 {
					return nil
				}
				al, ok := bs[0].(*ssa.Alloc)
				if !ok {
					return nil
				}
				if freeVarWritten(a.Parent(), a) {
					return nil
				}
				p := c05SingleStoredValue(al)
				if p == nil {
					return nil
				}
				v = p
				continue
			}
			return nil
		default:
			return nil
		}
	}
	return nil
}

// c05SingleStoredValue: the only value ever stored into local a (whole-value
// stores in the declaring function, no store through a field address, no
// writing closure); nil otherwise.
func c05SingleStoredValue(a *ssa.Alloc) ssa.Value {
	var val ssa.Value
	n := 0
	for _, r := range *a.Referrers() {
		switch u := r.(type) {
		case *ssa.Store:
			if u.Addr == ssa.Value(a) {
				val = u.Val
				n++
			}
		case *ssa.FieldAddr:
			for _, r2 := range *u.Referrers() {
				if s, ok := r2.(*ssa.Store); ok && s.Addr == ssa.Value(u) {
					return nil
				}
			}
		case *ssa.MakeClosure:
			f := u.Fn.(*ssa.Function)
			for i, b := range u.Bindings {
				if b == ssa.Value(a) && freeVarWritten(f, f.FreeVars[i]) {
					return nil
				}
			}
		}
	}
	if n != 1 {
		return nil
	}
	return val
}

// c05FieldOfParam: v is a load of field `field` of (a copy of) parameter p.
func c05FieldOfParam(v ssa.Value, field string) *ssa.Parameter {
	for _, r := range Roots(v) {
		r = strip(r)
		switch u := r.(type) {
		case *ssa.UnOp:
			fa, ok := u.X.(*ssa.FieldAddr)
			if !ok || u.Op != token.MUL || c05FieldNameOf(fa.X.Type(), fa.Field) != field {
				return nil
			}
			switch b := fa.X.(type) {
			case *ssa.Alloc:
				if p, ok := c05SingleStoredValue(b).(*ssa.Parameter); ok {
					return p
				}
				if sv := c05SingleStoredValue(b); sv != nil {
					return c05ParamOf(sv)
				}
			case *ssa.Parameter:
				return b
			case *ssa.FreeVar:
				return c05ParamOf(&ssa.UnOp{Op: token.MUL, X: b})
			}
			return nil
		case *ssa.Field:
			if c05FieldNameOf(u.X.Type(), u.Field) != field {
				return nil
			}
			return c05ParamOf(u.X)
		default:
			return nil
		}
	}
	return nil
}

// c05IsFieldAddrOf: v is &recv.field for a receiver/param of named type typeName.
func c05IsFieldAddrOf(v ssa.Value, typeName, field string) bool {
	fa, ok := v.(*ssa.FieldAddr)
	if !ok {
		return false
	}
	return fieldName(fa.X.Type(), fa.Field) == typeName+"."+field
}

// c05FieldAddrUses lists, over the given functions, every instruction that
// uses the address of field typeName.field (loads, stores, calls taking it).
type c05FieldUse struct {
	Fn   *ssa.Function
	Addr *ssa.FieldAddr
	Use  ssa.Instruction
}

func c05FieldUses(fns []*ssa.Function, typeName, field string) []c05FieldUse {
	var out []c05FieldUse
	for _, f := range fns {
		AllInstrs(f, func(in ssa.Instruction) {
			fa, ok := in.(*ssa.FieldAddr)
			if !ok || !c05IsFieldAddrOf(fa, typeName, field) {
				return
			}
			for _, r := range *fa.Referrers() {
				if _, isDbg := r.(*ssa.DebugRef); isDbg {
					continue
				}
				out = append(out, c05FieldUse{f, fa, r})
			}
		})
	}
	return out
}

// c05FieldWrite: a write of Val into the field at instruction At (a Store, or
// a call of a setter helper that does nothing to the field but that).
type c05FieldWrite struct {
	At  ssa.Instruction
	Val ssa.Value
}

// c05Setter: h stores into <typeName>.field only its own parameter #val, and
// only through its own parameter #own (`func (vr *T) fail(err error) error {
// vr.err = err; return err }`).
func c05Setter(h *ssa.Function, typeName, field string) (own, val int, ok bool) {
	own, val = -1, -1
	n := 0
	for _, u := range c05FieldUses([]*ssa.Function{h}, typeName, field) {
		st, isStore := u.Use.(*ssa.Store)
		if !isStore || st.Addr != ssa.Value(u.Addr) {
			continue
		}
		n++
		o, isP := strip(u.Addr.X).(*ssa.Parameter)
		v := c05ParamOf(st.Val)
		if !isP || v == nil || v.Parent() != h || o.Parent() != h {
			return -1, -1, false
		}
		for i, q := range h.Params {
			if q == o {
				if own >= 0 && own != i {
					return -1, -1, false
				}
				own = i
			}
			if q == v {
				if val >= 0 && val != i {
					return -1, -1, false
				}
				val = i
			}
		}
	}
	return own, val, n > 0 && own >= 0 && val >= 0
}

// c05FieldWrites: the writes of fn into <typeName>.field: its own stores and
// its calls of same-package setter helpers.
func c05FieldWrites(fn *ssa.Function, typeName, field string) []c05FieldWrite {
	var out []c05FieldWrite
	for _, u := range c05FieldUses([]*ssa.Function{fn}, typeName, field) {
		if st, isStore := u.Use.(*ssa.Store); isStore && st.Addr == ssa.Value(u.Addr) {
			out = append(out, c05FieldWrite{st, st.Val})
		}
	}
	for _, call := range Calls(fn, func(string) bool { return true }) {
		h := c05Helper(call, fn)
		if h == nil {
			continue
		}
		if _, v, ok := c05Setter(h, typeName, field); ok && v < len(call.Common().Args) {
			out = append(out, c05FieldWrite{call.(ssa.Instruction), call.Common().Args[v]})
		}
	}
	return out
}

// c05NilEdgesOf: the edges on which the error result of call is nil.
func c05NilEdgesOf(call ssa.CallInstruction) []Edge {
	e := ErrOf(call)
	if e == nil {
		return nil
	}
	ne, _, _ := NilTests(call.Parent(), Aliases(e))
	return ne
}

// c05DeferKeepsError: deferred closures of fn that write the named error
// result may only (a) store a value known non-nil or (b) store under the
// condition that the result is currently nil.  Returns "" when fine.
func c05DeferKeepsError(fn *ssa.Function) string {
	idx := ErrResultIndex(fn.Signature)
	if idx < 0 {
		return ""
	}
	cells := map[*ssa.Alloc]bool{}
	for _, r := range Returns(fn) {
		if idx < len(r.Results) {
			if a := cellOf(r.Results[idx]); a != nil {
				cells[a] = true
			}
		}
	}
	// checkHandle: `h` is a pointer to the error result inside function g (a
	// captured free variable or a *error parameter).
	var checkHandle func(g *ssa.Function, h ssa.Value, depth int) string
	checkHandle = func(g *ssa.Function, h ssa.Value, depth int) string {
		if depth > 3 {
			return FnName(g) + ": the error result is passed on too deeply"
		}
		loads := map[ssa.Value]bool{}
		var stores []*ssa.Store
		for _, r := range *h.Referrers() {
			switch u := r.(type) {
			case *ssa.UnOp:
				loads[u] = true
			case *ssa.Store:
				if u.Addr == h {
					stores = append(stores, u)
				} else {
					return FnName(g) + " stores the address of the error result"
				}
			case *ssa.DebugRef:
			case *ssa.MakeClosure:
				f := u.Fn.(*ssa.Function)
				for i, bnd := range u.Bindings {
					if bnd == h {
						if why := checkHandle(f, f.FreeVars[i], depth+1); why != "" {
							return why
						}
					}
				}
			case ssa.CallInstruction:
				callee := StaticCallee(u)
				if callee == nil || !inModule(callee) || len(callee.Blocks) == 0 {
					return fmt.Sprintf("%s hands the address of the error result to %s: cannot show the error is preserved", FnName(g), CalleeName(u))
				}
				for i, a := range u.Common().Args {
					if a == h && i < len(callee.Params) {
						if why := checkHandle(callee, callee.Params[i], depth+1); why != "" {
							return why
						}
					}
				}
			default:
				return fmt.Sprintf("%s passes the error result cell on (%T)", FnName(g), r)
			}
		}
		if g == fn {
			return "" // stores in the function itself are return-value assignments, covered by the return atoms
		}
		nilE, _, _ := NilTests(g, loads)
		for _, s := range stores {
			if ErrNilStatus(s.Val, 0) == NonNil {
				continue
			}
			if len(nilE) > 0 && MustPass(s, newCut().Edges(nilE...)) {
				continue
			}
			if c05PreservesNonNil(s.Val, loads) {
				continue // `err = finish(f, err)`: the helper hands a non-nil argument back (or another non-nil error)
			}
			return fmt.Sprintf("%s overwrites the error result with a possibly-nil value while it may be non-nil (a failed verification is reported as success)", FnName(g))
		}
		return ""
	}
	for a := range cells {
		if why := checkHandle(fn, a, 0); why != "" {
			return why
		}
	}
	return ""
}

// c05MaybeNilAtoms lists the return atoms of fn's error result that may be
// nil: not known non-nil by construction, and not returned on the non-nil side
// of their own nil test (`if err != nil { return err }`).
func c05MaybeNilAtoms(fn *ssa.Function) []RetAtom {
	idx := ErrResultIndex(fn.Signature)
	if idx < 0 {
		return nil
	}
	var out []RetAtom
	for _, a := range RetAtoms(fn, idx) {
		if ErrNilStatus(a.Val, 0) == NonNil {
			continue
		}
		if z, isZero := a.Val.(zeroMarker); isZero && c05YieldReturnNonNil(fn, z.UnOp, a.Ret) {
			continue // `return err` out of a range-over-func body, with err known non-nil there
		}
		if _, isConst := a.Val.(*ssa.Const); !isConst {
			if _, isZero := a.Val.(zeroMarker); !isZero {
				_, nonNilE, _ := NilTests(fn, Aliases(a.Val))
				if len(nonNilE) > 0 && c05AtomMustPass(a, newCut().Edges(nonNilE...)) {
					continue
				}
			}
		}
		out = append(out, a)
	}
	return out
}

func c05SortedKeys(m map[string]bool) []string {
	var o []string
	for k := range m {
		o = append(o, k)
	}
	sort.Strings(o)
	return o
}

// c05VariadicElems returns the values stored into the backing array of a
// variadic slice argument.
func c05VariadicElems(v ssa.Value) []ssa.Value {
	sl, ok := v.(*ssa.Slice)
	if !ok {
		return nil
	}
	a, ok := sl.X.(*ssa.Alloc)
	if !ok {
		return nil
	}
	type ie struct {
		i int64
		v ssa.Value
	}
	var elems []ie
	for _, r := range *a.Referrers() {
		ia, ok := r.(*ssa.IndexAddr)
		if !ok {
			continue
		}
		k, _ := constInt(ia.Index)
		for _, r2 := range *ia.Referrers() {
			if s, ok := r2.(*ssa.Store); ok && s.Addr == ssa.Value(ia) {
				elems = append(elems, ie{k, s.Val})
			}
		}
	}
	sort.Slice(elems, func(i, j int) bool { return elems[i].i < elems[j].i })
	var out []ssa.Value
	for _, e := range elems {
		out = append(out, e.v)
	}
	return out
}

// c05AtomMustPass works around ssau.AtomMustPass returning true for atoms whose
// anchor is the Return itself (a constant returned directly, no phi edge, no
// cell store): for those the question is simply whether the Return is
// reachable from entry avoiding the cut.
func c05AtomMustPass(a RetAtom, c *cut) bool {
	if len(a.Edges) == 0 && a.Store == nil {
		return !reach(a.Ret.Parent().Blocks[0], 0, a.Ret, c)
	}
	return AtomMustPass(a, c)
}

// ---------------------------------------------------------------- interprocedural helpers
//
// Rules are evaluated on an entry function (the "root") and on the unexported
// same-package helpers it calls statically (depth <= 3).  A c05Env is one node
// of that call tree; values are resolved towards the root through parameter
// passing, and "every path passes X" is decided with helper summaries: a call
// to a helper counts as passing X when every path through the helper passes X.

type c05Env struct {
	Fn     *ssa.Function
	Call   ssa.CallInstruction // the call in Parent.Fn that enters Fn; nil at the root and for closures
	Parent *c05Env
	Iter   *c05Iter // Fn is the body of this range-over-func traversal of Parent.Fn
	Wide   bool     // (root only) helpers of other in-module packages are entered too (set.AddTo-style generic helpers)
}

func c05Root(fn *ssa.Function) *c05Env { return &c05Env{Fn: fn} }

func (e *c05Env) isRoot() bool { return e.Parent == nil }

func (e *c05Env) root() *c05Env {
	for e.Parent != nil {
		e = e.Parent
	}
	return e
}

func (e *c05Env) depth() int {
	n := 0
	for x := e; x.Parent != nil; x = x.Parent {
		n++
	}
	return n
}

// helper: the function a call of e.Fn enters: a same-package function, or (below a Wide root) any in-module one.
func (e *c05Env) helper(call ssa.CallInstruction) *ssa.Function {
	if h := c05Helper(call, e.Fn); h != nil {
		return h
	}
	if !e.root().Wide {
		return nil
	}
	g := StaticCallee(call)
	if g == nil || g == e.Fn || len(g.Blocks) == 0 || !inModule(g) {
		return nil
	}
	return g
}

// c05Helper: the same-package function (with a body) a call enters statically.
func c05Helper(call ssa.CallInstruction, from *ssa.Function) *ssa.Function {
	g := StaticCallee(call)
	if g == nil || g == from || len(g.Blocks) == 0 || !inModule(g) || fnPkgPath(g) != fnPkgPath(from) {
		return nil
	}
	return g
}

// up resolves v towards the root: a parameter of a helper (or a local copy of
// it, or a variable captured from an enclosing function on the chain) is
// replaced by the argument at the call site.  It returns the value and the
// node in whose function it lives.
func (e *c05Env) up(v ssa.Value) (ssa.Value, *c05Env) {
	cur := e
	for i := 0; i < 16; i++ {
		// value identity through struct fields that merely carry a value: a load of x.F where x is a
		// struct literal built in this function or, for a method on a freshly built carrier struct,
		// in the caller (closure turned into a struct with methods)
		if nv, nat, ok := c05FieldCarry(v, cur); ok {
			v, cur = nv, nat
			continue
		}
		// a variable captured from an enclosing function on the chain that is assigned exactly once there
		if nv, nat, ok := c05CapturedValue(v, cur); ok {
			v, cur = nv, nat
			continue
		}
		w := c05Unspill(v)
		var p *ssa.Parameter
		if q, ok := w.(*ssa.Parameter); ok {
			p = q
		} else if q := c05ParamOf(v); q != nil {
			p = q
		}
		if p == nil {
			return w, cur
		}
		owner := cur
		for owner != nil && owner.Fn != p.Parent() {
			owner = owner.Parent
		}
		if owner == nil {
			return p, cur
		}
		// the element parameter of a range-over-func body fed by an in-module iterator: the value yielded
		if owner.Iter != nil && owner.Iter.Src != nil && owner.Iter.Src.Site != nil {
			idx := -1
			for k, q := range owner.Fn.Params {
				if q == p {
					idx = k
				}
			}
			args := owner.Iter.Src.Site.Common().Args
			if idx < 0 || idx >= len(args) {
				return p, owner
			}
			v, cur = args[idx], owner.Iter.Src.SiteAt
			continue
		}
		if owner.Parent == nil || owner.Call == nil {
			return p, owner
		}
		idx := -1
		for k, q := range owner.Fn.Params {
			if q == p {
				idx = k
			}
		}
		args := owner.Call.Common().Args
		if idx < 0 || idx >= len(args) {
			return p, owner
		}
		v, cur = args[idx], owner.Parent
	}
	return v, cur
}

// upParam: the root parameter v denotes, or nil.
func (e *c05Env) upParam(v ssa.Value) *ssa.Parameter {
	w, at := e.up(v)
	if p, ok := w.(*ssa.Parameter); ok && at.isRoot() {
		return p
	}
	if at.isRoot() {
		if p := c05ParamOf(w); p != nil && p.Parent() == at.Fn {
			return p
		}
	}
	return nil
}

// c05TreeEnvs lists the root and the helper nodes below it (closures included).
func c05TreeEnvs(root *c05Env, maxDepth int) []*c05Env {
	out := []*c05Env{root}
	var rec func(e *c05Env)
	rec = func(e *c05Env) {
		if e.depth() >= maxDepth {
			return
		}
		AllInstrs(e.Fn, func(in ssa.Instruction) {
			switch x := in.(type) {
			case ssa.CallInstruction:
				if h := e.helper(x); h != nil {
					onChain := false
					for a := e; a != nil; a = a.Parent {
						if a.Fn == h {
							onChain = true
						}
					}
					if !onChain {
						ch := &c05Env{Fn: h, Call: x, Parent: e}
						out = append(out, ch)
						rec(ch)
					}
				}
			case *ssa.MakeClosure:
				ch := &c05Env{Fn: x.Fn.(*ssa.Function), Parent: e}
				if ch.Fn.Synthetic == c05YieldSynthetic {
					// the body of a range-over-func statement: its parameters are the traversal's elements
					for _, it := range c05ItersIn(e) {
						if it.Y != nil && it.Y.Fn == ch.Fn {
							ch = it.Y
						}
					}
				}
				out = append(out, ch)
				rec(ch)
			}
		})
	}
	rec(root)
	return out
}

type c05PassSpec struct {
	Instr func(in ssa.Instruction, e *c05Env) bool
	Edges func(e *c05Env) []Edge
	// Success: the obligation is "every SUCCESSFUL path passes": a helper with
	// an error result counts when each of its possibly-nil-error returns
	// passes; at the call site only the err==nil edge of the helper's error
	// (or returning that error as is) counts as having passed.
	Success bool
	// Returned: an error value whose being returned as is means "passed or
	// failed" (e.g. the result of the verifying call itself).
	Returned func(v ssa.Value, e *c05Env) bool
}

// c05PassCut: the instructions/edges of e.Fn that count as "passing": direct
// matches and calls of helpers every path of which passes.
func c05PassCut(e *c05Env, sp c05PassSpec) *cut {
	ct, _ := c05PassCut2(e, sp)
	return ct
}

// c05PassCut2 additionally returns the error values whose being returned as
// they are means "passed or failed" (results of success-mode helpers).
func c05PassCut2(e *c05Env, sp c05PassSpec) (*cut, map[ssa.Value]bool) {
	ct := newCut()
	direct := map[ssa.Value]bool{}
	AllInstrs(e.Fn, func(in ssa.Instruction) {
		if sp.Instr != nil && sp.Instr(in, e) {
			ct.Instr(in)
			return
		}
		call, ok := in.(*ssa.Call)
		if !ok || e.depth() >= 3 {
			return
		}
		h := e.helper(call)
		if h == nil {
			return
		}
		for a := e; a != nil; a = a.Parent {
			if a.Fn == h {
				return
			}
		}
		child := &c05Env{Fn: h, Call: call, Parent: e}
		if sp.Success && ErrResultIndex(h.Signature) >= 0 {
			if c05SuccessPasses(child, sp) {
				if ev := ErrOf(call); ev != nil {
					al := Aliases(ev)
					ne, _, _ := NilTests(e.Fn, al)
					ct.Edges(ne...)
					for a := range al {
						direct[a] = true
					}
				}
			}
			return
		}
		if c05AlwaysPasses(child, sp) {
			ct.Instr(in)
		}
	})
	if sp.Edges != nil {
		ct.Edges(sp.Edges(e)...)
	}
	// a step table runs all its steps before the loop is left normally: when one of the steps passes, so does that exit
	if e.depth() < 3 {
		for _, t := range c05StepTables(e.Fn) {
			for _, s := range t.Steps {
				g := c05StepFn(s)
				if g == nil || g == e.Fn {
					continue
				}
				child := &c05Env{Fn: g, Parent: e}
				if (sp.Success && c05SuccessPasses(child, sp)) || (!sp.Success && c05AlwaysPasses(child, sp)) {
					ct.Edges(t.Done...)
					break
				}
			}
		}
	}
	return ct, direct
}

// c05AlwaysPasses: every path from the entry of e.Fn to a return passes.
func c05AlwaysPasses(e *c05Env, sp c05PassSpec) bool {
	ct := c05PassCut(e, sp)
	if len(ct.instrs) == 0 && len(ct.edges) == 0 {
		return false
	}
	n := 0
	for _, r := range Returns(e.Fn) {
		if !ReachableFromEntry(r) {
			continue
		}
		n++
		if reach(e.Fn.Blocks[0], 0, r, ct) {
			return false
		}
	}
	return n > 0
}

// c05SuccessPasses: every return of e.Fn whose error may be nil passes (or
// hands on the verdict of a helper for which that holds); deferred code cannot
// clear the error.
func c05SuccessPasses(e *c05Env, sp c05PassSpec) bool {
	if ErrResultIndex(e.Fn.Signature) < 0 {
		return c05AlwaysPasses(e, sp)
	}
	ct, direct := c05PassCut2(e, sp)
	if len(ct.instrs) == 0 && len(ct.edges) == 0 && len(direct) == 0 && sp.Returned == nil {
		return false
	}
	if c05DeferKeepsError(e.Fn) != "" {
		return false
	}
	for _, a := range c05MaybeNilAtoms(e.Fn) {
		if direct[a.Val] || direct[strip(a.Val)] {
			continue
		}
		if sp.Returned != nil && sp.Returned(a.Val, e) {
			continue
		}
		if !c05AtomMustPass(a, ct) {
			return false
		}
	}
	return true
}

func c05CutInstrs(ct *cut) []ssa.Instruction {
	var out []ssa.Instruction
	for in := range ct.instrs {
		out = append(out, in)
	}
	return out
}

// c05SamePlace: two values denote the same thing: identical after resolution,
// or loads of the same field path of a parameter (index.Manifests read twice).
func c05SamePlace(a, b ssa.Value) bool {
	if SameValue(a, b) {
		return true
	}
	pa, pb := c05LoadPath(a), c05LoadPath(b)
	return pa == pb && strings.HasPrefix(pa, "P:") && strings.HasSuffix(pa, "*")
}

// c05SliceLoop finds the loop of fn that visits every element of the slice
// satisfying isS, in any of the forms `for range s`, `for i := range s`,
// `for i := 0; i < len(s); i++`.  idx are the values that index the current
// element.
func c05SliceLoop(fn *ssa.Function, isS func(v ssa.Value) bool) (loop *Loop, idx map[ssa.Value]bool, body Edge) {
	for _, l := range Loops(fn) {
		if lp, i, b := c05SliceLoopL(l, isS); lp != nil {
			return lp, i, b
		}
	}
	return nil, nil, Edge{}
}

func c05SliceLoopL(l *Loop, isS func(v ssa.Value) bool) (loop *Loop, idx map[ssa.Value]bool, body Edge) {
	for once := true; once; once = false {
		if r, i, b, _, ok := l.RangeIndex(); ok && isS(r) {
			return l, map[ssa.Value]bool{i: true}, b
		}
		h := l.Header
		if len(h.Instrs) == 0 {
			continue
		}
		ifi, isIf := h.Instrs[len(h.Instrs)-1].(*ssa.If)
		if !isIf {
			continue
		}
		cond, t, _ := ifEdges(ifi)
		bo, isBin := cond.(*ssa.BinOp)
		if !isBin {
			continue
		}
		x, bound := bo.X, bo.Y
		switch bo.Op {
		case token.LSS:
		case token.GTR:
			x, bound = bo.Y, bo.X
		default:
			continue
		}
		ln, isLen := bound.(*ssa.Call)
		if !isLen || CalleeName(ln) != "builtin:len" || !isS(ln.Call.Args[0]) {
			continue
		}
		phi, isPhi := x.(*ssa.Phi)
		if !isPhi || phi.Block() != h || len(phi.Edges) != 2 {
			continue
		}
		okInit, okStep := false, false
		for _, ev := range phi.Edges {
			if k, isK := constInt(ev); isK && k == 0 {
				okInit = true
			}
			if inc, isInc := ev.(*ssa.BinOp); isInc && inc.Op == token.ADD && inc.X == ssa.Value(phi) {
				if k, isK := constInt(inc.Y); isK && k == 1 {
					okStep = true
				}
			}
		}
		if okInit && okStep && l.Blocks[t.To] {
			return l, map[ssa.Value]bool{phi: true}, t
		}
	}
	// range-over-int (`for i := range len(s)`), which go/ssa lowers to a rotated loop: the guard `0 < len(s)` before the
	// loop, the induction phi in the header (which is the body), and `i+1 < len(s)` at the bottom
	h := l.Header
	for _, in := range h.Instrs {
		phi, isPhi := in.(*ssa.Phi)
		if !isPhi {
			break
		}
		if len(phi.Edges) != 2 {
			continue
		}
		var inc *ssa.BinOp
		var pre *ssa.BasicBlock
		for k, ev := range phi.Edges {
			if c, isK := constInt(ev); isK && c == 0 {
				pre = h.Preds[k]
			}
			if b, isB := ev.(*ssa.BinOp); isB && b.Op == token.ADD && b.X == ssa.Value(phi) {
				if c, isK := constInt(b.Y); isK && c == 1 {
					inc = b
				}
			}
		}
		if inc == nil || pre == nil {
			continue
		}
		check := func(b *ssa.BasicBlock, x ssa.Value) bool {
			if len(b.Instrs) == 0 || len(b.Succs) != 2 || b.Succs[0] != h {
				return false
			}
			ifi, ok := b.Instrs[len(b.Instrs)-1].(*ssa.If)
			if !ok {
				return false
			}
			bo, ok := ifi.Cond.(*ssa.BinOp)
			if !ok || bo.Op != token.LSS {
				return false
			}
			if x == nil {
				if c, isK := constInt(bo.X); !isK || c != 0 {
					return false
				}
			} else if bo.X != x {
				return false
			}
			ln, ok := bo.Y.(*ssa.Call)
			return ok && CalleeName(ln) == "builtin:len" && isS(ln.Call.Args[0])
		}
		latch := len(l.Backs) > 0
		for _, bk := range l.Backs {
			if !check(bk.From, inc) {
				latch = false
			}
		}
		if latch && check(pre, nil) {
			return l, map[ssa.Value]bool{phi: true}, Edge{pre, h}
		}
	}
	return nil, nil, Edge{}
}

// ---------------------------------------------------------------- verified-copy calls

// c05Copy is a call whose nil error means "src was copied into dst and
// verified against desc": ioutil.CopyBuffer itself, or a same-package helper
// whose every possibly-nil-error return lies behind such a call and which
// passes its own parameters as dst/src/desc.
type c05Copy struct {
	Call           ssa.CallInstruction
	Dst, Src, Desc ssa.Value // values in the calling function
}

func c05CopyCalls(fn *ssa.Function) []c05Copy { return c05CopyCallsE(c05Root(fn)) }

func c05CopyCallsE(e *c05Env) []c05Copy {
	var out []c05Copy
	for _, call := range Calls(e.Fn, func(string) bool { return true }) {
		if _, isDefer := call.(*ssa.Defer); isDefer {
			continue
		}
		if CalleeName(call) == "~/internal/ioutil.CopyBuffer" {
			a := call.Common().Args
			out = append(out, c05Copy{call, a[0], a[1], a[3]})
			continue
		}
		h := c05Helper(call, e.Fn)
		if h == nil || ErrResultIndex(h.Signature) < 0 || e.depth() >= 3 {
			continue
		}
		onChain := false
		for a := e; a != nil; a = a.Parent {
			if a.Fn == h {
				onChain = true
			}
		}
		if onChain {
			continue
		}
		child := &c05Env{Fn: h, Call: call, Parent: e}
		sub := c05CopyCallsE(child)
		if len(sub) == 0 {
			continue
		}
		subRes := map[ssa.Value]bool{}
		var nilE []Edge
		for _, sc := range sub {
			nilE = append(nilE, c05NilEdgesOf(sc.Call)...)
			if v := sc.Call.Value(); v != nil {
				for a := range Aliases(v) {
					subRes[a] = true
				}
			}
		}
		okSum := c05DeferKeepsError(h) == ""
		for _, a := range c05MaybeNilAtoms(h) {
			if subRes[a.Val] || subRes[strip(a.Val)] {
				continue
			}
			if !c05AtomMustPass(a, newCut().Edges(nilE...)) {
				okSum = false
			}
		}
		if !okSum {
			continue
		}
		// every inner copy must be about the helper's own parameters
		var cp *c05Copy
		okMap := true
		for _, sc := range sub {
			d, dat := child.up(strip(sc.Dst))
			sr, sat := child.up(strip(sc.Src))
			ds, sdt := child.up(sc.Desc)
			if dat != e || sat != e || sdt != e {
				okMap = false
				break
			}
			cp = &c05Copy{call, d, sr, ds}
		}
		if okMap && cp != nil {
			out = append(out, *cp)
		}
	}
	return out
}

var c05PureStd = map[string]bool{"errors.Is": true, "os.IsNotExist": true, "os.IsExist": true, "strings.HasPrefix": true, "strings.HasSuffix": true, "strings.Contains": true}

// c05PureCall: the call only computes a value: a known side-effect free
// library function, or an in-module function whose body contains no store,
// map update, send, go/defer and only pure calls.
func c05PureCall(call ssa.CallInstruction, depth int) bool {
	if call.Common().IsInvoke() {
		return false
	}
	if c05PureStd[CalleeName(call)] {
		return true
	}
	h := StaticCallee(call)
	if h == nil || !inModule(h) || len(h.Blocks) == 0 || depth > 2 {
		return false
	}
	pure := true
	AllInstrs(h, func(in ssa.Instruction) {
		switch x := in.(type) {
		case *ssa.Store, *ssa.MapUpdate, *ssa.Send, *ssa.Go, *ssa.Defer, *ssa.RunDefers, *ssa.Panic, *ssa.Select:
			pure = false
		case *ssa.Call:
			if b, ok := x.Call.Value.(*ssa.Builtin); ok {
				switch b.Name() {
				case "len", "cap", "min", "max":
					return
				}
			}
			if !c05PureCall(x, depth+1) {
				pure = false
			}
		}
	})
	return pure
}

// ---------------------------------------------------------------- boolean facts through helpers

// c05BoolFact describes where a boolean fact is decided directly inside a
// function: the edges on which it is known true / false, and the values that
// ARE the fact (e.g. the `loaded` result of LoadOrStore).
type c05BoolFact func(g *ssa.Function) (te, fe []Edge, isVal func(v ssa.Value) bool)

// c05BoolEdges returns the edges of fn on which the fact is true / false:
// the direct ones, plus those implied by testing a boolean result of a
// same-package helper whose value determines the fact (`return !loaded`,
// `return ok`, `if loaded { return false }; return true`, …).
func c05BoolEdges(fn *ssa.Function, direct c05BoolFact, depth int) (te, fe []Edge) {
	te, fe, _ = direct(fn)
	if depth >= 3 {
		return
	}
	for _, call := range Calls(fn, func(string) bool { return true }) {
		if _, isDefer := call.(*ssa.Defer); isDefer {
			continue
		}
		h := c05Helper(call, fn)
		if h == nil {
			continue
		}
		hte, hfe := c05BoolEdges(h, direct, depth+1)
		_, _, isVal := direct(h)
		for k := 0; k < h.Signature.Results().Len(); k++ {
			if !types.Identical(h.Signature.Results().At(k).Type(), types.Typ[types.Bool]) {
				continue
			}
			atoms := RetAtoms(h, k)
			if len(atoms) == 0 {
				continue
			}
			tT, tF, fT, fF := true, true, true, true // r true => fact true / false; r false => fact true / false
			for _, a := range atoms {
				pT := len(hte) > 0 && c05AtomMustPass(a, newCut().Edges(hte...))
				pF := len(hfe) > 0 && c05AtomMustPass(a, newCut().Edges(hfe...))
				v := a.Val
				neg := false
				if u, isNot := v.(*ssa.UnOp); isNot && u.Op == token.NOT {
					v, neg = u.X, true
				}
				switch k := v.(type) {
				case *ssa.Const:
					isTrue := (k.Value != nil && k.Value.String() == "true") != neg
					if isTrue {
						tT, tF = tT && pT, tF && pF
					} else {
						fT, fF = fT && pT, fF && pF
					}
				default:
					if isVal != nil && isVal(v) {
						if !neg { // r is the fact
							tF, fT = tF && pF, fT && pT
						} else { // r is its negation
							tT, fF = tT && pT, fF && pF
						}
						continue
					}
					tT, tF, fT, fF = tT && pT, tF && pF, fT && pT, fF && pF
				}
			}
			rk := ResultOf(call, k)
			if rk == nil {
				continue
			}
			cte, cfe := BoolTests(fn, Aliases(rk))
			if tT {
				te = append(te, cte...)
			}
			if fT {
				te = append(te, cfe...)
			}
			if tF {
				fe = append(fe, cte...)
			}
			if fF {
				fe = append(fe, cfe...)
			}
		}
	}
	return
}

// c05EmptyStrEdges returns the edges of fn on which the string satisfying isX
// is known empty / non-empty, in every spelling: x == "", "" == x, x != "",
// len(x) == 0, len(x) != 0, len(x) > 0, len(x) >= 1, len(x) < 1, len(x) <= 0,
// the mirrored forms (0 == len(x), 0 < len(x), …), negations (`!`), and a
// one-line boolean helper wrapping such a comparison.
func c05EmptyStrEdges(fn *ssa.Function, isX func(v ssa.Value) bool) (empty, nonEmpty []Edge) {
	isEmptyConst := func(v ssa.Value) bool { s, ok := constString(v); return ok && s == "" }
	eq, ne := c05EqEdges(fn, isX, isEmptyConst)
	empty, nonEmpty = append(empty, eq...), append(nonEmpty, ne...)
	isLen := func(v ssa.Value) bool {
		call, ok := strip(v).(*ssa.Call)
		return ok && CalleeName(call) == "builtin:len" && len(call.Call.Args) == 1 && isX(call.Call.Args[0])
	}
	for _, cs := range c05CondSites(fn, false) {
		cond, t, f := cs.Cond, cs.T, cs.F
		bo, ok := cond.(*ssa.BinOp)
		if !ok {
			continue
		}
		op, x, k := bo.Op, bo.X, bo.Y
		if !isLen(x) {
			if !isLen(bo.Y) {
				continue
			}
			x, k = bo.Y, bo.X // k OP len  ->  len OP' k
			switch op {
			case token.LSS:
				op = token.GTR
			case token.GTR:
				op = token.LSS
			case token.LEQ:
				op = token.GEQ
			case token.GEQ:
				op = token.LEQ
			}
		}
		_ = x
		n, isConst := constInt(k)
		if !isConst {
			continue
		}
		// a length is never negative: len == 0 <=> len <= 0 <=> len < 1; len != 0 <=> len > 0 <=> len >= 1
		switch {
		case op == token.EQL && n == 0, op == token.LEQ && n == 0, op == token.LSS && n == 1:
			empty, nonEmpty = append(empty, t), append(nonEmpty, f)
		case op == token.NEQ && n == 0, op == token.GTR && n == 0, op == token.GEQ && n == 1:
			empty, nonEmpty = append(empty, f), append(nonEmpty, t)
		}
	}
	return
}

// ---------------------------------------------------------------- fact-aware reachability

// c05Facts: what is known about SSA values on the path walked so far (SSA
// values are immutable, so a test's outcome stays valid until a back edge
// re-executes the definitions).
type c05Facts struct {
	isNil  map[ssa.Value]bool
	isTrue map[ssa.Value]bool
}

func c05NewFacts() *c05Facts {
	return &c05Facts{isNil: map[ssa.Value]bool{}, isTrue: map[ssa.Value]bool{}}
}

func (f *c05Facts) clone() *c05Facts {
	n := c05NewFacts()
	for k, v := range f.isNil {
		n.isNil[k] = v
	}
	for k, v := range f.isTrue {
		n.isTrue[k] = v
	}
	return n
}

func (f *c05Facts) sig() string {
	var parts []string
	for k, v := range f.isNil {
		parts = append(parts, fmt.Sprintf("n%s=%v", k.Name(), v))
	}
	for k, v := range f.isTrue {
		parts = append(parts, fmt.Sprintf("t%s=%v", k.Name(), v))
	}
	sort.Strings(parts)
	return strings.Join(parts, ",")
}

// c05CondAtom decomposes a branch condition into (subject, kind, polarity on
// the true edge): kind "nil" for x==nil / x!=nil, "bool" otherwise.
func c05CondAtom(cond ssa.Value) (subj ssa.Value, kind string, pol bool) {
	pol = true
	for {
		u, ok := cond.(*ssa.UnOp)
		if !ok || u.Op != token.NOT {
			break
		}
		cond, pol = u.X, !pol
	}
	if bo, ok := cond.(*ssa.BinOp); ok && (bo.Op == token.EQL || bo.Op == token.NEQ) {
		var x ssa.Value
		if isNilConst(bo.Y) {
			x = bo.X
		} else if isNilConst(bo.X) {
			x = bo.Y
		}
		if x != nil {
			if bo.Op == token.NEQ {
				pol = !pol
			}
			return x, "nil", pol
		}
	}
	return cond, "bool", pol
}

// resolvePhi: the operand a phi of block b takes when b is entered from pred.
func c05PhiOperand(v ssa.Value, b, pred *ssa.BasicBlock) ssa.Value {
	for i := 0; i < 4; i++ {
		phi, ok := v.(*ssa.Phi)
		if !ok || phi.Block() != b || pred == nil {
			return v
		}
		found := false
		for k, p := range b.Preds {
			if p == pred {
				v, found = phi.Edges[k], true
				break
			}
		}
		if !found {
			return v
		}
	}
	return v
}

// c05EdgeFacts: the facts established by taking edge e (the outcome of the
// test that ends e.From).
func c05EdgeFacts(e Edge) *c05Facts {
	f := c05NewFacts()
	if e.From == nil || len(e.From.Instrs) == 0 {
		return f
	}
	ifi, ok := e.From.Instrs[len(e.From.Instrs)-1].(*ssa.If)
	if !ok || e.From.Succs[0] == e.From.Succs[1] {
		return f
	}
	subj, kind, pol := c05CondAtom(ifi.Cond)
	val := pol
	if e.To != e.From.Succs[0] {
		val = !pol
	}
	if kind == "nil" {
		f.isNil[subj] = val
	} else {
		f.isTrue[subj] = val
	}
	return f
}

// c05ReachF is reach() with pruning of branches that contradict what earlier
// tests on the same path established (including through phi operands selected
// by the edge taken).  visit, when non-nil, is called for every Return
// reached (and the search continues); otherwise the search stops at `to`.
func c05ReachF(fromB *ssa.BasicBlock, fromIdx int, fromPred *ssa.BasicBlock, to ssa.Instruction, ct *cut, init *c05Facts, visit func(r *ssa.Return, pred *ssa.BasicBlock), condCut ...map[c05CondKey]bool) bool {
	type key struct {
		b, pred *ssa.BasicBlock
		sig     string
	}
	seen := map[key]bool{}
	if init == nil {
		init = c05NewFacts()
	}
	budget := 20000
	var scan func(b, pred *ssa.BasicBlock, i int, f *c05Facts) bool
	scan = func(b, pred *ssa.BasicBlock, i int, f *c05Facts) bool {
		if budget <= 0 {
			return true // give up: assume reachable (sound for must-pass checks)
		}
		budget--
		for ; i < len(b.Instrs); i++ {
			in := b.Instrs[i]
			if to != nil && in == to {
				return true
			}
			if ct != nil && ct.instrs[in] {
				return false
			}
			if r, ok := in.(*ssa.Return); ok && visit != nil {
				visit(r, pred)
				return false
			}
		}
		var ifi *ssa.If
		if n := len(b.Instrs); n > 0 {
			ifi, _ = b.Instrs[n-1].(*ssa.If)
		}
		for si, s := range b.Succs {
			if ct != nil && ct.edges[Edge{b, s}] {
				continue
			}
			nf := f
			if ifi != nil && b.Succs[0] != b.Succs[1] {
				subj, kind, pol := c05CondAtom(ifi.Cond)
				want := pol
				if si == 1 {
					want = !pol
				}
				res := c05PhiOperand(subj, b, pred)
				m := f.isTrue
				if kind == "nil" {
					m = f.isNil
				}
				if have, known := m[subj]; known && have != want {
					continue
				}
				if have, known := m[res]; known && have != want {
					continue
				}
				if kind == "bool" {
					// the selected operand is a negation: what is known about the negated value decides
					if rv, rp := c05StripNot(res); !rp {
						if have, known := m[rv]; known && have != !want {
							continue
						}
					}
					if k, isK := res.(*ssa.Const); isK && k.Value != nil && (k.Value.String() == "true") != want {
						continue
					}
					// condition-level cut: this branch decides (possibly through a short-circuit phi) a condition whose outcome counts as passing
					if len(condCut) > 0 {
						rv, rp := c05StripNot(res)
						if condCut[0][c05CondKey{rv, want == rp}] {
							continue
						}
					}
				}
				if kind == "nil" {
					st := ErrNilStatus(res, 0)
					if _, isErr := res.Type().Underlying().(*types.Interface); isErr && ((st == NonNil && want) || (st == IsNil && !want)) {
						continue
					}
				}
				nf = f.clone()
				if kind == "nil" {
					nf.isNil[subj], nf.isNil[res] = want, want
				} else {
					nf.isTrue[subj], nf.isTrue[res] = want, want
					if rv, rp := c05StripNot(res); !rp {
						nf.isTrue[rv] = !want
					}
				}
			}
			if s.Dominates(b) {
				nf = c05NewFacts() // back edge: definitions are re-executed
			}
			k := key{s, b, nf.sig()}
			if seen[k] {
				continue
			}
			seen[k] = true
			if scan(s, b, 0, nf) {
				return true
			}
		}
		return false
	}
	return scan(fromB, fromPred, fromIdx, init)
}

// c05ErrFlow is ErrFlow with one more piece of path sensitivity: once the
// error has been found non-nil, later tests of the very same value cannot
// take their nil edge (`switch { case err == nil && …: case err == nil: case
// errors.Is(err, X): default: return err }`).
func c05ErrFlow(call ssa.CallInstruction, o ErrFlowOpts) ErrFlowResult {
	return c05ErrFlowD(call, o, 0)
}

func c05ErrFlowD(call ssa.CallInstruction, o ErrFlowOpts, depth int) ErrFlowResult {
	r := ErrFlow(call, o)
	if r.OK {
		return r
	}
	fn := call.Parent()
	errIdx := ErrResultIndex(fn.Signature)
	e := ErrOf(call)
	if _, isDefer := call.(*ssa.Defer); isDefer || e == nil || errIdx < 0 {
		return r
	}
	aliases := Aliases(e)
	// the error is handed to an in-module filter / wrapper `h(err) error` that returns nil only for a nil or tolerated
	// error and otherwise the error itself (or an error built from it): the flow continues with h's result
	if depth < 2 {
		for _, hc := range Calls(fn, func(string) bool { return true }) {
			h := StaticCallee(hc)
			if h == nil || !inModule(h) || len(h.Blocks) == 0 || hc == call || ErrResultIndex(h.Signature) < 0 || h.Signature.Results().Len() != 1 {
				continue
			}
			if _, plain := hc.(*ssa.Call); !plain {
				continue
			}
			for i, a := range hc.Common().Args {
				if !(aliases[a] || aliases[strip(a)]) || i >= len(h.Params) {
					continue
				}
				hal := Aliases(h.Params[i])
				nilE, _, _ := NilTests(h, hal)
				ct := newCut().Edges(nilE...)
				tolC := c05TolConds(h, hal, o.Tolerated, 0)
				for _, ifi := range Ifs(h) {
					cond, t, f := ifEdges(ifi)
					if tolC[c05CondKey{cond, true}] {
						ct.Edges(t)
					}
					if tolC[c05CondKey{cond, false}] {
						ct.Edges(f)
					}
				}
				filters := c05DeferKeepsError(h) == ""
				for _, at := range RetAtoms(h, 0) {
					if hal[at.Val] || hal[strip(at.Val)] || derivesFromAny(at.Val, hal, 0) || ErrNilStatus(at.Val, 0) == NonNil {
						continue
					}
					if !c05AtomMustPass(at, ct) {
						filters = false
					}
				}
				if filters {
					if rr := c05ErrFlowD(hc, ErrFlowOpts{}, depth+1); rr.OK {
						return ErrFlowResult{OK: true, How: "handed to " + FnName(h) + ", which returns nil only for a nil or tolerated error; its result " + rr.How}
					}
				}
			}
		}
	}
	nilE, nonNilE, ifs := NilTests(fn, aliases)
	if len(ifs) == 0 {
		return r
	}
	ct := newCut().Edges(toleratedEdges(fn, aliases, o.Tolerated)...).Edges(nilE...)
	ct.Instr(call.(ssa.Instruction))
	tolC := c05TolConds(fn, aliases, o.Tolerated, 0)
	for _, i := range Ifs(fn) {
		cond, t, f := ifEdges(i)
		if tolC[c05CondKey{cond, true}] {
			ct.Edges(t)
		}
		if tolC[c05CondKey{cond, false}] {
			ct.Edges(f)
		}
	}
	for _, ne := range nonNilE {
		bad := false
		c05ReachF(ne.To, 0, ne.From, nil, ct, c05EdgeFacts(ne), func(rt *ssa.Return, pred *ssa.BasicBlock) {
			for _, val := range resolveAt(rt.Results[errIdx], rt.Block(), pred, rt, aliases) {
				if aliases[val] || aliases[strip(val)] || ErrNilStatus(val, 0) == NonNil || derivesFromAny(val, aliases, 0) {
					continue
				}
				bad = true
			}
		}, tolC)
		if bad {
			return r
		}
	}
	return ErrFlowResult{OK: true, How: "tested; every failure path returns a non-nil error (repeated tests of the same error resolved)"}
}

// c05FieldCarry: v is a load of field F of a struct that was built as a
// literal (new T; stores to its fields) either in cur.Fn itself or — when the
// struct is cur.Fn's parameter/receiver — at the call site in the parent, and
// F is stored exactly once there: v is that stored value.
func c05FieldCarry(v ssa.Value, cur *c05Env) (ssa.Value, *c05Env, bool) {
	ld, ok := strip(v).(*ssa.UnOp)
	if !ok || ld.Op != token.MUL {
		return nil, nil, false
	}
	fa, ok := ld.X.(*ssa.FieldAddr)
	if !ok {
		return nil, nil, false
	}
	base, at := fa.X, cur
	if p, isP := strip(base).(*ssa.Parameter); isP && cur.Call != nil && cur.Parent != nil && p.Parent() == cur.Fn {
		idx := -1
		for k, q := range cur.Fn.Params {
			if q == p {
				idx = k
			}
		}
		args := cur.Call.Common().Args
		if idx < 0 || idx >= len(args) {
			return nil, nil, false
		}
		base, at = args[idx], cur.Parent
	}
	// the struct variable itself captured by a closure: the free variable is its address
	for i := 0; i < 3; i++ {
		fv, isFV := strip(base).(*ssa.FreeVar)
		if !isFV {
			break
		}
		bs := freeVarBindings(fv)
		owner := at
		for owner != nil && owner.Fn != fv.Parent().Parent() {
			owner = owner.Parent
		}
		if len(bs) != 1 || owner == nil {
			return nil, nil, false
		}
		base, at = bs[0], owner
	}
	var lit *ssa.Alloc
	for _, r := range Roots(base) {
		a, isA := strip(r).(*ssa.Alloc)
		if !isA || lit != nil {
			return nil, nil, false
		}
		lit = a
	}
	if lit == nil || lit.Parent() != at.Fn {
		return nil, nil, false
	}
	if _, isStruct := lit.Type().(*types.Pointer).Elem().Underlying().(*types.Struct); !isStruct {
		return nil, nil, false
	}
	var val ssa.Value
	n := 0
	for _, r := range *lit.Referrers() {
		fa2, isFA := r.(*ssa.FieldAddr)
		if !isFA || fa2.Field != fa.Field {
			continue
		}
		for _, r2 := range *fa2.Referrers() {
			if st, isSt := r2.(*ssa.Store); isSt && st.Addr == ssa.Value(fa2) {
				val = st.Val
				n++
			}
		}
	}
	if n != 1 {
		return nil, nil, false
	}
	return val, at, true
}

// c05CapturedValue: v is a load of a free variable of cur.Fn (never written by
// closures) whose cell lives in an enclosing function on the chain and is
// assigned exactly once there: the assigned value, in that function's node.
func c05CapturedValue(v ssa.Value, cur *c05Env) (ssa.Value, *c05Env, bool) {
	ld, ok := strip(v).(*ssa.UnOp)
	if !ok || ld.Op != token.MUL {
		return nil, nil, false
	}
	fv, ok := ld.X.(*ssa.FreeVar)
	if !ok || fv.Parent() != cur.Fn || freeVarWritten(cur.Fn, fv) {
		return nil, nil, false
	}
	bs := freeVarBindings(fv)
	if len(bs) != 1 {
		return nil, nil, false
	}
	owner := cur.Parent
	for owner != nil && owner.Fn != cur.Fn.Parent() {
		owner = owner.Parent
	}
	if owner == nil {
		return nil, nil, false
	}
	switch b := bs[0].(type) {
	case *ssa.Alloc:
		if sv := c05SingleStoredValue(b); sv != nil {
			return sv, owner, true
		}
	case *ssa.FreeVar:
		return &ssa.UnOp{Op: token.MUL, X: b}, owner, true
	}
	return nil, nil, false
}

// ---------------------------------------------------------------- traversals: loops and range-over-func

// c05Iter is one traversal statement `for ... := range X` of In.Fn in any of
// its forms: an SSA loop over a map or a slice (range / index / 3-clause), or
// a Go 1.23 range-over-func statement, whose body go/ssa turns into a
// synthetic closure (Y) that is handed to the iterator function.
type c05Iter struct {
	In *c05Env
	// SSA loop forms
	Loop *Loop
	Body Edge
	next *ssa.Next
	idx  map[ssa.Value]bool
	// range-over-func form
	Call ssa.CallInstruction // the call seq(body) in In.Fn
	Y    *c05Env             // the body
	Src  *c05Seq             // what the iterator yields (nil: unknown)
	// what is traversed (SSA forms and standard producers): "map" | "slice" | "syncmap"
	Kind   string
	Coll   ssa.Value
	CollAt *c05Env
	roles  []string // range-over-func over a standard producer: "key"/"val" per body parameter
	// a slice loop over slices.Collect / slices.Sorted… of a standard producer (`for _, k := range slices.Sorted(maps.Keys(m))`):
	// Kind/Coll/CollAt describe m, the loop's elements play role viaRole of m, slice is the collected slice
	viaRole string
	slice   ssa.Value
}

// c05Seq describes an iterator value (iter.Seq / iter.Seq2).
type c05Seq struct {
	// a standard producer over a collection: maps.Keys/Values/All, slices.Values/All, (*sync.Map).Range
	Kind   string
	Coll   ssa.Value
	CollAt *c05Env
	Roles  []string
	// an in-module iterator closure: its single yield site and the traversal (inside the closure) the site belongs to
	Site   ssa.CallInstruction
	SiteAt *c05Env
	Inner  *c05Iter
	Exact  bool // every completed iteration of Inner yields exactly once
}

var c05StdSeq = map[string][]string{
	"maps.Keys": {"map", "key"}, "maps.Values": {"map", "val"}, "maps.All": {"map", "key", "val"},
	"slices.Values": {"slice", "val"}, "slices.All": {"slice", "key", "val"},
}

const c05YieldSynthetic = "range-over-func yield"

// c05SeqOf resolves an iterator value seen from at.
func c05SeqOf(v ssa.Value, at *c05Env) *c05Seq {
	if at.depth() > 9 {
		return nil
	}
	w, wat := at.up(v)
	switch x := strip(w).(type) {
	case *ssa.Call:
		if d, ok := c05StdSeq[CalleeName(x)]; ok && len(x.Call.Args) == 1 {
			return &c05Seq{Kind: d[0], Coll: x.Call.Args[0], CollAt: wat, Roles: d[1:], Exact: true}
		}
		g := StaticCallee(x)
		if g == nil || !inModule(g) || len(g.Blocks) == 0 {
			return nil
		}
		for a := wat; a != nil; a = a.Parent {
			if a.Fn == g {
				return nil
			}
		}
		var mc *ssa.MakeClosure
		for _, r := range Returns(g) {
			if !ReachableFromEntry(r) || len(r.Results) != 1 {
				continue
			}
			for _, rv := range Roots(c05Unspill(r.Results[0])) {
				m, ok := strip(rv).(*ssa.MakeClosure)
				if !ok || (mc != nil && mc != m) {
					return nil
				}
				mc = m
			}
		}
		if mc == nil {
			return nil
		}
		return c05SeqOfClosure(mc, &c05Env{Fn: g, Call: x, Parent: wat})
	case *ssa.MakeClosure:
		f := x.Fn.(*ssa.Function)
		if strings.HasPrefix(f.Synthetic, "bound method wrapper") && fnFullName(f) == "(*sync.Map).Range" && len(x.Bindings) == 1 {
			return &c05Seq{Kind: "syncmap", Coll: x.Bindings[0], CollAt: wat, Roles: []string{"key", "val"}, Exact: true}
		}
		if x.Parent() != wat.Fn {
			return nil
		}
		return c05SeqOfClosure(x, wat)
	}
	return nil
}

// c05SeqOfClosure: the iterator closure mc created in at.Fn.
func c05SeqOfClosure(mc *ssa.MakeClosure, at *c05Env) *c05Seq {
	q := mc.Fn.(*ssa.Function)
	if len(q.Params) != 1 || len(q.Blocks) == 0 {
		return nil
	}
	y := q.Params[0]
	if sg, ok := y.Type().Underlying().(*types.Signature); !ok || sg.Results().Len() != 1 {
		return nil
	}
	qe := &c05Env{Fn: q, Parent: at}
	iters := c05ItersIn(qe)
	seq := &c05Seq{}
	n := 0
	bad := false
	// uses of the yield function: calls in q itself, or in a range-over-func body of q that captured it
	isY := func(v ssa.Value, e *c05Env) bool {
		w, wat := e.up(v)
		return wat.Fn == q && w == ssa.Value(y)
	}
	var scan func(e *c05Env, d int)
	scan = func(e *c05Env, d int) {
		AllInstrs(e.Fn, func(in ssa.Instruction) {
			switch x := in.(type) {
			case ssa.CallInstruction:
				cc := x.Common()
				if !cc.IsInvoke() && isY(cc.Value, e) {
					if _, isCall := x.(*ssa.Call); !isCall {
						bad = true
					}
					n++
					seq.Site, seq.SiteAt = x, e
				}
			case *ssa.MakeClosure:
				if d >= 2 {
					return
				}
				ch := &c05Env{Fn: x.Fn.(*ssa.Function), Parent: e}
				if e == qe {
					for _, it := range iters {
						if it.Y != nil && it.Y.Fn == ch.Fn {
							ch = it.Y
						}
					}
				}
				scan(ch, d+1)
			}
		})
	}
	scan(qe, 0)
	if n != 1 || bad {
		return nil
	}
	site := seq.Site.(*ssa.Call)
	switch {
	case seq.SiteAt == qe:
		// innermost SSA loop of q around the site
		var best *c05Iter
		for _, it := range iters {
			if it.Loop != nil && it.Loop.Contains(site) && (best == nil || len(it.Loop.Blocks) < len(best.Loop.Blocks)) {
				best = it
			}
		}
		if best == nil {
			return nil
		}
		for _, l := range Loops(q) {
			if l.Contains(site) && len(l.Blocks) < len(best.Loop.Blocks) {
				return nil
			}
		}
		seq.Inner = best
	case seq.SiteAt.Iter != nil && seq.SiteAt.Parent == qe:
		for _, l := range Loops(seq.SiteAt.Fn) {
			if l.Contains(site) {
				return nil
			}
		}
		seq.Inner = seq.SiteAt.Iter
	default:
		return nil
	}
	seq.Exact = !seq.Inner.SkipsCut(newCut().Instr(site))
	return seq
}

// c05SliceLoopOf: l visits every element of a slice (`for range s`, `for i :=
// range s`, `for i := 0; i < len(s); i++`): the slice, the values that index
// the current element and the body's entry edge.
func c05SliceLoopOf(l *Loop) (S ssa.Value, idx map[ssa.Value]bool, body Edge, ok bool) {
	_, idx, body = c05SliceLoopL(l, func(v ssa.Value) bool { S = v; return true })
	return S, idx, body, idx != nil
}

// c05ItersIn lists the traversal statements of e.Fn.
func c05ItersIn(e *c05Env) []*c05Iter {
	var out []*c05Iter
	for _, l := range Loops(e.Fn) {
		if ranged, next, body, _, ok := l.RangeMap(); ok {
			kind := "map"
			if _, isMap := ranged.Type().Underlying().(*types.Map); !isMap {
				kind = "other"
			}
			out = append(out, &c05Iter{In: e, Loop: l, Body: body, next: next, Kind: kind, Coll: ranged, CollAt: e})
			continue
		}
		if S, idx, body, ok := c05SliceLoopOf(l); ok {
			it := &c05Iter{In: e, Loop: l, Body: body, idx: idx, Kind: "slice", Coll: S, CollAt: e, slice: S}
			if e.depth() <= 9 {
				if w, wat := e.up(S); wat != nil {
					if call, isCall := strip(w).(*ssa.Call); isCall && len(call.Call.Args) >= 1 {
						switch CalleeName(call) {
						case "slices.Collect", "slices.Sorted", "slices.SortedFunc", "slices.SortedStableFunc":
							if seq := c05SeqOf(call.Call.Args[0], wat); seq != nil && seq.Site == nil && len(seq.Roles) == 1 {
								it.Kind, it.Coll, it.CollAt, it.viaRole = seq.Kind, seq.Coll, seq.CollAt, seq.Roles[0]
							}
						}
					}
				}
			}
			out = append(out, it)
		}
	}
	if e.depth() > 9 {
		return out
	}
	AllInstrs(e.Fn, func(in ssa.Instruction) {
		call, ok := in.(*ssa.Call)
		if !ok || call.Call.IsInvoke() || len(call.Call.Args) != 1 {
			return
		}
		mc, ok := call.Call.Args[0].(*ssa.MakeClosure)
		if !ok || mc.Fn.(*ssa.Function).Synthetic != c05YieldSynthetic {
			return
		}
		it := &c05Iter{In: e, Call: call}
		it.Y = &c05Env{Fn: mc.Fn.(*ssa.Function), Parent: e, Iter: it}
		if it.Src = c05SeqOf(call.Call.Value, e); it.Src != nil && it.Src.Site == nil {
			it.Kind, it.Coll, it.CollAt, it.roles = it.Src.Kind, it.Src.Coll, it.Src.CollAt, it.Src.Roles
		}
		out = append(out, it)
	})
	return out
}

// rotated: an SSA loop whose header is its body (range-over-int lowering): Body is the edge from the guard into the header.
func (it *c05Iter) rotated() bool {
	return it.Loop != nil && it.Body.To == it.Loop.Header && it.Body.From != nil && !it.Loop.Blocks[it.Body.From]
}

// Base: the traversal of an actual collection that feeds it (through chained in-module iterators); nil when unknown.
func (it *c05Iter) Base() *c05Iter {
	for i := 0; it != nil && i < 6; i++ {
		if it.Loop != nil {
			return it
		}
		if it.Src == nil {
			return nil
		}
		if it.Src.Site == nil {
			return it
		}
		it = it.Src.Inner
	}
	return nil
}

// Exact: each element of the base collection gives exactly one execution of the body.
func (it *c05Iter) Exact() bool {
	for i := 0; it != nil && i < 6; i++ {
		if it.Loop != nil {
			return true
		}
		if it.Src == nil || !it.Src.Exact {
			return false
		}
		if it.Src.Site == nil {
			return true
		}
		it = it.Src.Inner
	}
	return false
}

// IsElem: v, seen from at, is the current key (index) / value (element) of the base traversal of it.
func (it *c05Iter) IsElem(v ssa.Value, at *c05Env, role string) bool {
	b := it.Base()
	if b == nil {
		return false
	}
	w, wat := at.up(v)
	switch {
	case b.next != nil:
		ex, ok := strip(w).(*ssa.Extract)
		return ok && wat.Fn == b.In.Fn && ex.Tuple == ssa.Value(b.next) && ((role == "key" && ex.Index == 1) || (role == "val" && ex.Index == 2))
	case b.Loop != nil:
		if wat.Fn != b.In.Fn {
			return false
		}
		if b.viaRole != "" {
			if role != b.viaRole {
				return false
			}
			role = "val"
		}
		if role == "key" {
			return b.idx[strip(w)]
		}
		rs := Roots(c05Unspill(w))
		for _, r := range rs {
			ld, ok := strip(r).(*ssa.UnOp)
			if !ok || ld.Op != token.MUL {
				return false
			}
			ia, ok := ld.X.(*ssa.IndexAddr)
			if !ok || !b.idx[ia.Index] || !(ia.X == b.slice || SameValue(ia.X, b.slice) || c05SamePlace(ia.X, b.slice)) {
				return false
			}
		}
		return len(rs) > 0
	default:
		if wat.Fn != b.Y.Fn {
			return false
		}
		for i, p := range b.Y.Fn.Params {
			if ssa.Value(p) == w && i < len(b.roles) && b.roles[i] == role {
				return true
			}
		}
		return false
	}
}

// Entry: the instruction of In.Fn that every path running the traversal passes.
func (it *c05Iter) Entry() ssa.Instruction {
	if it.Loop != nil {
		if it.rotated() {
			return it.Body.From.Instrs[len(it.Body.From.Instrs)-1] // the guard before a rotated loop
		}
		return it.Loop.Header.Instrs[0]
	}
	return it.Call.(ssa.Instruction)
}

// BodyEnv: the node in whose function the body's instructions live.
func (it *c05Iter) BodyEnv() *c05Env {
	if it.Loop != nil {
		return it.In
	}
	return it.Y
}

// Contains: instruction in of node e belongs to the body (helpers called from the body included).
func (it *c05Iter) Contains(in ssa.Instruction, e *c05Env) bool {
	if it.Loop != nil {
		for a := e; a != nil; a = a.Parent {
			if a.Fn == it.In.Fn {
				if a == e {
					return it.Loop.Contains(in)
				}
				return false
			}
			if a.Call != nil && a.Parent != nil && a.Parent.Fn == it.In.Fn {
				return it.Loop.Contains(a.Call.(ssa.Instruction))
			}
		}
		return false
	}
	for a := e; a != nil; a = a.Parent {
		if a.Fn == it.Y.Fn {
			return true
		}
	}
	return false
}

// SkipsCut: some completed iteration of the body (one that goes on to the next
// element) does not pass the cut, which is given for the body's function.
func (it *c05Iter) SkipsCut(ct *cut) bool {
	if it.Loop != nil {
		if it.rotated() {
			// the header is the body: an iteration runs from behind its first instruction round to it again
			h := it.Loop.Header
			return c05ReachF(h, 1, it.Body.From, h.Instrs[0], ct, c05NewFacts(), nil)
		}
		return c07IterSkips(it.Body, it.Loop.Header, ct)
	}
	fn := it.Y.Fn
	for _, r := range Returns(fn) {
		if len(r.Results) == 1 {
			if k, isK := r.Results[0].(*ssa.Const); isK && k.Value != nil && !constant.BoolVal(k.Value) {
				continue // break / return out of the loop: the iteration does not complete
			}
		}
		if c05ReachF(fn.Blocks[0], 0, nil, r, ct, c05NewFacts(), nil) {
			return true
		}
	}
	return false
}

// Skips: some completed iteration does not pass sp.
func (it *c05Iter) Skips(sp c05PassSpec) bool {
	ct := c05PassCut(it.BodyEnv(), sp)
	return it.SkipsCut(ct)
}

// c05YieldErrFlow: the error of `call`, made in the body of range-over-func
// traversal it, reaches the caller of the enclosing function: on every path
// from its non-nil edges the body stores it (or an error built from it) into a
// result cell of the enclosing function and stops the traversal (returns
// false), and the enclosing function returns that cell unmodified.
func c05YieldErrFlow(call ssa.CallInstruction, it *c05Iter) ErrFlowResult {
	fn := it.Y.Fn
	ev := ErrOf(call)
	if ev == nil {
		return ErrFlowResult{Detail: "call has no error result", At: call.Pos()}
	}
	al := Aliases(ev)
	_, ne, _ := NilTests(fn, al)
	if len(ne) == 0 {
		return ErrFlowResult{Detail: "the error of " + CalleeName(call) + " is not tested in the loop body", At: call.Pos()}
	}
	derived := func(v ssa.Value) bool {
		for _, r := range Roots(v) {
			if al[r] || al[strip(r)] {
				continue
			}
			c2, ok := strip(r).(*ssa.Call)
			if !ok {
				return false
			}
			has := false
			for _, a := range c2.Call.Args {
				for _, x := range append(c05VariadicElems(a), a) {
					if al[x] || al[strip(x)] {
						has = true
					}
				}
			}
			if !has {
				return false
			}
		}
		return true
	}
	ct := newCut()
	var cells []*ssa.Alloc
	AllInstrs(fn, func(in ssa.Instruction) {
		st, ok := in.(*ssa.Store)
		if !ok || !derived(st.Val) {
			return
		}
		fv, ok := st.Addr.(*ssa.FreeVar)
		if !ok {
			return
		}
		bs := freeVarBindings(fv)
		if len(bs) != 1 {
			return
		}
		a, ok := bs[0].(*ssa.Alloc)
		if !ok || a.Parent() != it.In.Fn {
			return
		}
		// the enclosing function returns the cell as it is on some path after the traversal
		retOK := false
		for _, r := range Returns(it.In.Fn) {
			for _, res := range r.Results {
				if ld, isL := res.(*ssa.UnOp); isL && ld.X == ssa.Value(a) {
					stores := newCut()
					for _, s2 := range storesTo(a) {
						stores.Instr(s2)
					}
					ci := it.Call.(ssa.Instruction)
					if reach(ci.Block(), instrIndex(ci)+1, r, stores) {
						retOK = true
					}
				}
			}
		}
		if retOK {
			ct.Instr(st)
			cells = append(cells, a)
		}
	})
	for _, e := range ne {
		bad := false
		c05ReachF(e.To, 0, e.From, nil, ct, c05EdgeFacts(e), func(r *ssa.Return, _ *ssa.BasicBlock) { bad = true })
		if bad {
			return ErrFlowResult{Detail: "a failure of " + CalleeName(call) + " in the loop body can end the iteration without handing the error to the enclosing function's result", At: call.Pos()}
		}
		// after recording the error the traversal stops
		for _, r := range Returns(fn) {
			if k, isK := r.Results[0].(*ssa.Const); isK && k.Value != nil && !constant.BoolVal(k.Value) {
				continue
			}
			if c05ReachF(e.To, 0, e.From, r, newCut(), c05EdgeFacts(e), nil) {
				return ErrFlowResult{Detail: "after a failure of " + CalleeName(call) + " the traversal continues", At: call.Pos()}
			}
		}
	}
	return ErrFlowResult{OK: true, How: "stored into the enclosing function's result and the traversal stops"}
}

// c05YieldReturnNonNil: ret returns the cell loaded by ld, no store of fn
// itself reaches that load, and the value comes from a `return x` statement
// inside the body of a range-over-func loop: go/ssa lowers that to `*cell = x;
// *jump = k; return false` in the synthetic body closure and, after the
// iterator call, `if *jump == k { return *cell }` in fn.  True when every such
// x is known non-nil where it is stored.
func c05YieldReturnNonNil(fn *ssa.Function, ld *ssa.UnOp, ret *ssa.Return) bool {
	cell, ok := ld.X.(*ssa.Alloc)
	if !ok {
		return false
	}
	// the guard `jump == k` that dominates the return
	var jump *ssa.Alloc
	var k int64
	for b := ret.Block(); b != nil && jump == nil; b = b.Idom() {
		d := b.Idom()
		if d == nil || len(d.Instrs) == 0 {
			break
		}
		ifi, isIf := d.Instrs[len(d.Instrs)-1].(*ssa.If)
		if !isIf || len(d.Succs) != 2 || !(d.Succs[0] == b || d.Succs[0].Dominates(b)) || d.Succs[1] == b || d.Succs[1].Dominates(b) {
			continue
		}
		bo, isBO := ifi.Cond.(*ssa.BinOp)
		if !isBO || bo.Op != token.EQL {
			continue
		}
		n, isK := constInt(bo.Y)
		jl, isL := bo.X.(*ssa.UnOp)
		if !isK || !isL || n <= 0 {
			continue
		}
		if a, isA := jl.X.(*ssa.Alloc); isA && jl.Op == token.MUL {
			jump, k = a, n
		}
	}
	if jump == nil {
		return false
	}
	found := 0
	for _, r := range *cell.Referrers() {
		mc, isMC := r.(*ssa.MakeClosure)
		if !isMC {
			continue
		}
		y := mc.Fn.(*ssa.Function)
		if y.Synthetic != c05YieldSynthetic {
			return false
		}
		var fvCell, fvJump *ssa.FreeVar
		for i, b := range mc.Bindings {
			if b == ssa.Value(cell) {
				fvCell = y.FreeVars[i]
			}
			if b == ssa.Value(jump) {
				fvJump = y.FreeVars[i]
			}
		}
		if fvCell == nil || fvJump == nil {
			continue
		}
		for _, b := range y.Blocks {
			var last *ssa.Store
			for _, in := range b.Instrs {
				st, isSt := in.(*ssa.Store)
				if !isSt {
					continue
				}
				if st.Addr == ssa.Value(fvCell) {
					last = st
				}
				if st.Addr == ssa.Value(fvJump) {
					if n, isK := constInt(st.Val); isK && n == k {
						if last == nil {
							return false
						}
						found++
						if ErrNilStatus(last.Val, 0) == NonNil {
							continue
						}
						_, nonNilE, _ := NilTests(y, Aliases(last.Val))
						if len(nonNilE) == 0 || !MustPass(last, newCut().Edges(nonNilE...)) {
							return false
						}
					}
				}
			}
		}
	}
	return found > 0
}

// c05PreservesNonNil: v is the error result of a call to an in-module helper
// that receives one of the values `olds` (loads of the current error) and
// whose every error result is that parameter itself, a value known non-nil, or
// a value returned on the non-nil side of its own test: a non-nil error stays
// non-nil across `err = helper(..., err)`.
func c05PreservesNonNil(v ssa.Value, olds map[ssa.Value]bool) bool {
	v = strip(v)
	if ex, ok := v.(*ssa.Extract); ok {
		if c, isC := ex.Tuple.(*ssa.Call); isC && ErrResultIndex(c.Call.Signature()) == ex.Index {
			v = c
		}
	}
	call, ok := v.(*ssa.Call)
	if !ok {
		return false
	}
	// errors.Join(old, more...) / cmp.Or(old, other): non-nil as soon as one argument is
	if n := CalleeName(call); n == "errors.Join" || n == "cmp.Or" {
		for _, a := range call.Call.Args {
			for _, x := range append(c05VariadicElems(a), a) {
				if olds[x] || olds[strip(x)] {
					return true
				}
			}
		}
		return false
	}
	h := StaticCallee(call)
	if h == nil || !inModule(h) || len(h.Blocks) == 0 || h.Recover != nil {
		return false
	}
	idx := ErrResultIndex(h.Signature)
	if idx < 0 {
		return false
	}
	var prm *ssa.Parameter
	for i, a := range call.Call.Args {
		if (olds[a] || olds[strip(a)]) && i < len(h.Params) {
			prm = h.Params[i]
		}
	}
	if prm == nil {
		return false
	}
	for _, a := range RetAtoms(h, idx) {
		if strip(a.Val) == ssa.Value(prm) || c05ParamOf(a.Val) == prm || ErrNilStatus(a.Val, 0) == NonNil {
			continue
		}
		if _, isConst := a.Val.(*ssa.Const); !isConst {
			if _, isZero := a.Val.(zeroMarker); !isZero {
				_, nonNilE, _ := NilTests(h, Aliases(a.Val))
				if len(nonNilE) > 0 && c05AtomMustPass(a, newCut().Edges(nonNilE...)) {
					continue
				}
			}
		}
		return false
	}
	return true
}

// c05TolConds: the boolean values of fn whose being true (false) means "the
// error (aliases) is one of the tolerated sentinels": errors.Is(err, S), err
// == S, err != S, and calls of in-module boolean helpers that return true only
// in that case (`func isBenign(err error) bool { return errors.Is(err, A) ||
// errors.Is(err, B) }`).
func c05TolConds(fn *ssa.Function, aliases map[ssa.Value]bool, tolerated []string, depth int) map[c05CondKey]bool {
	out := map[c05CondKey]bool{}
	if len(tolerated) == 0 {
		return out
	}
	tol := map[string]bool{}
	for _, t := range tolerated {
		tol[t] = true
	}
	isAl := func(v ssa.Value) bool { return aliases[v] || aliases[strip(v)] }
	AllInstrs(fn, func(in ssa.Instruction) {
		switch c := in.(type) {
		case *ssa.BinOp:
			if c.Op != token.EQL && c.Op != token.NEQ {
				return
			}
			var other ssa.Value
			if isAl(c.X) {
				other = c.Y
			} else if isAl(c.Y) {
				other = c.X
			} else {
				return
			}
			if tol[sentinelName(other)] {
				out[c05CondKey{c, c.Op == token.EQL}] = true
			}
		case *ssa.Call:
			if CalleeName(c) == "errors.Is" && len(c.Call.Args) == 2 && isAl(c.Call.Args[0]) && tol[sentinelName(c.Call.Args[1])] {
				out[c05CondKey{c, true}] = true
				return
			}
			// a table of sentinels: slices.Contains(table, err) / slices.ContainsFunc(table, func(x error) bool { return errors.Is(err, x) })
			// with a package-level table that is only ever its literal and lists tolerated sentinels only
			if n := CalleeName(c); (n == "slices.Contains" || n == "slices.ContainsFunc") && len(c.Call.Args) == 2 {
				names, okT := c05GlobalErrorTable(c.Call.Args[0])
				if !okT || len(names) == 0 {
					return
				}
				for _, nm := range names {
					if !tol[nm] {
						return
					}
				}
				if n == "slices.Contains" {
					if isAl(c.Call.Args[1]) {
						out[c05CondKey{c, true}] = true
					}
					return
				}
				mc, isMC := strip(c.Call.Args[1]).(*ssa.MakeClosure)
				if !isMC {
					return
				}
				pf := mc.Fn.(*ssa.Function)
				if len(pf.Params) != 1 || len(pf.Blocks) != 1 {
					return
				}
				rets := Returns(pf)
				if len(rets) != 1 || len(rets[0].Results) != 1 {
					return
				}
				// the predicate compares the captured error with its parameter
				isCaptured := func(v ssa.Value) bool {
					ld, ok := strip(v).(*ssa.UnOp)
					if !ok || ld.Op != token.MUL {
						return false
					}
					fv, ok := ld.X.(*ssa.FreeVar)
					if !ok {
						return false
					}
					for i, b := range mc.Bindings {
						if pf.FreeVars[i] != fv {
							continue
						}
						if al, isA := b.(*ssa.Alloc); isA {
							if sv := c05SingleStoredValue(al); sv != nil && isAl(sv) {
								return true
							}
							for _, st := range storesTo(al) {
								if !isAl(st.Val) {
									return false
								}
							}
							return len(storesTo(al)) > 0
						}
					}
					return false
				}
				isParam := func(v ssa.Value) bool { return strip(v) == ssa.Value(pf.Params[0]) }
				switch r := rets[0].Results[0].(type) {
				case *ssa.Call:
					if CalleeName(r) == "errors.Is" && len(r.Call.Args) == 2 && isCaptured(r.Call.Args[0]) && isParam(r.Call.Args[1]) {
						out[c05CondKey{c, true}] = true
					}
				case *ssa.BinOp:
					if r.Op == token.EQL && ((isCaptured(r.X) && isParam(r.Y)) || (isCaptured(r.Y) && isParam(r.X))) {
						out[c05CondKey{c, true}] = true
					}
				}
				return
			}
			h := StaticCallee(c)
			if h == nil || !inModule(h) || len(h.Blocks) == 0 || depth >= 2 || h.Signature.Results().Len() != 1 ||
				!types.Identical(h.Signature.Results().At(0).Type(), types.Typ[types.Bool]) {
				return
			}
			var prm *ssa.Parameter
			for i, a := range c.Call.Args {
				if isAl(a) && i < len(h.Params) {
					prm = h.Params[i]
				}
			}
			if prm == nil {
				return
			}
			sub := c05TolConds(h, Aliases(prm), tolerated, depth+1)
			var subE []Edge
			for _, i := range Ifs(h) {
				cond, t, f := ifEdges(i)
				if sub[c05CondKey{cond, true}] {
					subE = append(subE, t)
				}
				if sub[c05CondKey{cond, false}] {
					subE = append(subE, f)
				}
			}
			// true => tolerated: every atom of the result is false, is itself such a condition, or is `true` behind one
			good, n := true, 0
			for _, a := range RetAtoms(h, 0) {
				n++
				v, pol := c05StripNot(a.Val)
				if k, isK := v.(*ssa.Const); isK && k.Value != nil {
					if (k.Value.String() == "true") != pol {
						continue // false
					}
					if len(subE) > 0 && c05AtomMustPass(a, newCut().Edges(subE...)) {
						continue
					}
					good = false
					continue
				}
				if !sub[c05CondKey{v, pol}] {
					good = false
				}
			}
			if good && n > 0 {
				out[c05CondKey{c, true}] = true
			}
		}
	})
	return out
}

// c05FuncsOfPkg: Prog.FuncsOfPkg plus the bodies of range-over-func
// statements nested in those functions.  go/ssa turns such a body into a
// synthetic closure, and the shared enumeration skips synthetic functions, so
// without this the code inside `for x := range seq { ... }` would be invisible
// to every inventory.
func c05FuncsOfPkg(p *Prog, rel string) []*ssa.Function {
	out := p.FuncsOfPkg(rel)
	seen := map[*ssa.Function]bool{}
	for _, f := range out {
		seen[f] = true
	}
	for i := 0; i < len(out); i++ {
		for _, a := range out[i].AnonFuncs {
			if a.Synthetic == c05YieldSynthetic && !seen[a] && len(a.Blocks) > 0 {
				seen[a] = true
				out = append(out, a)
			}
		}
	}
	return out
}

// ---------------------------------------------------------------- sync.Map and thin wrappers around it

// c05MapView is a call seen as an operation on a concurrent map: a method of
// sync.Map itself, or a forwarding method of an in-module wrapper type whose
// only field is a sync.Map (`type typedMap[K, V] struct{ m sync.Map }`).
type c05MapView struct {
	Call  ssa.CallInstruction
	Name  string    // canonical: "(*sync.Map).Load", "(*sync.Map).LoadOrStore", ...
	Recv  ssa.Value // the map (address of the sync.Map or of the wrapper)
	Key   ssa.Value // nil when the operation has none
	Val   ssa.Value // value argument (Store/LoadOrStore/Swap), nil otherwise
	Value ssa.Value // value result in the calling function, nil when absent / discarded
	Ok    ssa.Value // ok / loaded result in the calling function, nil when absent / discarded
}

// c05MapFwd summarises a forwarding method of a sync.Map wrapper.
type c05MapFwd struct {
	name            string
	key, val        int // parameter indices, -1 when absent
	valueRes, okRes int // result indices, -1 when absent
}

var c05MapFwdCache = map[*ssa.Function]*c05MapFwd{}

// c05IsSyncMapLike: sync.Map, or an in-module struct whose only field is a sync.Map.
func c05IsSyncMapLike(t types.Type) bool {
	if p, ok := t.(*types.Pointer); ok {
		t = p.Elem()
	}
	if c05IsNamedType(t, "sync", "Map") {
		return true
	}
	n, ok := t.(*types.Named)
	if !ok || n.Obj().Pkg() == nil || !strings.HasPrefix(n.Obj().Pkg().Path(), Mod) {
		return false
	}
	st, ok := n.Underlying().(*types.Struct)
	return ok && st.NumFields() == 1 && c05IsNamedType(st.Field(0).Type(), "sync", "Map")
}

func c05MapFwdOf(h *ssa.Function) *c05MapFwd {
	if h == nil {
		return nil
	}
	if f, ok := c05MapFwdCache[h]; ok {
		return f
	}
	c05MapFwdCache[h] = nil
	if !inModule(h) || h.Signature.Recv() == nil || len(h.Params) == 0 {
		return nil
	}
	if c05IsNamedType(h.Signature.Recv().Type(), "sync", "Map") || !c05IsSyncMapLike(h.Signature.Recv().Type()) {
		return nil
	}
	if len(h.Blocks) == 0 {
		if o := h.Origin(); o != nil && o != h {
			f := c05MapFwdOf(o)
			c05MapFwdCache[h] = f
			return f
		}
		return nil
	}
	recv := h.Params[0]
	// exactly one sync.Map operation, on the wrapped field of the receiver, in h or in a closure of h
	var inner ssa.CallInstruction
	n := 0
	bad := false
	scan := func(g *ssa.Function, inH bool) {
		AllInstrs(g, func(in ssa.Instruction) {
			call, ok := in.(ssa.CallInstruction)
			if !ok {
				switch in.(type) {
				case *ssa.Store, *ssa.MapUpdate, *ssa.Send, *ssa.Go, *ssa.Defer:
					if st, isSt := in.(*ssa.Store); isSt {
						if a, isA := st.Addr.(*ssa.Alloc); isA && a.Parent() == g {
							return // a local (named result, spilled parameter)
						}
					}
					bad = true
				}
				return
			}
			name := CalleeName(call)
			if strings.HasPrefix(name, "(*sync.Map).") {
				n++
				if inH {
					fa, isFA := call.Common().Args[0].(*ssa.FieldAddr)
					if !isFA || c05ParamOf(fa.X) != recv {
						bad = true
					}
					inner = call
				} else {
					inner = call
				}
				return
			}
			if strings.HasPrefix(name, "dyn:") || strings.HasPrefix(name, "builtin:") {
				return // the yield function of an iterator adaptor, len/cap
			}
			bad = true // anything else makes it more than a forwarder
		})
	}
	scan(h, true)
	for _, a := range Anons(h) {
		scan(a, false)
	}
	if bad || n != 1 || inner == nil {
		return nil
	}
	f := &c05MapFwd{name: CalleeName(inner), key: -1, val: -1, valueRes: -1, okRes: -1}
	if inner.Parent() != h {
		// an iterator adaptor over Range: a reader without key
		if f.name != "(*sync.Map).Range" {
			return nil
		}
		c05MapFwdCache[h] = f
		return f
	}
	pidx := func(v ssa.Value) int {
		p := c05ParamOf(v)
		for i, q := range h.Params {
			if q == p && p != nil {
				return i
			}
		}
		return -1
	}
	ia := inner.Common().Args
	if len(ia) > 1 {
		if f.key = pidx(ia[1]); f.key < 0 {
			return nil
		}
	}
	if len(ia) > 2 {
		if f.val = pidx(ia[2]); f.val < 0 {
			return nil
		}
	}
	// results: which result of h is the inner value / the inner ok
	iv, iok := ResultOf(inner, 0), ResultOf(inner, 1)
	if inner.Common().Signature().Results().Len() == 1 {
		if b, isB := inner.Common().Signature().Results().At(0).Type().Underlying().(*types.Basic); isB && b.Kind() == types.Bool {
			iv, iok = nil, ResultOf(inner, 0)
		}
	}
	var te, fe []Edge
	okAl := map[ssa.Value]bool{}
	if iok != nil {
		okAl = Aliases(iok)
		te, fe = BoolTests(h, okAl)
	}
	for k := 0; k < h.Signature.Results().Len(); k++ {
		rt := h.Signature.Results().At(k).Type()
		atoms := RetAtoms(h, k)
		if len(atoms) == 0 {
			continue
		}
		if b, isB := rt.Underlying().(*types.Basic); isB && b.Kind() == types.Bool && iok != nil {
			good := true
			for _, a := range atoms {
				if okAl[a.Val] || okAl[strip(a.Val)] {
					continue
				}
				if kc, isK := a.Val.(*ssa.Const); isK && kc.Value != nil {
					if kc.Value.String() == "true" && len(te) > 0 && c05AtomMustPass(a, newCut().Edges(te...)) {
						continue
					}
					if kc.Value.String() == "false" && len(fe) > 0 && c05AtomMustPass(a, newCut().Edges(fe...)) {
						continue
					}
				}
				if _, isZero := a.Val.(zeroMarker); isZero && len(fe) > 0 && c05AtomMustPass(a, newCut().Edges(fe...)) {
					continue
				}
				good = false
			}
			if good && f.okRes < 0 {
				f.okRes = k
				continue
			}
		}
		if iv != nil && f.valueRes < 0 {
			good, some := true, false
			for _, a := range atoms {
				v := strip(a.Val)
				if ta, isTA := v.(*ssa.TypeAssert); isTA {
					v = strip(ta.X)
				}
				if ex, isE := v.(*ssa.Extract); isE && ex.Index == 0 && inner.Value() != nil && ex.Tuple == ssa.Value(inner.Value()) {
					some = true
					continue
				}
				if v == iv {
					some = true
					continue
				}
				if _, isZero := a.Val.(zeroMarker); isZero {
					continue
				}
				if _, isK := v.(*ssa.Const); isK {
					continue
				}
				good = false
			}
			if good && some {
				f.valueRes = k
			}
		}
	}
	c05MapFwdCache[h] = f
	return f
}

// c05MapOp: call as a concurrent-map operation, or nil.
func c05MapOp(call ssa.CallInstruction) *c05MapView {
	if call == nil || call.Common().IsInvoke() {
		return nil
	}
	name := CalleeName(call)
	args := call.Common().Args
	if strings.HasPrefix(name, "(*sync.Map).") && len(args) > 0 {
		v := &c05MapView{Call: call, Name: name, Recv: args[0]}
		if len(args) > 1 {
			v.Key = args[1]
		}
		if len(args) > 2 {
			v.Val = args[2]
		}
		switch name {
		case "(*sync.Map).Load", "(*sync.Map).LoadOrStore", "(*sync.Map).LoadAndDelete", "(*sync.Map).Swap":
			v.Value, v.Ok = ResultOf(call, 0), ResultOf(call, 1)
		case "(*sync.Map).CompareAndSwap", "(*sync.Map).CompareAndDelete":
			v.Ok = ResultOf(call, 0)
		}
		return v
	}
	f := c05MapFwdOf(StaticCallee(call))
	if f == nil || len(args) == 0 {
		return nil
	}
	v := &c05MapView{Call: call, Name: f.name, Recv: args[0]}
	if f.key >= 0 && f.key < len(args) {
		v.Key = args[f.key]
	}
	if f.val >= 0 && f.val < len(args) {
		v.Val = args[f.val]
	}
	if f.valueRes >= 0 {
		v.Value = ResultOf(call, f.valueRes)
	}
	if f.okRes >= 0 {
		v.Ok = ResultOf(call, f.okRes)
	}
	return v
}

// c05MapOpName: the canonical sync.Map operation a call performs ("" when it is none).
func c05MapOpName(call ssa.CallInstruction) string {
	if v := c05MapOp(call); v != nil {
		return v.Name
	}
	return ""
}

// c05GlobalErrorTable: v is a load of a package-level slice variable that is
// assigned only once, in its declaration, a literal of package-level error
// variables: their short names.  ok=false when the table can change.
func c05GlobalErrorTable(v ssa.Value) ([]string, bool) {
	ld, ok := strip(v).(*ssa.UnOp)
	if !ok || ld.Op != token.MUL {
		return nil, false
	}
	g, ok := ld.X.(*ssa.Global)
	if !ok || g.Pkg == nil {
		return nil, false
	}
	// never written outside init, never address-taken
	var cands []*ssa.Function
	for _, m := range g.Pkg.Members {
		if f, isF := m.(*ssa.Function); isF {
			cands = append(cands, f)
		}
	}
	if c05Cur != nil && c05Cur.p != nil {
		// methods too
		for f := range c05Cur.p.All {
			if f.Parent() == nil && f.Pkg == g.Pkg && f.Signature.Recv() != nil {
				cands = append(cands, f)
			}
		}
	}
	for _, f := range cands {
		bad := false
		for _, fn := range append([]*ssa.Function{f}, Anons(f)...) {
			AllInstrs(fn, func(in ssa.Instruction) {
				for _, op := range in.Operands(nil) {
					if *op != ssa.Value(g) {
						continue
					}
					if u, isLd := in.(*ssa.UnOp); isLd && u.Op == token.MUL {
						continue
					}
					if st, isSt := in.(*ssa.Store); isSt && st.Addr == ssa.Value(g) && fn.Name() == "init" && fn.Parent() == nil {
						continue
					}
					bad = true
				}
			})
		}
		if bad {
			return nil, false
		}
	}
	init := g.Pkg.Func("init")
	if init == nil {
		return nil, false
	}
	var names []string
	n := 0
	good := true
	AllInstrs(init, func(in ssa.Instruction) {
		st, ok := in.(*ssa.Store)
		if !ok || st.Addr != ssa.Value(g) {
			return
		}
		n++
		sl, ok := st.Val.(*ssa.Slice)
		if !ok {
			good = false
			return
		}
		a, ok := sl.X.(*ssa.Alloc)
		if !ok {
			good = false
			return
		}
		for _, r := range *a.Referrers() {
			ia, ok := r.(*ssa.IndexAddr)
			if !ok {
				continue
			}
			for _, r2 := range *ia.Referrers() {
				if s2, ok := r2.(*ssa.Store); ok && s2.Addr == ssa.Value(ia) {
					nm := sentinelName(s2.Val)
					if nm == "" {
						good = false
					}
					names = append(names, nm)
				}
			}
		}
	})
	if !good || n != 1 {
		return nil, false
	}
	return names, true
}

// ---------------------------------------------------------------- step tables

// c05StepTable is the fallible-sequence idiom
//
//	for _, step := range []func() error{a, b, c} { if err := step(); err != nil { return err } }
//
// (elements may also be structs with one func field that is called): the
// straight-line sequence a; b; c with an early return on the first error.
type c05StepTable struct {
	Fn    *ssa.Function
	It    *c05Iter
	Steps []ssa.Value // the element functions in order (MakeClosure / Function values; for struct elements the called field)
	Call  *ssa.Call   // the dynamic call of the current step in the loop body
	Done  []Edge      // edges leaving the loop once every step has returned nil
}

var c05StepTablesCache = map[*ssa.Function][]*c05StepTable{}

func c05StepTables(fn *ssa.Function) []*c05StepTable {
	if t, ok := c05StepTablesCache[fn]; ok {
		return t
	}
	var out []*c05StepTable
	e := c05Root(fn)
	for _, it := range c05ItersIn(e) {
		if it.Loop == nil || it.slice == nil || it.viaRole != "" {
			continue
		}
		sl, ok := strip(it.slice).(*ssa.Slice)
		if !ok {
			continue
		}
		arr, ok := sl.X.(*ssa.Alloc)
		if !ok {
			continue
		}
		// the dynamic call of the current element (or of a func field of it) in the body
		var dyn *ssa.Call
		field := -1
		n := 0
		for b := range it.Loop.Blocks {
			for _, in := range b.Instrs {
				call, isCall := in.(*ssa.Call)
				if !isCall || call.Call.IsInvoke() || StaticCallee(call) != nil {
					continue
				}
				if _, isB := call.Call.Value.(*ssa.Builtin); isB {
					continue
				}
				v := call.Call.Value
				f := -1
				if fl, isF := v.(*ssa.Field); isF {
					v, f = fl.X, fl.Field
				} else if ld, isL := v.(*ssa.UnOp); isL && ld.Op == token.MUL {
					if fa, isFA := ld.X.(*ssa.FieldAddr); isFA {
						if ia, isIA := fa.X.(*ssa.IndexAddr); isIA && it.idx[ia.Index] {
							n++
							dyn, field = call, fa.Field
							continue
						}
						// the element copied into the loop variable first (`for _, step := range steps { step.run() }`)
						if cell, isA := fa.X.(*ssa.Alloc); isA {
							if sv := c05SingleStoredValue(cell); sv != nil && it.IsElem(sv, e, "val") {
								n++
								dyn, field = call, fa.Field
								continue
							}
						}
					}
				}
				if it.IsElem(v, e, "val") {
					n++
					dyn, field = call, f
				}
			}
		}
		if n != 1 || dyn == nil || ErrOf(dyn) == nil {
			continue
		}
		// a failing step ends the function with a non-nil error; a nil result goes on with the next element
		al := Aliases(ErrOf(dyn))
		_, nonNil, ifs := NilTests(fn, al)
		if len(ifs) == 0 {
			continue
		}
		okFail := true
		for _, ne := range nonNil {
			if c05ReachF(ne.To, 0, ne.From, it.Loop.Header.Instrs[0], nil, c05EdgeFacts(ne), nil) {
				okFail = false // a failed step does not stop the sequence
			}
		}
		if !okFail {
			continue
		}
		// elements in index order
		steps := map[int64]ssa.Value{}
		max := int64(-1)
		for _, ref := range *arr.Referrers() {
			ia, isIA := ref.(*ssa.IndexAddr)
			if !isIA {
				continue
			}
			k, isK := constInt(ia.Index)
			if !isK {
				continue
			}
			for _, r2 := range *ia.Referrers() {
				switch u := r2.(type) {
				case *ssa.Store:
					if u.Addr == ssa.Value(ia) && field < 0 {
						steps[k] = u.Val
					}
				case *ssa.FieldAddr:
					if u.Field == field {
						for _, r3 := range *u.Referrers() {
							if st, isSt := r3.(*ssa.Store); isSt && st.Addr == ssa.Value(u) {
								steps[k] = st.Val
							}
						}
					}
				}
			}
			if k > max {
				max = k
			}
		}
		t := &c05StepTable{Fn: fn, It: it, Call: dyn}
		for k := int64(0); k <= max; k++ {
			v, ok := steps[k]
			if !ok {
				t = nil
				break
			}
			t.Steps = append(t.Steps, strip(v))
		}
		if t == nil || len(t.Steps) == 0 {
			continue
		}
		for _, ex := range it.Loop.Exits {
			if ex.From == it.Loop.Header {
				t.Done = append(t.Done, ex)
			}
		}
		if len(t.Done) == 0 {
			continue
		}
		out = append(out, t)
	}
	c05StepTablesCache[fn] = out
	return out
}

// c05StepFn: the in-module function a step value runs (closure or plain function); nil for bound methods of other packages.
func c05StepFn(v ssa.Value) *ssa.Function {
	switch x := v.(type) {
	case *ssa.MakeClosure:
		if f := x.Fn.(*ssa.Function); inModule(f) && len(f.Blocks) > 0 && !strings.HasPrefix(f.Synthetic, "bound method wrapper") {
			return f
		}
	case *ssa.Function:
		if inModule(x) && len(x.Blocks) > 0 {
			return x
		}
	}
	return nil
}

// c05StepIndex: e.Fn is step #k of a step table of its parent function.
func c05StepIndex(e *c05Env) (*c05StepTable, int) {
	if e == nil || e.Parent == nil {
		return nil, -1
	}
	for _, t := range c05StepTables(e.Parent.Fn) {
		for k, s := range t.Steps {
			if c05StepFn(s) == e.Fn {
				return t, k
			}
		}
	}
	return nil, -1
}

// c05StepBoundMethod: step v is the method value recv.<name> (a bound method wrapper): the receiver, or nil.
func c05StepBoundMethod(v ssa.Value, name string) ssa.Value {
	mc, ok := v.(*ssa.MakeClosure)
	if !ok || len(mc.Bindings) != 1 {
		return nil
	}
	f := mc.Fn.(*ssa.Function)
	if !strings.HasPrefix(f.Synthetic, "bound method wrapper") || fnFullName(f) != name {
		return nil
	}
	return mc.Bindings[0]
}
