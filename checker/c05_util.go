package main

// Helpers owned by C05/C06/C07 (prefix c05): a small path-sensitive
// interpreter over a single SSA function (acyclic path enumeration with
// store->load forwarding of field cells and pruning of contradictory branch
// conditions), plus value-provenance helpers.
//
// The interpreter exists because the verifier (content.VerifyReader.Verify)
// returns `vr.err` on some paths: whether that value can be nil depends on the
// branch conditions taken (`vr.err == nil` false edge) and on the stores that
// precede the load on the path.  Plain cut-reachability cannot express that.

import (
	"fmt"
	"go/token"
	"go/types"
	"sort"
	"strings"

	"golang.org/x/tools/go/ssa"
)

// c05Path is one feasible acyclic path entry -> End (a Return, or a chosen
// target instruction).
type c05Path struct {
	Blocks []*ssa.BasicBlock
	Edges  map[Edge]bool
	End    ssa.Instruction
	st     *c05State
}

type c05MemVal struct {
	sym string
	val ssa.Value // nil if unknown
}

type c05State struct {
	facts map[string]bool
	mem   map[string]c05MemVal
	sym   map[ssa.Value]string
	val   map[ssa.Value]ssa.Value // phi / load -> value it denotes on this path
	epoch int
}

func (s *c05State) clone() *c05State {
	n := &c05State{facts: make(map[string]bool, len(s.facts)), mem: make(map[string]c05MemVal, len(s.mem)),
		sym: make(map[ssa.Value]string, len(s.sym)), val: make(map[ssa.Value]ssa.Value, len(s.val)), epoch: s.epoch}
	for k, v := range s.facts {
		n.facts[k] = v
	}
	for k, v := range s.mem {
		n.mem[k] = v
	}
	for k, v := range s.sym {
		n.sym[k] = v
	}
	for k, v := range s.val {
		n.val[k] = v
	}
	return n
}

// symOf: canonical symbol of a value in the current path state.
func (s *c05State) symOf(v ssa.Value) string {
	if v == nil {
		return "?"
	}
	v = strip(v)
	if x, ok := s.sym[v]; ok {
		return x
	}
	switch u := v.(type) {
	case *ssa.Const:
		if u.Value == nil {
			return "const:nil"
		}
		return "const:" + u.Value.ExactString()
	case *ssa.Parameter:
		return "P:" + u.Name()
	case *ssa.FreeVar:
		return "FV:" + u.Name()
	case *ssa.Global:
		return "g:" + short(u.Pkg.Pkg.Path()+"."+u.Name())
	case *ssa.Alloc:
		if !c05AllocEscapes(u) {
			return "alloc!" + u.Name()
		}
		return "alloc:" + u.Name()
	case *ssa.FieldAddr:
		return s.symOf(u.X) + "." + c05FieldNameOf(u.X.Type(), u.Field)
	case *ssa.IndexAddr:
		return s.symOf(u.X) + "[" + s.symOf(u.Index) + "]"
	case *ssa.Field:
		return s.symOf(u.X) + "." + c05FieldNameOf(u.X.Type(), u.Field)
	case *ssa.Extract:
		return s.symOf(u.Tuple) + "#" + fmt.Sprint(u.Index)
	}
	return "v:" + v.Name()
}

func c05FieldNameOf(t types.Type, idx int) string {
	if p, ok := t.Underlying().(*types.Pointer); ok {
		t = p.Elem()
	}
	if st, ok := t.Underlying().(*types.Struct); ok && idx < st.NumFields() {
		return st.Field(idx).Name()
	}
	return fmt.Sprint("#", idx)
}

// resolve: the value v denotes on this path (through phi selection and
// store->load forwarding); v itself when unknown.
func (s *c05State) resolve(v ssa.Value) ssa.Value {
	for i := 0; i < 16; i++ {
		w, ok := s.val[v]
		if !ok || w == nil || w == v {
			if sv := strip(v); sv != v {
				v = sv
				continue
			}
			return v
		}
		v = w
	}
	return v
}

// loadPathSym evaluates a field path from a base symbol as a sequence of
// loads in the current state: loadPathSym("P:vr","base","N") is the symbol a
// fresh `vr.base.N` would yield now.
func (s *c05State) loadPathSym(base string, fields ...string) string {
	cur := base
	for _, f := range fields {
		ap := cur + "." + f
		if m, ok := s.mem[ap]; ok {
			cur = m.sym
		} else {
			cur = fmt.Sprintf("mem:%s@%d", ap, s.epoch)
		}
	}
	return cur
}

func c05EqKey(a, b string) string {
	if a > b {
		a, b = b, a
	}
	return "eq(" + a + "," + b + ")"
}

// condKey canonicalises a branch condition into (key, polarity-on-true-edge).
func (s *c05State) condKey(cond ssa.Value) (string, bool) {
	pol := true
	for {
		u, ok := cond.(*ssa.UnOp)
		if !ok || u.Op != token.NOT {
			break
		}
		cond = u.X
		pol = !pol
	}
	if bo, ok := cond.(*ssa.BinOp); ok {
		a, b := s.symOf(bo.X), s.symOf(bo.Y)
		switch bo.Op {
		case token.EQL:
			return c05EqKey(a, b), pol
		case token.NEQ:
			return c05EqKey(a, b), !pol
		case token.LSS:
			return "lt(" + a + "," + b + ")", pol
		case token.GTR:
			return "lt(" + b + "," + a + ")", pol
		case token.LEQ:
			return "lt(" + b + "," + a + ")", !pol
		case token.GEQ:
			return "lt(" + a + "," + b + ")", !pol
		}
	}
	return "b:" + s.symOf(cond), pol
}

// nonNil reports whether value v is known non-nil on this path.
func (s *c05State) nonNil(v ssa.Value) bool {
	r := s.resolve(v)
	if ErrNilStatus(r, 0) == NonNil {
		return true
	}
	if f, ok := s.facts[c05EqKey(s.symOf(v), "const:nil")]; ok && !f {
		return true
	}
	if f, ok := s.facts[c05EqKey(s.symOf(r), "const:nil")]; ok && !f {
		return true
	}
	return false
}

func c05AllocEscapes(a *ssa.Alloc) bool {
	for _, r := range *a.Referrers() {
		switch u := r.(type) {
		case *ssa.Store:
			if u.Val == ssa.Value(a) {
				return true
			}
		case *ssa.UnOp, *ssa.FieldAddr, *ssa.IndexAddr, *ssa.DebugRef:
		default:
			return true
		}
	}
	return false
}

// step executes one non-control instruction.
func (s *c05State) step(in ssa.Instruction) {
	switch u := in.(type) {
	case *ssa.UnOp:
		if u.Op != token.MUL {
			return
		}
		if g, ok := u.X.(*ssa.Global); ok {
			s.sym[u] = "g:" + short(g.Pkg.Pkg.Path()+"."+g.Name())
			return
		}
		ap := s.symOf(u.X)
		if m, ok := s.mem[ap]; ok {
			s.sym[u] = m.sym
			if m.val != nil {
				s.val[u] = m.val
			}
		} else {
			s.sym[u] = fmt.Sprintf("mem:%s@%d", ap, s.epoch)
		}
	case *ssa.Store:
		ap := s.symOf(u.Addr)
		s.mem[ap] = c05MemVal{sym: s.symOf(u.Val), val: s.resolve(u.Val)}
		// a store through a field address invalidates whole-struct knowledge and vice versa
		for k := range s.mem {
			if k != ap && (strings.HasPrefix(k, ap+".") || strings.HasPrefix(ap, k+".")) {
				delete(s.mem, k)
			}
		}
	case *ssa.MapUpdate:
		s.epoch++
	case ssa.CallInstruction:
		if _, isDefer := in.(*ssa.Defer); isDefer {
			return // runs at RunDefers
		}
		if b, ok := u.Common().Value.(*ssa.Builtin); ok {
			switch b.Name() {
			case "len", "cap", "min", "max":
				return
			}
		}
		if c05PureCall(u, 0) {
			return // computes a value, writes nothing: what is known about memory stays known
		}
		s.havoc()
	case *ssa.RunDefers:
		s.epoch++
		for k := range s.mem {
			delete(s.mem, k)
		}
	}
}

// havoc forgets everything a callee may have changed: all memory except
// local cells that never escape.
func (s *c05State) havoc() {
	s.epoch++
	for k := range s.mem {
		if strings.HasPrefix(k, "alloc!") {
			continue
		}
		delete(s.mem, k)
	}
}

const c05PathBudget = 20000

// c05EnumPaths enumerates the feasible acyclic paths of fn from entry to
// every Return (target == nil) or to the given target instruction.  ok=false
// when the budget is exceeded.
func c05EnumPaths(fn *ssa.Function, target ssa.Instruction) (paths []*c05Path, ok bool) {
	if len(fn.Blocks) == 0 {
		return nil, true
	}
	ok = true
	onPath := map[*ssa.BasicBlock]bool{}
	var blocks []*ssa.BasicBlock
	edges := []Edge{}
	var walk func(b, pred *ssa.BasicBlock, st *c05State)
	finish := func(end ssa.Instruction, st *c05State) {
		if len(paths) >= c05PathBudget {
			ok = false
			return
		}
		p := &c05Path{Blocks: append([]*ssa.BasicBlock{}, blocks...), Edges: map[Edge]bool{}, End: end, st: st}
		for _, e := range edges {
			p.Edges[e] = true
		}
		paths = append(paths, p)
	}
	walk = func(b, pred *ssa.BasicBlock, st *c05State) {
		if !ok || onPath[b] {
			return
		}
		onPath[b] = true
		blocks = append(blocks, b)
		defer func() { onPath[b] = false; blocks = blocks[:len(blocks)-1] }()
		// phis first (parallel assignment)
		type pa struct {
			phi *ssa.Phi
			sym string
			val ssa.Value
		}
		var pas []pa
		for _, in := range b.Instrs {
			phi, isPhi := in.(*ssa.Phi)
			if !isPhi {
				break
			}
			for i, p := range b.Preds {
				if p == pred {
					pas = append(pas, pa{phi, st.symOf(phi.Edges[i]), st.resolve(phi.Edges[i])})
					break
				}
			}
		}
		for _, x := range pas {
			st.sym[x.phi] = x.sym
			st.val[x.phi] = x.val
		}
		for _, in := range b.Instrs {
			if in == target {
				finish(in, st)
				return
			}
			switch u := in.(type) {
			case *ssa.Phi:
				continue
			case *ssa.Return:
				if target == nil {
					finish(u, st)
				}
				return
			case *ssa.Panic:
				return
			case *ssa.If:
				key, pol := st.condKey(u.Cond)
				for i, succ := range b.Succs {
					want := pol
					if i == 1 {
						want = !pol
					}
					if b.Succs[0] == b.Succs[1] {
						if i == 1 {
							continue
						}
					} else if have, known := st.facts[key]; known && have != want {
						continue // contradicts an earlier branch on this path
					}
					ns := st.clone()
					if b.Succs[0] != b.Succs[1] {
						ns.facts[key] = want
					}
					edges = append(edges, Edge{b, succ})
					walk(succ, b, ns)
					edges = edges[:len(edges)-1]
				}
				return
			case *ssa.Jump:
				edges = append(edges, Edge{b, b.Succs[0]})
				walk(b.Succs[0], b, st)
				edges = edges[:len(edges)-1]
				return
			default:
				st.step(in)
			}
		}
	}
	walk(fn.Blocks[0], nil, &c05State{facts: map[string]bool{}, mem: map[string]c05MemVal{}, sym: map[ssa.Value]string{}, val: map[ssa.Value]ssa.Value{}})
	return paths, ok
}

// took reports whether the path takes one of the edges.
func (p *c05Path) took(es []Edge) bool {
	for _, e := range es {
		if p.Edges[e] {
			return true
		}
	}
	return false
}

func (p *c05Path) String() string {
	var s []string
	for _, b := range p.Blocks {
		s = append(s, fmt.Sprint("b", b.Index))
	}
	return strings.Join(s, ">")
}

// ---------- static condition labelling ----------

// c05LoadPath renders the access path of a value that is a chain of loads
// from a parameter: `vr.base.N` -> "P:vr.base*.N*".
func c05LoadPath(v ssa.Value) string {
	v = strip(v)
	if u, ok := v.(*ssa.UnOp); ok && u.Op == token.MUL {
		return accessPath(u.X) + "*"
	}
	return accessPath(v)
}

// c05CmpEdges returns the edges of fn on which a comparison `x OP k` between a
// value satisfying isX and a value satisfying isK is known to hold (rel is
// one of "==", "!=", "<=0" (x not positive, k must be 0/1 const handled by caller)).
func c05EqEdges(fn *ssa.Function, isA, isB func(v ssa.Value) bool) (eq, ne []Edge) {
	for _, i := range Ifs(fn) {
		cond, t, f := ifEdges(i)
		switch c := cond.(type) {
		case *ssa.BinOp:
			if c.Op != token.EQL && c.Op != token.NEQ {
				continue
			}
			if !(isA(c.X) && isB(c.Y)) && !(isA(c.Y) && isB(c.X)) {
				continue
			}
			if c.Op == token.EQL {
				eq, ne = append(eq, t), append(ne, f)
			} else {
				eq, ne = append(eq, f), append(ne, t)
			}
		case *ssa.Call:
			if CalleeName(c) == "errors.Is" && len(c.Call.Args) == 2 && isA(c.Call.Args[0]) && isB(c.Call.Args[1]) {
				eq, ne = append(eq, t), append(ne, f)
				continue
			}
			// a boolean helper that merely wraps the comparison: func isEOF(err error) bool { return err == io.EOF }
			if x, y, neg, ok := c05BoolHelperCmp(c); ok && ((isA(x) && isB(y)) || (isA(y) && isB(x))) {
				if neg {
					eq, ne = append(eq, f), append(ne, t)
				} else {
					eq, ne = append(eq, t), append(ne, f)
				}
			}
		}
	}
	return
}

// c05BoolHelperCmp: call is to an in-module helper whose body is a single
// `return a == b` / `a != b` / `errors.Is(a, b)`; x and y are the compared
// values with the helper's parameters replaced by the call's arguments.
func c05BoolHelperCmp(call *ssa.Call) (x, y ssa.Value, negated, ok bool) {
	h := StaticCallee(call)
	if h == nil || !inModule(h) || len(h.Blocks) != 1 || h.Signature.Results().Len() != 1 {
		return
	}
	rets := Returns(h)
	if len(rets) != 1 {
		return
	}
	subst := func(v ssa.Value) ssa.Value {
		if p, isP := strip(v).(*ssa.Parameter); isP {
			for i, q := range h.Params {
				if q == p && i < len(call.Call.Args) {
					return call.Call.Args[i]
				}
			}
		}
		return v
	}
	switch r := rets[0].Results[0].(type) {
	case *ssa.BinOp:
		if r.Op != token.EQL && r.Op != token.NEQ {
			return
		}
		return subst(r.X), subst(r.Y), r.Op == token.NEQ, true
	case *ssa.Call:
		if CalleeName(r) == "errors.Is" && len(r.Call.Args) == 2 {
			return subst(r.Call.Args[0]), subst(r.Call.Args[1]), false, true
		}
	}
	return
}

// c05NotPositiveEdges: edges on which integer x (isX) is known <= 0, and
// edges on which it is known > 0.
func c05NotPositiveEdges(fn *ssa.Function, isX func(v ssa.Value) bool) (le0, gt0 []Edge) {
	for _, i := range Ifs(fn) {
		cond, t, f := ifEdges(i)
		bo, ok := cond.(*ssa.BinOp)
		if !ok {
			continue
		}
		op := bo.Op
		x, k := bo.X, bo.Y
		if !isX(x) {
			if !isX(bo.Y) {
				continue
			}
			// k OP x  ->  x OP' k
			x, k = bo.Y, bo.X
			switch op {
			case token.LSS:
				op = token.GTR
			case token.GTR:
				op = token.LSS
			case token.LEQ:
				op = token.GEQ
			case token.GEQ:
				op = token.LEQ
			}
		}
		n, isConst := constInt(k)
		if !isConst {
			continue
		}
		switch {
		case op == token.GTR && n == 0, op == token.GEQ && n == 1: // x > 0
			gt0, le0 = append(gt0, t), append(le0, f)
		case op == token.LEQ && n == 0, op == token.LSS && n == 1: // x <= 0
			le0, gt0 = append(le0, t), append(gt0, f)
		case op == token.EQL && n == 0: // x == 0 implies not positive; the other edge says nothing
			le0 = append(le0, t)
		case op == token.NEQ && n == 0:
			le0 = append(le0, f)
		}
	}
	return
}

// c05IsGlobalLoad: v is a load of package-level variable pkg.name (short form "io.EOF").
func c05IsGlobalLoad(v ssa.Value, name string) bool {
	for _, r := range Roots(v) {
		u, ok := r.(*ssa.UnOp)
		if !ok || u.Op != token.MUL {
			return false
		}
		g, ok := u.X.(*ssa.Global)
		if !ok || short(g.Pkg.Pkg.Path()+"."+g.Name()) != name {
			return false
		}
	}
	return true
}

// ---------- provenance ----------

// c05ParamOf resolves v to the function parameter it is a copy of: the
// parameter itself, a load of a local that is only ever assigned the
// parameter (struct parameters are spilled to a local so their fields can be
// addressed), or — inside a closure — a load of a captured such local.
func c05ParamOf(v ssa.Value) *ssa.Parameter {
	for depth := 0; depth < 6; depth++ {
		v = strip(v)
		switch u := v.(type) {
		case *ssa.Parameter:
			return u
		case *ssa.UnOp:
			if u.Op != token.MUL {
				return nil
			}
			switch a := u.X.(type) {
			case *ssa.Alloc:
				p := c05SingleStoredValue(a)
				if p == nil {
					return nil
				}
				v = p
				continue
			case *ssa.FreeVar:
				bs := freeVarBindings(a)
				if len(bs) != 1 {
					return nil
				}
				al, ok := bs[0].(*ssa.Alloc)
				if !ok {
					return nil
				}
				if freeVarWritten(a.Parent(), a) {
					return nil
				}
				p := c05SingleStoredValue(al)
				if p == nil {
					return nil
				}
				v = p
				continue
			}
			return nil
		default:
			return nil
		}
	}
	return nil
}

// c05SingleStoredValue: the only value ever stored into local a (whole-value
// stores in the declaring function, no store through a field address, no
// writing closure); nil otherwise.
func c05SingleStoredValue(a *ssa.Alloc) ssa.Value {
	var val ssa.Value
	n := 0
	for _, r := range *a.Referrers() {
		switch u := r.(type) {
		case *ssa.Store:
			if u.Addr == ssa.Value(a) {
				val = u.Val
				n++
			}
		case *ssa.FieldAddr:
			for _, r2 := range *u.Referrers() {
				if s, ok := r2.(*ssa.Store); ok && s.Addr == ssa.Value(u) {
					return nil
				}
			}
		case *ssa.MakeClosure:
			f := u.Fn.(*ssa.Function)
			for i, b := range u.Bindings {
				if b == ssa.Value(a) && freeVarWritten(f, f.FreeVars[i]) {
					return nil
				}
			}
		}
	}
	if n != 1 {
		return nil
	}
	return val
}

// c05FieldOfParam: v is a load of field `field` of (a copy of) parameter p.
func c05FieldOfParam(v ssa.Value, field string) *ssa.Parameter {
	for _, r := range Roots(v) {
		r = strip(r)
		switch u := r.(type) {
		case *ssa.UnOp:
			fa, ok := u.X.(*ssa.FieldAddr)
			if !ok || u.Op != token.MUL || c05FieldNameOf(fa.X.Type(), fa.Field) != field {
				return nil
			}
			switch b := fa.X.(type) {
			case *ssa.Alloc:
				if p, ok := c05SingleStoredValue(b).(*ssa.Parameter); ok {
					return p
				}
				if sv := c05SingleStoredValue(b); sv != nil {
					return c05ParamOf(sv)
				}
			case *ssa.Parameter:
				return b
			case *ssa.FreeVar:
				return c05ParamOf(&ssa.UnOp{Op: token.MUL, X: b})
			}
			return nil
		case *ssa.Field:
			if c05FieldNameOf(u.X.Type(), u.Field) != field {
				return nil
			}
			return c05ParamOf(u.X)
		default:
			return nil
		}
	}
	return nil
}

// c05IsFieldAddrOf: v is &recv.field for a receiver/param of named type typeName.
func c05IsFieldAddrOf(v ssa.Value, typeName, field string) bool {
	fa, ok := v.(*ssa.FieldAddr)
	if !ok {
		return false
	}
	return fieldName(fa.X.Type(), fa.Field) == typeName+"."+field
}

// c05FieldAddrUses lists, over the given functions, every instruction that
// uses the address of field typeName.field (loads, stores, calls taking it).
type c05FieldUse struct {
	Fn   *ssa.Function
	Addr *ssa.FieldAddr
	Use  ssa.Instruction
}

func c05FieldUses(fns []*ssa.Function, typeName, field string) []c05FieldUse {
	var out []c05FieldUse
	for _, f := range fns {
		AllInstrs(f, func(in ssa.Instruction) {
			fa, ok := in.(*ssa.FieldAddr)
			if !ok || !c05IsFieldAddrOf(fa, typeName, field) {
				return
			}
			for _, r := range *fa.Referrers() {
				if _, isDbg := r.(*ssa.DebugRef); isDbg {
					continue
				}
				out = append(out, c05FieldUse{f, fa, r})
			}
		})
	}
	return out
}

// c05NilEdgesOf: the edges on which the error result of call is nil.
func c05NilEdgesOf(call ssa.CallInstruction) []Edge {
	e := ErrOf(call)
	if e == nil {
		return nil
	}
	ne, _, _ := NilTests(call.Parent(), Aliases(e))
	return ne
}

// c05DeferKeepsError: deferred closures of fn that write the named error
// result may only (a) store a value known non-nil or (b) store under the
// condition that the result is currently nil.  Returns "" when fine.
func c05DeferKeepsError(fn *ssa.Function) string {
	idx := ErrResultIndex(fn.Signature)
	if idx < 0 {
		return ""
	}
	cells := map[*ssa.Alloc]bool{}
	for _, r := range Returns(fn) {
		if idx < len(r.Results) {
			if a := cellOf(r.Results[idx]); a != nil {
				cells[a] = true
			}
		}
	}
	// checkHandle: `h` is a pointer to the error result inside function g (a
	// captured free variable or a *error parameter).
	var checkHandle func(g *ssa.Function, h ssa.Value, depth int) string
	checkHandle = func(g *ssa.Function, h ssa.Value, depth int) string {
		if depth > 3 {
			return FnName(g) + ": the error result is passed on too deeply"
		}
		loads := map[ssa.Value]bool{}
		var stores []*ssa.Store
		for _, r := range *h.Referrers() {
			switch u := r.(type) {
			case *ssa.UnOp:
				loads[u] = true
			case *ssa.Store:
				if u.Addr == h {
					stores = append(stores, u)
				} else {
					return FnName(g) + " stores the address of the error result"
				}
			case *ssa.DebugRef:
			case *ssa.MakeClosure:
				f := u.Fn.(*ssa.Function)
				for i, bnd := range u.Bindings {
					if bnd == h {
						if why := checkHandle(f, f.FreeVars[i], depth+1); why != "" {
							return why
						}
					}
				}
			case ssa.CallInstruction:
				callee := StaticCallee(u)
				if callee == nil || !inModule(callee) || len(callee.Blocks) == 0 {
					return fmt.Sprintf("%s hands the address of the error result to %s: cannot show the error is preserved", FnName(g), CalleeName(u))
				}
				for i, a := range u.Common().Args {
					if a == h && i < len(callee.Params) {
						if why := checkHandle(callee, callee.Params[i], depth+1); why != "" {
							return why
						}
					}
				}
			default:
				return fmt.Sprintf("%s passes the error result cell on (%T)", FnName(g), r)
			}
		}
		if g == fn {
			return "" // stores in the function itself are return-value assignments, covered by the return atoms
		}
		nilE, _, _ := NilTests(g, loads)
		for _, s := range stores {
			if ErrNilStatus(s.Val, 0) == NonNil {
				continue
			}
			if len(nilE) > 0 && MustPass(s, newCut().Edges(nilE...)) {
				continue
			}
			return fmt.Sprintf("%s overwrites the error result with a possibly-nil value while it may be non-nil (a failed verification is reported as success)", FnName(g))
		}
		return ""
	}
	for a := range cells {
		if why := checkHandle(fn, a, 0); why != "" {
			return why
		}
	}
	return ""
}

// c05MaybeNilAtoms lists the return atoms of fn's error result that may be
// nil: not known non-nil by construction, and not returned on the non-nil side
// of their own nil test (`if err != nil { return err }`).
func c05MaybeNilAtoms(fn *ssa.Function) []RetAtom {
	idx := ErrResultIndex(fn.Signature)
	if idx < 0 {
		return nil
	}
	var out []RetAtom
	for _, a := range RetAtoms(fn, idx) {
		if ErrNilStatus(a.Val, 0) == NonNil {
			continue
		}
		if _, isConst := a.Val.(*ssa.Const); !isConst {
			if _, isZero := a.Val.(zeroMarker); !isZero {
				_, nonNilE, _ := NilTests(fn, Aliases(a.Val))
				if len(nonNilE) > 0 && c05AtomMustPass(a, newCut().Edges(nonNilE...)) {
					continue
				}
			}
		}
		out = append(out, a)
	}
	return out
}

func c05SortedKeys(m map[string]bool) []string {
	var o []string
	for k := range m {
		o = append(o, k)
	}
	sort.Strings(o)
	return o
}

// c05VariadicElems returns the values stored into the backing array of a
// variadic slice argument.
func c05VariadicElems(v ssa.Value) []ssa.Value {
	sl, ok := v.(*ssa.Slice)
	if !ok {
		return nil
	}
	a, ok := sl.X.(*ssa.Alloc)
	if !ok {
		return nil
	}
	type ie struct {
		i int64
		v ssa.Value
	}
	var elems []ie
	for _, r := range *a.Referrers() {
		ia, ok := r.(*ssa.IndexAddr)
		if !ok {
			continue
		}
		k, _ := constInt(ia.Index)
		for _, r2 := range *ia.Referrers() {
			if s, ok := r2.(*ssa.Store); ok && s.Addr == ssa.Value(ia) {
				elems = append(elems, ie{k, s.Val})
			}
		}
	}
	sort.Slice(elems, func(i, j int) bool { return elems[i].i < elems[j].i })
	var out []ssa.Value
	for _, e := range elems {
		out = append(out, e.v)
	}
	return out
}

// c05AtomMustPass works around ssau.AtomMustPass returning true for atoms whose
// anchor is the Return itself (a constant returned directly, no phi edge, no
// cell store): for those the question is simply whether the Return is
// reachable from entry avoiding the cut.
func c05AtomMustPass(a RetAtom, c *cut) bool {
	if len(a.Edges) == 0 && a.Store == nil {
		return !reach(a.Ret.Parent().Blocks[0], 0, a.Ret, c)
	}
	return AtomMustPass(a, c)
}

// ---------------------------------------------------------------- interprocedural helpers
//
// Rules are evaluated on an entry function (the "root") and on the unexported
// same-package helpers it calls statically (depth <= 3).  A c05Env is one node
// of that call tree; values are resolved towards the root through parameter
// passing, and "every path passes X" is decided with helper summaries: a call
// to a helper counts as passing X when every path through the helper passes X.

type c05Env struct {
	Fn     *ssa.Function
	Call   ssa.CallInstruction // the call in Parent.Fn that enters Fn; nil at the root and for closures
	Parent *c05Env
}

func c05Root(fn *ssa.Function) *c05Env { return &c05Env{Fn: fn} }

func (e *c05Env) isRoot() bool { return e.Parent == nil }

func (e *c05Env) root() *c05Env {
	for e.Parent != nil {
		e = e.Parent
	}
	return e
}

func (e *c05Env) depth() int {
	n := 0
	for x := e; x.Parent != nil; x = x.Parent {
		n++
	}
	return n
}

// c05Helper: the same-package function (with a body) a call enters statically.
func c05Helper(call ssa.CallInstruction, from *ssa.Function) *ssa.Function {
	g := StaticCallee(call)
	if g == nil || g == from || len(g.Blocks) == 0 || !inModule(g) || fnPkgPath(g) != fnPkgPath(from) {
		return nil
	}
	return g
}

// up resolves v towards the root: a parameter of a helper (or a local copy of
// it, or a variable captured from an enclosing function on the chain) is
// replaced by the argument at the call site.  It returns the value and the
// node in whose function it lives.
func (e *c05Env) up(v ssa.Value) (ssa.Value, *c05Env) {
	cur := e
	for i := 0; i < 12; i++ {
		// value identity through struct fields that merely carry a value: a load of x.F where x is a
		// struct literal built in this function or, for a method on a freshly built carrier struct,
		// in the caller (closure turned into a struct with methods)
		if nv, nat, ok := c05FieldCarry(v, cur); ok {
			v, cur = nv, nat
			continue
		}
		w := c05Unspill(v)
		var p *ssa.Parameter
		if q, ok := w.(*ssa.Parameter); ok {
			p = q
		} else if q := c05ParamOf(v); q != nil {
			p = q
		}
		if p == nil {
			return w, cur
		}
		owner := cur
		for owner != nil && owner.Fn != p.Parent() {
			owner = owner.Parent
		}
		if owner == nil {
			return p, cur
		}
		if owner.Parent == nil || owner.Call == nil {
			return p, owner
		}
		idx := -1
		for k, q := range owner.Fn.Params {
			if q == p {
				idx = k
			}
		}
		args := owner.Call.Common().Args
		if idx < 0 || idx >= len(args) {
			return p, owner
		}
		v, cur = args[idx], owner.Parent
	}
	return v, cur
}

// upParam: the root parameter v denotes, or nil.
func (e *c05Env) upParam(v ssa.Value) *ssa.Parameter {
	w, at := e.up(v)
	if p, ok := w.(*ssa.Parameter); ok && at.isRoot() {
		return p
	}
	if at.isRoot() {
		if p := c05ParamOf(w); p != nil && p.Parent() == at.Fn {
			return p
		}
	}
	return nil
}

// c05TreeEnvs lists the root and the helper nodes below it (closures included).
func c05TreeEnvs(root *c05Env, maxDepth int) []*c05Env {
	out := []*c05Env{root}
	var rec func(e *c05Env)
	rec = func(e *c05Env) {
		if e.depth() >= maxDepth {
			return
		}
		AllInstrs(e.Fn, func(in ssa.Instruction) {
			switch x := in.(type) {
			case ssa.CallInstruction:
				if h := c05Helper(x, e.Fn); h != nil {
					onChain := false
					for a := e; a != nil; a = a.Parent {
						if a.Fn == h {
							onChain = true
						}
					}
					if !onChain {
						ch := &c05Env{Fn: h, Call: x, Parent: e}
						out = append(out, ch)
						rec(ch)
					}
				}
			case *ssa.MakeClosure:
				ch := &c05Env{Fn: x.Fn.(*ssa.Function), Parent: e}
				out = append(out, ch)
				rec(ch)
			}
		})
	}
	rec(root)
	return out
}

type c05PassSpec struct {
	Instr func(in ssa.Instruction, e *c05Env) bool
	Edges func(e *c05Env) []Edge
	// Success: the obligation is "every SUCCESSFUL path passes": a helper with
	// an error result counts when each of its possibly-nil-error returns
	// passes; at the call site only the err==nil edge of the helper's error
	// (or returning that error as is) counts as having passed.
	Success bool
	// Returned: an error value whose being returned as is means "passed or
	// failed" (e.g. the result of the verifying call itself).
	Returned func(v ssa.Value, e *c05Env) bool
}

// c05PassCut: the instructions/edges of e.Fn that count as "passing": direct
// matches and calls of helpers every path of which passes.
func c05PassCut(e *c05Env, sp c05PassSpec) *cut {
	ct, _ := c05PassCut2(e, sp)
	return ct
}

// c05PassCut2 additionally returns the error values whose being returned as
// they are means "passed or failed" (results of success-mode helpers).
func c05PassCut2(e *c05Env, sp c05PassSpec) (*cut, map[ssa.Value]bool) {
	ct := newCut()
	direct := map[ssa.Value]bool{}
	AllInstrs(e.Fn, func(in ssa.Instruction) {
		if sp.Instr != nil && sp.Instr(in, e) {
			ct.Instr(in)
			return
		}
		call, ok := in.(*ssa.Call)
		if !ok || e.depth() >= 3 {
			return
		}
		h := c05Helper(call, e.Fn)
		if h == nil {
			return
		}
		for a := e; a != nil; a = a.Parent {
			if a.Fn == h {
				return
			}
		}
		child := &c05Env{Fn: h, Call: call, Parent: e}
		if sp.Success && ErrResultIndex(h.Signature) >= 0 {
			if c05SuccessPasses(child, sp) {
				if ev := ErrOf(call); ev != nil {
					al := Aliases(ev)
					ne, _, _ := NilTests(e.Fn, al)
					ct.Edges(ne...)
					for a := range al {
						direct[a] = true
					}
				}
			}
			return
		}
		if c05AlwaysPasses(child, sp) {
			ct.Instr(in)
		}
	})
	if sp.Edges != nil {
		ct.Edges(sp.Edges(e)...)
	}
	return ct, direct
}

// c05AlwaysPasses: every path from the entry of e.Fn to a return passes.
func c05AlwaysPasses(e *c05Env, sp c05PassSpec) bool {
	ct := c05PassCut(e, sp)
	if len(ct.instrs) == 0 && len(ct.edges) == 0 {
		return false
	}
	n := 0
	for _, r := range Returns(e.Fn) {
		if !ReachableFromEntry(r) {
			continue
		}
		n++
		if reach(e.Fn.Blocks[0], 0, r, ct) {
			return false
		}
	}
	return n > 0
}

// c05SuccessPasses: every return of e.Fn whose error may be nil passes (or
// hands on the verdict of a helper for which that holds); deferred code cannot
// clear the error.
func c05SuccessPasses(e *c05Env, sp c05PassSpec) bool {
	if ErrResultIndex(e.Fn.Signature) < 0 {
		return c05AlwaysPasses(e, sp)
	}
	ct, direct := c05PassCut2(e, sp)
	if len(ct.instrs) == 0 && len(ct.edges) == 0 && len(direct) == 0 && sp.Returned == nil {
		return false
	}
	if c05DeferKeepsError(e.Fn) != "" {
		return false
	}
	for _, a := range c05MaybeNilAtoms(e.Fn) {
		if direct[a.Val] || direct[strip(a.Val)] {
			continue
		}
		if sp.Returned != nil && sp.Returned(a.Val, e) {
			continue
		}
		if !c05AtomMustPass(a, ct) {
			return false
		}
	}
	return true
}

func c05CutInstrs(ct *cut) []ssa.Instruction {
	var out []ssa.Instruction
	for in := range ct.instrs {
		out = append(out, in)
	}
	return out
}

// c05SamePlace: two values denote the same thing: identical after resolution,
// or loads of the same field path of a parameter (index.Manifests read twice).
func c05SamePlace(a, b ssa.Value) bool {
	if SameValue(a, b) {
		return true
	}
	pa, pb := c05LoadPath(a), c05LoadPath(b)
	return pa == pb && strings.HasPrefix(pa, "P:") && strings.HasSuffix(pa, "*")
}

// c05SliceLoop finds the loop of fn that visits every element of the slice
// satisfying isS, in any of the forms `for range s`, `for i := range s`,
// `for i := 0; i < len(s); i++`.  idx are the values that index the current
// element.
func c05SliceLoop(fn *ssa.Function, isS func(v ssa.Value) bool) (loop *Loop, idx map[ssa.Value]bool, body Edge) {
	for _, l := range Loops(fn) {
		if r, i, b, _, ok := l.RangeIndex(); ok && isS(r) {
			return l, map[ssa.Value]bool{i: true}, b
		}
		h := l.Header
		if len(h.Instrs) == 0 {
			continue
		}
		ifi, isIf := h.Instrs[len(h.Instrs)-1].(*ssa.If)
		if !isIf {
			continue
		}
		cond, t, _ := ifEdges(ifi)
		bo, isBin := cond.(*ssa.BinOp)
		if !isBin {
			continue
		}
		x, bound := bo.X, bo.Y
		switch bo.Op {
		case token.LSS:
		case token.GTR:
			x, bound = bo.Y, bo.X
		default:
			continue
		}
		ln, isLen := bound.(*ssa.Call)
		if !isLen || CalleeName(ln) != "builtin:len" || !isS(ln.Call.Args[0]) {
			continue
		}
		phi, isPhi := x.(*ssa.Phi)
		if !isPhi || phi.Block() != h || len(phi.Edges) != 2 {
			continue
		}
		okInit, okStep := false, false
		for _, ev := range phi.Edges {
			if k, isK := constInt(ev); isK && k == 0 {
				okInit = true
			}
			if inc, isInc := ev.(*ssa.BinOp); isInc && inc.Op == token.ADD && inc.X == ssa.Value(phi) {
				if k, isK := constInt(inc.Y); isK && k == 1 {
					okStep = true
				}
			}
		}
		if okInit && okStep && l.Blocks[t.To] {
			return l, map[ssa.Value]bool{phi: true}, t
		}
	}
	return nil, nil, Edge{}
}

// ---------------------------------------------------------------- verified-copy calls

// c05Copy is a call whose nil error means "src was copied into dst and
// verified against desc": ioutil.CopyBuffer itself, or a same-package helper
// whose every possibly-nil-error return lies behind such a call and which
// passes its own parameters as dst/src/desc.
type c05Copy struct {
	Call           ssa.CallInstruction
	Dst, Src, Desc ssa.Value // values in the calling function
}

func c05CopyCalls(fn *ssa.Function) []c05Copy { return c05CopyCallsE(c05Root(fn)) }

func c05CopyCallsE(e *c05Env) []c05Copy {
	var out []c05Copy
	for _, call := range Calls(e.Fn, func(string) bool { return true }) {
		if _, isDefer := call.(*ssa.Defer); isDefer {
			continue
		}
		if CalleeName(call) == "~/internal/ioutil.CopyBuffer" {
			a := call.Common().Args
			out = append(out, c05Copy{call, a[0], a[1], a[3]})
			continue
		}
		h := c05Helper(call, e.Fn)
		if h == nil || ErrResultIndex(h.Signature) < 0 || e.depth() >= 3 {
			continue
		}
		onChain := false
		for a := e; a != nil; a = a.Parent {
			if a.Fn == h {
				onChain = true
			}
		}
		if onChain {
			continue
		}
		child := &c05Env{Fn: h, Call: call, Parent: e}
		sub := c05CopyCallsE(child)
		if len(sub) == 0 {
			continue
		}
		subRes := map[ssa.Value]bool{}
		var nilE []Edge
		for _, sc := range sub {
			nilE = append(nilE, c05NilEdgesOf(sc.Call)...)
			if v := sc.Call.Value(); v != nil {
				for a := range Aliases(v) {
					subRes[a] = true
				}
			}
		}
		okSum := c05DeferKeepsError(h) == ""
		for _, a := range c05MaybeNilAtoms(h) {
			if subRes[a.Val] || subRes[strip(a.Val)] {
				continue
			}
			if !c05AtomMustPass(a, newCut().Edges(nilE...)) {
				okSum = false
			}
		}
		if !okSum {
			continue
		}
		// every inner copy must be about the helper's own parameters
		var cp *c05Copy
		okMap := true
		for _, sc := range sub {
			d, dat := child.up(strip(sc.Dst))
			sr, sat := child.up(strip(sc.Src))
			ds, sdt := child.up(sc.Desc)
			if dat != e || sat != e || sdt != e {
				okMap = false
				break
			}
			cp = &c05Copy{call, d, sr, ds}
		}
		if okMap && cp != nil {
			out = append(out, *cp)
		}
	}
	return out
}

var c05PureStd = map[string]bool{"errors.Is": true, "os.IsNotExist": true, "os.IsExist": true, "strings.HasPrefix": true, "strings.HasSuffix": true, "strings.Contains": true}

// c05PureCall: the call only computes a value: a known side-effect free
// library function, or an in-module function whose body contains no store,
// map update, send, go/defer and only pure calls.
func c05PureCall(call ssa.CallInstruction, depth int) bool {
	if call.Common().IsInvoke() {
		return false
	}
	if c05PureStd[CalleeName(call)] {
		return true
	}
	h := StaticCallee(call)
	if h == nil || !inModule(h) || len(h.Blocks) == 0 || depth > 2 {
		return false
	}
	pure := true
	AllInstrs(h, func(in ssa.Instruction) {
		switch x := in.(type) {
		case *ssa.Store, *ssa.MapUpdate, *ssa.Send, *ssa.Go, *ssa.Defer, *ssa.RunDefers, *ssa.Panic, *ssa.Select:
			pure = false
		case *ssa.Call:
			if b, ok := x.Call.Value.(*ssa.Builtin); ok {
				switch b.Name() {
				case "len", "cap", "min", "max":
					return
				}
			}
			if !c05PureCall(x, depth+1) {
				pure = false
			}
		}
	})
	return pure
}

// ---------------------------------------------------------------- boolean facts through helpers

// c05BoolFact describes where a boolean fact is decided directly inside a
// function: the edges on which it is known true / false, and the values that
// ARE the fact (e.g. the `loaded` result of LoadOrStore).
type c05BoolFact func(g *ssa.Function) (te, fe []Edge, isVal func(v ssa.Value) bool)

// c05BoolEdges returns the edges of fn on which the fact is true / false:
// the direct ones, plus those implied by testing a boolean result of a
// same-package helper whose value determines the fact (`return !loaded`,
// `return ok`, `if loaded { return false }; return true`, …).
func c05BoolEdges(fn *ssa.Function, direct c05BoolFact, depth int) (te, fe []Edge) {
	te, fe, _ = direct(fn)
	if depth >= 3 {
		return
	}
	for _, call := range Calls(fn, func(string) bool { return true }) {
		if _, isDefer := call.(*ssa.Defer); isDefer {
			continue
		}
		h := c05Helper(call, fn)
		if h == nil {
			continue
		}
		hte, hfe := c05BoolEdges(h, direct, depth+1)
		_, _, isVal := direct(h)
		for k := 0; k < h.Signature.Results().Len(); k++ {
			if !types.Identical(h.Signature.Results().At(k).Type(), types.Typ[types.Bool]) {
				continue
			}
			atoms := RetAtoms(h, k)
			if len(atoms) == 0 {
				continue
			}
			tT, tF, fT, fF := true, true, true, true // r true => fact true / false; r false => fact true / false
			for _, a := range atoms {
				pT := len(hte) > 0 && c05AtomMustPass(a, newCut().Edges(hte...))
				pF := len(hfe) > 0 && c05AtomMustPass(a, newCut().Edges(hfe...))
				v := a.Val
				neg := false
				if u, isNot := v.(*ssa.UnOp); isNot && u.Op == token.NOT {
					v, neg = u.X, true
				}
				switch k := v.(type) {
				case *ssa.Const:
					isTrue := (k.Value != nil && k.Value.String() == "true") != neg
					if isTrue {
						tT, tF = tT && pT, tF && pF
					} else {
						fT, fF = fT && pT, fF && pF
					}
				default:
					if isVal != nil && isVal(v) {
						if !neg { // r is the fact
							tF, fT = tF && pF, fT && pT
						} else { // r is its negation
							tT, fF = tT && pT, fF && pF
						}
						continue
					}
					tT, tF, fT, fF = tT && pT, tF && pF, fT && pT, fF && pF
				}
			}
			rk := ResultOf(call, k)
			if rk == nil {
				continue
			}
			cte, cfe := BoolTests(fn, Aliases(rk))
			if tT {
				te = append(te, cte...)
			}
			if fT {
				te = append(te, cfe...)
			}
			if tF {
				fe = append(fe, cte...)
			}
			if fF {
				fe = append(fe, cfe...)
			}
		}
	}
	return
}

// c05EmptyStrEdges returns the edges of fn on which the string satisfying isX
// is known empty / non-empty, in every spelling: x == "", "" == x, x != "",
// len(x) == 0, len(x) != 0, len(x) > 0, len(x) >= 1, len(x) < 1, len(x) <= 0,
// the mirrored forms (0 == len(x), 0 < len(x), …), negations (`!`), and a
// one-line boolean helper wrapping such a comparison.
func c05EmptyStrEdges(fn *ssa.Function, isX func(v ssa.Value) bool) (empty, nonEmpty []Edge) {
	isEmptyConst := func(v ssa.Value) bool { s, ok := constString(v); return ok && s == "" }
	eq, ne := c05EqEdges(fn, isX, isEmptyConst)
	empty, nonEmpty = append(empty, eq...), append(nonEmpty, ne...)
	isLen := func(v ssa.Value) bool {
		call, ok := strip(v).(*ssa.Call)
		return ok && CalleeName(call) == "builtin:len" && len(call.Call.Args) == 1 && isX(call.Call.Args[0])
	}
	for _, i := range Ifs(fn) {
		cond, t, f := ifEdges(i)
		bo, ok := cond.(*ssa.BinOp)
		if !ok {
			continue
		}
		op, x, k := bo.Op, bo.X, bo.Y
		if !isLen(x) {
			if !isLen(bo.Y) {
				continue
			}
			x, k = bo.Y, bo.X // k OP len  ->  len OP' k
			switch op {
			case token.LSS:
				op = token.GTR
			case token.GTR:
				op = token.LSS
			case token.LEQ:
				op = token.GEQ
			case token.GEQ:
				op = token.LEQ
			}
		}
		_ = x
		n, isConst := constInt(k)
		if !isConst {
			continue
		}
		// a length is never negative: len == 0 <=> len <= 0 <=> len < 1; len != 0 <=> len > 0 <=> len >= 1
		switch {
		case op == token.EQL && n == 0, op == token.LEQ && n == 0, op == token.LSS && n == 1:
			empty, nonEmpty = append(empty, t), append(nonEmpty, f)
		case op == token.NEQ && n == 0, op == token.GTR && n == 0, op == token.GEQ && n == 1:
			empty, nonEmpty = append(empty, f), append(nonEmpty, t)
		}
	}
	return
}

// ---------------------------------------------------------------- fact-aware reachability

// c05Facts: what is known about SSA values on the path walked so far (SSA
// values are immutable, so a test's outcome stays valid until a back edge
// re-executes the definitions).
type c05Facts struct {
	isNil  map[ssa.Value]bool
	isTrue map[ssa.Value]bool
}

func c05NewFacts() *c05Facts {
	return &c05Facts{isNil: map[ssa.Value]bool{}, isTrue: map[ssa.Value]bool{}}
}

func (f *c05Facts) clone() *c05Facts {
	n := c05NewFacts()
	for k, v := range f.isNil {
		n.isNil[k] = v
	}
	for k, v := range f.isTrue {
		n.isTrue[k] = v
	}
	return n
}

func (f *c05Facts) sig() string {
	var parts []string
	for k, v := range f.isNil {
		parts = append(parts, fmt.Sprintf("n%s=%v", k.Name(), v))
	}
	for k, v := range f.isTrue {
		parts = append(parts, fmt.Sprintf("t%s=%v", k.Name(), v))
	}
	sort.Strings(parts)
	return strings.Join(parts, ",")
}

// c05CondAtom decomposes a branch condition into (subject, kind, polarity on
// the true edge): kind "nil" for x==nil / x!=nil, "bool" otherwise.
func c05CondAtom(cond ssa.Value) (subj ssa.Value, kind string, pol bool) {
	pol = true
	for {
		u, ok := cond.(*ssa.UnOp)
		if !ok || u.Op != token.NOT {
			break
		}
		cond, pol = u.X, !pol
	}
	if bo, ok := cond.(*ssa.BinOp); ok && (bo.Op == token.EQL || bo.Op == token.NEQ) {
		var x ssa.Value
		if isNilConst(bo.Y) {
			x = bo.X
		} else if isNilConst(bo.X) {
			x = bo.Y
		}
		if x != nil {
			if bo.Op == token.NEQ {
				pol = !pol
			}
			return x, "nil", pol
		}
	}
	return cond, "bool", pol
}

// resolvePhi: the operand a phi of block b takes when b is entered from pred.
func c05PhiOperand(v ssa.Value, b, pred *ssa.BasicBlock) ssa.Value {
	for i := 0; i < 4; i++ {
		phi, ok := v.(*ssa.Phi)
		if !ok || phi.Block() != b || pred == nil {
			return v
		}
		found := false
		for k, p := range b.Preds {
			if p == pred {
				v, found = phi.Edges[k], true
				break
			}
		}
		if !found {
			return v
		}
	}
	return v
}

// c05EdgeFacts: the facts established by taking edge e (the outcome of the
// test that ends e.From).
func c05EdgeFacts(e Edge) *c05Facts {
	f := c05NewFacts()
	if e.From == nil || len(e.From.Instrs) == 0 {
		return f
	}
	ifi, ok := e.From.Instrs[len(e.From.Instrs)-1].(*ssa.If)
	if !ok || e.From.Succs[0] == e.From.Succs[1] {
		return f
	}
	subj, kind, pol := c05CondAtom(ifi.Cond)
	val := pol
	if e.To != e.From.Succs[0] {
		val = !pol
	}
	if kind == "nil" {
		f.isNil[subj] = val
	} else {
		f.isTrue[subj] = val
	}
	return f
}

// c05ReachF is reach() with pruning of branches that contradict what earlier
// tests on the same path established (including through phi operands selected
// by the edge taken).  visit, when non-nil, is called for every Return
// reached (and the search continues); otherwise the search stops at `to`.
func c05ReachF(fromB *ssa.BasicBlock, fromIdx int, fromPred *ssa.BasicBlock, to ssa.Instruction, ct *cut, init *c05Facts, visit func(r *ssa.Return, pred *ssa.BasicBlock)) bool {
	type key struct {
		b, pred *ssa.BasicBlock
		sig     string
	}
	seen := map[key]bool{}
	if init == nil {
		init = c05NewFacts()
	}
	budget := 20000
	var scan func(b, pred *ssa.BasicBlock, i int, f *c05Facts) bool
	scan = func(b, pred *ssa.BasicBlock, i int, f *c05Facts) bool {
		if budget <= 0 {
			return true // give up: assume reachable (sound for must-pass checks)
		}
		budget--
		for ; i < len(b.Instrs); i++ {
			in := b.Instrs[i]
			if to != nil && in == to {
				return true
			}
			if ct != nil && ct.instrs[in] {
				return false
			}
			if r, ok := in.(*ssa.Return); ok && visit != nil {
				visit(r, pred)
				return false
			}
		}
		var ifi *ssa.If
		if n := len(b.Instrs); n > 0 {
			ifi, _ = b.Instrs[n-1].(*ssa.If)
		}
		for si, s := range b.Succs {
			if ct != nil && ct.edges[Edge{b, s}] {
				continue
			}
			nf := f
			if ifi != nil && b.Succs[0] != b.Succs[1] {
				subj, kind, pol := c05CondAtom(ifi.Cond)
				want := pol
				if si == 1 {
					want = !pol
				}
				res := c05PhiOperand(subj, b, pred)
				m := f.isTrue
				if kind == "nil" {
					m = f.isNil
				}
				if have, known := m[subj]; known && have != want {
					continue
				}
				if have, known := m[res]; known && have != want {
					continue
				}
				if kind == "bool" {
					if k, isK := res.(*ssa.Const); isK && k.Value != nil && (k.Value.String() == "true") != want {
						continue
					}
				}
				if kind == "nil" {
					st := ErrNilStatus(res, 0)
					if _, isErr := res.Type().Underlying().(*types.Interface); isErr && ((st == NonNil && want) || (st == IsNil && !want)) {
						continue
					}
				}
				nf = f.clone()
				if kind == "nil" {
					nf.isNil[subj], nf.isNil[res] = want, want
				} else {
					nf.isTrue[subj], nf.isTrue[res] = want, want
				}
			}
			if s.Dominates(b) {
				nf = c05NewFacts() // back edge: definitions are re-executed
			}
			k := key{s, b, nf.sig()}
			if seen[k] {
				continue
			}
			seen[k] = true
			if scan(s, b, 0, nf) {
				return true
			}
		}
		return false
	}
	return scan(fromB, fromPred, fromIdx, init)
}

// c05ErrFlow is ErrFlow with one more piece of path sensitivity: once the
// error has been found non-nil, later tests of the very same value cannot
// take their nil edge (`switch { case err == nil && …: case err == nil: case
// errors.Is(err, X): default: return err }`).
func c05ErrFlow(call ssa.CallInstruction, o ErrFlowOpts) ErrFlowResult {
	r := ErrFlow(call, o)
	if r.OK {
		return r
	}
	fn := call.Parent()
	errIdx := ErrResultIndex(fn.Signature)
	e := ErrOf(call)
	if _, isDefer := call.(*ssa.Defer); isDefer || e == nil || errIdx < 0 {
		return r
	}
	aliases := Aliases(e)
	nilE, nonNilE, ifs := NilTests(fn, aliases)
	if len(ifs) == 0 {
		return r
	}
	ct := newCut().Edges(toleratedEdges(fn, aliases, o.Tolerated)...).Edges(nilE...)
	ct.Instr(call.(ssa.Instruction))
	for _, ne := range nonNilE {
		bad := false
		c05ReachF(ne.To, 0, ne.From, nil, ct, c05EdgeFacts(ne), func(rt *ssa.Return, pred *ssa.BasicBlock) {
			for _, val := range resolveAt(rt.Results[errIdx], rt.Block(), pred, rt, aliases) {
				if aliases[val] || aliases[strip(val)] || ErrNilStatus(val, 0) == NonNil || derivesFromAny(val, aliases, 0) {
					continue
				}
				bad = true
			}
		})
		if bad {
			return r
		}
	}
	return ErrFlowResult{OK: true, How: "tested; every failure path returns a non-nil error (repeated tests of the same error resolved)"}
}

// c05FieldCarry: v is a load of field F of a struct that was built as a
// literal (new T; stores to its fields) either in cur.Fn itself or — when the
// struct is cur.Fn's parameter/receiver — at the call site in the parent, and
// F is stored exactly once there: v is that stored value.
func c05FieldCarry(v ssa.Value, cur *c05Env) (ssa.Value, *c05Env, bool) {
	ld, ok := strip(v).(*ssa.UnOp)
	if !ok || ld.Op != token.MUL {
		return nil, nil, false
	}
	fa, ok := ld.X.(*ssa.FieldAddr)
	if !ok {
		return nil, nil, false
	}
	base, at := fa.X, cur
	if p, isP := strip(base).(*ssa.Parameter); isP && cur.Call != nil && cur.Parent != nil && p.Parent() == cur.Fn {
		idx := -1
		for k, q := range cur.Fn.Params {
			if q == p {
				idx = k
			}
		}
		args := cur.Call.Common().Args
		if idx < 0 || idx >= len(args) {
			return nil, nil, false
		}
		base, at = args[idx], cur.Parent
	}
	var lit *ssa.Alloc
	for _, r := range Roots(base) {
		a, isA := strip(r).(*ssa.Alloc)
		if !isA || lit != nil {
			return nil, nil, false
		}
		lit = a
	}
	if lit == nil || lit.Parent() != at.Fn {
		return nil, nil, false
	}
	if _, isStruct := lit.Type().(*types.Pointer).Elem().Underlying().(*types.Struct); !isStruct {
		return nil, nil, false
	}
	var val ssa.Value
	n := 0
	for _, r := range *lit.Referrers() {
		fa2, isFA := r.(*ssa.FieldAddr)
		if !isFA || fa2.Field != fa.Field {
			continue
		}
		for _, r2 := range *fa2.Referrers() {
			if st, isSt := r2.(*ssa.Store); isSt && st.Addr == ssa.Value(fa2) {
				val = st.Val
				n++
			}
		}
	}
	if n != 1 {
		return nil, nil, false
	}
	return val, at, true
}
