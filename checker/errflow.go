package main

// E4: error-flow.  For a call site returning `error`, decide whether the
// failure surfaces: the value is returned (directly, through phi/cells, or
// wrapped), or it is tested and every path from the non-nil edge ends in a
// Return whose error result is non-nil, except along enumerated tolerated
// idioms (errors.Is(err, Sentinel) / err == Sentinel).

import (
	"fmt"
	"go/token"
	"go/types"
	"strings"

	"golang.org/x/tools/go/ssa"
)

type ErrFlowOpts struct {
	// Tolerated sentinels: names of package-level error variables (short
	// form, e.g. "~/errdef.ErrAlreadyExists", "~.SkipNode") or "local:<name>"
	// for a local sentinel created with errors.New in the same function.
	Tolerated []string
	// AllowCancel: passing the error to a context.CancelCauseFunc counts as
	// surfacing (syncutil.Go).
	AllowCancel bool
}

type ErrFlowResult struct {
	OK     bool
	How    string // how it is discharged
	Detail string // why it fails
	At     token.Pos
}

// sentinelName: if v is a load of a package-level variable, return its short name.
func sentinelName(v ssa.Value) string {
	for _, r := range Roots(v) {
		if u, ok := r.(*ssa.UnOp); ok && u.Op == token.MUL {
			if g, ok := u.X.(*ssa.Global); ok {
				return short(g.Pkg.Pkg.Path() + "." + g.Name())
			}
		}
		if c, ok := r.(*ssa.Call); ok && CalleeName(c) == "errors.New" {
			// local sentinel: name by the variable it is stored in, if any
			return "local:" + localName(c)
		}
	}
	return ""
}

func localName(v ssa.Value) string {
	if refs := v.Referrers(); refs != nil {
		for _, r := range *refs {
			if s, ok := r.(*ssa.Store); ok {
				if a, ok := s.Addr.(*ssa.Alloc); ok {
					return a.Comment
				}
			}
			if d, ok := r.(*ssa.DebugRef); ok {
				_ = d
			}
		}
	}
	// SSA names locals via DebugRef only in debug mode; fall back to the
	// string literal of errors.New
	if c, ok := v.(*ssa.Call); ok && len(c.Call.Args) == 1 {
		if s, ok := constString(c.Call.Args[0]); ok {
			return strings.ReplaceAll(s, " ", "_")
		}
	}
	return v.Name()
}

// toleratedEdges returns the edges on which `e` is known to be a tolerated
// sentinel (errors.Is(e, S) true edge, e == S true edge).
func toleratedEdges(fn *ssa.Function, aliases map[ssa.Value]bool, tolerated []string) []Edge {
	tol := map[string]bool{}
	for _, t := range tolerated {
		tol[t] = true
	}
	var out []Edge
	if len(tol) == 0 {
		return nil
	}
	for _, i := range Ifs(fn) {
		cond, t, f := ifEdges(i)
		switch c := cond.(type) {
		case *ssa.Call:
			if CalleeName(c) == "errors.Is" && len(c.Call.Args) == 2 && aliases[c.Call.Args[0]] && tol[sentinelName(c.Call.Args[1])] {
				out = append(out, t)
			}
		case *ssa.BinOp:
			if c.Op != token.EQL && c.Op != token.NEQ {
				continue
			}
			var other ssa.Value
			if aliases[c.X] {
				other = c.Y
			} else if aliases[c.Y] {
				other = c.X
			} else {
				continue
			}
			if tol[sentinelName(other)] {
				if c.Op == token.EQL {
					out = append(out, t)
				} else {
					out = append(out, f)
				}
			}
		}
	}
	return out
}

// derivesFromAny reports whether v is computed from one of the values in set
// (through wrapping calls, interface conversions, struct literals whose
// fields were stored from it, variadic slices).
func derivesFromAny(v ssa.Value, set map[ssa.Value]bool, depth int) bool {
	if depth > 6 || v == nil {
		return false
	}
	for _, r := range Roots(v) {
		if set[r] {
			return true
		}
		switch u := r.(type) {
		case *ssa.Call:
			for _, a := range u.Call.Args {
				if derivesFromAny(a, set, depth+1) {
					return true
				}
			}
		case *ssa.Slice:
			if derivesFromAny(u.X, set, depth+1) {
				return true
			}
		case *ssa.Alloc:
			// struct/array literal: any store into it (or its fields/elements)
			for _, ref := range *u.Referrers() {
				switch a := ref.(type) {
				case *ssa.FieldAddr:
					for _, r2 := range *a.Referrers() {
						if s, ok := r2.(*ssa.Store); ok && derivesFromAny(s.Val, set, depth+1) {
							return true
						}
					}
				case *ssa.IndexAddr:
					for _, r2 := range *a.Referrers() {
						if s, ok := r2.(*ssa.Store); ok && derivesFromAny(s.Val, set, depth+1) {
							return true
						}
					}
				case *ssa.Store:
					if a.Addr == u && derivesFromAny(a.Val, set, depth+1) {
						return true
					}
				}
			}
		}
	}
	return false
}

// ErrFlow decides the error discipline for the error result of call c.
func ErrFlow(c ssa.CallInstruction, o ErrFlowOpts) ErrFlowResult {
	fn := c.Parent()
	errIdx := ErrResultIndex(fn.Signature)
	e := ErrOf(c)
	if _, isDefer := c.(*ssa.Defer); isDefer {
		return ErrFlowResult{OK: false, Detail: "call is deferred; its error cannot be returned", At: c.Pos()}
	}
	if e == nil {
		return ErrFlowResult{OK: false, Detail: "error result is discarded (never extracted)", At: c.Pos()}
	}
	aliases := Aliases(e)
	if errIdx < 0 {
		// enclosing function cannot return an error
		if o.AllowCancel && flowsToCancel(aliases) {
			return ErrFlowResult{OK: true, How: "forwarded to cancel-cause"}
		}
		return ErrFlowResult{OK: false, Detail: "enclosing function has no error result", At: c.Pos()}
	}
	atoms := RetAtoms(fn, errIdx)
	// Case A: the value is returned without a test (return f(), or err falls
	// through to `return err`).
	direct := false
	for _, a := range atoms {
		if aliases[a.Val] || aliases[strip(a.Val)] {
			direct = true
		}
	}
	nilE, nonNilE, ifs := NilTests(fn, aliases)
	_ = nilE
	if len(ifs) == 0 {
		if direct {
			var rets []*ssa.Return
			for _, a := range atoms {
				if aliases[a.Val] || aliases[strip(a.Val)] {
					rets = append(rets, a.Ret)
				}
			}
			if r, clobbered := clobberedByDeferredStore(fn, errIdx, rets); clobbered {
				return r
			}
			return ErrFlowResult{OK: true, How: "returned directly"}
		}
		return ErrFlowResult{OK: false, Detail: "error value is neither tested against nil nor returned", At: c.Pos()}
	}
	tolE := toleratedEdges(fn, aliases, o.Tolerated)
	cutTol := newCut().Edges(tolE...)
	// Re-executing the call gives a new error value: stop there.
	cutTol.Instr(c.(ssa.Instruction))
	// Every Return reachable from a non-nil edge (without passing a tolerated
	// edge) must carry a non-nil error on that path.
	for _, ne := range nonNilE {
		bad := findNilReturnFrom(fn, ne, errIdx, cutTol, aliases)
		if bad != nil {
			return ErrFlowResult{OK: false, At: bad.Ret.Pos(),
				Detail: fmt.Sprintf("after the error of %s is found non-nil (edge %s) a path reaches the return at %s whose error result is %s",
					CalleeName(c), ne, posLine(fn, bad.Ret.Pos()), describe(bad.Val))}
		}
	}
	// If the value is also used untested on other paths (e.g. overwritten
	// before test) we rely on SSA: each test covers the def it tests.  A def
	// that reaches no test and no return is caught above (len(ifs)==0).
	// the returns that carry the failure must not be clobbered by a deferred
	// closure assigning the named error result afterwards
	var failRets []*ssa.Return
	for _, ne := range nonNilE {
		failRets = append(failRets, returnsReachableFrom(ne, cutTol)...)
	}
	if r, clobbered := clobberedByDeferredStore(fn, errIdx, failRets); clobbered {
		return r
	}
	how := "tested; every failure path returns a non-nil error"
	if len(tolE) > 0 {
		how += fmt.Sprintf(" (tolerated: %v)", o.Tolerated)
	}
	return ErrFlowResult{OK: true, How: how}
}

// returnsReachableFrom lists the Returns reachable from edge e without taking
// a cut edge or executing a cut instruction.
func returnsReachableFrom(e Edge, c *cut) []*ssa.Return {
	var out []*ssa.Return
	visited := map[*ssa.BasicBlock]bool{}
	var walk func(b *ssa.BasicBlock)
	walk = func(b *ssa.BasicBlock) {
		if visited[b] {
			return
		}
		visited[b] = true
		for _, in := range b.Instrs {
			if c != nil && c.instrs[in] {
				return
			}
			if r, ok := in.(*ssa.Return); ok {
				out = append(out, r)
				return
			}
		}
		for _, s := range b.Succs {
			if c != nil && c.edges[Edge{b, s}] {
				continue
			}
			walk(s)
		}
	}
	walk(e.To)
	return out
}

// DeferredWrite is one assignment of a function's named error result made by
// deferred code (a deferred closure that captured the result variable, or a
// deferred in-module function that received its address): it runs after the
// return value was set.
type DeferredWrite struct {
	Defer  *ssa.Defer
	Writer *ssa.Function // the closure / function containing the store
	Cell   *ssa.Alloc    // the named result of the enclosing function
	Store  *ssa.Store
	Keeps  string // why a failure survives the assignment; "" = it can replace a non-nil error by nil
}

// DeferredResultWrites lists the deferred assignments of fn's named error
// result.  An assignment keeps a failure when it stores a non-nil error, a
// value built from the current result (errors.Join(err, x), cmp.Or(err, x), a
// wrapper of err), or executes only where the current result was found nil
// (`if err == nil { err = x }`, `if err != nil { return }; err = x`).
func DeferredResultWrites(fn *ssa.Function) []DeferredWrite {
	errIdx := ErrResultIndex(fn.Signature)
	if errIdx < 0 {
		return nil
	}
	cells := map[*ssa.Alloc]bool{}
	for _, r := range Returns(fn) {
		if errIdx < len(r.Results) {
			if a := cellOf(r.Results[errIdx]); a != nil {
				cells[a] = true
			}
		}
	}
	if len(cells) == 0 {
		return nil
	}
	var out []DeferredWrite
	AllInstrs(fn, func(in ssa.Instruction) {
		d, ok := in.(*ssa.Defer)
		if !ok {
			return
		}
		// (writer function, the address of the result as the writer sees it, the cell)
		type site struct {
			g    *ssa.Function
			addr ssa.Value
			cell *ssa.Alloc
		}
		var sites []site
		switch v := d.Call.Value.(type) {
		case *ssa.MakeClosure:
			g := v.Fn.(*ssa.Function)
			for j, bnd := range v.Bindings {
				if a, isAlloc := bnd.(*ssa.Alloc); isAlloc && cells[a] {
					sites = append(sites, site{g, g.FreeVars[j], a})
				}
			}
		case *ssa.Function:
			if len(v.Blocks) > 0 {
				for j, arg := range d.Call.Args {
					if a, isAlloc := arg.(*ssa.Alloc); isAlloc && cells[a] && j < len(v.Params) {
						sites = append(sites, site{v, v.Params[j], a})
					}
				}
			}
		}
		for _, st := range sites {
			refs := st.addr.Referrers()
			if refs == nil {
				continue
			}
			loads := map[ssa.Value]bool{}
			for _, ref := range *refs {
				if ld, isLd := ref.(*ssa.UnOp); isLd && ld.Op == token.MUL {
					for al := range Aliases(ld) {
						loads[al] = true
					}
				}
			}
			nilE, _, _ := NilTests(st.g, loads)
			for _, ref := range *refs {
				sto, isSt := ref.(*ssa.Store)
				if !isSt || sto.Addr != st.addr {
					continue
				}
				keeps := ""
				switch {
				case ErrNilStatus(sto.Val, 0) == NonNil:
					keeps = "it stores a non-nil error"
				case loads[sto.Val] || loads[strip(sto.Val)] || derivesFromAny(sto.Val, loads, 0):
					keeps = "the stored value is built from the current result"
				case len(nilE) > 0 && MustPass(sto, newCut().Edges(nilE...)):
					keeps = "it executes only where the current result was found nil"
				}
				out = append(out, DeferredWrite{Defer: d, Writer: st.g, Cell: st.cell, Store: sto, Keeps: keeps})
			}
		}
	})
	return out
}

// clobberedByDeferredStore: one of rets (returns that carry the monitored
// failure) yields a named result that a deferred assignment registered before
// it can replace by nil.
func clobberedByDeferredStore(fn *ssa.Function, errIdx int, rets []*ssa.Return) (ErrFlowResult, bool) {
	if len(rets) == 0 {
		return ErrFlowResult{}, false
	}
	var ws []DeferredWrite
	for _, w := range DeferredResultWrites(fn) {
		if w.Keeps == "" {
			ws = append(ws, w)
		}
	}
	for _, w := range ws {
		for _, r := range rets {
			if errIdx >= len(r.Results) || cellOf(r.Results[errIdx]) != w.Cell || !Reachable(w.Defer, r) {
				continue
			}
			return ErrFlowResult{OK: false, How: "clobbered-by-deferred-store", At: w.Store.Pos(),
				Detail: fmt.Sprintf(": the error reaches the return at %s through the named result, but the deferred %s then assigns %s to it unconditionally — a failure is replaced by a value that may be nil",
					posLine(fn, r.Pos()), FnName(w.Writer), describe(w.Store.Val))}, true
		}
	}
	return ErrFlowResult{}, false
}

func posLine(fn *ssa.Function, p token.Pos) string {
	return fn.Prog.Fset.Position(p).String()
}

func flowsToCancel(aliases map[ssa.Value]bool) bool {
	for a := range aliases {
		if a.Referrers() == nil {
			continue
		}
		for _, r := range *a.Referrers() {
			if call, ok := r.(*ssa.Call); ok {
				if n, ok := call.Call.Value.Type().(*types.Named); ok && n.Obj().Name() == "CancelCauseFunc" {
					return true
				}
			}
		}
	}
	return false
}

// findNilReturnFrom explores forward from edge `from`; returns an atom of a
// reachable Return whose error value (phi-resolved along the explored path)
// may be nil and does not derive from the aliases.
func findNilReturnFrom(fn *ssa.Function, from Edge, errIdx int, c *cut, aliases map[ssa.Value]bool) *RetAtom {
	type state struct {
		b    *ssa.BasicBlock
		pred *ssa.BasicBlock
	}
	visited := map[state]bool{}
	var bad *RetAtom
	var walk func(b, pred *ssa.BasicBlock, nonNilHere bool)
	walk = func(b, pred *ssa.BasicBlock, _ bool) {
		if bad != nil {
			return
		}
		st := state{b, pred}
		if visited[st] {
			return
		}
		visited[st] = true
		for _, in := range b.Instrs {
			if c.instrs[in] {
				return
			}
			if r, ok := in.(*ssa.Return); ok {
				v := r.Results[errIdx]
				for _, val := range resolveAt(v, b, pred, r, aliases) {
					if aliases[val] || aliases[strip(val)] {
						continue // the error itself: we are on its non-nil side
					}
					if ErrNilStatus(val, 0) == NonNil {
						continue
					}
					if derivesFromAny(val, aliases, 0) {
						continue
					}
					bad = &RetAtom{Ret: r, Val: val}
					return
				}
				return
			}
		}
		for _, s := range b.Succs {
			if c.edges[Edge{b, s}] {
				continue
			}
			walk(s, b, false)
		}
	}
	walk(from.To, from.From, true)
	return bad
}

// resolveAt resolves v at a Return in block b entered from pred: phi nodes of
// b select the pred edge; cell loads use reaching stores.
func resolveAt(v ssa.Value, b, pred *ssa.BasicBlock, at ssa.Instruction, aliases map[ssa.Value]bool) []ssa.Value {
	if aliases[v] {
		return []ssa.Value{v}
	}
	switch u := v.(type) {
	case *ssa.Phi:
		if u.Block() == b {
			for i, p := range b.Preds {
				if p == pred {
					return resolveAt(u.Edges[i], b, pred, at, aliases)
				}
			}
		}
		var out []ssa.Value
		for _, a := range Roots(u) {
			out = append(out, a)
		}
		return out
	case *ssa.UnOp:
		if a := cellOf(u); a != nil {
			if _, isStruct := a.Type().(*types.Pointer).Elem().Underlying().(*types.Struct); !isStruct {
				var out []ssa.Value
				for _, s := range ReachingStores(a, u) {
					if s == nil {
						out = append(out, zeroOf(u))
					} else {
						out = append(out, resolveAt(s.Val, b, pred, at, aliases)...)
					}
				}
				return out
			}
		}
	}
	return []ssa.Value{v}
}
