package main

// Role-based resolution of unexported state (owned by C05/C06/C07): struct
// fields and helper types are identified by TYPE and USAGE, not by name, so
// that renaming `content`→`blobs`, `lock`→`mu`, `nameStatus`→`nameEntry`,
// `unsafeStore`→`lockFreeStore` … does not change a verdict.  A role that
// does not resolve uniquely yields "" — callers fail closed.

import (
	"go/types"
	"strings"

	"golang.org/x/tools/go/ssa"
)

type c05RoleMap struct {
	p     *Prog
	field map[string]string // role -> field name
	typ   map[string]string // role -> short named type ("~/content/file.nameStatus")
}

var c05RolesCache = map[*Prog]*c05RoleMap{}

func c05Roles(p *Prog) *c05RoleMap {
	if r, ok := c05RolesCache[p]; ok {
		return r
	}
	r := &c05RoleMap{p: p, field: map[string]string{}, typ: map[string]string{}}
	c05RolesCache[p] = r
	r.resolve()
	return r
}

// F returns the current name of the field playing `role` ("" if unresolved).
func (r *c05RoleMap) F(role string) string { return r.field[role] }

// T returns the short name of the type playing `role` ("" if unresolved).
func (r *c05RoleMap) T(role string) string { return r.typ[role] }

func c05StructOf(n *types.Named) *types.Struct {
	if n == nil {
		return nil
	}
	st, _ := n.Underlying().(*types.Struct)
	return st
}

// uniqueField: the only field of st whose type satisfies pred.
func c05UniqueField(st *types.Struct, pred func(t types.Type) bool) string {
	name, n := "", 0
	for i := 0; st != nil && i < st.NumFields(); i++ {
		if pred(st.Field(i).Type()) {
			name = st.Field(i).Name()
			n++
		}
	}
	if n != 1 {
		return ""
	}
	return name
}

func c05IsNamedType(t types.Type, pkgSuffix, name string) bool {
	if p, ok := t.(*types.Pointer); ok {
		t = p.Elem()
	}
	n, ok := t.(*types.Named)
	if !ok || n.Obj().Name() != name {
		return false
	}
	if n.Obj().Pkg() == nil {
		return pkgSuffix == ""
	}
	return strings.HasSuffix(n.Obj().Pkg().Path(), pkgSuffix)
}

func c05IsMutex(t types.Type) bool {
	return c05IsNamedType(t, "sync", "RWMutex") || c05IsNamedType(t, "sync", "Mutex")
}

func c05IsSetType(t types.Type) bool {
	// container/set.Set[T] (a named map type) or a plain map to struct{}
	if n, ok := t.(*types.Named); ok && n.Obj().Name() == "Set" {
		return true
	}
	if m, ok := t.Underlying().(*types.Map); ok {
		if st, ok := m.Elem().Underlying().(*types.Struct); ok && st.NumFields() == 0 {
			return true
		}
	}
	return false
}

func (r *c05RoleMap) resolve() {
	p := r.p
	isPtrTo := func(pkgSuffix, name string) func(types.Type) bool {
		return func(t types.Type) bool {
			_, isPtr := t.(*types.Pointer)
			return isPtr && c05IsNamedType(t, pkgSuffix, name)
		}
	}
	isBool := func(t types.Type) bool { return types.Identical(t, types.Typ[types.Bool]) }
	// --- content.VerifyReader
	if st := c05StructOf(p.Named("content", "VerifyReader")); st != nil {
		r.field["vr.base"] = c05UniqueField(st, isPtrTo("io", "LimitedReader"))
		r.field["vr.verifier"] = c05UniqueField(st, func(t types.Type) bool { return c05IsNamedType(t, "go-digest", "Verifier") })
		r.field["vr.verified"] = c05UniqueField(st, isBool)
		r.field["vr.err"] = c05UniqueField(st, isErrorType)
	}
	// --- cas.Memory
	if st := c05StructOf(p.Named("internal/cas", "Memory")); st != nil {
		r.field["cas.content"] = c05UniqueField(st, c05IsSyncMapLike)
	}
	// --- resolver.Memory
	if st := c05StructOf(p.Named("internal/resolver", "Memory")); st != nil {
		r.field["resolver.lock"] = c05UniqueField(st, c05IsMutex)
		r.field["resolver.index"] = c05UniqueField(st, func(t types.Type) bool {
			m, ok := t.Underlying().(*types.Map)
			return ok && c05IsOCIDescriptor(m.Elem())
		})
		r.field["resolver.tags"] = c05UniqueField(st, func(t types.Type) bool {
			m, ok := t.Underlying().(*types.Map)
			return ok && c05IsSetType(m.Elem())
		})
	}
	// --- graph.Memory
	if gm := p.Named("internal/graph", "Memory"); gm != nil {
		st := c05StructOf(gm)
		r.field["graph.lock"] = c05UniqueField(st, c05IsMutex)
		r.field["graph.nodes"] = c05UniqueField(st, func(t types.Type) bool {
			m, ok := t.Underlying().(*types.Map)
			return ok && c05IsOCIDescriptor(m.Elem())
		})
		var setMaps []string
		for i := 0; st != nil && i < st.NumFields(); i++ {
			if m, ok := st.Field(i).Type().Underlying().(*types.Map); ok && c05IsSetType(m.Elem()) {
				setMaps = append(setMaps, st.Field(i).Name())
			}
		}
		// successors: the set-map that the index step (the function calling content.Successors, or a helper
		// below it) updates under key(node) for its own node parameter; predecessors: the other one
		if len(setMaps) == 2 {
			for _, f := range c05FuncsOfPkg(p, "internal/graph") {
				if f.Parent() != nil || len(CallsTo(f, "~/content.Successors")) == 0 {
					continue
				}
				var node *ssa.Parameter
				for _, q := range f.Params {
					if c05IsOCIDescriptor(q.Type()) {
						node = q
					}
				}
				hit := map[string]bool{}
				for _, e := range c05TreeEnvs(c05Root(f), 3) {
					AllInstrs(e.Fn, func(in ssa.Instruction) {
						mu, ok := in.(*ssa.MapUpdate)
						if !ok {
							return
						}
						ld, ok := mu.Map.(*ssa.UnOp)
						if !ok {
							return
						}
						fa, ok := ld.X.(*ssa.FieldAddr)
						if !ok || !c05IsNamedType(fa.X.Type(), "internal/graph", "Memory") {
							return
						}
						name := c05FieldNameOf(fa.X.Type(), fa.Field)
						if name != setMaps[0] && name != setMaps[1] {
							return
						}
						kv, kat := e.up(mu.Key)
						for _, r := range Roots(c05Unspill(kv)) {
							if call, isCall := strip(r).(*ssa.Call); isCall && CalleeName(call) == "~/internal/descriptor.FromOCI" {
								if x, xat := kat.up(call.Call.Args[0]); xat.isRoot() && node != nil && c05ParamOf(x) == node {
									hit[name] = true
								}
							}
						}
					})
				}
				switch {
				case hit[setMaps[0]] && !hit[setMaps[1]]:
					r.field["graph.successors"], r.field["graph.predecessors"] = setMaps[0], setMaps[1]
				case hit[setMaps[1]] && !hit[setMaps[0]]:
					r.field["graph.successors"], r.field["graph.predecessors"] = setMaps[1], setMaps[0]
				}
			}
		}
		// fallback — predecessors: the set-map the exported Predecessors reads; successors: the other one
		if len(setMaps) == 2 && r.field["graph.predecessors"] == "" {
			if fn := p.Fn("internal/graph", "Memory.Predecessors"); fn != nil && len(fn.Blocks) > 0 {
				read := map[string]bool{}
				for _, e := range c05TreeEnvs(c05Root(fn), 3) {
					AllInstrs(e.Fn, func(in ssa.Instruction) {
						if fa, ok := in.(*ssa.FieldAddr); ok && c05IsNamedType(fa.X.Type(), "internal/graph", "Memory") {
							read[c05FieldNameOf(fa.X.Type(), fa.Field)] = true
						}
					})
				}
				switch {
				case read[setMaps[0]] && !read[setMaps[1]]:
					r.field["graph.predecessors"], r.field["graph.successors"] = setMaps[0], setMaps[1]
				case read[setMaps[1]] && !read[setMaps[0]]:
					r.field["graph.predecessors"], r.field["graph.successors"] = setMaps[1], setMaps[0]
				}
			}
		}
	}
	// --- oci.Store / ReadOnlyStore
	if st := c05StructOf(p.Named("content/oci", "Store")); st != nil {
		r.field["oci.sync"] = c05UniqueField(st, func(t types.Type) bool { return c05IsNamedType(t, "sync", "RWMutex") })
		r.field["oci.indexLock"] = c05UniqueField(st, func(t types.Type) bool { return c05IsNamedType(t, "sync", "Mutex") })
		r.field["oci.storage"] = c05UniqueField(st, isPtrTo("content/oci", "Storage"))
		r.field["oci.tagResolver"] = c05UniqueField(st, isPtrTo("internal/resolver", "Memory"))
		r.field["oci.graph"] = c05UniqueField(st, isPtrTo("internal/graph", "Memory"))
		r.field["oci.index"] = c05UniqueField(st, isPtrTo("specs-go/v1", "Index"))
	}
	if st := c05StructOf(p.Named("content/oci", "ReadOnlyStore")); st != nil {
		r.field["rooci.graph"] = c05UniqueField(st, isPtrTo("internal/graph", "Memory"))
	}
	// --- the lock-free view of oci.Store: a struct type with a single field of type *Store
	if tp := p.TypesPkg("content/oci"); tp != nil {
		for _, name := range tp.Scope().Names() {
			tn, ok := tp.Scope().Lookup(name).(*types.TypeName)
			if !ok || name == "Store" {
				continue
			}
			n, _ := tn.Type().(*types.Named)
			st := c05StructOf(n)
			if st != nil && st.NumFields() == 1 && isPtrTo("content/oci", "Store")(st.Field(0).Type()) {
				r.typ["oci.unsafeStore"] = "~/content/oci." + name
			}
		}
	}
	// --- file store: the per-name status type (a mutex and a bool) and the digest->path sync.Map
	if tp := p.TypesPkg("content/file"); tp != nil {
		for _, name := range tp.Scope().Names() {
			tn, ok := tp.Scope().Lookup(name).(*types.TypeName)
			if !ok {
				continue
			}
			n, _ := tn.Type().(*types.Named)
			st := c05StructOf(n)
			if st == nil || st.NumFields() != 2 {
				continue
			}
			mu, flag := c05UniqueField(st, c05IsMutex), c05UniqueField(st, isBool)
			if mu != "" && flag != "" {
				r.typ["file.nameStatus"] = "~/content/file." + name
				r.field["file.status.lock"], r.field["file.status.exists"] = mu, flag
			}
		}
		// digestToPath: the sync.Map field of Store that is accessed with a digest.Digest key
		cand := map[string]bool{}
		for _, f := range c05FuncsOfPkg(p, "content/file") {
			for _, call := range Calls(f, func(string) bool { return true }) {
				mv := c05MapOp(call)
				if mv == nil || mv.Key == nil {
					continue
				}
				fa, ok := mv.Recv.(*ssa.FieldAddr)
				if !ok || !c05IsNamedType(fa.X.Type(), "content/file", "Store") {
					continue
				}
				if c05IsNamedType(strip(mv.Key).Type(), "go-digest", "Digest") {
					cand[c05FieldNameOf(fa.X.Type(), fa.Field)] = true
				}
			}
		}
		if len(cand) == 1 {
			for k := range cand {
				r.field["file.digestToPath"] = k
			}
		}
	}
}

// c05Cur is the role map of the program currently being checked (set at the
// start of every property run; variants are processed one after the other).
var c05Cur *c05RoleMap

// c05SetRoles selects the role map of c.P and fails closed for every required
// role that no longer resolves.
func c05SetRoles(c *Ctx, rule string, required ...string) {
	c05Cur = c05Roles(c.P)
	for _, role := range required {
		if c05Cur.F(role) == "" && c05Cur.T(role) == "" {
			c.LostAnchor(rule, "state role "+role+": no field/type of the expected type and usage identifies it uniquely")
		}
	}
}
