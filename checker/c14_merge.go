package main

// C14.R1 — the Merge protocol, decided on inlined views: the steps are found by
// their role (whatever function they sit in), and every path/value question is
// asked of the view of Do / assign / commit / complete with helpers expanded.

import (
	"fmt"
	"go/token"
	"go/types"
	"strings"

	"golang.org/x/tools/go/ssa"
)

type c14Merge struct {
	Do                         *ssa.Function
	VD                         *c14View // Do with everything it runs in the package
	Assign, Commit, Complete   *ssa.Function
	AssignCalls                []ssa.CallInstruction
	CommitPts                  []ssa.Instruction // the stores committed=true (wherever they sit)
	CompleteCalls              []ssa.CallInstruction
	PrepareCalls, ResolveCalls []ssa.CallInstruction
	Recvs                      []*ssa.UnOp
	Prepare, Resolve           *ssa.Parameter
	VAssign, VComplete         *c14View
}

func c14SyncExpand(g *ssa.Function) bool {
	if fnPkgPath(g) != pkgPath(c14PkgSync) {
		return false
	}
	if g.Parent() != nil {
		return true
	}
	o := g.Object()
	if o == nil {
		if og := g.Origin(); og != nil {
			o = og.Object()
		}
	}
	return o == nil || !o.Exported()
}

func c14CallsI(cs []ssa.CallInstruction) []ssa.Instruction {
	var o []ssa.Instruction
	for _, x := range cs {
		o = append(o, x.(ssa.Instruction))
	}
	return o
}

func c14OnlyLeaf(v *c14View, x ssa.Value, want ssa.Value) bool {
	ls := v.Leaves(x)
	return want != nil && len(ls) == 1 && ls[0] == want
}

// c14FindMerge resolves, for every instantiation of the exported
// syncutil.Merge.Do, the protocol steps by their role in what Do runs:
// assign = the receiver method whose channel result is received from;
// commit = the receiver method whose result is handed to the resolve callback;
// complete = the outermost receiver method that is given the batch error.
func c14FindMerge(c *Ctx) []*c14Merge {
	const R = "C14.R1.merge-protocol"
	gen := c.P.Fn(c14PkgSync, "Merge.Do")
	if gen == nil {
		c.LostAnchor(R, "~/internal/syncutil.Merge.Do")
		return nil
	}
	if why := c14ResolveNames(c); why != "" {
		c.LostAnchor(R, why)
		return nil
	}
	var out []*c14Merge
	for _, D := range c.P.Instances(gen) {
		if len(D.TypeArgs()) == 0 && D.TypeParams().Len() > 0 {
			continue // generic template body: the instantiations are analysed
		}
		m := &c14Merge{Do: D}
		dn := FnName(D)
		for _, p := range D.Params {
			sig, ok := p.Type().Underlying().(*types.Signature)
			if !ok {
				continue
			}
			if sig.Params().Len() == 0 && ErrResultIndex(sig) == 0 {
				m.Prepare = p
			}
			if sig.Params().Len() == 1 && ErrResultIndex(sig) == 0 {
				m.Resolve = p
			}
		}
		if m.Prepare == nil || m.Resolve == nil {
			c.LostAnchor(R, dn+": prepare/resolve callback parameters")
			continue
		}
		V := c14NewView(D, 5, c14SyncExpand)
		m.VD = V
		recv := D.Params[0]
		onRecv := func(call ssa.CallInstruction) *ssa.Function {
			g := StaticCallee(call)
			if g == nil || g.Signature.Recv() == nil || len(call.Common().Args) == 0 {
				return nil
			}
			ls := V.LeavesShallow(call.Common().Args[0])
			if len(ls) != 1 || ls[0] != ssa.Value(recv) {
				return nil
			}
			return g
		}
		for _, call := range V.Calls(func(string) bool { return true }) {
			cv := call.Common().Value
			if call.Common().IsInvoke() || cv == nil {
				continue
			}
			switch cv.(type) {
			case *ssa.Function, *ssa.Builtin, *ssa.MakeClosure:
				continue
			}
			ls := V.LeavesShallow(cv)
			if len(ls) != 1 {
				continue
			}
			switch ls[0] {
			case ssa.Value(m.Prepare):
				m.PrepareCalls = append(m.PrepareCalls, call)
			case ssa.Value(m.Resolve):
				m.ResolveCalls = append(m.ResolveCalls, call)
			}
		}
		// assign: producer of the channel that is received from
		V.Instrs(func(in ssa.Instruction) {
			u, ok := in.(*ssa.UnOp)
			if !ok || u.Op != token.ARROW {
				return
			}
			for _, l := range V.LeavesShallow(u.X) {
				call, isCall := l.(*ssa.Call)
				if !isCall {
					continue
				}
				if g := onRecv(call); g != nil && (m.Assign == nil || m.Assign == g) {
					m.Assign = g
					m.AssignCalls = append(m.AssignCalls, call)
					m.Recvs = append(m.Recvs, u)
				}
			}
		})
		// commit: producer of resolve's argument
		// commit: wherever the window is closed (committed = true)
		for _, st := range V.FieldStores(c14TMerge, c14N.committed) {
			if bv, ok := c14ConstBool(st.Val); ok && bv {
				m.CommitPts = append(m.CommitPts, st)
			}
		}
		// complete: outermost receiver method that takes an error
		type cand struct {
			call ssa.CallInstruction
			g    *ssa.Function
		}
		var cands []cand
		for _, call := range V.Calls(func(string) bool { return true }) {
			if _, isCall := call.(*ssa.Call); !isCall {
				continue
			}
			g := onRecv(call)
			if g == nil || g == m.Assign {
				continue
			}
			args := call.Common().Args
			if len(args) == 2 && isErrorType(args[1].Type()) {
				cands = append(cands, cand{call, g})
			}
		}
		for _, cd := range cands {
			inner := false
			for _, o := range cands {
				if o.g != cd.g && c14NewView(o.g, 4, c14SyncExpand).Has(cd.call.Parent()) {
					inner = true
				}
			}
			if !inner && (m.Complete == nil || m.Complete == cd.g) {
				m.Complete = cd.g
				m.CompleteCalls = append(m.CompleteCalls, cd.call)
			}
		}
		ok := true
		for what, f := range map[string]*ssa.Function{"assign (channel result received)": m.Assign, "complete (takes the error)": m.Complete} {
			if f == nil {
				c.LostAnchor(R, dn+": step "+what)
				ok = false
			}
		}
		if ok {
			m.VAssign = c14NewView(m.Assign, 4, c14SyncExpand)
			m.VComplete = c14NewView(m.Complete, 4, c14SyncExpand)
			out = append(out, m)
		}
	}
	if len(out) == 0 {
		c.LostAnchor(R, "instantiation of ~/internal/syncutil.Merge.Do with resolvable steps")
	}
	return out
}

// ---------- R1 ----------

// c14RecvField: v is field `name` of the mergeStatus value received from the
// assign channel (through locals and helper results).
func (m *c14Merge) recvField(v ssa.Value) string {
	V := m.VD
	isRecv := func(x ssa.Value) bool {
		ls := V.Leaves(x)
		for _, r := range ls {
			u, ok := r.(*ssa.UnOp)
			if !ok || u.Op != token.ARROW {
				return false
			}
			found := false
			for _, rc := range m.Recvs {
				if rc == u {
					found = true
				}
			}
			if !found {
				return false
			}
		}
		return len(ls) > 0
	}
	for _, r := range V.Leaves(v) {
		switch u := r.(type) {
		case *ssa.Field:
			if isRecv(u.X) {
				return u.X.Type().Underlying().(*types.Struct).Field(u.Field).Name()
			}
		case *ssa.UnOp:
			fa, ok := u.X.(*ssa.FieldAddr)
			if !ok || u.Op != token.MUL {
				continue
			}
			a, ok := fa.X.(*ssa.Alloc)
			if !ok {
				continue
			}
			sts := storesTo(a)
			okAll := len(sts) > 0
			for _, st := range sts {
				if !isRecv(st.Val) {
					okAll = false
				}
			}
			if okAll {
				return a.Type().Underlying().(*types.Pointer).Elem().Underlying().(*types.Struct).Field(fa.Field).Name()
			}
		}
	}
	return ""
}

func c14LeafSet(v *c14View, x ssa.Value) map[ssa.Value]bool {
	out := map[ssa.Value]bool{}
	for _, r := range v.Leaves(x) {
		out[r] = true
	}
	return out
}

func c14R1(c *Ctx, ms []*c14Merge) {
	const R = "C14.R1.merge-protocol"
	c.Expect(R, 30)
	for _, m := range ms {
		c14R1Do(c, m)
		c14R1Complete(c, m)
		c14R1Assign(c, m)
	}
}

func c14R1Do(c *Ctx, m *c14Merge) {
	const R = "C14.R1.merge-protocol"
	D, V := m.Do, m.VD
	dn := FnName(D)
	// the main test
	mainVals := map[ssa.Value]bool{}
	for _, f := range V.Funcs() {
		for _, i := range Ifs(f) {
			cond, _, _ := ifEdges(i)
			if m.recvField(cond) == c14N.main {
				mainVals[cond] = true
			}
		}
	}
	te, fe := V.BoolTests(mainVals)
	if !c.Check(R, dn+"|main-test", D.Pos(), len(te) == 1, "Do branches on the `main` flag of the status it received from assign's channel") {
		return
	}
	mainE, otherE := te[0], fe[0]
	mainCut := newCut().Edges(mainE)
	all := func(cs []ssa.CallInstruction, f func(ssa.CallInstruction) bool) bool {
		for _, x := range cs {
			if !f(x) {
				return false
			}
		}
		return len(cs) > 0
	}
	onMain := func(x ssa.CallInstruction) bool { return V.MustPass(x.(ssa.Instruction), mainCut) }
	commits := m.CommitPts
	okCommitsMain := true
	for _, p := range commits {
		if !V.MustPass(p, mainCut) {
			okCommitsMain = false
		}
	}
	ok := all(m.PrepareCalls, onMain) && okCommitsMain && all(m.ResolveCalls, onMain) && all(m.CompleteCalls, onMain)
	c.Check(R, dn+"|only-main-runs-the-batch", mainE.From.Instrs[len(mainE.From.Instrs)-1].Pos(), ok,
		ifelse(ok, "prepare, commit, resolve and complete are reached only on the main==true edge", "a caller that is not the batch's main can run prepare/commit/resolve/complete (two read-modify-write cycles of one index run concurrently: lost update)"))
	// prepare runs on every main path
	r := V.ExitFromEdge(mainE, newCut().Calls(m.PrepareCalls))
	c.Check(R, dn+"|prepare-on-every-main-path", D.Pos(), !r && len(m.PrepareCalls) > 0, "every path of the main branch calls prepare()")
	// commit on every main path
	r = len(commits) == 0 || V.ExitFromEdge(mainE, newCut().Instr(commits...))
	c.Check(R, dn+"|commit-on-every-path", D.Pos(), !r,
		ifelse(!r, "every path of the main branch (also after a prepare error) calls commit()", "a path of the main branch returns without commit(): complete() then reopens a window that was never closed and the batch bookkeeping is off"))
	// resolve: with commit's result, iff prepare succeeded
	prepErr := map[ssa.Value]bool{}
	for _, pc := range m.PrepareCalls {
		if e := ErrOf(pc); e != nil {
			for a := range V.StrictAliases(e) {
				prepErr[a] = true
			}
		}
	}
	prepNil, prepNonNil := V.NilTests(prepErr)
	for i, rc := range m.ResolveCalls {
		key := fmt.Sprintf("%s|resolve#%d", dn, i+1)
		// the argument is m.items as read after the window was closed
		okArg := len(rc.Common().Args) == 1 && len(commits) > 0
		if okArg {
			ls := V.Leaves(rc.Common().Args[0])
			okArg = len(ls) > 0
			for _, l := range ls {
				ld, isLd := l.(*ssa.UnOp)
				if !isLd || !c14IsLoadOfField(ld, c14TMerge, c14N.items) || !V.MustPass(ld, newCut().Instr(commits...)) {
					okArg = false
				}
			}
		}
		c.Check(R, key+"|gets-committed-items", rc.Pos(), okArg,
			ifelse(okArg, "resolve receives m.items as read after the window was closed (committed = true)", "resolve is not given the batch's items read after the window was closed: changes batched by concurrent callers are dropped, or the slice is still being appended to"))
		okPre := len(prepNil) > 0 && V.MustPass(rc.(ssa.Instruction), newCut().Edges(prepNil...))
		c.Check(R, key+"|only-after-prepare-ok", rc.Pos(), okPre,
			ifelse(okPre, "resolve is reached only on the nil edge of prepare's error", "resolve can run although prepare failed (the update is computed from a list that was never fetched)"))
		okOrder := true
		for _, cm := range commits {
			if V.Reachable(rc.(ssa.Instruction), cm) {
				okOrder = false
			}
		}
		c.Check(R, key+"|after-commit", rc.Pos(), okOrder, "the window is not closed again after resolve")
	}
	if len(m.ResolveCalls) == 0 {
		c.Violation(R, dn+"|resolve#1|gets-committed-items", D.Pos(), "Do never calls resolve")
	}
	okRes := len(prepNil) > 0
	for _, e := range prepNil {
		if V.ExitFromEdge(e, newCut().Calls(m.ResolveCalls)) {
			okRes = false
		}
	}
	c.Check(R, dn+"|resolve-whenever-prepare-ok", D.Pos(), okRes,
		ifelse(okRes, "after a successful prepare every path calls resolve", "a path returns after a successful prepare without calling resolve: the batch is reported done but never applied"))
	// complete on every main path, with the error of prepare/resolve, which is also returned
	r = V.ExitFromEdge(mainE, newCut().Calls(m.CompleteCalls))
	c.Check(R, dn+"|complete-on-every-path", D.Pos(), !r,
		ifelse(!r, "every path of the main branch calls complete() before returning", "a path of the main branch returns without complete(): every later updater of this subject parks forever"))
	resErr := map[ssa.Value]bool{}
	for _, rc := range m.ResolveCalls {
		if e := ErrOf(rc); e != nil {
			resErr[e] = true
		}
	}
	prepErrLeaf := map[ssa.Value]bool{}
	for _, pc := range m.PrepareCalls {
		if e := ErrOf(pc); e != nil {
			prepErrLeaf[e] = true
		}
	}
	for i, cc := range m.CompleteCalls {
		key := fmt.Sprintf("%s|complete#%d", dn, i+1)
		roots := c14LeafSet(V, cc.Common().Args[1])
		okSrc, hasNilConst := len(roots) > 0, false
		for v := range roots {
			if !prepErrLeaf[v] && !resErr[v] {
				if isNilConst(v) {
					hasNilConst = true
				} else {
					okSrc = false
				}
			}
		}
		needsRes := false
		for _, rc := range m.ResolveCalls {
			if V.Reachable(rc.(ssa.Instruction), cc.(ssa.Instruction)) {
				needsRes = true
			}
		}
		if needsRes {
			has := false
			for v := range roots {
				if resErr[v] {
					has = true
				}
			}
			okSrc = okSrc && has
		}
		needsPrep := false
		for _, e := range prepNonNil {
			if V.EdgeReach(e, cc.(ssa.Instruction), newCut().Calls(m.ResolveCalls)) {
				needsPrep = true
			}
		}
		if needsPrep {
			has := false
			for v := range roots {
				if prepErrLeaf[v] {
					has = true
				}
			}
			okSrc = okSrc && has
		}
		switch {
		case okSrc && hasNilConst:
			c.Undecided(R, key+"|gets-the-batch-error", cc.Pos(), "complete() may receive a literal nil on some path; cannot decide which outcome it reports")
		default:
			c.Check(R, key+"|gets-the-batch-error", cc.Pos(), okSrc,
				ifelse(okSrc, "complete receives prepare's error on the failure path and resolve's error otherwise", "complete() does not receive the error of prepare/resolve: waiting callers are told the update succeeded although it failed (or the reverse)"))
		}
		okOrder := true
		for _, x := range append(c14CallsI(m.ResolveCalls), commits...) {
			if V.Reachable(cc.(ssa.Instruction), x) {
				okOrder = false
			}
		}
		c.Check(R, key+"|is-last", cc.Pos(), okOrder, ifelse(okOrder, "no commit/resolve after complete", "commit or resolve can run after complete(): the window was already reopened"))
	}
	// the main caller returns the error it broadcast; waiting callers return the received status error
	n := 0
	for _, ret := range Returns(D) {
		if !V.ReachableFromEntry(ret) {
			continue
		}
		fromMain, fromOther := V.EdgeReach(mainE, ret, nil), V.EdgeReach(otherE, ret, nil)
		for _, a := range RetAtoms(D, 0) {
			if a.Ret != ret {
				continue
			}
			// which side does this atom belong to (a shared return merges both with a phi)
			aMain, aOther := fromMain, fromOther
			if fromMain && fromOther && len(a.Edges) > 0 {
				e := a.Edges[len(a.Edges)-1]
				last := e.From.Instrs[len(e.From.Instrs)-1]
				aMain = e.From == mainE.To || V.EdgeReach(mainE, last, nil)
				aOther = e.From == otherE.To || V.EdgeReach(otherE, last, nil)
			}
			switch {
			case aMain && !aOther:
				ls := c14LeafSet(V, a.Val)
				same := len(ls) > 0
				for v := range ls {
					if !prepErrLeaf[v] && !resErr[v] {
						same = false
					}
				}
				for _, cc := range m.CompleteCalls {
					if !V.Reachable(cc.(ssa.Instruction), ret) {
						continue
					}
					cr := c14LeafSet(V, cc.Common().Args[1])
					for v := range ls {
						if !cr[v] {
							same = false
						}
					}
				}
				c.Check(R, dn+"|main-returns-same-error", ret.Pos(), same,
					ifelse(same, "the main caller returns the error it broadcast", "the main caller returns something else than the error it handed to complete()"))
			case aOther && !aMain:
				n++
				ok := m.recvField(a.Val) == c14N.err
				c.Check(R, dn+"|non-main-returns-status-err", ret.Pos(), ok,
					ifelse(ok, "a waiting caller returns the err field of the status it received", "a waiting caller does not return the error broadcast by the main caller: a failed batch is reported as success"))
			default:
				c.Undecided(R, dn+"|non-main-returns-status-err", ret.Pos(), "a return value shared by the main and the waiting branch: shape not recognised")
			}
		}
	}
	if n == 0 {
		c.Violation(R, dn+"|non-main-returns-status-err", D.Pos(), "no return on the main==false edge")
	}
}

// c14Lin evaluates v as a*L+b where L = len(<load of Merge.items>).
func c14Lin(V *c14View, v ssa.Value, depth int) (a, b int64, ok bool) {
	if depth > 6 {
		return 0, 0, false
	}
	rs := V.Leaves(v)
	if len(rs) != 1 {
		return 0, 0, false
	}
	switch u := rs[0].(type) {
	case *ssa.Const:
		if k, isInt := constInt(u); isInt {
			return 0, k, true
		}
	case *ssa.Call:
		if CalleeName(u) == "builtin:len" {
			x := u.Call.Args[0]
			if V.IsLoadOfField(x, c14TMerge, c14N.items) {
				return 1, 0, true
			}
			xs := V.Leaves(x)
			if len(xs) != 1 {
				return 0, 0, false
			}
			if sl, isSl := xs[0].(*ssa.Slice); isSl && sl.Max == nil && V.IsLoadOfField(sl.X, c14TMerge, c14N.items) {
				var lo, hi int64
				hiA := int64(1)
				if sl.Low != nil {
					la, lb, okL := c14Lin(V, sl.Low, depth+1)
					if !okL || la != 0 {
						return 0, 0, false
					}
					lo = lb
				}
				if sl.High != nil {
					ha, hb, okH := c14Lin(V, sl.High, depth+1)
					if !okH {
						return 0, 0, false
					}
					hiA, hi = ha, hb
				}
				return hiA, hi - lo, true
			}
		}
	case *ssa.BinOp:
		xa, xb, ok1 := c14Lin(V, u.X, depth+1)
		ya, yb, ok2 := c14Lin(V, u.Y, depth+1)
		if ok1 && ok2 {
			switch u.Op {
			case token.ADD:
				return xa + ya, xb + yb, true
			case token.SUB:
				return xa - ya, xb - yb, true
			}
		}
	}
	return 0, 0, false
}

// c14TripCount returns the number of iterations of l as a*L+b for the
// recognised counting-loop shapes: a counter phi with step ±1 compared with a
// loop-invariant bound (condition at the header, or `for { if …  break }` at
// the top of the body), or a range over (a slice of) items / an integer.
func c14TripCount(V *c14View, l *Loop) (a, b int64, ok bool, why string) {
	if _, _, _, _, isRange := l.RangeIndex(); isRange {
		h := l.Header
		ifi := h.Instrs[len(h.Instrs)-1].(*ssa.If)
		ln := ifi.Cond.(*ssa.BinOp).Y
		a, b, ok = c14Lin(V, ln, 0)
		return a, b, ok, "range loop"
	}
	h := l.Header
	// the block holding the loop condition: the header, or (for{…break}) the
	// unique block of the loop that has an exit edge
	cb := h
	if _, isIf := h.Instrs[len(h.Instrs)-1].(*ssa.If); !isIf {
		cb = nil
		for _, e := range l.Exits {
			if cb != nil && cb != e.From {
				return 0, 0, false, "several exits"
			}
			cb = e.From
		}
		if cb == nil {
			return 0, 0, false, "no exit condition"
		}
	}
	ifi, isIf := cb.Instrs[len(cb.Instrs)-1].(*ssa.If)
	if !isIf {
		return 0, 0, false, "loop exit is not a condition"
	}
	cond, t, f := ifEdges(ifi)
	bo, isBin := cond.(*ssa.BinOp)
	if !isBin {
		return 0, 0, false, "loop condition is not a comparison"
	}
	op := bo.Op
	var phi *ssa.Phi
	var bound ssa.Value
	if p, isPhi := bo.X.(*ssa.Phi); isPhi && p.Block() == h {
		phi, bound = p, bo.Y
	} else if p, isPhi := bo.Y.(*ssa.Phi); isPhi && p.Block() == h {
		phi, bound = p, bo.X
		op = map[token.Token]token.Token{token.LSS: token.GTR, token.GTR: token.LSS, token.LEQ: token.GEQ, token.GEQ: token.LEQ, token.NEQ: token.NEQ, token.EQL: token.EQL}[op]
	} else {
		return 0, 0, false, "loop condition does not test a loop counter"
	}
	switch {
	case l.Blocks[t.To] && !l.Blocks[f.To]:
	case l.Blocks[f.To] && !l.Blocks[t.To]:
		op = map[token.Token]token.Token{token.LSS: token.GEQ, token.GTR: token.LEQ, token.LEQ: token.GTR, token.GEQ: token.LSS, token.NEQ: token.EQL, token.EQL: token.NEQ}[op]
	default:
		return 0, 0, false, "loop condition does not separate body and exit"
	}
	var init ssa.Value
	step := int64(0)
	for i, e := range phi.Edges {
		if !l.Blocks[h.Preds[i]] {
			if init != nil {
				return 0, 0, false, "counter has several initial values"
			}
			init = e
			continue
		}
		nb, isBin := e.(*ssa.BinOp)
		if !isBin {
			return 0, 0, false, "counter update is not ±1"
		}
		k, isK := constInt(nb.Y)
		if nb.X != ssa.Value(phi) || !isK || k != 1 || (nb.Op != token.ADD && nb.Op != token.SUB) {
			return 0, 0, false, "counter update is not ±1"
		}
		s := int64(1)
		if nb.Op == token.SUB {
			s = -1
		}
		if step != 0 && step != s {
			return 0, 0, false, "counter moves in both directions"
		}
		step = s
	}
	if init == nil || step == 0 {
		return 0, 0, false, "counter shape not recognised"
	}
	ia, ib, ok1 := c14Lin(V, init, 0)
	ba, bb, ok2 := c14Lin(V, bound, 0)
	if !ok1 || !ok2 {
		return 0, 0, false, "counter start/bound is not an affine function of len(items)"
	}
	switch {
	case step == 1 && (op == token.LSS || op == token.NEQ):
		return ba - ia, bb - ib, true, ""
	case step == 1 && op == token.LEQ:
		return ba - ia, bb - ib + 1, true, ""
	case step == -1 && (op == token.GTR || op == token.NEQ):
		return ia - ba, ib - bb, true, ""
	case step == -1 && op == token.GEQ:
		return ia - ba, ib - bb + 1, true, ""
	}
	return 0, 0, false, "comparison direction does not match the counter direction"
}

// c14LitField: v is (a copy of) a struct literal; returns the values stored
// into its field `field`.  Looks through helper parameters.
func c14LitField(V *c14View, v ssa.Value, field string) (vals []ssa.Value, ok bool) {
	ls := V.Leaves(v)
	if len(ls) == 0 {
		return nil, false
	}
	for _, l := range ls {
		vs, isLit := c14StructLitField(l, field)
		if !isLit {
			return nil, false
		}
		vals = append(vals, vs...)
	}
	return vals, true
}

func c14R1Complete(c *Ctx, m *c14Merge) {
	const R = "C14.R1.merge-protocol"
	F, V := m.Complete, m.VComplete
	fn := FnName(F)
	if len(F.Params) != 2 {
		c.LostAnchor(R, fn+": (receiver, err) parameters")
		return
	}
	errP := F.Params[1]
	errAl := V.Aliases(errP)
	nilE, nonNilE := V.NilTests(errAl)
	if !c.Check(R, fn+"|tests-the-error", F.Pos(), len(nilE) > 0, "complete branches on err == nil") {
		return
	}
	isStatus := func(ch ssa.Value) bool { return V.IsLoadOfField(ch, c14TMerge, c14N.status) }
	// success: close(m.status)
	var closes []ssa.CallInstruction
	for _, cl := range V.CallsTo("builtin:close") {
		if isStatus(cl.Common().Args[0]) {
			closes = append(closes, cl)
		}
	}
	okClose := len(closes) > 0
	for _, cl := range closes {
		if !V.MustPass(cl.(ssa.Instruction), newCut().Edges(nilE...)) {
			okClose = false
		}
	}
	c.Check(R, fn+"|close-only-on-success", F.Pos(), okClose,
		ifelse(okClose, "close(m.status) is reached only on the err==nil edge", "the status channel can be closed although the batch failed: waiting callers return nil for an update that was not applied"))
	okAll := okClose
	for _, e := range nilE {
		if V.ExitFromEdge(e, newCut().Calls(closes)) {
			okAll = false
		}
	}
	c.Check(R, fn+"|close-on-every-success-path", F.Pos(), okAll,
		ifelse(okAll, "on success every path closes the status channel", "a success path does not close the status channel: the waiting callers of this batch park forever"))
	// classify sends
	var failSends, mainSends []*ssa.Send
	for _, s := range V.Sends() {
		errVals, isLit := c14LitField(V, s.X, c14N.err)
		mainVals, _ := c14LitField(V, s.X, c14N.main)
		isMain := false
		for _, v := range mainVals {
			if b, ok := c14ConstBool(v); ok && b {
				isMain = true
			} else {
				isLit = false
			}
		}
		isFail := false
		for _, v := range errVals {
			for _, l := range V.Leaves(v) {
				if l == ssa.Value(errP) {
					isFail = true
				}
			}
		}
		switch {
		case isLit && isMain && !isFail:
			mainSends = append(mainSends, s)
		case isLit && isFail && !isMain:
			failSends = append(failSends, s)
		default:
			c.Undecided(R, fn+"|send", s.Pos(), "a send in complete() that is neither mergeStatus{err: err} nor mergeStatus{main: true}: shape not recognised")
		}
	}
	// failure notices: exactly len(items)-1, on the old status channel, only on failure
	if len(failSends) == 0 {
		c.Violation(R, fn+"|failure-notices", F.Pos(), "complete() never sends the batch error to the waiting callers")
	}
	for i, s := range failSends {
		key := fmt.Sprintf("%s|failure-notice#%d", fn, i+1)
		okEdge := len(nonNilE) > 0 && V.MustPass(s, newCut().Edges(nonNilE...))
		c.Check(R, key+"|only-on-failure", s.Pos(), okEdge, "the failure notice is sent only on the err!=nil edge")
		okCh := isStatus(s.Chan)
		c.Check(R, key+"|on-status-channel", s.Pos(), okCh, ifelse(okCh, "sent on m.status", "the failure notice is not sent on the batch's status channel"))
		var in []*Loop
		for _, l := range Loops(s.Parent()) {
			if l.Contains(s) {
				in = append(in, l)
			}
		}
		// a helper that sends once, called from a loop: the loop is the caller's
		if len(in) == 0 {
			for _, cx := range V.byFn[s.Parent()] {
				if call, isCall := cx.site.(*ssa.Call); isCall {
					for _, l := range Loops(call.Parent()) {
						if l.Contains(call) {
							in = append(in, l)
						}
					}
				}
			}
		}
		if len(in) != 1 {
			c.Violation(R, key+"|count", s.Pos(), fmt.Sprintf("the failure notice is inside %d loops (expected one counting loop of len(items)-1 iterations): some waiting caller parks forever, or the main caller blocks on a send nobody receives", len(in)))
			continue
		}
		l := in[0]
		a, b, ok, why := c14TripCount(V, l)
		if !ok {
			c.Undecided(R, key+"|count", s.Pos(), "cannot determine the number of failure notices: "+why)
			continue
		}
		// exactly one send per iteration: no way round the loop avoids it
		perIter := true
		var sendAt ssa.Instruction = s
		if !l.Contains(s) {
			for _, cx := range V.byFn[s.Parent()] {
				if call, isCall := cx.site.(*ssa.Call); isCall && l.Contains(call) {
					sendAt = call
				}
			}
		}
		hdr := l.Header.Instrs[0]
		for _, succ := range l.Header.Succs {
			if l.Blocks[succ] && reach(succ, 0, hdr, newCut().Instr(sendAt)) {
				perIter = false
			}
		}
		if sendAt != ssa.Instruction(s) {
			// inside the helper every path sends
			h := s.Parent()
			if c14AnyReturnReachable(h.Blocks[0], newCut().Instr(s)) != nil {
				perIter = false
			}
		}
		okCount := a == 1 && b == -1 && perIter
		c.Check(R, key+"|count", s.Pos(), okCount,
			ifelse(okCount, "exactly len(items)-1 notices: one per waiting caller of the batch",
				fmt.Sprintf("the loop sends %d*len(items)%+d notices (one per iteration: %v) instead of len(items)-1: a waiting caller parks forever, or the main caller blocks on a send nobody receives and the subject is wedged", a, b, perIter)))
	}
	// reopen the window and promote the pending batch
	storesI := func(ss []*ssa.Store) []ssa.Instruction {
		var o []ssa.Instruction
		for _, s := range ss {
			o = append(o, s)
		}
		return o
	}
	var reopen []ssa.Instruction
	for _, s := range V.FieldStores(c14TMerge, c14N.committed) {
		if b, ok := c14ConstBool(s.Val); ok && !b {
			reopen = append(reopen, s)
		} else {
			c.Violation(R, fn+"|reopens-window", s.Pos(), "complete() stores something else than false into committed")
		}
	}
	okRe := len(reopen) > 0 && !V.ExitFromEntry(newCut().Instr(reopen...))
	c.Check(R, fn+"|reopens-window", F.Pos(), okRe,
		ifelse(okRe, "every path stores committed=false", "a path leaves complete() with committed still true: every later change goes to a pending batch that nobody will ever run"))
	promo := func(dst, src string) (stores []ssa.Instruction, srcLoads []ssa.Instruction, ok bool) {
		ok = true
		for _, s := range V.FieldStores(c14TMerge, dst) {
			if isNilConst(s.Val) {
				continue
			}
			if !V.IsLoadOfField(s.Val, c14TMerge, src) {
				ok = false
			}
			stores = append(stores, s)
			for _, r := range V.Leaves(s.Val) {
				if in, isIn := r.(ssa.Instruction); isIn {
					srcLoads = append(srcLoads, in)
				}
			}
		}
		if len(stores) == 0 || V.ExitFromEntry(newCut().Instr(stores...)) {
			ok = false
		}
		return
	}
	clears := func(field string, after []ssa.Instruction) bool {
		var cl []ssa.Instruction
		for _, s := range V.FieldStores(c14TMerge, field) {
			if !isNilConst(s.Val) {
				return false
			}
			cl = append(cl, s)
			for _, ld := range after {
				if V.Reachable(s, ld) {
					return false
				}
			}
		}
		return len(cl) > 0 && !V.ExitFromEntry(newCut().Instr(cl...))
	}
	_, itemLoads, okI := promo(c14N.items, c14N.pending)
	c.Check(R, fn+"|promotes-pending-items", F.Pos(), okI, ifelse(okI, "every path stores m.items = m.pending", "the pending items are not promoted to the next batch on every path: changes assigned while the batch ran are lost"))
	statusStores, statusLoads, okS := promo(c14N.status, c14N.pendingStatus)
	c.Check(R, fn+"|promotes-pending-status", F.Pos(), okS, ifelse(okS, "every path stores m.status = m.pendingStatus", "the pending status channel is not promoted with its items: the callers of the next batch wait on a channel nobody serves"))
	okC := clears(c14N.pending, itemLoads) && clears(c14N.pendingStatus, statusLoads)
	c.Check(R, fn+"|clears-pending", F.Pos(), okC, ifelse(okC, "pending and pendingStatus are reset to nil after they were promoted, on every path", "the pending batch is not cleared after promotion (or cleared before it is read): a batch is run twice or dropped"))
	// one main token for the promoted batch
	promoted := map[ssa.Value]bool{}
	for _, s := range statusStores {
		for a := range V.Aliases(s.(*ssa.Store).Val) {
			promoted[a] = true
		}
	}
	for _, ld := range V.FieldLoads(c14TMerge, c14N.status) {
		if len(statusStores) > 0 && V.MustPass(ld, newCut().Instr(statusStores...)) {
			for a := range V.Aliases(ld) {
				promoted[a] = true
			}
		}
	}
	pNil, pNonNil := V.NilTests(promoted)
	okTok := len(mainSends) == 1 && len(pNonNil) > 0
	for _, s := range mainSends {
		chOK := false
		for _, l := range V.Leaves(s.Chan) {
			chOK = promoted[l]
			if !chOK {
				break
			}
		}
		if !chOK || !V.MustPass(s, newCut().Edges(pNonNil...)) || !V.MustPass(s, newCut().Instr(statusStores...)) || V.Reachable(s, s) {
			okTok = false
		}
	}
	if okTok {
		cu := newCut().Edges(pNil...)
		for _, s := range mainSends {
			cu.Instr(s)
		}
		if V.ExitFromEntry(cu) {
			okTok = false
		}
	}
	pos := F.Pos()
	if len(mainSends) > 0 {
		pos = mainSends[0].Pos()
	}
	c.Check(R, fn+"|one-main-token-for-promoted-batch", pos, okTok,
		ifelse(okTok, "exactly when a pending batch was promoted, one mergeStatus{main:true} is sent on its channel", "the promoted batch does not receive exactly one main token (none: its callers park forever; two: two updaters of one index run concurrently)"))
	_ = storesI
}

func c14R1Assign(c *Ctx, m *c14Merge) {
	const R = "C14.R1.merge-protocol"
	F, V := m.Assign, m.VAssign
	fn := FnName(F)
	if len(F.Params) != 2 {
		c.LostAnchor(R, fn+": (receiver, item) parameters")
		return
	}
	item := F.Params[1]
	cl := map[ssa.Value]bool{}
	for _, ld := range V.FieldLoads(c14TMerge, c14N.committed) {
		for a := range V.Aliases(ld) {
			cl[a] = true
		}
	}
	te, fe := V.BoolTests(cl)
	if !c.Check(R, fn+"|tests-committed", F.Pos(), len(te) > 0, "assign branches on m.committed") {
		return
	}
	fromItem := func(v ssa.Value) bool {
		ops := map[ssa.Value]bool{}
		c16Operands(V, v, ops, 0)
		return ops[item]
	}
	appendStores := func(field string) (out []ssa.Instruction, ok bool) {
		ok = true
		for _, s := range V.FieldStores(c14TMerge, field) {
			calls := V.Leaves(s.Val)
			if len(calls) != 1 {
				ok = false
				continue
			}
			call, isCall := calls[0].(*ssa.Call)
			if !isCall || CalleeName(call) != "builtin:append" {
				ok = false
				continue
			}
			if !V.IsLoadOfField(call.Call.Args[0], c14TMerge, field) || !fromItem(call.Call.Args[1]) {
				ok = false
			}
			out = append(out, s)
		}
		return out, ok && len(out) > 0
	}
	itemStores, okI := appendStores(c14N.items)
	pendStores, okP := appendStores(c14N.pending)
	okOpen := okI
	for _, s := range itemStores {
		if !V.MustPass(s, newCut().Edges(fe...)) {
			okOpen = false
		}
	}
	for _, e := range fe {
		if V.ExitFromEdge(e, newCut().Instr(itemStores...)) {
			okOpen = false
		}
	}
	c.Check(R, fn+"|items-only-while-open", F.Pos(), okOpen,
		ifelse(okOpen, "m.items = append(m.items, item) happens exactly on the committed==false edge", "assign can append to (or skip) m.items while the batch is committed: the change is missing from the slice being resolved, or the running batch's slice is mutated under the resolver"))
	okPend := okP
	for _, s := range pendStores {
		if !V.MustPass(s, newCut().Edges(te...)) {
			okPend = false
		}
	}
	for _, e := range te {
		if V.ExitFromEdge(e, newCut().Instr(pendStores...)) {
			okPend = false
		}
	}
	c.Check(R, fn+"|pending-while-committed", F.Pos(), okPend,
		ifelse(okPend, "m.pending = append(m.pending, item) happens exactly on the committed==true edge", "a change arriving while a batch is running is not queued in m.pending on every path: it is lost"))
	// returned channel matches the batch the item joined
	okRet := true
	nRet := 0
	for _, a := range RetAtoms(F, 0) {
		if !V.ReachableFromEntry(a.Ret) {
			continue
		}
		nRet++
		fromT, fromF := false, false
		var anchor ssa.Instruction = a.Ret
		if len(a.Edges) > 0 {
			e := a.Edges[len(a.Edges)-1]
			anchor = e.From.Instrs[len(e.From.Instrs)-1]
		} else if a.Store != nil {
			anchor = a.Store
		}
		for _, e := range te {
			if e.To == anchor.Block() || V.EdgeReach(e, anchor, nil) {
				fromT = true
			}
		}
		for _, e := range fe {
			if e.To == anchor.Block() || V.EdgeReach(e, anchor, nil) {
				fromF = true
			}
		}
		switch {
		case fromT && !fromF:
			okRet = okRet && V.IsLoadOfField(a.Val, c14TMerge, c14N.pendingStatus)
		case fromF && !fromT:
			okRet = okRet && V.IsLoadOfField(a.Val, c14TMerge, c14N.status)
		default:
			okRet = false
		}
	}
	c.Check(R, fn+"|returns-channel-of-joined-batch", F.Pos(), okRet && nRet > 0,
		ifelse(okRet && nRet > 0, "the committed edge returns m.pendingStatus, the open edge returns m.status", "assign returns the status channel of a batch the item did not join: the caller gets the verdict of the wrong batch"))
	// channel creation and the single main token
	mk := func(field string, side []Edge) (ok bool, makes []*ssa.MakeChan) {
		lds := map[ssa.Value]bool{}
		for _, ld := range V.FieldLoads(c14TMerge, field) {
			for a := range V.Aliases(ld) {
				lds[a] = true
			}
		}
		nilE, _ := V.NilTests(lds)
		ok = true
		n := 0
		for _, s := range V.FieldStores(c14TMerge, field) {
			ls := V.Leaves(s.Val)
			var mc *ssa.MakeChan
			if len(ls) == 1 {
				mc, _ = ls[0].(*ssa.MakeChan)
			}
			if mc == nil {
				ok = false
				continue
			}
			n++
			makes = append(makes, mc)
			if len(nilE) == 0 || !V.MustPass(s, newCut().Edges(nilE...)) || !V.MustPass(s, newCut().Edges(side...)) {
				ok = false
			}
		}
		return ok && n > 0, makes
	}
	okMkS, makesS := mk(c14N.status, fe)
	c.Check(R, fn+"|status-created-once", F.Pos(), okMkS,
		ifelse(okMkS, "m.status is created only when it is nil, on the open edge", "m.status can be replaced while callers already wait on it: they park forever"))
	okMkP, _ := mk(c14N.pendingStatus, te)
	c.Check(R, fn+"|pending-status-created-once", F.Pos(), okMkP,
		ifelse(okMkP, "m.pendingStatus is created only when it is nil, on the committed edge", "m.pendingStatus can be replaced while callers already wait on it: they park forever"))
	okBuf := len(makesS) > 0
	for _, mc := range makesS {
		if k, ok := constInt(mc.Size); !ok || k < 1 {
			okBuf = false
		}
	}
	c.Check(R, fn+"|status-buffered", F.Pos(), okBuf,
		ifelse(okBuf, "the status channel has capacity >= 1 for the main token sent under the lock", "the status channel is unbuffered: assign blocks on sending the main token while holding the lock (deadlock on first use)"))
	// main token: exactly on creation of m.status
	var mainSends []ssa.Instruction
	okTok := true
	stLoads := map[ssa.Value]bool{}
	for _, ld := range V.FieldLoads(c14TMerge, c14N.status) {
		for a := range V.Aliases(ld) {
			stLoads[a] = true
		}
	}
	for _, mc := range makesS {
		for a := range V.Aliases(mc) {
			stLoads[a] = true
		}
	}
	stNil, _ := V.NilTests(stLoads)
	for _, s := range V.Sends() {
		mainVals, isLit := c14LitField(V, s.X, c14N.main)
		isMain := false
		for _, v := range mainVals {
			if b, ok := c14ConstBool(v); ok && b {
				isMain = true
			}
		}
		if !isLit || !isMain {
			c.Undecided(R, fn+"|send", s.Pos(), "a send in assign() that is not mergeStatus{main: true}: shape not recognised")
			continue
		}
		mainSends = append(mainSends, s)
		chOK := len(V.Leaves(s.Chan)) > 0
		for _, l := range V.Leaves(s.Chan) {
			if !stLoads[l] {
				chOK = false
			}
		}
		if !chOK || len(stNil) == 0 || !V.MustPass(s, newCut().Edges(stNil...)) || !V.MustPass(s, newCut().Edges(fe...)) || V.Reachable(s, s) {
			okTok = false
		}
	}
	okTok = okTok && len(mainSends) > 0
	for _, e := range stNil {
		if V.ExitFromEdge(e, newCut().Instr(mainSends...)) {
			okTok = false
		}
	}
	c.Check(R, fn+"|one-main-token-per-new-batch", F.Pos(), okTok,
		ifelse(okTok, "exactly when assign creates m.status it sends one mergeStatus{main:true}", "a new batch does not get exactly one main token (none: all its callers park forever; more: two updaters of one index run concurrently and one overwrites the other)"))
}

// ---------- R2 ----------

// c14HeldInView computes the must-hold lock set before every instruction of
// the view's functions, carrying the set held at a call site into the inlined
// callee (paths rooted at an argument are re-rooted at the parameter).  An
// instruction reached in several contexts gets the meet.
func c14HeldInView(V *c14View) map[ssa.Instruction]heldSet {
	res := map[ssa.Instruction]heldSet{}
	entry := map[*c14Ctx]heldSet{}
	for _, cx := range V.ctxs {
		e := entry[cx]
		if e == nil {
			e = heldSet{}
		}
		h := heldAt(cx.fn, e)
		for in, hs := range h {
			if prev, ok := res[in]; ok {
				res[in] = meet(prev, hs)
			} else {
				res[in] = hs.clone()
			}
		}
		for call, k := range cx.kids {
			if k.virtual {
				continue
			}
			ne := heldSet{}
			for p, mode := range h[call] {
				for i, arg := range call.Call.Args {
					if i >= len(k.fn.Params) {
						break
					}
					ap := accessPath(arg)
					if p == ap || strings.HasPrefix(p, ap+".") || strings.HasPrefix(p, ap+"*") {
						ne["P:"+k.fn.Params[i].Name()+p[len(ap):]] = mode
					}
				}
			}
			entry[k] = ne
		}
	}
	return res
}

func c14R2(c *Ctx, ms []*c14Merge) {
	const R = "C14.R2.lock-discipline"
	c.Expect(R, 18)
	mergeFields := []string{c14N.committed, c14N.items, c14N.status, c14N.pending, c14N.pendingStatus}
	const reason = "complete() reads m.items/m.status before locking: while committed==true (set by commit() before complete() is reached) assign() writes neither, so there is no concurrent writer; the premise is proved by the |premise obligations"
	pkgFns := c.P.FuncsOfPkg(c14PkgSync)
	callersOf := func(g *ssa.Function) []*ssa.Function {
		var out []*ssa.Function
		for _, f := range pkgFns {
			for _, call := range Calls(f, func(string) bool { return true }) {
				if StaticCallee(call) == g {
					out = append(out, f)
				}
			}
		}
		return out
	}
	exempt := map[string]string{}
	for _, m := range ms {
		// complete and the helpers that only complete runs
		for _, g := range m.VComplete.Funcs() {
			private := true
			if g != m.Complete {
				for _, f := range callersOf(g) {
					if !m.VComplete.Has(f) {
						private = false
					}
				}
			}
			if !private {
				continue
			}
			exempt[FnName(g)] = reason
			if o := g.Origin(); o != nil {
				exempt[FnName(o)] = reason
			}
		}
	}
	if c14N.poolItems == "" || c14N.poolLock == "" || c14N.refCount == "" {
		c.LostAnchor(R, "~/internal/syncutil.Pool: its mutex, its map of items and the reference count of an item")
		return
	}
	LockCheck(c, R, []GuardSpec{
		{Type: c14TMerge, Fields: mergeFields, Lock: c14N.lock, Exempt: exempt},
		{Type: c14TPool, Fields: []string{c14N.poolItems}, Lock: c14N.poolLock},
	}, []string{c14PkgSync})

	fields := map[string]bool{}
	for _, f := range mergeFields {
		fields[f] = true
	}
	for _, m := range ms {
		F, V := m.Complete, m.VComplete
		fn := FnName(F)
		// the exception, checked on complete with its helpers: writes hold the lock;
		// unlocked reads are only of items/status and happen before the window is reopened
		h := c14HeldInView(V)
		var reopen []*ssa.Store
		reopen = append(reopen, V.FieldStores(c14TMerge, c14N.committed)...)
		okW, okR := true, true
		detail := ""
		for _, g := range V.Funcs() {
			if _, isExempt := exempt[FnName(g)]; !isExempt {
				continue // shared helper: LockCheck covers it with its caller-holds summary
			}
			for _, a := range fieldAccesses(g, c14TMerge, fields) {
				lp := accessPath(a.Base) + "." + c14N.lock
				if h[a.At][lp] >= modeW {
					continue
				}
				if a.Mode == modeW {
					okW = false
					detail = fmt.Sprintf("write of Merge.%s at %s without m.lock", a.Field, c.P.Pos(a.At.Pos()))
					continue
				}
				if a.Field != c14N.items && a.Field != c14N.status {
					okR = false
					detail = fmt.Sprintf("unlocked read of Merge.%s at %s", a.Field, c.P.Pos(a.At.Pos()))
				}
				for _, s := range reopen {
					if V.Reachable(s, a.At) {
						okR = false
						detail = fmt.Sprintf("unlocked read of Merge.%s at %s after the window was reopened", a.Field, c.P.Pos(a.At.Pos()))
					}
				}
			}
		}
		c.Check(R, fn+"|exception:writes-hold-lock", F.Pos(), okW, ifelse(okW, "every write of a guarded Merge field in complete() holds m.lock", detail+" — assign() can run concurrently (data race, lost batch)"))
		c.Check(R, fn+"|exception:unlocked-reads-only-items-status-before-reopen", F.Pos(), okR,
			ifelse(okR, "the only unlocked accesses are reads of m.items/m.status before committed is reset", detail+" — assign() may write it concurrently (data race)"))
		// premise 1: committed==true whenever complete() runs
		okP := len(m.CompleteCalls) > 0 && len(m.CommitPts) > 0
		for _, cc := range m.CompleteCalls {
			if !m.VD.MustPass(cc.(ssa.Instruction), newCut().Instr(m.CommitPts...)) {
				okP = false
			}
		}
		c.Check(R, FnName(m.Do)+"|premise:commit-precedes-complete", m.Do.Pos(), okP,
			ifelse(okP, "every path to complete() has passed commit() (committed==true)", "complete() can run without a preceding commit(): its unlocked reads of m.items/m.status race with assign()"))
	}
	// premise 2: writers of items/status are assign (on the open edge, see R1) and complete only
	allowed := map[*ssa.Function]bool{}
	for _, m := range ms {
		for _, V := range []*c14View{m.VAssign, m.VComplete} {
			for _, g := range V.Funcs() {
				allowed[g] = true
				if o := g.Origin(); o != nil {
					allowed[o] = true
				}
			}
		}
	}
	okW := true
	detail := "m.items / m.status are written only by assign() (on the committed==false edge, R1) and complete() (under the lock)"
	for _, f := range pkgFns {
		if allowed[f] {
			continue
		}
		if len(c14FieldStores(f, c14TMerge, c14N.items))+len(c14FieldStores(f, c14TMerge, c14N.status)) > 0 {
			okW = false
			detail = FnName(f) + " writes Merge.items/status: the exception for complete()'s unlocked reads no longer holds"
		}
	}
	c.Check(R, "~/internal/syncutil|premise:writers-of-items-status", token.NoPos, okW, detail)

	// poolItem.refCount is guarded by the pool's lock, also inside the release closure
	gen := c.P.Fn(c14PkgSync, "Pool.Get")
	if gen == nil {
		c.LostAnchor(R, "~/internal/syncutil.Pool.Get")
		return
	}
	n := 0
	inView := map[*ssa.Function]bool{}
	for _, G := range c.P.Instances(gen) {
		V := c14NewView(G, 4, c14SyncExpand)
		for _, a := range Anons(G) {
			V.AddRoot(a, 4, c14SyncExpand)
		}
		h := c14HeldInView(V)
		for _, f := range V.Funcs() {
			inView[f] = true
			if o := f.Origin(); o != nil {
				inView[o] = true
			}
			var accs []ssa.Instruction
			for _, fa := range c14FieldAddrs(f, c14N.poolItem, c14N.refCount) {
				for _, r := range *fa.Referrers() {
					if in, ok := r.(ssa.Instruction); ok {
						if _, dbg := r.(*ssa.DebugRef); !dbg {
							accs = append(accs, in)
						}
					}
				}
			}
			if len(accs) == 0 {
				continue
			}
			n++
			ok := true
			for _, at := range accs {
				held := false
				for lp, mode := range h[at] {
					if mode >= modeW && strings.HasSuffix(lp, "."+c14N.poolLock) {
						held = true
					}
				}
				if !held {
					ok = false
				}
			}
			c.Check(R, FnName(f)+"|"+c14N.poolItem+"."+c14N.refCount+"|W", f.Pos(), ok,
				ifelse(ok, "every access of refCount holds the pool's lock", "refCount is accessed without the pool's lock: the per-tag Merge can be dropped from the pool while another updater still uses it (two Merge objects for one referrers tag: updates are no longer serialised)"))
		}
	}
	if n < 2 {
		c.LostAnchor(R, "refCount accesses in Pool.Get and its release function")
	}
	// other functions touching refCount
	for _, f := range pkgFns {
		if len(c14FieldAddrs(f, c14N.poolItem, c14N.refCount)) == 0 || inView[f] {
			continue
		}
		c.Violation(R, FnName(f)+"|"+c14N.poolItem+"."+c14N.refCount+"|unclassified", f.Pos(), "refCount is accessed outside Pool.Get and its release function: not covered by the confirmed lock discipline")
	}
}
