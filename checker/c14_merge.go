package main

// C14.R1 — the Merge protocol, decided on inlined views: the steps are found by
// their role (whatever function they sit in), and every path/value question is
// asked of the view of Do / assign / commit / complete with helpers expanded.

import (
	"fmt"
	"go/token"
	"go/types"
	"strings"

	"golang.org/x/tools/go/ssa"
)

type c14Merge struct {
	Do                         *ssa.Function
	VD                         *c14View // Do with everything it runs in the package
	Assign, Commit, Complete   *ssa.Function
	AssignCalls                []ssa.CallInstruction
	CommitPts                  []ssa.Instruction // the stores committed=true (wherever they sit)
	CompleteCalls              []ssa.CallInstruction
	PrepareCalls, ResolveCalls []ssa.CallInstruction
	Recvs                      []*ssa.UnOp
	Prepare, Resolve           *ssa.Parameter
	VAssign, VComplete         *c14View
}

func c14SyncExpand(g *ssa.Function) bool {
	if fnPkgPath(g) != pkgPath(c14PkgSync) {
		return false
	}
	if g.Parent() != nil {
		return true
	}
	o := g.Object()
	if o == nil {
		if og := g.Origin(); og != nil {
			o = og.Object()
		}
	}
	return o == nil || !o.Exported()
}

func c14CallsI(cs []ssa.CallInstruction) []ssa.Instruction {
	var o []ssa.Instruction
	for _, x := range cs {
		o = append(o, x.(ssa.Instruction))
	}
	return o
}

func c14OnlyLeaf(v *c14View, x ssa.Value, want ssa.Value) bool {
	ls := v.Leaves(x)
	return want != nil && len(ls) == 1 && ls[0] == want
}

// c14FindMerge resolves, for every instantiation of the exported
// syncutil.Merge.Do, the protocol steps by their role in what Do runs:
// assign = the receiver method whose channel result is received from;
// commit = the receiver method whose result is handed to the resolve callback;
// complete = the outermost receiver method that is given the batch error.
func c14FindMerge(c *Ctx) []*c14Merge {
	const R = "C14.R1.merge-protocol"
	gen := c.P.Fn(c14PkgSync, "Merge.Do")
	if gen == nil {
		c.LostAnchor(R, "~/internal/syncutil.Merge.Do")
		return nil
	}
	if why := c14ResolveNames(c); why != "" {
		c.LostAnchor(R, why)
		return nil
	}
	var out []*c14Merge
	for _, D := range c.P.Instances(gen) {
		if len(D.TypeArgs()) == 0 && D.TypeParams().Len() > 0 {
			continue // generic template body: the instantiations are analysed
		}
		m := &c14Merge{Do: D}
		dn := FnName(D)
		for _, p := range D.Params {
			sig, ok := p.Type().Underlying().(*types.Signature)
			if !ok {
				continue
			}
			if sig.Params().Len() == 0 && ErrResultIndex(sig) == 0 {
				m.Prepare = p
			}
			if sig.Params().Len() == 1 && ErrResultIndex(sig) == 0 {
				m.Resolve = p
			}
		}
		if m.Prepare == nil || m.Resolve == nil {
			c.LostAnchor(R, dn+": prepare/resolve callback parameters")
			continue
		}
		V := c14NewView(D, 5, c14SyncExpand)
		m.VD = V
		recv := D.Params[0]
		onRecv := func(call ssa.CallInstruction) *ssa.Function {
			g := StaticCallee(call)
			if g == nil || g.Signature.Recv() == nil || len(call.Common().Args) == 0 {
				return nil
			}
			ls := V.LeavesShallow(call.Common().Args[0])
			if len(ls) != 1 || ls[0] != ssa.Value(recv) {
				return nil
			}
			return g
		}
		for _, call := range V.Calls(func(string) bool { return true }) {
			cv := call.Common().Value
			if call.Common().IsInvoke() || cv == nil {
				continue
			}
			switch cv.(type) {
			case *ssa.Function, *ssa.Builtin, *ssa.MakeClosure:
				continue
			}
			ls := V.LeavesShallow(cv)
			if len(ls) != 1 {
				continue
			}
			switch ls[0] {
			case ssa.Value(m.Prepare):
				m.PrepareCalls = append(m.PrepareCalls, call)
			case ssa.Value(m.Resolve):
				m.ResolveCalls = append(m.ResolveCalls, call)
			}
		}
		// assign: producer of the channel that is received from
		V.Instrs(func(in ssa.Instruction) {
			u, ok := in.(*ssa.UnOp)
			if !ok || u.Op != token.ARROW {
				return
			}
			for _, l := range V.LeavesShallow(u.X) {
				call, isCall := l.(*ssa.Call)
				if !isCall {
					continue
				}
				if g := onRecv(call); g != nil && (m.Assign == nil || m.Assign == g) {
					m.Assign = g
					m.AssignCalls = append(m.AssignCalls, call)
					m.Recvs = append(m.Recvs, u)
				}
			}
		})
		// commit: producer of resolve's argument
		// commit: wherever the window is closed (committed = true)
		for _, st := range V.FieldStores(c14TMerge, c14N.committed) {
			if bv, ok := c14ConstBool(st.Val); ok && bv {
				m.CommitPts = append(m.CommitPts, st)
			}
		}
		// complete: outermost receiver method that takes an error
		type cand struct {
			call ssa.CallInstruction
			g    *ssa.Function
		}
		var cands []cand
		for _, call := range V.Calls(func(string) bool { return true }) {
			if _, isCall := call.(*ssa.Call); !isCall {
				continue
			}
			g := onRecv(call)
			if g == nil || g == m.Assign {
				continue
			}
			args := call.Common().Args
			if len(args) == 2 && isErrorType(args[1].Type()) {
				cands = append(cands, cand{call, g})
			}
		}
		for _, cd := range cands {
			inner := false
			for _, o := range cands {
				if o.g != cd.g && c14NewView(o.g, 4, c14SyncExpand).Has(cd.call.Parent()) {
					inner = true
				}
			}
			if !inner && (m.Complete == nil || m.Complete == cd.g) {
				m.Complete = cd.g
				m.CompleteCalls = append(m.CompleteCalls, cd.call)
			}
		}
		ok := true
		for what, f := range map[string]*ssa.Function{"assign (channel result received)": m.Assign, "complete (takes the error)": m.Complete} {
			if f == nil {
				c.LostAnchor(R, dn+": step "+what)
				ok = false
			}
		}
		if ok {
			m.VAssign = c14NewView(m.Assign, 4, c14SyncExpand)
			m.VComplete = c14NewView(m.Complete, 4, c14SyncExpand)
			out = append(out, m)
		}
	}
	if len(out) == 0 {
		c.LostAnchor(R, "instantiation of ~/internal/syncutil.Merge.Do with resolvable steps")
	}
	return out
}

// ---------- R1 ----------

// c14RecvField: v is field `name` of the mergeStatus value received from the
// assign channel (through locals and helper results).
func (m *c14Merge) recvField(v ssa.Value) string {
	V := m.VD
	isRecv := func(x ssa.Value) bool {
		ls := V.Leaves(x)
		for _, r := range ls {
			u, ok := r.(*ssa.UnOp)
			if !ok || u.Op != token.ARROW {
				return false
			}
			found := false
			for _, rc := range m.Recvs {
				if rc == u {
					found = true
				}
			}
			if !found {
				return false
			}
		}
		return len(ls) > 0
	}
	for _, r := range V.Leaves(v) {
		switch u := r.(type) {
		case *ssa.Field:
			if isRecv(u.X) {
				return u.X.Type().Underlying().(*types.Struct).Field(u.Field).Name()
			}
		case *ssa.UnOp:
			fa, ok := u.X.(*ssa.FieldAddr)
			if !ok || u.Op != token.MUL {
				continue
			}
			a, ok := fa.X.(*ssa.Alloc)
			if !ok {
				continue
			}
			sts := storesTo(a)
			okAll := len(sts) > 0
			for _, st := range sts {
				if !isRecv(st.Val) {
					okAll = false
				}
			}
			if okAll {
				return a.Type().Underlying().(*types.Pointer).Elem().Underlying().(*types.Struct).Field(fa.Field).Name()
			}
		}
	}
	return ""
}

func c14LeafSet(v *c14View, x ssa.Value) map[ssa.Value]bool {
	out := map[ssa.Value]bool{}
	for _, r := range v.Leaves(x) {
		out[r] = true
	}
	return out
}

func c14R1(c *Ctx, ms []*c14Merge) {
	const R = "C14.R1.merge-protocol"
	c.Expect(R, 30)
	for _, m := range ms {
		c14R1Do(c, m)
		c14R1Complete(c, m)
		c14R1Assign(c, m)
	}
}

func c14R1Do(c *Ctx, m *c14Merge) {
	const R = "C14.R1.merge-protocol"
	D, V := m.Do, m.VD
	dn := FnName(D)
	// the main test
	mainVals := map[ssa.Value]bool{}
	for _, f := range V.Funcs() {
		for _, i := range Ifs(f) {
			cond, _, _ := ifEdges(i)
			if m.recvField(cond) == c14N.main {
				mainVals[cond] = true
			}
		}
	}
	te, fe := V.BoolTests(mainVals)
	if !c.Check(R, dn+"|main-test", D.Pos(), len(te) == 1, "Do branches on the `main` flag of the status it received from assign's channel") {
		return
	}
	mainE, otherE := te[0], fe[0]
	mainCut := newCut().Edges(mainE)
	all := func(cs []ssa.CallInstruction, f func(ssa.CallInstruction) bool) bool {
		for _, x := range cs {
			if !f(x) {
				return false
			}
		}
		return len(cs) > 0
	}
	onMain := func(x ssa.CallInstruction) bool { return V.MustPass(x.(ssa.Instruction), mainCut) }
	commits := m.CommitPts
	okCommitsMain := true
	for _, p := range commits {
		if !V.MustPass(p, mainCut) {
			okCommitsMain = false
		}
	}
	ok := all(m.PrepareCalls, onMain) && okCommitsMain && all(m.ResolveCalls, onMain) && all(m.CompleteCalls, onMain)
	c.Check(R, dn+"|only-main-runs-the-batch", mainE.From.Instrs[len(mainE.From.Instrs)-1].Pos(), ok,
		ifelse(ok, "prepare, commit, resolve and complete are reached only on the main==true edge", "a caller that is not the batch's main can run prepare/commit/resolve/complete (two read-modify-write cycles of one index run concurrently: lost update)"))
	// prepare runs on every main path
	r := V.ExitFromEdge(mainE, newCut().Calls(m.PrepareCalls))
	c.Check(R, dn+"|prepare-on-every-main-path", D.Pos(), !r && len(m.PrepareCalls) > 0, "every path of the main branch calls prepare()")
	// commit on every main path
	r = len(commits) == 0 || V.ExitFromEdge(mainE, newCut().Instr(commits...))
	c.Check(R, dn+"|commit-on-every-path", D.Pos(), !r,
		ifelse(!r, "every path of the main branch (also after a prepare error) calls commit()", "a path of the main branch returns without commit(): complete() then reopens a window that was never closed and the batch bookkeeping is off"))
	// resolve: with commit's result, iff prepare succeeded
	prepErr := map[ssa.Value]bool{}
	for _, pc := range m.PrepareCalls {
		if e := ErrOf(pc); e != nil {
			for a := range V.StrictAliases(e) {
				prepErr[a] = true
			}
		}
	}
	prepNil, prepNonNil := V.NilTests(prepErr)
	for i, rc := range m.ResolveCalls {
		key := fmt.Sprintf("%s|resolve#%d", dn, i+1)
		// the argument is m.items as read after the window was closed
		okArg := len(rc.Common().Args) == 1 && len(commits) > 0
		if okArg {
			n := 0
			for _, cx := range V.byFn[rc.Parent()] {
				for _, l := range V.LeavesIn(rc.Common().Args[0], cx) {
					n++
					ld, isLd := l.V.(*ssa.UnOp)
					if !isLd || ld.Op != token.MUL || V.PathIn(ld.X, l.Ctx) != c14P(c14N.items) || !V.MustPassLI(c14LI{ld, l.Ctx}, newCut().Instr(commits...)) {
						okArg = false
					}
				}
			}
			okArg = okArg && n > 0
		}
		c.Check(R, key+"|gets-committed-items", rc.Pos(), okArg,
			ifelse(okArg, "resolve receives m.items as read after the window was closed (committed = true)", "resolve is not given the batch's items read after the window was closed: changes batched by concurrent callers are dropped, or the slice is still being appended to"))
		okPre := len(prepNil) > 0 && V.MustPass(rc.(ssa.Instruction), newCut().Edges(prepNil...))
		c.Check(R, key+"|only-after-prepare-ok", rc.Pos(), okPre,
			ifelse(okPre, "resolve is reached only on the nil edge of prepare's error", "resolve can run although prepare failed (the update is computed from a list that was never fetched)"))
		okOrder := true
		for _, cm := range commits {
			if V.Reachable(rc.(ssa.Instruction), cm) {
				okOrder = false
			}
		}
		c.Check(R, key+"|after-commit", rc.Pos(), okOrder, "the window is not closed again after resolve")
	}
	if len(m.ResolveCalls) == 0 {
		c.Violation(R, dn+"|resolve#1|gets-committed-items", D.Pos(), "Do never calls resolve")
	}
	okRes := len(prepNil) > 0
	for _, e := range prepNil {
		if V.ExitFromEdge(e, newCut().Calls(m.ResolveCalls)) {
			okRes = false
		}
	}
	c.Check(R, dn+"|resolve-whenever-prepare-ok", D.Pos(), okRes,
		ifelse(okRes, "after a successful prepare every path calls resolve", "a path returns after a successful prepare without calling resolve: the batch is reported done but never applied"))
	// complete on every main path, with the error of prepare/resolve, which is also returned
	r = V.ExitFromEdge(mainE, newCut().Calls(m.CompleteCalls))
	c.Check(R, dn+"|complete-on-every-path", D.Pos(), !r,
		ifelse(!r, "every path of the main branch calls complete() before returning", "a path of the main branch returns without complete(): every later updater of this subject parks forever"))
	resErr := map[ssa.Value]bool{}
	for _, rc := range m.ResolveCalls {
		if e := ErrOf(rc); e != nil {
			resErr[e] = true
		}
	}
	prepErrLeaf := map[ssa.Value]bool{}
	for _, pc := range m.PrepareCalls {
		if e := ErrOf(pc); e != nil {
			prepErrLeaf[e] = true
		}
	}
	for i, cc := range m.CompleteCalls {
		key := fmt.Sprintf("%s|complete#%d", dn, i+1)
		roots := c14LeafSet(V, cc.Common().Args[1])
		okSrc, hasNilConst := len(roots) > 0, false
		for v := range roots {
			if !prepErrLeaf[v] && !resErr[v] {
				if isNilConst(v) {
					hasNilConst = true
				} else {
					okSrc = false
				}
			}
		}
		needsRes := false
		for _, rc := range m.ResolveCalls {
			if V.Reachable(rc.(ssa.Instruction), cc.(ssa.Instruction)) {
				needsRes = true
			}
		}
		if needsRes {
			has := false
			for v := range roots {
				if resErr[v] {
					has = true
				}
			}
			okSrc = okSrc && has
		}
		needsPrep := false
		for _, e := range prepNonNil {
			if V.EdgeReach(e, cc.(ssa.Instruction), newCut().Calls(m.ResolveCalls)) {
				needsPrep = true
			}
		}
		if needsPrep {
			has := false
			for v := range roots {
				if prepErrLeaf[v] {
					has = true
				}
			}
			okSrc = okSrc && has
		}
		switch {
		case okSrc && hasNilConst:
			c.Undecided(R, key+"|gets-the-batch-error", cc.Pos(), "complete() may receive a literal nil on some path; cannot decide which outcome it reports")
		default:
			c.Check(R, key+"|gets-the-batch-error", cc.Pos(), okSrc,
				ifelse(okSrc, "complete receives prepare's error on the failure path and resolve's error otherwise", "complete() does not receive the error of prepare/resolve: waiting callers are told the update succeeded although it failed (or the reverse)"))
		}
		okOrder := true
		for _, x := range append(c14CallsI(m.ResolveCalls), commits...) {
			if V.Reachable(cc.(ssa.Instruction), x) {
				okOrder = false
			}
		}
		c.Check(R, key+"|is-last", cc.Pos(), okOrder, ifelse(okOrder, "no commit/resolve after complete", "commit or resolve can run after complete(): the window was already reopened"))
	}
	// the main caller returns the error it broadcast; waiting callers return the received status error
	n := 0
	for _, ret := range Returns(D) {
		if !V.ReachableFromEntry(ret) {
			continue
		}
		fromMain, fromOther := V.EdgeReach(mainE, ret, nil), V.EdgeReach(otherE, ret, nil)
		for _, a := range RetAtoms(D, 0) {
			if a.Ret != ret {
				continue
			}
			// which side does this atom belong to (a shared return merges both with a phi)
			aMain, aOther := fromMain, fromOther
			if fromMain && fromOther && len(a.Edges) > 0 {
				e := a.Edges[len(a.Edges)-1]
				last := e.From.Instrs[len(e.From.Instrs)-1]
				aMain = e.From == mainE.To || V.EdgeReach(mainE, last, nil)
				aOther = e.From == otherE.To || V.EdgeReach(otherE, last, nil)
			}
			switch {
			case aMain && !aOther:
				ls := c14LeafSet(V, a.Val)
				same := len(ls) > 0
				for v := range ls {
					if !prepErrLeaf[v] && !resErr[v] {
						same = false
					}
				}
				for _, cc := range m.CompleteCalls {
					if !V.Reachable(cc.(ssa.Instruction), ret) {
						continue
					}
					cr := c14LeafSet(V, cc.Common().Args[1])
					for v := range ls {
						if !cr[v] {
							same = false
						}
					}
				}
				c.Check(R, dn+"|main-returns-same-error", ret.Pos(), same,
					ifelse(same, "the main caller returns the error it broadcast", "the main caller returns something else than the error it handed to complete()"))
			case aOther && !aMain:
				n++
				ok := m.recvField(a.Val) == c14N.err
				c.Check(R, dn+"|non-main-returns-status-err", ret.Pos(), ok,
					ifelse(ok, "a waiting caller returns the err field of the status it received", "a waiting caller does not return the error broadcast by the main caller: a failed batch is reported as success"))
			default:
				c.Undecided(R, dn+"|non-main-returns-status-err", ret.Pos(), "a return value shared by the main and the waiting branch: shape not recognised")
			}
		}
	}
	if n == 0 {
		c.Violation(R, dn+"|non-main-returns-status-err", D.Pos(), "no return on the main==false edge")
	}
}

// ---------- R2 ----------

type c14Access struct {
	li    c14LI
	rel   string // path relative to the Merge receiver
	write bool
}

// c14StateAccesses: loads and stores of the guarded Merge state (the window
// flag, both batches and their members) by the instances of the view.
func c14StateAccesses(V *c14View) []c14Access {
	guarded := func(rel string) bool {
		for _, f := range c14N.mergeFields {
			if rel == f || strings.HasPrefix(rel, f+".") {
				return true
			}
		}
		return false
	}
	var out []c14Access
	V.Each(func(li c14LI) {
		var addr ssa.Value
		write := false
		switch x := li.In.(type) {
		case *ssa.Store:
			addr, write = x.Addr, true
		case *ssa.UnOp:
			if x.Op == token.MUL {
				addr = x.X
			}
		}
		fa, ok := addr.(*ssa.FieldAddr)
		if !ok {
			return
		}
		p := V.PathIn(fa, li.Ctx)
		if !strings.HasPrefix(p, "p0.") || !guarded(p[3:]) {
			return
		}
		out = append(out, c14Access{li, p[3:], write})
	})
	return out
}

// c14HoldsLock: the held set contains the Merge mutex (of this frame or a caller's).
func c14HoldsLock(h heldSet) bool {
	for lp, mode := range h {
		if mode >= modeW && strings.HasSuffix(lp, "."+c14N.lock) {
			return true
		}
	}
	return false
}

// c14HeldInView computes the must-hold lock set before every instruction of
// the view's functions, carrying the set held at a call site into the inlined
// callee (paths rooted at an argument are re-rooted at the parameter).  An
// instruction reached in several contexts gets the meet.
func c14HeldInView(V *c14View) map[ssa.Instruction]heldSet {
	res := map[ssa.Instruction]heldSet{}
	entry := map[*c14Ctx]heldSet{}
	for _, cx := range V.ctxs {
		e := entry[cx]
		if e == nil {
			e = heldSet{}
		}
		h := heldAt(cx.fn, e)
		for in, hs := range h {
			if prev, ok := res[in]; ok {
				res[in] = meet(prev, hs)
			} else {
				res[in] = hs.clone()
			}
		}
		for call, k := range cx.kids {
			if k.virtual {
				continue
			}
			ne := heldSet{}
			for p, mode := range h[call] {
				for i, arg := range call.Call.Args {
					if i >= len(k.fn.Params) {
						break
					}
					ap := accessPath(arg)
					if p == ap || strings.HasPrefix(p, ap+".") || strings.HasPrefix(p, ap+"*") {
						ne["P:"+k.fn.Params[i].Name()+p[len(ap):]] = mode
					}
				}
				// a lock of the caller's frame stays held while the callee runs
				if !strings.HasPrefix(p, "^") {
					ne["^"+p] = mode
				} else {
					ne[p] = mode
				}
			}
			entry[k] = ne
		}
	}
	return res
}

func c14R2(c *Ctx, ms []*c14Merge) {
	const R = "C14.R2.lock-discipline"
	c.Expect(R, 12)
	mergeFields := c14N.mergeFields
	const reason = "complete() reads m.items/m.status before locking: while committed==true (set by commit() before complete() is reached) assign() writes neither, so there is no concurrent writer; the premise is proved by the |premise obligations"
	pkgFns := c.P.FuncsOfPkg(c14PkgSync)
	callersOf := func(g *ssa.Function) []*ssa.Function {
		var out []*ssa.Function
		for _, f := range pkgFns {
			for _, call := range Calls(f, func(string) bool { return true }) {
				if StaticCallee(call) == g {
					out = append(out, f)
				}
			}
		}
		return out
	}
	exempt := map[string]string{}
	for _, m := range ms {
		// complete and the helpers that only complete runs
		for _, g := range m.VComplete.Funcs() {
			private := true
			if g != m.Complete {
				for _, f := range callersOf(g) {
					if !m.VComplete.Has(f) {
						private = false
					}
				}
			}
			if !private {
				continue
			}
			exempt[FnName(g)] = reason
			if o := g.Origin(); o != nil {
				exempt[FnName(o)] = reason
			}
		}
	}
	if c14N.poolItems == "" || c14N.poolLock == "" || c14N.refCount == "" {
		c.LostAnchor(R, "~/internal/syncutil.Pool: its mutex, its map of items and the reference count of an item")
		return
	}
	LockCheck(c, R, []GuardSpec{
		{Type: c14TMerge, Fields: mergeFields, Lock: c14N.lock, Exempt: exempt},
		{Type: c14TPool, Fields: []string{c14N.poolItems}, Lock: c14N.poolLock},
	}, []string{c14PkgSync})

	fields := map[string]bool{}
	for _, f := range mergeFields {
		fields[f] = true
	}
	for _, m := range ms {
		F, V := m.Complete, m.VComplete
		fn := FnName(F)
		// the exception, checked on complete with its helpers: writes hold the lock;
		// unlocked reads are only of items/status and happen before the window is reopened
		h := c14HeldInView(V)
		reopen := V.PathStores(c14P(c14N.committed))
		okW, okR := true, true
		detail := ""
		for _, acc := range c14StateAccesses(V) {
			g := acc.li.In.Parent()
			if _, isExempt := exempt[FnName(g)]; !isExempt {
				continue // shared helper: checked below on Do's view / by LockCheck
			}
			if c14HoldsLock(h[acc.li.In]) {
				continue
			}
			if acc.write {
				okW = false
				detail = fmt.Sprintf("write of Merge state %s at %s without the lock", acc.rel, c.P.Pos(acc.li.In.Pos()))
				continue
			}
			if acc.rel != c14N.items && acc.rel != c14N.status {
				okR = false
				detail = fmt.Sprintf("unlocked read of Merge state %s at %s", acc.rel, c.P.Pos(acc.li.In.Pos()))
			}
			for _, st := range reopen {
				if V.ReachLI(st, acc.li, nil) {
					okR = false
					detail = fmt.Sprintf("unlocked read of Merge state %s at %s after the window was reopened", acc.rel, c.P.Pos(acc.li.In.Pos()))
				}
			}
		}
		c.Check(R, fn+"|exception:writes-hold-lock", F.Pos(), okW, ifelse(okW, "every write of a guarded Merge field in complete() holds m.lock", detail+" — assign() can run concurrently (data race, lost batch)"))
		c.Check(R, fn+"|exception:unlocked-reads-only-items-status-before-reopen", F.Pos(), okR,
			ifelse(okR, "the only unlocked accesses are reads of m.items/m.status before committed is reset", detail+" — assign() may write it concurrently (data race)"))
		// premise 1: committed==true whenever complete() runs
		okP := len(m.CompleteCalls) > 0 && len(m.CommitPts) > 0
		for _, cc := range m.CompleteCalls {
			if !m.VD.MustPass(cc.(ssa.Instruction), newCut().Instr(m.CommitPts...)) {
				okP = false
			}
		}
		c.Check(R, FnName(m.Do)+"|premise:commit-precedes-complete", m.Do.Pos(), okP,
			ifelse(okP, "every path to complete() has passed commit() (committed==true)", "complete() can run without a preceding commit(): its unlocked reads of m.items/m.status race with assign()"))
	}
	// every access of the Merge state reachable from Do (also inside helpers shared by both batches)
	// holds the lock, except complete's confirmed pre-lock reads
	for _, m := range ms {
		V := m.VD
		h := c14HeldInView(V)
		ok := true
		detail := ""
		n := 0
		for _, acc := range c14StateAccesses(V) {
			n++
			if c14HoldsLock(h[acc.li.In]) {
				continue
			}
			if _, isExempt := exempt[FnName(acc.li.In.Parent())]; isExempt && !acc.write && (acc.rel == c14N.items || acc.rel == c14N.status) {
				continue
			}
			ok = false
			detail = fmt.Sprintf("%s of Merge state %s at %s (in %s) without the lock", ifelse(acc.write, "write", "read"), acc.rel, c.P.Pos(acc.li.In.Pos()), FnName(acc.li.In.Parent()))
		}
		c.Check(R, FnName(m.Do)+"|state-accesses-hold-lock", m.Do.Pos(), ok && n > 0,
			ifelse(ok && n > 0, fmt.Sprintf("%d accesses of the Merge state run by Do hold the lock (or are complete's pre-lock reads)", n), detail+" — a concurrent Do can observe or corrupt the batch (data race, lost change)"))
	}
	// premise 2: writers of items/status are assign (on the open edge, see R1) and complete only
	allowed := map[*ssa.Function]bool{}
	for _, m := range ms {
		for _, V := range []*c14View{m.VAssign, m.VComplete} {
			for _, g := range V.Funcs() {
				allowed[g] = true
				if o := g.Origin(); o != nil {
					allowed[o] = true
				}
			}
		}
	}
	okW := true
	detail := "m.items / m.status are written only by assign() (on the committed==false edge, R1) and complete() (under the lock)"
	for _, f := range pkgFns {
		if allowed[f] {
			continue
		}
		nw := 0
		for _, tf := range c14N.stateFields {
			nw += len(c14FieldStores(f, tf[0], tf[1]))
		}
		if nw > 0 {
			okW = false
			detail = FnName(f) + " writes Merge.items/status: the exception for complete()'s unlocked reads no longer holds"
		}
	}
	c.Check(R, "~/internal/syncutil|premise:writers-of-items-status", token.NoPos, okW, detail)

	// poolItem.refCount is guarded by the pool's lock, also inside the release closure
	gen := c.P.Fn(c14PkgSync, "Pool.Get")
	if gen == nil {
		c.LostAnchor(R, "~/internal/syncutil.Pool.Get")
		return
	}
	n := 0
	inView := map[*ssa.Function]bool{}
	for _, G := range c.P.Instances(gen) {
		V := c14NewView(G, 4, c14SyncExpand)
		for _, a := range Anons(G) {
			V.AddRoot(a, 4, c14SyncExpand)
		}
		h := c14HeldInView(V)
		for _, f := range V.Funcs() {
			inView[f] = true
			if o := f.Origin(); o != nil {
				inView[o] = true
			}
			var accs []ssa.Instruction
			for _, fa := range c14FieldAddrs(f, c14N.poolItem, c14N.refCount) {
				for _, r := range *fa.Referrers() {
					if in, ok := r.(ssa.Instruction); ok {
						if _, dbg := r.(*ssa.DebugRef); !dbg {
							accs = append(accs, in)
						}
					}
				}
			}
			if len(accs) == 0 {
				continue
			}
			n++
			ok := true
			for _, at := range accs {
				held := false
				for lp, mode := range h[at] {
					if mode >= modeW && strings.HasSuffix(lp, "."+c14N.poolLock) {
						held = true
					}
				}
				if !held {
					ok = false
				}
			}
			c.Check(R, FnName(f)+"|"+c14N.poolItem+"."+c14N.refCount+"|W", f.Pos(), ok,
				ifelse(ok, "every access of refCount holds the pool's lock", "refCount is accessed without the pool's lock: the per-tag Merge can be dropped from the pool while another updater still uses it (two Merge objects for one referrers tag: updates are no longer serialised)"))
		}
	}
	if n < 2 {
		c.LostAnchor(R, "refCount accesses in Pool.Get and its release function")
	}
	// other functions touching refCount
	for _, f := range pkgFns {
		if len(c14FieldAddrs(f, c14N.poolItem, c14N.refCount)) == 0 || inView[f] {
			continue
		}
		c.Violation(R, FnName(f)+"|"+c14N.poolItem+"."+c14N.refCount+"|unclassified", f.Pos(), "refCount is accessed outside Pool.Get and its release function: not covered by the confirmed lock discipline")
	}
}
