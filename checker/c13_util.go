package main

// Helpers shared by C13, C15 and C17 (HTTP exchange shapes in registry/remote,
// registry/remote/auth, registry/remote/retry, internal/httputil).

import (
	"fmt"
	"go/constant"
	"go/token"
	"go/types"
	"sort"

	"golang.org/x/tools/go/ssa"
)

const (
	c13PkgRemote = "registry/remote"
	c13PkgHTTP   = "net/http"
	c13PkgOCI    = "github.com/opencontainers/image-spec/specs-go/v1"
	c13PkgDigest = "github.com/opencontainers/go-digest"
)

// c13IsNamed: t (or *t) is the named type pkg.name.
func c13IsNamed(t types.Type, pkg, name string) bool {
	if t == nil {
		return false
	}
	t = types.Unalias(t)
	if p, ok := t.(*types.Pointer); ok {
		t = types.Unalias(p.Elem())
	}
	n, ok := t.(*types.Named)
	if !ok || n.Obj().Pkg() == nil {
		return false
	}
	return n.Obj().Pkg().Path() == pkgPath(pkg) && n.Obj().Name() == name
}

func c13IsPtrTo(t types.Type, pkg, name string) bool {
	_, ok := types.Unalias(t).(*types.Pointer)
	return ok && c13IsNamed(t, pkg, name)
}

// c13Sig results (pkg,name) matcher: "error" for the builtin error type.
func c13TypeIs(t types.Type, pkg, name string) bool {
	if pkg == "" && name == "error" {
		return isErrorType(t)
	}
	return c13IsNamed(t, pkg, name)
}

// c13IsSend: the call hands back (*http.Response, error): an HTTP exchange.
func c13IsSend(call ssa.CallInstruction) bool {
	sig := call.Common().Signature()
	if sig == nil || sig.Results().Len() != 2 {
		return false
	}
	return c13IsPtrTo(sig.Results().At(0).Type(), c13PkgHTTP, "Response") && isErrorType(sig.Results().At(1).Type())
}

// c13IsForwarder: fn itself returns (*http.Response, error) (Repository.do,
// Registry.do, Client.Do, Client.send, Transport.RoundTrip …).
func c13IsForwarder(fn *ssa.Function) bool {
	r := fn.Signature.Results()
	return r.Len() == 2 && c13IsPtrTo(r.At(0).Type(), c13PkgHTTP, "Response") && isErrorType(r.At(1).Type())
}

// c13SendSites lists the HTTP exchanges performed by fn (not deferred).
func c13SendSites(fn *ssa.Function) []ssa.CallInstruction {
	var out []ssa.CallInstruction
	for _, call := range Calls(fn, func(string) bool { return true }) {
		if _, isCall := call.(*ssa.Call); isCall && c13IsSend(call) {
			out = append(out, call)
		}
	}
	return out
}

// c13AliasSet: union of Aliases of the given values.
func c13AliasSet(vs ...ssa.Value) map[ssa.Value]bool {
	out := map[ssa.Value]bool{}
	for _, v := range vs {
		if v == nil {
			continue
		}
		for a := range Aliases(v) {
			out[a] = true
		}
	}
	return out
}

// c13FieldLoads returns the loads of field `field` of struct type pkg.typ in
// fn whose base pointer satisfies baseOK (nil = any), expanded by Aliases.
func c13FieldLoads(fn *ssa.Function, pkg, typ, field string, baseOK func(ssa.Value) bool) map[ssa.Value]bool {
	out := map[ssa.Value]bool{}
	add := func(v ssa.Value) {
		for a := range Aliases(v) {
			out[a] = true
		}
	}
	AllInstrs(fn, func(in ssa.Instruction) {
		switch u := in.(type) {
		case *ssa.UnOp:
			if u.Op != token.MUL {
				return
			}
			fa, ok := u.X.(*ssa.FieldAddr)
			if !ok || !c13IsNamed(fa.X.Type(), pkg, typ) || c13FieldNameOf(fa.X.Type(), fa.Field) != field {
				return
			}
			if baseOK == nil || baseOK(fa.X) {
				add(u)
			}
		case *ssa.Field:
			if !c13IsNamed(u.X.Type(), pkg, typ) || c13FieldNameOf(u.X.Type(), u.Field) != field {
				return
			}
			if baseOK == nil || baseOK(u.X) {
				add(u)
			}
		}
	})
	return out
}

func c13FieldNameOf(t types.Type, idx int) string {
	t = types.Unalias(t)
	if p, ok := t.Underlying().(*types.Pointer); ok {
		t = p.Elem()
	}
	st, ok := t.Underlying().(*types.Struct)
	if !ok || idx >= st.NumFields() {
		return ""
	}
	return st.Field(idx).Name()
}

// c13FieldStores returns the stores in fn to field `field` of pkg.typ.
func c13FieldStores(fn *ssa.Function, pkg, typ, field string, baseOK func(ssa.Value) bool) []*ssa.Store {
	var out []*ssa.Store
	AllInstrs(fn, func(in ssa.Instruction) {
		s, ok := in.(*ssa.Store)
		if !ok {
			return
		}
		fa, ok := s.Addr.(*ssa.FieldAddr)
		if !ok || !c13IsNamed(fa.X.Type(), pkg, typ) || c13FieldNameOf(fa.X.Type(), fa.Field) != field {
			return
		}
		if baseOK == nil || baseOK(fa.X) {
			out = append(out, s)
		}
	})
	return out
}

// c13IntTests classifies the Ifs of fn that compare a value of `vals` with an
// integer constant.  eq[k] = edges on which the value is known to equal k;
// other = comparisons of another shape (ordering, non-constant operand).
type c13IntTests struct {
	eq    map[int64][]Edge
	neq   map[int64][]Edge
	other []*ssa.If
	// lt0 / ge0: edges on which the value is known negative / non-negative
	lt0, ge0 []Edge
}

func c13ConstInt(v ssa.Value) (int64, bool) {
	c, ok := strip(v).(*ssa.Const)
	if !ok || c.Value == nil || c.Value.Kind() != constant.Int {
		return 0, false
	}
	return c.Int64(), true
}

func c13TestsOf(fn *ssa.Function, vals map[ssa.Value]bool) *c13IntTests {
	return c13TestsOfBound(fn, vals, nil)
}

// c13TestsOfBound: as c13TestsOf; values in bind (parameters bound to integer
// constants at the call under analysis) count as those constants.
func c13TestsOfBound(fn *ssa.Function, vals map[ssa.Value]bool, bind map[ssa.Value]int64) *c13IntTests {
	out := &c13IntTests{eq: map[int64][]Edge{}, neq: map[int64][]Edge{}}
	for _, i := range Ifs(fn) {
		cond, t, f := ifEdges(i)
		bo, ok := cond.(*ssa.BinOp)
		if !ok {
			continue
		}
		x, y, op := bo.X, bo.Y, bo.Op
		if vals[y] && !vals[x] {
			x, y = y, x
			switch op {
			case token.LSS:
				op = token.GTR
			case token.GTR:
				op = token.LSS
			case token.LEQ:
				op = token.GEQ
			case token.GEQ:
				op = token.LEQ
			}
		}
		if !vals[x] {
			continue
		}
		k, isConst := c13ConstInt(y)
		if !isConst && bind != nil {
			k, isConst = bind[y]
			if !isConst {
				k, isConst = bind[strip(y)]
			}
		}
		if !isConst {
			out.other = append(out.other, i)
			continue
		}
		switch op {
		case token.EQL:
			out.eq[k] = append(out.eq[k], t)
			out.neq[k] = append(out.neq[k], f)
			if k < 0 {
				out.lt0 = append(out.lt0, t)
			}
			if k == -1 {
				// the only negative value net/http uses for ContentLength is -1
				out.ge0 = append(out.ge0, f)
			}
		case token.NEQ:
			out.eq[k] = append(out.eq[k], f)
			out.neq[k] = append(out.neq[k], t)
			if k < 0 {
				out.lt0 = append(out.lt0, f)
			}
			if k == -1 {
				out.ge0 = append(out.ge0, t)
			}
		case token.LSS: // x < k
			if k <= 0 {
				out.lt0 = append(out.lt0, t)
			}
			if k == 0 {
				out.ge0 = append(out.ge0, f)
			}
			out.other = append(out.other, i)
		case token.LEQ: // x <= k
			if k < 0 {
				out.lt0 = append(out.lt0, t)
			}
			if k == -1 {
				out.ge0 = append(out.ge0, f)
			}
			out.other = append(out.other, i)
		case token.GEQ: // x >= k
			if k >= 0 {
				out.ge0 = append(out.ge0, t)
			}
			if k == 0 {
				out.lt0 = append(out.lt0, f)
			}
			out.other = append(out.other, i)
		case token.GTR: // x > k
			if k >= -1 {
				out.ge0 = append(out.ge0, t)
			}
			if k == -1 {
				out.lt0 = append(out.lt0, f)
			}
			out.other = append(out.other, i)
		default:
			out.other = append(out.other, i)
		}
	}
	return out
}

// c13EqualEdges: edges on which a value of A is known equal to a value of B
// (`a == b` true edge / `a != b` false edge).
func c13EqualEdges(fn *ssa.Function, A, B map[ssa.Value]bool) (eq, neq []Edge) {
	for _, i := range Ifs(fn) {
		cond, t, f := ifEdges(i)
		bo, ok := cond.(*ssa.BinOp)
		if !ok || (bo.Op != token.EQL && bo.Op != token.NEQ) {
			continue
		}
		if !((A[bo.X] && B[bo.Y]) || (A[bo.Y] && B[bo.X])) {
			continue
		}
		if bo.Op == token.EQL {
			eq, neq = append(eq, t), append(neq, f)
		} else {
			eq, neq = append(eq, f), append(neq, t)
		}
	}
	return
}

// c13RootsIn: some root of v is in set.
func c13RootsIn(v ssa.Value, set map[ssa.Value]bool) bool {
	if set[v] {
		return true
	}
	for _, r := range Roots(v) {
		if set[r] {
			return true
		}
	}
	return false
}

// c13ValuesWithRoot: all values of fn (phis, loads, the roots themselves)
// one of whose roots satisfies pred.
func c13ValuesWithRoot(fn *ssa.Function, pred func(ssa.Value) bool) map[ssa.Value]bool {
	out := map[ssa.Value]bool{}
	AllInstrs(fn, func(in ssa.Instruction) {
		v, ok := in.(ssa.Value)
		if !ok {
			return
		}
		switch v.(type) {
		case *ssa.Phi, *ssa.UnOp, *ssa.Extract, *ssa.Call, *ssa.ChangeType, *ssa.Convert, *ssa.MakeInterface, *ssa.ChangeInterface:
		default:
			return
		}
		for _, r := range Roots(v) {
			if pred(r) {
				out[v] = true
				return
			}
		}
	})
	return out
}

// c13LenZeroEdges: edges on which len(x)==0 / len(x)!=0 for x in vals;
// also x == "" / x != "" for string-kinded values.
func c13LenZeroEdges(fn *ssa.Function, vals map[ssa.Value]bool) (zero, nonzero []Edge) {
	for _, i := range Ifs(fn) {
		cond, t, f := ifEdges(i)
		bo, ok := cond.(*ssa.BinOp)
		if !ok {
			continue
		}
		if ln, ok := bo.X.(*ssa.Call); ok && CalleeName(ln) == "builtin:len" && vals[ln.Call.Args[0]] {
			k, ok := c13ConstInt(bo.Y)
			if !ok {
				continue
			}
			switch {
			case bo.Op == token.NEQ && k == 0, bo.Op == token.GTR && k == 0, bo.Op == token.GEQ && k == 1:
				zero, nonzero = append(zero, f), append(nonzero, t)
			case bo.Op == token.EQL && k == 0, bo.Op == token.LSS && k == 1, bo.Op == token.LEQ && k == 0:
				zero, nonzero = append(zero, t), append(nonzero, f)
			}
			continue
		}
		if bo.Op != token.EQL && bo.Op != token.NEQ {
			continue
		}
		var other ssa.Value
		if vals[bo.X] {
			other = bo.Y
		} else if vals[bo.Y] {
			other = bo.X
		} else {
			continue
		}
		if s, ok := constString(other); ok && s == "" {
			if bo.Op == token.EQL {
				zero, nonzero = append(zero, t), append(nonzero, f)
			} else {
				zero, nonzero = append(zero, f), append(nonzero, t)
			}
		}
	}
	return
}

// ---------- atoms reachable from a program point ----------

// c13AtomReach: is there a path from (fromB, fromIdx) to the Return of atom a,
// consistent with the phi edges / store that establish a's value, that avoids
// the cut?  (false also when the atom is not realisable from that point.)
func c13AtomReach(fromB *ssa.BasicBlock, fromIdx int, a RetAtom, c *cut) bool {
	if c == nil {
		c = newCut()
	}
	if len(a.Edges) > 0 {
		cur := a.Edges[len(a.Edges)-1]
		if !reach(fromB, fromIdx, cur.From.Instrs[len(cur.From.Instrs)-1], c) {
			return false
		}
		if c.edges[cur] {
			return false
		}
		for i := len(a.Edges) - 2; i >= -1; i-- {
			var tgt ssa.Instruction = a.Ret
			if i >= 0 {
				nb := a.Edges[i].From
				tgt = nb.Instrs[len(nb.Instrs)-1]
			}
			if !reach(cur.To, 0, tgt, c) {
				return false
			}
			if i >= 0 {
				cur = a.Edges[i]
				if c.edges[cur] {
					return false
				}
			}
		}
		return true
	}
	if a.Store != nil {
		if reach(fromB, fromIdx, a.Store, nil) {
			if !reach(fromB, fromIdx, a.Store, c) || c.instrs[a.Store] {
				return false
			}
			return reach(a.Store.Block(), instrIndex(a.Store)+1, a.Ret, c)
		}
		// value established before the start point
	}
	return reach(fromB, fromIdx, a.Ret, c)
}

// c13NilErrAtoms returns the atoms of fn's error result that may be nil,
// each with the cut extension "non-nil edges of the atom's own value" (an
// atom returned on the non-nil side of its own test is a failure return).
type c13Atom struct {
	RetAtom
	ownNonNil []Edge
}

func c13NilErrAtoms(fn *ssa.Function) []c13Atom {
	idx := ErrResultIndex(fn.Signature)
	if idx < 0 {
		return nil
	}
	var out []c13Atom
	for _, a := range RetAtoms(fn, idx) {
		if pv := c13PassThrough(a.Val); pv != a.Val { // the error handed through a pass-through helper / local closure
			a.Val = pv
		}
		if ErrNilStatus(a.Val, 0) == NonNil {
			continue
		}
		ca := c13Atom{RetAtom: a}
		if _, isZero := a.Val.(zeroMarker); !isZero {
			if _, isConst := a.Val.(*ssa.Const); !isConst {
				_, nn, _ := NilTests(fn, Aliases(a.Val))
				ca.ownNonNil = nn
			}
		}
		out = append(out, ca)
	}
	return out
}

// c13SuccessEscapes returns the first may-be-nil error atom that is reachable
// from (b, idx) without passing the cut (nil if none).  `direct` lists values
// whose being returned as the error counts as passing (the verdict of a check
// returned as is).
func c13SuccessEscapes(fn *ssa.Function, b *ssa.BasicBlock, idx int, c *cut, direct map[ssa.Value]bool) *c13Atom {
	atoms := c13NilErrAtoms(fn)
	for i := range atoms {
		a := &atoms[i]
		if direct != nil && (direct[a.Val] || direct[strip(a.Val)]) {
			continue
		}
		cc := newCut()
		for k := range c.instrs {
			cc.instrs[k] = true
		}
		for k := range c.edges {
			cc.edges[k] = true
		}
		cc.Edges(a.ownNonNil...)
		if c13AtomReach(b, idx, a.RetAtom, cc) {
			return a
		}
	}
	return nil
}

func c13AfterSite(site ssa.Instruction) (*ssa.BasicBlock, int) {
	return site.Block(), instrIndex(site) + 1
}

// c13MethodsOfRequest: constant HTTP methods of the *http.Request value v
// (second argument of the http.NewRequestWithContext / http.NewRequest that
// created it).  ok=false when some root is not such a call.
func c13MethodsOfRequest(v ssa.Value) (methods []string, ok bool) {
	seen := map[string]bool{}
	for _, r := range Roots(v) {
		ex, isEx := r.(*ssa.Extract)
		if !isEx || ex.Index != 0 {
			return nil, false
		}
		call, isCall := ex.Tuple.(*ssa.Call)
		if !isCall {
			return nil, false
		}
		var m ssa.Value
		switch CalleeName(call) {
		case "net/http.NewRequestWithContext":
			m = call.Call.Args[1]
		case "net/http.NewRequest":
			m = call.Call.Args[0]
		default:
			// a request factory of the module: the methods of the requests it returns
			F := StaticCallee(call)
			if F == nil || !inModule(F) || len(F.Blocks) == 0 || F == call.Parent() {
				return nil, false
			}
			some := false
			for _, a := range RetAtoms(F, 0) {
				if isNilConst(a.Val) {
					continue
				}
				ms, ok := c13MethodsOfRequest(a.Val)
				if !ok {
					return nil, false
				}
				some = true
				for _, x := range ms {
					if !seen[x] {
						seen[x] = true
						methods = append(methods, x)
					}
				}
			}
			if !some {
				return nil, false
			}
			continue
		}
		s, isConst := constString(m)
		if !isConst {
			return nil, false
		}
		if !seen[s] {
			seen[s] = true
			methods = append(methods, s)
		}
	}
	sort.Strings(methods)
	return methods, len(methods) > 0
}

// c13RequestArg: the *http.Request argument of a send site.
func c13RequestArg(call ssa.CallInstruction) ssa.Value {
	for _, a := range call.Common().Args {
		if c13IsPtrTo(a.Type(), c13PkgHTTP, "Request") {
			return a
		}
	}
	return nil
}

// c13FuncsBySig: in-module functions of package rel for which pred holds.
func c13FuncsWhere(p *Prog, rel string, pred func(f *ssa.Function) bool) []*ssa.Function {
	var out []*ssa.Function
	for _, f := range p.FuncsOfPkg(rel) {
		if pred(f) {
			out = append(out, f)
		}
	}
	return out
}

// c13ParamTypesAre: the (non-receiver) parameters of f have exactly the given
// named types (pkg,name pairs; "" pkg + basic name for basics).
func c13HasParam(f *ssa.Function, pkg, name string) bool {
	ps := f.Signature.Params()
	for i := 0; i < ps.Len(); i++ {
		if c13IsNamed(ps.At(i).Type(), pkg, name) {
			return true
		}
	}
	return false
}

func c13ResultsAre(f *ssa.Function, spec ...[2]string) bool {
	rs := f.Signature.Results()
	if rs.Len() != len(spec) {
		return false
	}
	for i, s := range spec {
		if !c13TypeIs(rs.At(i).Type(), s[0], s[1]) {
			return false
		}
	}
	return true
}

// c13CallsToFn: static calls in fn whose callee is g.
func c13CallsToFn(fn, g *ssa.Function) []ssa.CallInstruction {
	var out []ssa.CallInstruction
	for _, call := range Calls(fn, func(string) bool { return true }) {
		if sc := StaticCallee(call); sc != nil && (sc == g || sc.Origin() == g) {
			out = append(out, call)
		}
	}
	return out
}

func c13Ints(ks []int64) string {
	s := ""
	for i, k := range ks {
		if i > 0 {
			s += "|"
		}
		s += itoa64(k)
	}
	return s
}

func itoa64(k int64) string {
	if k == 0 {
		return "0"
	}
	neg := k < 0
	if neg {
		k = -k
	}
	var b []byte
	for k > 0 {
		b = append([]byte{byte('0' + k%10)}, b...)
		k /= 10
	}
	if neg {
		b = append([]byte{'-'}, b...)
	}
	return string(b)
}

// ---------- interprocedural fact summaries ----------

// c13Fact computes, inside one function, where a fact about the response
// values `resp` is established: the edges on which it is known to hold and
// the error values whose being returned as is carries the verdict.
type c13Fact struct {
	ID  string
	Use func(fn *ssa.Function, resp map[ssa.Value]bool, bind map[ssa.Value]int64) (edges []Edge, direct []ssa.Value)
	// Instrs (optional): instructions whose execution establishes the fact (e.g. a store).
	Instrs func(fn *ssa.Function, vals map[ssa.Value]bool) []ssa.Instruction
	// Aux (optional): a second value set the fact relates vals to (e.g. the descriptor sizes a request length is
	// compared with).  When a helper receives such a value as an argument, the parameter joins the set inside the
	// helper; Use/Instrs read the set of the function under analysis from c13AuxOf(fn).
	Aux func(fn *ssa.Function) map[ssa.Value]bool
}

// c13AuxInherited: per function, the parameters that received an Aux value at the call under analysis.
var c13AuxInherited = map[*ssa.Function]map[ssa.Value]bool{}

// c13AuxOf: the Aux set of fact in fn: its own plus what the call under analysis handed in.
func c13AuxOf(fact c13Fact, fn *ssa.Function) map[ssa.Value]bool {
	out := map[ssa.Value]bool{}
	if fact.Aux != nil {
		for v := range fact.Aux(fn) {
			out[v] = true
		}
	}
	for v := range c13AuxInherited[fn] {
		out[v] = true
	}
	return out
}

var c13SummaryMemo = map[string]bool{}

// c13RespParamCalls lists the plain calls in fn that hand a value of `resp`
// to an in-module function with a body, together with the parameter index.
func c13RespParamCalls(fn *ssa.Function, resp map[ssa.Value]bool) (calls []*ssa.Call, idxs []int) {
	for _, ci := range Calls(fn, func(string) bool { return true }) {
		call, ok := ci.(*ssa.Call)
		if !ok {
			continue
		}
		g := StaticCallee(call)
		if g == nil || !inModule(g) || len(g.Blocks) == 0 || len(g.Params) != len(call.Call.Args) {
			continue
		}
		for i, a := range call.Call.Args {
			if resp[a] {
				calls, idxs = append(calls, call), append(idxs, i)
				break
			}
		}
	}
	return
}

// c13FactCut: the cut for fact in fn — the fact's own edges plus the nil-error
// edges of calls to helpers that establish the fact for the response handed to
// them (every possibly-nil error return of the helper passes the fact; helper
// summaries to the given depth).  direct: error values that carry the verdict.
func c13FactCut(fn *ssa.Function, resp map[ssa.Value]bool, fact c13Fact, depth int) (*cut, map[ssa.Value]bool) {
	return c13FactCutBound(fn, resp, nil, fact, depth)
}

func c13FactCutBound(fn *ssa.Function, resp map[ssa.Value]bool, bind map[ssa.Value]int64, fact c13Fact, depth int) (*cut, map[ssa.Value]bool) {
	var edges []Edge
	var dvals []ssa.Value
	if fact.Use != nil {
		edges, dvals = fact.Use(fn, resp, bind)
	}
	ct := newCut().Edges(edges...)
	if fact.Instrs != nil {
		ct.Instr(fact.Instrs(fn, resp)...)
	}
	direct := map[ssa.Value]bool{}
	for _, d := range dvals {
		for a := range Aliases(d) {
			direct[a] = true
		}
	}
	if depth <= 0 {
		return ct, direct
	}
	calls, idxs := c13RespParamCalls(fn, resp)
	for k, call := range calls {
		h := StaticCallee(call)
		if h == fn {
			continue
		}
		if fact.Aux != nil {
			auxHere := c13AuxOf(fact, fn)
			inh := map[ssa.Value]bool{}
			for i, a := range call.Call.Args {
				if auxHere[a] && i < len(h.Params) {
					for x := range Aliases(h.Params[i]) {
						inh[x] = true
					}
				}
			}
			prev, had := c13AuxInherited[h]
			c13AuxInherited[h] = inh
			defer func(h *ssa.Function, prev map[ssa.Value]bool, had bool) {
				if had {
					c13AuxInherited[h] = prev
				} else {
					delete(c13AuxInherited, h)
				}
			}(h, prev, had)
		}
		if rs := h.Signature.Results(); rs.Len() == 1 && types.Identical(rs.At(0).Type(), types.Typ[types.Bool]) {
			// predicate helper: its true edge counts when every return that may be true passes the fact
			if c13BoolHelperEstablishes(h, idxs[k], bind, fact, depth-1) {
				te, _ := BoolTests(fn, Aliases(call))
				ct.Edges(te...)
			}
			continue
		}
		if h.Signature.Results().Len() == 0 {
			// procedure: the call itself counts when every return of the helper passes the fact
			if c13VoidHelperEstablishes(h, idxs[k], fact, depth-1) {
				ct.Instr(call)
			}
			continue
		}
		if ErrResultIndex(h.Signature) < 0 {
			continue
		}
		// integer parameters of the helper that receive constants at this call (e.g. the expected status)
		hb := map[ssa.Value]int64{}
		for i, a := range call.Call.Args {
			if kk, isC := c13ConstInt(a); isC {
				hb[h.Params[i]] = kk
			} else if kk, isB := bind[a]; isB {
				hb[h.Params[i]] = kk
			}
		}
		if !c13HelperEstablishesBound(h, idxs[k], hb, fact, depth-1) {
			continue
		}
		if e := ErrOf(call); e != nil {
			al := Aliases(e)
			nilE, _, _ := NilTests(fn, al)
			ct.Edges(nilE...)
			for a := range al {
				direct[a] = true
			}
		}
	}
	return ct, direct
}

// c13HelperEstablishes: every possibly-nil error return of h passes the fact
// about h's parameter #idx.
func c13HelperEstablishes(h *ssa.Function, idx int, fact c13Fact, depth int) bool {
	return c13HelperEstablishesBound(h, idx, nil, fact, depth)
}

func c13HelperEstablishesBound(h *ssa.Function, idx int, bind map[ssa.Value]int64, fact c13Fact, depth int) bool {
	bk := ""
	for i, p := range h.Params {
		if v, ok := bind[p]; ok {
			bk += fmt.Sprintf("%d=%d,", i, v)
		}
	}
	for i, p := range h.Params {
		if c13AuxInherited[h][p] {
			bk += fmt.Sprintf("aux%d,", i)
		}
	}
	key := fmt.Sprintf("%p|%d|%s|%d|%s", h, idx, fact.ID, depth, bk)
	if v, ok := c13SummaryMemo[key]; ok {
		return v
	}
	c13SummaryMemo[key] = false // recursion guard
	resp := Aliases(h.Params[idx])
	ct, direct := c13FactCutBound(h, resp, bind, fact, depth)
	if len(ct.edges) == 0 && len(ct.instrs) == 0 && len(direct) == 0 {
		return false
	}
	ok := c13SuccessEscapes(h, h.Blocks[0], 0, ct, direct) == nil
	c13SummaryMemo[key] = ok
	return ok
}

// c13BoolHelperEstablishes: every return of the predicate h that may yield
// true passes the fact about h's parameter #idx.
func c13BoolHelperEstablishes(h *ssa.Function, idx int, bind map[ssa.Value]int64, fact c13Fact, depth int) bool {
	key := fmt.Sprintf("bool|%p|%d|%s|%d", h, idx, fact.ID, depth)
	if v, ok := c13SummaryMemo[key]; ok {
		return v
	}
	c13SummaryMemo[key] = false
	ct, _ := c13FactCutBound(h, Aliases(h.Params[idx]), nil, fact, depth)
	if len(ct.edges) == 0 && len(ct.instrs) == 0 {
		return false
	}
	ok := true
	for _, a := range RetAtoms(h, 0) {
		if cv, isConst := a.Val.(*ssa.Const); isConst && cv.Value != nil && cv.Value.Kind() == constant.Bool && !constant.BoolVal(cv.Value) {
			continue
		}
		// a returned condition (`return err == nil`): when it is true, every If on the same condition took its
		// true edge — paths over the false edges of such Ifs cannot end in this return with a true value
		ct2 := newCut()
		for k := range ct.instrs {
			ct2.instrs[k] = true
		}
		for k := range ct.edges {
			ct2.edges[k] = true
		}
		ct2.Edges(c13EdgesExcludedBy(h, a.Val, true)...)
		if c13AtomReach(h.Blocks[0], 0, a, ct2) {
			ok = false
		}
	}
	c13SummaryMemo[key] = ok
	return ok
}

// c13SameCond: two boolean values denote the same condition (same comparison
// of the same operands); neg = they are negations of each other.
func c13SameCond(a, b ssa.Value) (same, neg bool) {
	for {
		u, ok := a.(*ssa.UnOp)
		if !ok || u.Op != token.NOT {
			break
		}
		a, neg = u.X, !neg
	}
	for {
		u, ok := b.(*ssa.UnOp)
		if !ok || u.Op != token.NOT {
			break
		}
		b, neg = u.X, !neg
	}
	if a == b {
		return true, neg
	}
	x, ok1 := a.(*ssa.BinOp)
	y, ok2 := b.(*ssa.BinOp)
	if !ok1 || !ok2 {
		return false, false
	}
	sameOps := (x.X == y.X && x.Y == y.Y) || ((x.Op == token.EQL || x.Op == token.NEQ) && x.X == y.Y && x.Y == y.X)
	if !sameOps {
		// constants are distinct SSA values: compare them by value
		cx, okx := x.Y.(*ssa.Const)
		cy, oky := y.Y.(*ssa.Const)
		if !(x.X == y.X && okx && oky && ((cx.Value == nil && cy.Value == nil) || (cx.Value != nil && cy.Value != nil && constant.Compare(cx.Value, token.EQL, cy.Value)))) {
			return false, false
		}
	}
	switch {
	case x.Op == y.Op:
		return true, neg
	case (x.Op == token.EQL && y.Op == token.NEQ) || (x.Op == token.NEQ && y.Op == token.EQL):
		return true, !neg
	}
	return false, false
}

// c13EdgesExcludedBy: the If edges of fn that cannot have been taken when
// the boolean value v has the given truth value.
func c13EdgesExcludedBy(fn *ssa.Function, v ssa.Value, truth bool) []Edge {
	var out []Edge
	if _, isConst := v.(*ssa.Const); isConst {
		return nil
	}
	for _, i := range Ifs(fn) {
		cond, t, f := ifEdges(i)
		same, neg := c13SameCond(v, cond)
		if !same {
			continue
		}
		if truth != neg { // cond is true: its false edge is excluded
			out = append(out, f)
		} else {
			out = append(out, t)
		}
	}
	return out
}

// c13VoidHelperEstablishes: every return of the procedure h passes the fact
// about h's parameter #idx.
func c13VoidHelperEstablishes(h *ssa.Function, idx int, fact c13Fact, depth int) bool {
	key := fmt.Sprintf("void|%p|%d|%s|%d", h, idx, fact.ID, depth)
	if v, ok := c13SummaryMemo[key]; ok {
		return v
	}
	c13SummaryMemo[key] = false
	ct, _ := c13FactCutBound(h, Aliases(h.Params[idx]), nil, fact, depth)
	ok := len(ct.edges) > 0 || len(ct.instrs) > 0
	for _, r := range Returns(h) {
		if ok && reach(h.Blocks[0], 0, r, ct) {
			ok = false
		}
	}
	c13SummaryMemo[key] = ok
	return ok
}

// c13MethodsOfSite: constant HTTP methods of the request of an exchange; when
// the exchange goes through an in-module forwarder that builds the request
// itself, the methods of the forwarder's own exchanges.
func c13MethodsOfSite(site ssa.CallInstruction, depth int) ([]string, bool) {
	if req := c13RequestArg(site); req != nil {
		if ms, ok := c13MethodsOfRequest(req); ok {
			return ms, true
		}
		// request handed in as a parameter: look at the callers' arguments
		if p, isParam := req.(*ssa.Parameter); isParam && depth > 0 {
			return c13MethodsOfParam(p, depth-1)
		}
	}
	g := StaticCallee(site)
	if g == nil || !inModule(g) || len(g.Blocks) == 0 || depth <= 0 {
		return nil, false
	}
	seen := map[string]bool{}
	var out []string
	inner := c13SendSites(g)
	if len(inner) == 0 {
		return nil, false
	}
	for _, s := range inner {
		ms, ok := c13MethodsOfSite(s, depth-1)
		if !ok {
			// the helper's request is its own parameter: resolve at this call
			if req := c13RequestArg(s); req != nil {
				if p, isParam := req.(*ssa.Parameter); isParam {
					for i, q := range g.Params {
						if q == p && i < len(site.Common().Args) {
							ms, ok = c13MethodsOfRequest(site.Common().Args[i])
						}
					}
				}
			}
			if !ok {
				return nil, false
			}
		}
		for _, m := range ms {
			if !seen[m] {
				seen[m] = true
				out = append(out, m)
			}
		}
	}
	sort.Strings(out)
	return out, len(out) > 0
}

func c13MethodsOfParam(p *ssa.Parameter, depth int) ([]string, bool) {
	return nil, false
}

// ---------- facts through boolean variables ----------

// c13CondClass classifies an atomic (non-phi, non-negation) boolean value:
// does its being true / false imply the fact?
type c13CondClass func(cond ssa.Value) (trueImplies, falseImplies bool)

// c13FactEdgesOfConds returns the edges of fn on which the fact is known,
// for conditions tested directly and for conditions first stored in boolean
// variables (`ok := a || b; if !ok {…}` — SSA: an If on a phi of booleans):
// an If's edge counts when the truth value it stands for implies the fact
// through every incoming value of the phi (a constant incoming value counts
// when the edge it arrives on already lies behind the fact).
func c13FactEdgesOfConds(fn *ssa.Function, classify c13CondClass) []Edge {
	return c13NewCondFacts(fn, classify).Edges()
}

// c13CondFacts: the fixpoint of fact edges of one function for one classifier.
type c13CondFacts struct {
	fn       *ssa.Function
	classify c13CondClass
	set      map[Edge]bool
}

func (cf *c13CondFacts) list() []Edge {
	var out []Edge
	for e := range cf.set {
		out = append(out, e)
	}
	return out
}

// Behind: the edge is a fact edge or can only be reached over one.
func (cf *c13CondFacts) Behind(e Edge) bool {
	if cf.set[e] {
		return true
	}
	if len(cf.set) == 0 {
		return false
	}
	return !reach(cf.fn.Blocks[0], 0, e.From.Instrs[len(e.From.Instrs)-1], newCut().Edges(cf.list()...))
}

// Implies: boolean value v having the given truth value implies the fact.
func (cf *c13CondFacts) Implies(v ssa.Value, truth bool, depth int) bool {
	if depth > 6 {
		return false
	}
	switch u := v.(type) {
	case *ssa.UnOp:
		if u.Op == token.NOT {
			return cf.Implies(u.X, !truth, depth+1)
		}
	case *ssa.Const:
		if u.Value != nil && u.Value.Kind() == constant.Bool {
			return constant.BoolVal(u.Value) != truth // cannot have that truth value here
		}
	case *ssa.Phi:
		for i, e := range u.Edges {
			if cf.Implies(e, truth, depth+1) {
				continue
			}
			if !cf.Behind(Edge{u.Block().Preds[i], u.Block()}) {
				return false
			}
		}
		return true
	}
	t, f := cf.classify(v)
	if truth {
		return t
	}
	return f
}

func (cf *c13CondFacts) Edges() []Edge {
	out := cf.list()
	sort.Slice(out, func(i, j int) bool {
		if out[i].From.Index != out[j].From.Index {
			return out[i].From.Index < out[j].From.Index
		}
		return out[i].To.Index < out[j].To.Index
	})
	return out
}

func c13NewCondFacts(fn *ssa.Function, classify c13CondClass) *c13CondFacts {
	cf := &c13CondFacts{fn: fn, classify: classify, set: map[Edge]bool{}}
	for round := 0; round < 4; round++ {
		n := len(cf.set)
		for _, i := range Ifs(fn) {
			cond, t, f := ifEdges(i)
			if cf.Implies(cond, true, 0) {
				cf.set[t] = true
			}
			if cf.Implies(cond, false, 0) {
				cf.set[f] = true
			}
		}
		if len(cf.set) == n {
			break
		}
	}
	return cf
}

// c13PredicateClass lifts a classifier over calls of in-module predicate
// helpers: `h(args…)` being true (false) implies the fact when every return of
// h that may yield true (false) does — by its value or by lying behind the
// fact's edges inside h.  mk builds the classifier inside a function from a
// mapping of the caller's value sets to the callee's (parameter aliases).
func c13PredicateClass(base func(fn *ssa.Function, sets []map[ssa.Value]bool) c13CondClass, fn *ssa.Function, sets []map[ssa.Value]bool, depth int) c13CondClass {
	own := base(fn, sets)
	return func(cond ssa.Value) (bool, bool) {
		t, f := own(cond)
		call, ok := cond.(*ssa.Call)
		if !ok || depth <= 0 {
			return t, f
		}
		h := StaticCallee(call)
		if h == nil || !inModule(h) || len(h.Blocks) == 0 || h == fn || len(h.Params) != len(call.Call.Args) {
			return t, f
		}
		if rs := h.Signature.Results(); rs.Len() != 1 || !types.Identical(rs.At(0).Type(), types.Typ[types.Bool]) {
			return t, f
		}
		hs := make([]map[ssa.Value]bool, len(sets))
		for k, set := range sets {
			hs[k] = map[ssa.Value]bool{}
			for i, a := range call.Call.Args {
				if set[a] {
					for x := range Aliases(h.Params[i]) {
						hs[k][x] = true
					}
				}
			}
		}
		cf := c13NewCondFacts(h, c13PredicateClass(base, h, hs, depth-1))
		ht, hf := true, true
		for _, a := range RetAtoms(h, 0) {
			for _, truth := range []bool{true, false} {
				if cf.Implies(a.Val, truth, 0) {
					continue // cannot be / implies by value
				}
				if !c13AtomReach(h.Blocks[0], 0, a, newCut().Edges(cf.list()...)) {
					continue // behind the fact
				}
				if truth {
					ht = false
				} else {
					hf = false
				}
			}
		}
		return t || ht, f || hf
	}
}

// c13CmpNorm: BinOp comparison with the operand in `left` on the left side
// (operator mirrored when it was on the right); ok=false if neither side is.
func c13CmpNorm(v ssa.Value, left map[ssa.Value]bool) (op token.Token, other ssa.Value, ok bool) {
	bo, isBin := v.(*ssa.BinOp)
	if !isBin {
		return 0, nil, false
	}
	switch {
	case left[bo.X]:
		return bo.Op, bo.Y, true
	case left[bo.Y]:
		m := map[token.Token]token.Token{token.LSS: token.GTR, token.GTR: token.LSS, token.LEQ: token.GEQ, token.GEQ: token.LEQ, token.EQL: token.EQL, token.NEQ: token.NEQ}
		if o, known := m[bo.Op]; known {
			return o, bo.X, true
		}
	}
	return 0, nil, false
}

// c13EmptyStringClass: cond says `s == ""` (true-implies) / `s != ""`
// (false-implies) for s in vals, also via len(s) comparisons with 0/1.
func c13EmptyStringClass(vals map[ssa.Value]bool) c13CondClass {
	return func(cond ssa.Value) (bool, bool) {
		bo, ok := cond.(*ssa.BinOp)
		if !ok {
			return false, false
		}
		if ln, isLen := bo.X.(*ssa.Call); isLen && CalleeName(ln) == "builtin:len" && vals[ln.Call.Args[0]] {
			k, isC := c13ConstInt(bo.Y)
			if !isC {
				return false, false
			}
			switch {
			case bo.Op == token.EQL && k == 0, bo.Op == token.LSS && k == 1, bo.Op == token.LEQ && k == 0:
				return true, false
			case bo.Op == token.NEQ && k == 0, bo.Op == token.GTR && k == 0, bo.Op == token.GEQ && k == 1:
				return false, true
			}
			return false, false
		}
		op, other, isCmp := c13CmpNorm(cond, vals)
		if !isCmp {
			return false, false
		}
		if s, isStr := constString(other); isStr && s == "" {
			return op == token.EQL, op == token.NEQ
		}
		return false, false
	}
}

// c13OrClass: the fact holds if any of the classes says so.
func c13OrClass(cs ...c13CondClass) c13CondClass {
	return func(cond ssa.Value) (bool, bool) {
		t, f := false, false
		for _, c := range cs {
			a, b := c(cond)
			t, f = t || a, f || b
		}
		return t, f
	}
}

// c13Leaf: one way a value is established: the resolved value and the phi
// edges that select it (outermost first).
type c13Leaf struct {
	Val   ssa.Value
	Edges []Edge
}

// c13Leaves expands v through phi nodes.
func c13Leaves(v ssa.Value) []c13Leaf {
	var out []c13Leaf
	var rec func(v ssa.Value, edges []Edge, depth int)
	rec = func(v ssa.Value, edges []Edge, depth int) {
		if phi, ok := v.(*ssa.Phi); ok && depth < 8 {
			for i, e := range phi.Edges {
				ne := append(append([]Edge{}, edges...), Edge{phi.Block().Preds[i], phi.Block()})
				rec(e, ne, depth+1)
			}
			return
		}
		out = append(out, c13Leaf{v, edges})
	}
	rec(v, nil, 0)
	return out
}

// c13ChainReach: is there a path from (fromB, fromIdx) through the phi edges
// of the leaf (innermost first) to target that avoids the cut?
func c13ChainReach(fromB *ssa.BasicBlock, fromIdx int, edges []Edge, target ssa.Instruction, c *cut) bool {
	if len(edges) == 0 {
		return reach(fromB, fromIdx, target, c)
	}
	cur := edges[len(edges)-1]
	if !reach(fromB, fromIdx, cur.From.Instrs[len(cur.From.Instrs)-1], c) || c.edges[cur] {
		return false
	}
	for i := len(edges) - 2; i >= -1; i-- {
		tgt := target
		if i >= 0 {
			nb := edges[i].From
			tgt = nb.Instrs[len(nb.Instrs)-1]
		}
		if !reach(cur.To, 0, tgt, c) {
			return false
		}
		if i >= 0 {
			cur = edges[i]
			if c.edges[cur] {
				return false
			}
		}
	}
	return true
}

// ---------- iterator pipelines (range-over-func, iter.Seq producers) ----------

// c13Frame is one activation in a statically resolved chain: a function
// entered by a call (args known) or a closure created by a MakeClosure
// (bindings known) inside the parent activation.
type c13Frame struct {
	Fn     *ssa.Function
	Call   ssa.CallInstruction // nil for closures / the top frame
	MC     *ssa.MakeClosure    // nil for called functions / the top frame
	Parent *c13Frame
}

type c13Origin struct {
	Val   ssa.Value
	Frame *c13Frame
}

// c13OriginOf follows v (a value of fr.Fn) outwards through single-store
// cells, free variables (to the MakeClosure bindings in the parent frame) and
// parameters (to the arguments of the call that created the frame).
func c13OriginOf(v ssa.Value, fr *c13Frame) c13Origin {
	for i := 0; i < 32 && v != nil && fr != nil; i++ {
		v = strip(v)
		switch u := v.(type) {
		case *ssa.UnOp:
			if u.Op != token.MUL {
				return c13Origin{v, fr}
			}
			switch x := u.X.(type) {
			case *ssa.Alloc:
				st := storesTo(x)
				if len(st) != 1 || len(closureWriters(x)) > 0 {
					return c13Origin{v, fr}
				}
				v = st[0].Val
				continue
			case *ssa.FreeVar:
				if fr.MC == nil || fr.Parent == nil {
					return c13Origin{v, fr}
				}
				idx := -1
				for k, fv := range fr.Fn.FreeVars {
					if fv == x {
						idx = k
					}
				}
				if idx < 0 {
					return c13Origin{v, fr}
				}
				b := fr.MC.Bindings[idx]
				fr = fr.Parent
				// the binding is the address of the captured variable: its content
				if al, ok := b.(*ssa.Alloc); ok {
					st := storesTo(al)
					if len(st) != 1 || len(closureWriters(al)) > 0 {
						return c13Origin{b, fr}
					}
					v = st[0].Val
					continue
				}
				if fv, ok := b.(*ssa.FreeVar); ok { // captured variable of an enclosing closure, passed on
					v = &ssa.UnOp{Op: token.MUL, X: fv}
					continue
				}
				return c13Origin{b, fr}
			}
			return c13Origin{v, fr}
		case *ssa.FreeVar: // a captured value used directly (by-value capture)
			if fr.MC == nil || fr.Parent == nil {
				return c13Origin{v, fr}
			}
			idx := -1
			for k, fv := range fr.Fn.FreeVars {
				if fv == u {
					idx = k
				}
			}
			if idx < 0 {
				return c13Origin{v, fr}
			}
			v, fr = fr.MC.Bindings[idx], fr.Parent
			continue
		case *ssa.Parameter:
			if fr.Call == nil || fr.Parent == nil {
				return c13Origin{v, fr}
			}
			idx := -1
			for k, p := range fr.Fn.Params {
				if p == u {
					idx = k
				}
			}
			if idx < 0 || idx >= len(fr.Call.Common().Args) {
				return c13Origin{v, fr}
			}
			v, fr = fr.Call.Common().Args[idx], fr.Parent
			continue
		}
		return c13Origin{v, fr}
	}
	return c13Origin{v, fr}
}

// c13ValuesOriginating: the values of fr.Fn whose origin is `want`.
func c13ValuesOriginating(fr *c13Frame, want c13Origin) map[ssa.Value]bool {
	out := map[ssa.Value]bool{}
	consider := func(v ssa.Value) {
		if o := c13OriginOf(v, fr); o.Val == want.Val && o.Frame != nil && want.Frame != nil && o.Frame.Fn == want.Frame.Fn {
			for a := range Aliases(v) {
				out[a] = true
			}
		}
	}
	for _, p := range fr.Fn.Params {
		consider(p)
	}
	AllInstrs(fr.Fn, func(in ssa.Instruction) {
		if u, ok := in.(*ssa.UnOp); ok && u.Op == token.MUL {
			consider(u)
		}
	})
	return out
}

// c13StreamFact decides a property of every element an iterator pipeline
// delivers.  holds(fr, at, elem) says whether the fact is established for the
// element value `elem` at the yield call `at` inside activation fr (by
// conditions of that function).
type c13StreamFact func(fr *c13Frame, at ssa.Instruction, elem ssa.Value) bool

// c13StreamHasFact: every element yielded by the stream value v (of fr.Fn)
// has the fact.  A stream is resolved to its producer: a closure
// func(yield) created directly or returned by an in-module function; a
// producer either yields elements itself, or ranges over an inner stream
// (go/ssa: a call of the inner stream with a synthesized body closure) and
// passes the elements on — then the inner stream's fact is inherited for
// elements passed on unchanged (first component for Seq2 → Seq projections).
// why names the first emission that lacks the fact.
func c13StreamHasFact(v ssa.Value, fr *c13Frame, holds c13StreamFact, depth int) (ok bool, why string) {
	if depth <= 0 {
		return false, "iterator pipeline too deep"
	}
	o := c13OriginOf(v, fr)
	switch u := o.Val.(type) {
	case *ssa.MakeClosure:
		return c13ProducerHasFact(&c13Frame{Fn: u.Fn.(*ssa.Function), MC: u, Parent: o.Frame}, holds, depth-1)
	case *ssa.Call:
		P := StaticCallee(u)
		if P == nil || !inModule(P) || len(P.Blocks) == 0 {
			return false, "the iterator comes from " + CalleeName(u) + ", which is not followed"
		}
		pf := &c13Frame{Fn: P, Call: u, Parent: o.Frame}
		atoms := RetAtoms(P, 0)
		if len(atoms) == 0 {
			return false, FnName(P) + " returns no iterator"
		}
		for _, a := range atoms {
			if ok, why := c13StreamHasFact(a.Val, pf, holds, depth-1); !ok {
				return false, why
			}
		}
		return true, ""
	}
	return false, "the iterator value " + describe(o.Val) + " cannot be resolved to a producer"
}

func c13ProducerHasFact(yf *c13Frame, holds c13StreamFact, depth int) (bool, string) {
	Y := yf.Fn
	if len(Y.Params) == 0 {
		return false, FnName(Y) + " is not an iterator body"
	}
	yieldO := c13Origin{Y.Params[len(Y.Params)-1], yf}
	isYield := func(fr *c13Frame, callee ssa.Value) bool {
		o := c13OriginOf(callee, fr)
		return o.Val == yieldO.Val && o.Frame == yf
	}
	emissions := 0
	// (i) elements yielded by the producer itself
	for _, ci := range Calls(Y, func(string) bool { return true }) {
		call, isCall := ci.(*ssa.Call)
		if !isCall || call.Call.IsInvoke() || StaticCallee(call) != nil {
			// (ii) a range over an inner stream: inner(body)
			continue
		}
		if isYield(yf, call.Call.Value) {
			emissions++
			if len(call.Call.Args) == 0 || !holds(yf, call, call.Call.Args[0]) {
				return false, "an element yielded by " + FnName(Y) + " is not known to satisfy the condition"
			}
			continue
		}
		// inner(body): dynamic call of a stream with one closure argument
		if len(call.Call.Args) != 1 {
			continue
		}
		mc, isMC := call.Call.Args[0].(*ssa.MakeClosure)
		if !isMC {
			continue
		}
		B := mc.Fn.(*ssa.Function)
		bf := &c13Frame{Fn: B, MC: mc, Parent: yf}
		inherited, checked := false, false
		innerWhy := ""
		for _, bi := range Calls(B, func(string) bool { return true }) {
			bc, ok := bi.(*ssa.Call)
			if !ok || bc.Call.IsInvoke() || StaticCallee(bc) != nil || !isYield(bf, bc.Call.Value) {
				continue
			}
			emissions++
			if len(bc.Call.Args) == 0 {
				return false, "an element passed on by " + FnName(Y) + " cannot be identified"
			}
			if holds(bf, bc, bc.Call.Args[0]) {
				continue
			}
			// passed on unchanged: inherit from the inner stream
			if len(B.Params) == 0 || bc.Call.Args[0] != ssa.Value(B.Params[0]) {
				return false, "an element produced inside " + FnName(Y) + " is not known to satisfy the condition"
			}
			if !checked {
				checked = true
				inherited, innerWhy = c13StreamHasFact(call.Call.Value, yf, holds, depth-1)
			}
			if !inherited {
				return false, "an element passed on by " + FnName(Y) + " is not known to satisfy the condition (neither here nor in the iterator it ranges over: " + innerWhy + ")"
			}
		}
	}
	if emissions == 0 {
		return false, FnName(Y) + " yields nothing that could be followed"
	}
	return true, ""
}

// c13BoolConstNorm: cond compares a boolean with a value whose origin is a
// boolean constant (`x != byDigest` with byDigest bound to false at the call):
// returns the other operand and whether it is negated.
func c13BoolConstNorm(cond ssa.Value, fr *c13Frame) (inner ssa.Value, negate, ok bool) {
	bo, isBin := cond.(*ssa.BinOp)
	if !isBin || (bo.Op != token.EQL && bo.Op != token.NEQ) {
		return nil, false, false
	}
	isBool := func(v ssa.Value) bool {
		b, ok := types.Unalias(v.Type()).Underlying().(*types.Basic)
		return ok && b.Kind() == types.Bool
	}
	if !isBool(bo.X) || !isBool(bo.Y) {
		return nil, false, false
	}
	for _, pair := range [][2]ssa.Value{{bo.X, bo.Y}, {bo.Y, bo.X}} {
		o := c13OriginOf(pair[1], fr)
		if cst, isC := o.Val.(*ssa.Const); isC && cst.Value != nil && cst.Value.Kind() == constant.Bool {
			k := constant.BoolVal(cst.Value)
			// x == true: x ; x == false: !x ; x != true: !x ; x != false: x
			return pair[0], (bo.Op == token.EQL) != k, true
		}
	}
	return nil, false, false
}

// c13FrameClass lifts a base classifier (over value sets of one function) to
// an activation: comparisons with bound boolean constants are normalised, and
// calls of predicates — static in-module helpers, or function values whose
// origin is a closure / function (e.g. a `keep func(T) bool` parameter) — are
// summarised: true (false) implies the fact when every return of the predicate
// that may be true (false) does.  setsOf computes the value sets inside an
// activation given the element parameter.
func c13FrameClass(fr *c13Frame, base func(fn *ssa.Function, sets []map[ssa.Value]bool) c13CondClass, setsOf func(fr *c13Frame, elem map[ssa.Value]bool) []map[ssa.Value]bool, elem map[ssa.Value]bool, depth int) c13CondClass {
	own := base(fr.Fn, setsOf(fr, elem))
	var class c13CondClass
	class = func(cond ssa.Value) (bool, bool) {
		if inner, neg, ok := c13BoolConstNorm(cond, fr); ok {
			t, f := class(inner)
			if neg {
				return f, t
			}
			return t, f
		}
		t, f := own(cond)
		call, isCall := cond.(*ssa.Call)
		if !isCall || depth <= 0 || call.Call.IsInvoke() {
			return t, f
		}
		if rs := call.Call.Signature().Results(); rs.Len() != 1 || !types.Identical(rs.At(0).Type(), types.Typ[types.Bool]) {
			return t, f
		}
		// which predicate, in which activation
		var kf *c13Frame
		if K := StaticCallee(call); K != nil {
			if inModule(K) && len(K.Blocks) > 0 {
				kf = &c13Frame{Fn: K, Call: call, Parent: fr}
			}
		} else {
			o := c13OriginOf(call.Call.Value, fr)
			switch k := o.Val.(type) {
			case *ssa.MakeClosure:
				kf = &c13Frame{Fn: k.Fn.(*ssa.Function), MC: k, Parent: o.Frame}
			case *ssa.Function:
				if len(k.Blocks) > 0 {
					kf = &c13Frame{Fn: k, Parent: fr}
				}
			}
		}
		if kf == nil || kf.Fn == fr.Fn {
			return t, f
		}
		// the element inside the predicate: the parameters that receive a value of elem
		kelem := map[ssa.Value]bool{}
		params := kf.Fn.Params
		args := call.Call.Args
		for i, a := range args {
			if elem[a] && i < len(params) {
				for x := range Aliases(params[i]) {
					kelem[x] = true
				}
			}
		}
		ht, hf := c13PredicateImplies(kf, base, setsOf, kelem, depth-1)
		return t || ht, f || hf
	}
	return class
}

// c13PredicateImplies: for the predicate activation kf (element values kelem):
// does its returning true (ht) / false (hf) imply the fact — every return that
// may have that truth value implies it by value or lies behind the fact's edges.
func c13PredicateImplies(kf *c13Frame, base func(fn *ssa.Function, sets []map[ssa.Value]bool) c13CondClass, setsOf func(fr *c13Frame, elem map[ssa.Value]bool) []map[ssa.Value]bool, kelem map[ssa.Value]bool, depth int) (ht, hf bool) {
	cf := c13NewCondFacts(kf.Fn, c13FrameClass(kf, base, setsOf, kelem, depth))
	ht, hf = true, true
	for _, a := range RetAtoms(kf.Fn, 0) {
		for _, truth := range []bool{true, false} {
			if cf.Implies(a.Val, truth, 0) || !c13AtomReach(kf.Fn.Blocks[0], 0, a, newCut().Edges(cf.list()...)) {
				continue
			}
			if truth {
				ht = false
			} else {
				hf = false
			}
		}
	}
	return ht, hf
}

// ---------- tolerance helpers, pass-through helpers ----------

// c13ToleranceHelper: h(err, …) error returns nil only when its error
// parameter is nil or is one of the sentinels it compares it with (==,
// errors.Is), and otherwise returns the parameter itself.  Returns the index
// of the error parameter and the sentinel names; ok=false if h is not of that form.
func c13ToleranceHelper(h *ssa.Function) (pidx int, sentinels []string, ok bool) {
	if h == nil || !inModule(h) || len(h.Blocks) == 0 || !c13ResultsAre(h, [2]string{"", "error"}) {
		return -1, nil, false
	}
	for i, p := range h.Params {
		if !isErrorType(p.Type()) {
			continue
		}
		al := Aliases(p)
		names := map[string]bool{}
		for _, iff := range Ifs(h) {
			cond, _, _ := ifEdges(iff)
			switch cnd := cond.(type) {
			case *ssa.Call:
				if CalleeName(cnd) == "errors.Is" && len(cnd.Call.Args) == 2 && al[cnd.Call.Args[0]] {
					if n := sentinelName(cnd.Call.Args[1]); n != "" {
						names[n] = true
					}
				}
			case *ssa.BinOp:
				if al[cnd.X] {
					if n := sentinelName(cnd.Y); n != "" {
						names[n] = true
					}
				} else if al[cnd.Y] {
					if n := sentinelName(cnd.X); n != "" {
						names[n] = true
					}
				}
			}
		}
		if len(names) == 0 {
			continue
		}
		var list []string
		for n := range names {
			list = append(list, n)
		}
		sort.Strings(list)
		tol := toleratedEdges(h, al, list)
		nilE, _, _ := NilTests(h, al)
		good := true
		for _, a := range RetAtoms(h, 0) {
			if al[a.Val] || al[strip(a.Val)] {
				continue
			}
			if isNilConst(a.Val) && !c13AtomReach(h.Blocks[0], 0, a, newCut().Edges(tol...).Edges(nilE...)) {
				continue
			}
			good = false
		}
		if good {
			return i, list, true
		}
	}
	return -1, nil, false
}

// c13PassThrough resolves an error value that is the result of a helper /
// local closure returning one of its parameters unchanged on every path
// (`fail := func(err error) (T, error) { cleanup(); return nil, err }`) to the
// argument handed in.
func c13PassThrough(v ssa.Value) ssa.Value {
	for i := 0; i < 4; i++ {
		var call *ssa.Call
		idx := 0
		switch u := v.(type) {
		case *ssa.Extract:
			c, ok := u.Tuple.(*ssa.Call)
			if !ok {
				return v
			}
			call, idx = c, u.Index
		case *ssa.Call:
			call = u
		default:
			return v
		}
		var F *ssa.Function
		if f := StaticCallee(call); f != nil {
			F = f
		} else if !call.Call.IsInvoke() {
			for _, r := range Roots(call.Call.Value) {
				if mc, ok := r.(*ssa.MakeClosure); ok {
					F = mc.Fn.(*ssa.Function)
				}
			}
		}
		if F == nil || len(F.Blocks) == 0 || !inModule(F) || idx >= F.Signature.Results().Len() || len(F.Params) != len(call.Call.Args) {
			return v
		}
		pj := -1
		for _, a := range RetAtoms(F, idx) {
			p, ok := a.Val.(*ssa.Parameter)
			if !ok {
				return v
			}
			j := -1
			for k, q := range F.Params {
				if q == p {
					j = k
				}
			}
			if j < 0 || (pj >= 0 && pj != j) {
				return v
			}
			pj = j
		}
		if pj < 0 {
			return v
		}
		v = call.Call.Args[pj]
	}
	return v
}

// c13ToleratedReturns: the values of fn that are `tolerate(err)` for an error
// of errAl and a tolerance helper whose sentinels are all in `tolerated`:
// returning such a value is "nil exactly for the tolerated sentinels, else the error".
func c13ToleratedReturns(fn *ssa.Function, errAl map[ssa.Value]bool, tolerated []string) map[ssa.Value]bool {
	tol := map[string]bool{}
	for _, t := range tolerated {
		tol[t] = true
	}
	out := map[ssa.Value]bool{}
	for _, ci := range Calls(fn, func(string) bool { return true }) {
		call, isCall := ci.(*ssa.Call)
		if !isCall {
			continue
		}
		pidx, sents, ok := c13ToleranceHelper(StaticCallee(ci))
		if !ok || pidx >= len(call.Call.Args) || !errAl[call.Call.Args[pidx]] {
			continue
		}
		all := true
		for _, s := range sents {
			if !tol[s] {
				all = false
			}
		}
		if all {
			for a := range Aliases(call) {
				out[a] = true
			}
		}
	}
	return out
}
