package main

// E8b — regular-language comparison.
//
// A regular expression literal is obtained from the analysed program (the
// constant argument of regexp.MustCompile in a package-level initialiser, see
// reGlobalSource), parsed with regexp/syntax, compiled to the standard
// Thompson program (syntax.Prog) and determinised lazily over the rune
// alphabet partitioned into classes.  The language of a reLang is the set of
// strings s for which (*regexp.Regexp).MatchString(s) is true, i.e. the
// *unanchored search* semantics of the regexp package: anchors are honoured as
// zero-width assertions, so dropping a `^` or `$` widens the language.
//
// Provided: reEquivalent (with a shortest distinguishing witness),
// reIntersect (non-emptiness of the intersection, with a shortest witness),
// reSubset.  All constructions explore the product automaton breadth-first and
// give up (error -> Undecided at the caller) beyond reMaxStates states.

import (
	"fmt"
	"go/token"
	"regexp/syntax"
	"sort"
	"strings"
	"unicode"
	"unicode/utf8"

	"golang.org/x/tools/go/ssa"
)

const reMaxStates = 200000

type reLang struct {
	Src      string
	prog     *syntax.Prog
	needLine bool // uses (?m)^ / (?m)$
	needWord bool // uses \b / \B
}

// reParse compiles src under the given syntax flags (syntax.Perl for
// regexp.Compile/MustCompile, syntax.POSIX for CompilePOSIX).
func reParse(src string, flags syntax.Flags) (*reLang, error) {
	re, err := syntax.Parse(src, flags)
	if err != nil {
		return nil, err
	}
	prog, err := syntax.Compile(re.Simplify())
	if err != nil {
		return nil, err
	}
	l := &reLang{Src: src, prog: prog}
	for i := range prog.Inst {
		in := &prog.Inst[i]
		if in.Op == syntax.InstEmptyWidth {
			op := syntax.EmptyOp(in.Arg)
			if op&(syntax.EmptyBeginLine|syntax.EmptyEndLine) != 0 {
				l.needLine = true
			}
			if op&(syntax.EmptyWordBoundary|syntax.EmptyNoWordBoundary) != 0 {
				l.needWord = true
			}
		}
	}
	return l, nil
}

func reMust(src string) *reLang {
	l, err := reParse(src, syntax.Perl)
	if err != nil {
		panic("relang: bad reference expression " + src + ": " + err.Error())
	}
	return l
}

// boundaries adds the rune-class boundaries induced by the program to set.
func (l *reLang) boundaries(set map[rune]bool) {
	add := func(lo, hi rune) { // closed interval
		set[lo] = true
		if hi < utf8.MaxRune {
			set[hi+1] = true
		}
	}
	for i := range l.prog.Inst {
		in := &l.prog.Inst[i]
		switch in.Op {
		case syntax.InstRune, syntax.InstRune1:
			if len(in.Rune) == 1 {
				r := in.Rune[0]
				add(r, r)
				if syntax.Flags(in.Arg)&syntax.FoldCase != 0 {
					for f := unicode.SimpleFold(r); f != r; f = unicode.SimpleFold(f) {
						add(f, f)
					}
				}
				continue
			}
			for j := 0; j+1 < len(in.Rune); j += 2 {
				add(in.Rune[j], in.Rune[j+1])
			}
		case syntax.InstRuneAnyNotNL:
			add('\n', '\n')
		}
	}
}

// reAlphabet is a partition of the runes into classes that no instruction of
// the participating programs can tell apart; reps holds one rune per class.
type reAlphabet struct {
	los, reps []rune
	order     []int // exploration order: printable representatives first (nicer witnesses)
}

func reAlphabetOf(ls ...*reLang) *reAlphabet {
	set := map[rune]bool{0: true}
	// context classes used by zero-width assertions
	for _, iv := range [][2]rune{{'\n', '\n'}, {'0', '9'}, {'A', 'Z'}, {'_', '_'}, {'a', 'z'}} {
		set[iv[0]] = true
		set[iv[1]+1] = true
	}
	// strings cannot contain surrogates: make them a class of their own so
	// that no representative is one (0xD800..0xDFFF decode as U+FFFD).
	set[0xD800] = true
	set[0xE000] = true
	for _, l := range ls {
		l.boundaries(set)
	}
	var bs []rune
	for r := range set {
		if r >= 0 && r <= utf8.MaxRune {
			bs = append(bs, r)
		}
	}
	sort.Slice(bs, func(i, j int) bool { return bs[i] < bs[j] })
	a := &reAlphabet{}
	for _, r := range bs {
		if r == 0xD800 {
			continue // surrogate class: not producible by a Go string
		}
		a.los = append(a.los, r)
	}
	// representative: a printable rune of the class when there is one
	for i, lo := range a.los {
		hi := rune(utf8.MaxRune)
		if i+1 < len(a.los) {
			hi = a.los[i+1] - 1
		}
		rep := lo
		if lo < '!' && hi >= '!' {
			rep = '!'
		}
		a.reps = append(a.reps, rep)
	}
	for pass := 0; pass < 2; pass++ {
		for i, r := range a.reps {
			if printable := r > ' ' && r < 0x7f; printable == (pass == 0) {
				a.order = append(a.order, i)
			}
		}
	}
	return a
}

// reDFA is the lazily built deterministic automaton of one language over a
// given alphabet.
type reDFA struct {
	l      *reLang
	a      *reAlphabet
	ids    map[string]int
	states []reState
	trans  [][]int // -1 = not yet computed
	accept []int8  // 0 unknown, 1 yes, 2 no
}

type reState struct {
	pcs     []uint32 // pending (not yet closed) program counters, sorted
	prev    rune     // context: -1 begin of text, '\n', 'a' (word), ' ' (other)
	matched bool     // a match has been found: absorbing, accepting
}

func newReDFA(l *reLang, a *reAlphabet) *reDFA {
	d := &reDFA{l: l, a: a, ids: map[string]int{}}
	d.intern(reState{pcs: []uint32{uint32(l.prog.Start)}, prev: -1})
	return d
}

func (d *reDFA) intern(s reState) int {
	var sb strings.Builder
	if s.matched {
		sb.WriteString("M")
		s = reState{matched: true}
	} else {
		fmt.Fprintf(&sb, "%d|", s.prev)
		for _, pc := range s.pcs {
			fmt.Fprintf(&sb, "%d,", pc)
		}
	}
	k := sb.String()
	if id, ok := d.ids[k]; ok {
		return id
	}
	id := len(d.states)
	d.ids[k] = id
	d.states = append(d.states, s)
	tr := make([]int, len(d.a.reps))
	for i := range tr {
		tr[i] = -1
	}
	d.trans = append(d.trans, tr)
	d.accept = append(d.accept, 0)
	return id
}

func (d *reDFA) prevKind(r rune) rune {
	switch {
	case r < 0:
		return -1
	case d.l.needLine && r == '\n':
		return '\n'
	case d.l.needWord && syntax.IsWordChar(r):
		return 'a'
	}
	return ' '
}

// closure follows the empty transitions enabled under flags from the pending
// set; returns the rune-consuming instructions reached and whether InstMatch
// was reached.
func (d *reDFA) closure(pcs []uint32, flags syntax.EmptyOp) (consuming []uint32, matched bool) {
	seen := map[uint32]bool{}
	var stack []uint32
	push := func(pc uint32) {
		if !seen[pc] {
			seen[pc] = true
			stack = append(stack, pc)
		}
	}
	for _, pc := range pcs {
		push(pc)
	}
	for len(stack) > 0 {
		pc := stack[len(stack)-1]
		stack = stack[:len(stack)-1]
		in := &d.l.prog.Inst[pc]
		switch in.Op {
		case syntax.InstAlt, syntax.InstAltMatch:
			push(in.Out)
			push(in.Arg)
		case syntax.InstCapture, syntax.InstNop:
			push(in.Out)
		case syntax.InstEmptyWidth:
			if syntax.EmptyOp(in.Arg)&^flags == 0 {
				push(in.Out)
			}
		case syntax.InstMatch:
			matched = true
		case syntax.InstFail:
		default:
			consuming = append(consuming, pc)
		}
	}
	return
}

func (d *reDFA) accepting(id int) bool {
	if d.accept[id] != 0 {
		return d.accept[id] == 1
	}
	s := d.states[id]
	ok := s.matched
	if !ok {
		_, ok = d.closure(s.pcs, syntax.EmptyOpContext(s.prev, -1))
	}
	if ok {
		d.accept[id] = 1
	} else {
		d.accept[id] = 2
	}
	return ok
}

func (d *reDFA) step(id, cls int) int {
	if t := d.trans[id][cls]; t >= 0 {
		return t
	}
	s := d.states[id]
	var next int
	if s.matched {
		next = id
	} else {
		r := d.a.reps[cls]
		cons, m := d.closure(s.pcs, syntax.EmptyOpContext(s.prev, r))
		if m {
			next = d.intern(reState{matched: true})
		} else {
			set := map[uint32]bool{uint32(d.l.prog.Start): true} // unanchored search: a match may start at the next position
			for _, pc := range cons {
				in := &d.l.prog.Inst[pc]
				if in.MatchRune(r) {
					set[in.Out] = true
				}
			}
			pcs := make([]uint32, 0, len(set))
			for pc := range set {
				pcs = append(pcs, pc)
			}
			sort.Slice(pcs, func(i, j int) bool { return pcs[i] < pcs[j] })
			next = d.intern(reState{pcs: pcs, prev: d.prevKind(r)})
		}
	}
	d.trans[id][cls] = next
	return next
}

// reMatch runs the automaton on s (used by the engine self-test).
func reMatch(l *reLang, s string) bool {
	a := reAlphabetOf(l)
	d := newReDFA(l, a)
	id := 0
	for _, r := range s {
		id = d.step(id, a.classOf(r))
	}
	return d.accepting(id)
}

func (a *reAlphabet) classOf(r rune) int {
	if r >= 0xD800 && r < 0xE000 {
		r = utf8.RuneError
	}
	i := sort.Search(len(a.los), func(i int) bool { return a.los[i] > r })
	return i - 1
}

// reProduct explores the product of the automata of ls breadth-first and
// returns the shortest string at which want(acceptance vector) holds.
func reProduct(ls []*reLang, want func(acc []bool) bool) (found bool, witness string, err error) {
	a := reAlphabetOf(ls...)
	ds := make([]*reDFA, len(ls))
	for i, l := range ls {
		ds[i] = newReDFA(l, a)
	}
	type node struct {
		ids    []int
		parent int
		cls    int
	}
	key := func(ids []int) string { return fmt.Sprint(ids) }
	start := make([]int, len(ls))
	nodes := []node{{ids: start, parent: -1}}
	seen := map[string]bool{key(start): true}
	acc := make([]bool, len(ls))
	for head := 0; head < len(nodes); head++ {
		n := nodes[head]
		for i, d := range ds {
			acc[i] = d.accepting(n.ids[i])
		}
		if want(acc) {
			var rs []rune
			for j := head; nodes[j].parent >= 0; j = nodes[j].parent {
				rs = append(rs, a.reps[nodes[j].cls])
			}
			for i, j := 0, len(rs)-1; i < j; i, j = i+1, j-1 {
				rs[i], rs[j] = rs[j], rs[i]
			}
			return true, string(rs), nil
		}
		for _, c := range a.order {
			ids := make([]int, len(ls))
			for i, d := range ds {
				ids[i] = d.step(n.ids[i], c)
			}
			k := key(ids)
			if seen[k] {
				continue
			}
			seen[k] = true
			nodes = append(nodes, node{ids: ids, parent: head, cls: c})
			if len(nodes) > reMaxStates {
				return false, "", fmt.Errorf("product automaton exceeds %d states", reMaxStates)
			}
		}
	}
	return false, "", nil
}

// reEquivalent decides L(a) == L(b).  When they differ, witness is a shortest
// string in exactly one of them and inA tells which.
func reEquivalent(a, b *reLang) (equal bool, witness string, inA bool, err error) {
	found, w, err := reProduct([]*reLang{a, b}, func(acc []bool) bool { return acc[0] != acc[1] })
	if err != nil {
		return false, "", false, err
	}
	if !found {
		return true, "", false, nil
	}
	return false, w, reMatch(a, w), nil
}

// reIntersect decides L(a) ∩ L(b) ≠ ∅ and returns a shortest common string.
func reIntersect(a, b *reLang) (nonEmpty bool, witness string, err error) {
	return reProduct([]*reLang{a, b}, func(acc []bool) bool { return acc[0] && acc[1] })
}

// reSubset decides L(a) ⊆ L(b); witness is a shortest string of L(a) \ L(b).
func reSubset(a, b *reLang) (subset bool, witness string, err error) {
	found, w, err := reProduct([]*reLang{a, b}, func(acc []bool) bool { return acc[0] && !acc[1] })
	return !found, w, err
}

// ---------- obtaining the expression from the analysed program ----------

// reSource describes the regular expression a package-level *regexp.Regexp
// variable is initialised with.
type reSource struct {
	Src   string
	Flags syntax.Flags
	Pos   token.Pos
}

// reGlobalSource finds, in the package initialiser, the store that
// initialises global g and evaluates the expression given to
// regexp.MustCompile / Compile (/POSIX).  Constant folding is the type
// checker's; concatenations with (*regexp.Regexp).String() of another such
// global are followed (go-digest's DigestRegexpAnchored).
func reGlobalSource(g *ssa.Global, depth int) (*reSource, error) {
	if g == nil {
		return nil, fmt.Errorf("nil global")
	}
	if depth > 4 {
		return nil, fmt.Errorf("initialiser chain too deep at %s", g.Name())
	}
	init := g.Pkg.Func("init")
	if init == nil {
		return nil, fmt.Errorf("package %s has no init", g.Pkg.Pkg.Path())
	}
	var stores []*ssa.Store
	for _, f := range append([]*ssa.Function{init}, init.AnonFuncs...) {
		AllInstrs(f, func(in ssa.Instruction) {
			if s, ok := in.(*ssa.Store); ok && s.Addr == ssa.Value(g) {
				stores = append(stores, s)
			}
		})
	}
	if len(stores) != 1 {
		return nil, fmt.Errorf("%s: %d initialising stores in init (want 1)", g.Name(), len(stores))
	}
	// the variable must not be assigned anywhere else in its package
	for _, m := range g.Pkg.Members {
		if f, ok := m.(*ssa.Function); ok && f != init {
			bad := false
			for _, ff := range append([]*ssa.Function{f}, Anons(f)...) {
				AllInstrs(ff, func(in ssa.Instruction) {
					if s, ok := in.(*ssa.Store); ok && s.Addr == ssa.Value(g) {
						bad = true
					}
				})
			}
			if bad {
				return nil, fmt.Errorf("%s is reassigned in %s", g.Name(), f.Name())
			}
		}
	}
	return reCallSource(stores[0].Val, depth)
}

// reCallSource evaluates a value that must be the result of a regexp
// compile call.
func reCallSource(v ssa.Value, depth int) (*reSource, error) {
	call, ok := strip(v).(*ssa.Call)
	if !ok {
		if e, ok := strip(v).(*ssa.Extract); ok && e.Index == 0 {
			call, ok = e.Tuple.(*ssa.Call)
			if !ok {
				return nil, fmt.Errorf("regexp value is not a compile call: %s", v)
			}
		} else {
			return nil, fmt.Errorf("regexp value is not a compile call: %s", v)
		}
	}
	var flags syntax.Flags
	switch CalleeName(call) {
	case "regexp.MustCompile", "regexp.Compile":
		flags = syntax.Perl
	case "regexp.MustCompilePOSIX", "regexp.CompilePOSIX":
		flags = syntax.POSIX
	default:
		return nil, fmt.Errorf("regexp value comes from %s, not from a regexp compile function", CalleeName(call))
	}
	src, err := reConstExpr(call.Call.Args[0], depth)
	if err != nil {
		return nil, err
	}
	return &reSource{Src: src, Flags: flags, Pos: call.Pos()}, nil
}

func reConstExpr(v ssa.Value, depth int) (string, error) {
	if s, ok := constString(v); ok {
		return s, nil
	}
	switch u := strip(v).(type) {
	case *ssa.BinOp:
		if u.Op == token.ADD {
			x, err := reConstExpr(u.X, depth)
			if err != nil {
				return "", err
			}
			y, err := reConstExpr(u.Y, depth)
			if err != nil {
				return "", err
			}
			return x + y, nil
		}
	case *ssa.Call:
		if CalleeName(u) == "(*regexp.Regexp).String" {
			if ld, ok := u.Call.Args[0].(*ssa.UnOp); ok && ld.Op == token.MUL {
				if g, ok := ld.X.(*ssa.Global); ok {
					rs, err := reGlobalSource(g, depth+1)
					if err != nil {
						return "", err
					}
					return rs.Src, nil // (*Regexp).String returns the source text
				}
			}
		}
	}
	return "", fmt.Errorf("expression text is not a compile-time constant: %s", v)
}

// reGlobalsUsedBy returns the *regexp.Regexp globals on which fn calls a
// matching method (MatchString/Match/MatchReader/FindString…): role-based
// anchor for unexported pattern variables.
func reGlobalsUsedBy(fn *ssa.Function) []*ssa.Global {
	var out []*ssa.Global
	seen := map[*ssa.Global]bool{}
	for _, call := range Calls(fn, func(n string) bool { return strings.HasPrefix(n, "(*regexp.Regexp).") }) {
		args := call.Common().Args
		if len(args) == 0 {
			continue
		}
		if ld, ok := args[0].(*ssa.UnOp); ok && ld.Op == token.MUL {
			if g, ok := ld.X.(*ssa.Global); ok && !seen[g] {
				seen[g] = true
				out = append(out, g)
			}
		}
	}
	return out
}

// reSourceOfReceiver resolves the pattern a matching method is called on:
// a package-level variable, an accessor function returning one (or compiling
// in place), or a lazily initialised pattern (sync.OnceValue of a function
// literal held in a package-level variable).
func reSourceOfReceiver(v ssa.Value, depth int) (*reSource, error) {
	if depth > 4 {
		return nil, fmt.Errorf("pattern accessor chain too deep")
	}
	v = strip(v)
	fromFunc := func(f *ssa.Function) (*reSource, error) {
		if f == nil || len(f.Blocks) == 0 {
			return nil, fmt.Errorf("pattern comes from a function without body")
		}
		var out *reSource
		for _, r := range Returns(f) {
			if len(r.Results) == 0 {
				return nil, fmt.Errorf("%s returns no pattern", f.Name())
			}
			src, err := reSourceOfReceiver(r.Results[0], depth+1)
			if err != nil {
				return nil, err
			}
			if out != nil && out.Src != src.Src {
				return nil, fmt.Errorf("%s returns different patterns", f.Name())
			}
			out = src
		}
		if out == nil {
			return nil, fmt.Errorf("%s never returns", f.Name())
		}
		return out, nil
	}
	switch u := v.(type) {
	case *ssa.UnOp:
		if g, ok := u.X.(*ssa.Global); ok && u.Op == token.MUL {
			return reGlobalSource(g, depth)
		}
	case *ssa.Extract:
		return reCallSource(u, depth)
	case *ssa.Call:
		switch CalleeName(u) {
		case "regexp.MustCompile", "regexp.Compile", "regexp.MustCompilePOSIX", "regexp.CompilePOSIX":
			return reCallSource(u, depth)
		}
		if f := StaticCallee(u); f != nil {
			return fromFunc(f)
		}
		// call of a package-level function value: sync.OnceValue(func() *regexp.Regexp {…})
		if ld, ok := u.Call.Value.(*ssa.UnOp); ok && ld.Op == token.MUL {
			if g, ok := ld.X.(*ssa.Global); ok {
				init := g.Pkg.Func("init")
				var val ssa.Value
				n := 0
				if init != nil {
					AllInstrs(init, func(in ssa.Instruction) {
						if st, ok := in.(*ssa.Store); ok && st.Addr == ssa.Value(g) {
							val, n = st.Val, n+1
						}
					})
				}
				if once, ok := val.(*ssa.Call); ok && n == 1 && (CalleeName(once) == "sync.OnceValue" || CalleeName(once) == "sync.OnceValues") && len(once.Call.Args) == 1 {
					switch fv := once.Call.Args[0].(type) {
					case *ssa.MakeClosure:
						return fromFunc(fv.Fn.(*ssa.Function))
					case *ssa.Function:
						return fromFunc(fv)
					}
				}
			}
		}
	}
	return nil, fmt.Errorf("cannot resolve the pattern value %s", v)
}

// rePatternsUsedBy returns the distinct patterns fn calls a matching method on.
func rePatternsUsedBy(fn *ssa.Function) ([]*reSource, error) {
	var out []*reSource
	for _, call := range Calls(fn, func(n string) bool { return strings.HasPrefix(n, "(*regexp.Regexp).") }) {
		args := call.Common().Args
		if len(args) == 0 {
			continue
		}
		src, err := reSourceOfReceiver(args[0], 0)
		if err != nil {
			return nil, err
		}
		dup := false
		for _, o := range out {
			if o.Src == src.Src && o.Flags == src.Flags {
				dup = true
			}
		}
		if !dup {
			out = append(out, src)
		}
	}
	return out, nil
}

// reSelfTest checks the engine against regexp/syntax-independent expectations
// (run once per process; a failure makes every language rule Undecided).
func reSelfTest() error {
	type tc struct {
		a, b  string
		equal bool
	}
	for _, t := range []tc{
		{`^[\w][\w.-]{0,127}$`, `\A[A-Za-z0-9_][A-Za-z0-9_.\-]{0,127}\z`, true},
		{`^[\w][\w.-]{0,127}$`, `\A[A-Za-z0-9_][A-Za-z0-9_.\-]{0,128}\z`, false},
		{`^a+$`, `\Aaa*\z`, true},
		{`^a+`, `\Aaa*\z`, false},
		{`^(?:a|b)*$`, `\A[ab]*\z`, true},
		{`(?i)^k$`, `\A[kK\x{212A}]\z`, true},
		{`^a$`, `(?m)^a$`, false},
		{`\bab\b`, `(?:\A|[^\w])ab(?:\z|[^\w])`, true},
	} {
		eq, w, _, err := reEquivalent(reMust(t.a), reMust(t.b))
		if err != nil {
			return err
		}
		if eq != t.equal {
			return fmt.Errorf("self-test: %q vs %q: equal=%v (witness %q)", t.a, t.b, eq, w)
		}
	}
	if !reMatch(reMust(`^a$`), "a") || reMatch(reMust(`^a$`), "a\n") || !reMatch(reMust(`(?m)^a$`), "b\na\nc") {
		return fmt.Errorf("self-test: anchors")
	}
	return nil
}
