package main

// C17 — re-sent requests carry the whole body; retries bounded and paced.
// R1 rewind between sends (auth.Client.Do, rewind helper, retry.Transport.RoundTrip back edge);
// R2 attempt accounting (RoundTrip loop, GenericPolicy.Retry gates);
// R3 pause clamp and cancellation; R4 one-shot manifest bodies are buffered.

import (
	"fmt"
	"go/constant"
	"go/token"
	"go/types"
	"sort"

	"golang.org/x/tools/go/ssa"
)

func init() {
	register(&propDef{
		ID: "C17",
		Explain: "Decided: (R1) in auth.Client.Do every path between two sends passes the success edge of the rewind helper applied to the very request that is sent next, " +
			"the rewind helper returns nil only when there is no body or after installing a fresh GetBody() result (GetBody is called only when non-nil, its error is returned); " +
			"in retry.Transport.RoundTrip every path from one round trip to the next either found req.Body == nil or stored a successfully obtained GetBody() result into req.Body; " +
			"(R2) between two round trips the policy is consulted with a counter that starts at 0 and grows by 1 per back edge, a policy error or a negative duration ends the call with the " +
			"policy's error / the last response, GenericPolicy.Retry yields a non-negative pause only after attempt < MaxRetry, a true predicate and a nil predicate error; " +
			"(R3) every pause GenericPolicy.Retry returns is the Backoff result found within [MinWait, MaxWait] or the bound it violated; RoundTrip waits in a select on a timer of exactly that " +
			"duration and ctx.Done(), the latter returning ctx.Err() with no further round trip; (R4) a manifest PUT through *auth.Client without GetBody buffers the content and sets GetBody and Body " +
			"before sending; a replayable body of the wrong length is rejected before sending. " +
			"NOT decided (not applicable to static analysis): bytes received per attempt, numeric range of ExponentialBackoff, timing.",
		Run:     runC17,
		Mutants: c17Mutants,
	})
}

const (
	c17PkgAuth  = "registry/remote/auth"
	c17PkgRetry = "registry/remote/retry"
)

func runC17(c *Ctx) {
	if c17CoverageHook != nil {
		defer c17CoverageHook(c)
	}
	c17R1Auth(c)
	c17RoundTrip(c)
	c17Policy(c)
	c17R4(c)
}

// c17FieldTests: nil / non-nil edges of tests of loads of field `field` of
// net/http.Request whose base is in `base`.
func c17ReqFieldLoads(fn *ssa.Function, field string, base map[ssa.Value]bool) map[ssa.Value]bool {
	return c13FieldLoads(fn, c13PkgHTTP, "Request", field, func(b ssa.Value) bool { return base == nil || base[b] })
}

// c17GetBodyCalls: dynamic calls of a req.GetBody value.
func c17GetBodyCalls(fn *ssa.Function, base map[ssa.Value]bool) []ssa.CallInstruction {
	loads := c17ReqFieldLoads(fn, "GetBody", base)
	var out []ssa.CallInstruction
	for _, call := range Calls(fn, func(string) bool { return true }) {
		if !call.Common().IsInvoke() && loads[call.Common().Value] {
			out = append(out, call)
		}
	}
	return out
}

func c17SameReq(a, b ssa.Value) bool { return a == b || SameValue(a, b) }

// ---------- facts about a request (usable across helper boundaries) ----------

// c17NoBodyEdges: edges on which req.Body is known nil or http.NoBody (also
// when the test is first stored in a boolean).
func c17NoBodyEdges(fn *ssa.Function, req map[ssa.Value]bool) []Edge {
	body := c17ReqFieldLoads(fn, "Body", req)
	wrap := func(set map[ssa.Value]bool) map[ssa.Value]bool {
		out := map[ssa.Value]bool{}
		for v := range set {
			out[v] = true
		}
		AllInstrs(fn, func(in ssa.Instruction) {
			switch u := in.(type) {
			case *ssa.ChangeInterface:
				if set[u.X] {
					out[u] = true
				}
			case *ssa.MakeInterface:
				if set[u.X] {
					out[u] = true
				}
			}
		})
		return out
	}
	noBody := c13ValuesWithRoot(fn, func(r ssa.Value) bool {
		u, ok := r.(*ssa.UnOp)
		if !ok || u.Op != token.MUL {
			return false
		}
		g, ok := u.X.(*ssa.Global)
		return ok && g.Name() == "NoBody" && g.Pkg.Pkg.Path() == c13PkgHTTP
	})
	bodyW, noBodyW := wrap(body), wrap(noBody)
	return c13FactEdgesOfConds(fn, func(cond ssa.Value) (bool, bool) {
		op, other, ok := c13CmpNorm(cond, bodyW)
		if !ok || (op != token.EQL && op != token.NEQ) {
			return false, false
		}
		if isNilConst(other) || noBodyW[other] {
			return op == token.EQL, op == token.NEQ
		}
		return false, false
	})
}

// c17BodyInstalls: stores of a req.GetBody() result into req.Body.
func c17BodyInstalls(fn *ssa.Function, req map[ssa.Value]bool) []ssa.Instruction {
	var out []ssa.Instruction
	for _, gb := range c17GetBodyCalls(fn, req) {
		fresh := c13AliasSet(ResultOf(gb, 0))
		for _, s := range c13FieldStores(fn, c13PkgHTTP, "Request", "Body", func(b ssa.Value) bool { return req[b] }) {
			if fresh[s.Val] {
				out = append(out, s)
			}
		}
	}
	return out
}

// c17FreshFact: the request has no body, or a fresh GetBody() result was installed as its Body.
var c17FreshFact = c13Fact{ID: "fresh-body",
	Use: func(fn *ssa.Function, req map[ssa.Value]bool, _ map[ssa.Value]int64) ([]Edge, []ssa.Value) {
		return c17NoBodyEdges(fn, req), nil
	},
	Instrs: c17BodyInstalls,
}

// c17GetBodyOKFact: the request has no body, or GetBody() succeeded.
var c17GetBodyOKFact = c13Fact{ID: "getbody-ok", Use: func(fn *ssa.Function, req map[ssa.Value]bool, _ map[ssa.Value]int64) ([]Edge, []ssa.Value) {
	edges := c17NoBodyEdges(fn, req)
	for _, gb := range c17GetBodyCalls(fn, req) {
		if e := ErrOf(gb); e != nil {
			nilE, _, _ := NilTests(fn, Aliases(e))
			edges = append(edges, nilE...)
		}
	}
	return edges, nil
}}

// c17LengthFact: the body is not replayable (GetBody == nil) or req.ContentLength equals a descriptor's Size.
var c17LengthFact c13Fact

func init() {
	c17LengthFact = c13Fact{ID: "req-length",
		Aux: func(fn *ssa.Function) map[ssa.Value]bool {
			return c13FieldLoads(fn, c13PkgOCI, "Descriptor", "Size", nil)
		},
		Use: func(fn *ssa.Function, req map[ssa.Value]bool, _ map[ssa.Value]int64) ([]Edge, []ssa.Value) {
			gbNil, _, _ := NilTests(fn, c17ReqFieldLoads(fn, "GetBody", req))
			// the expected size: a descriptor's Size in this function, or a parameter that received one
			eq, _ := c13EqualEdges(fn, c17ReqFieldLoads(fn, "ContentLength", req), c13AuxOf(c17LengthFact, fn))
			return append(gbNil, eq...), nil
		}}
}

// c17GetBodySetFact / c17BodySetFact: req.GetBody was assigned / req.Body was replaced by a GetBody() result.
var c17GetBodySetFact = c13Fact{ID: "getbody-set", Instrs: func(fn *ssa.Function, req map[ssa.Value]bool) []ssa.Instruction {
	var out []ssa.Instruction
	for _, s := range c13FieldStores(fn, c13PkgHTTP, "Request", "GetBody", func(b ssa.Value) bool { return req[b] }) {
		out = append(out, s)
	}
	return out
}}
var c17BodySetFact = c13Fact{ID: "body-set", Instrs: c17BodyInstalls}

// c17GetBodyGuarded: in fn and the helpers it hands req to (depth), every call
// of req.GetBody lies behind the edge GetBody != nil; n = number of such calls.
func c17GetBodyGuarded(fn *ssa.Function, req map[ssa.Value]bool, depth int) (ok bool, n int) {
	ok = true
	_, gbNonNil, _ := NilTests(fn, c17ReqFieldLoads(fn, "GetBody", req))
	for _, gb := range c17GetBodyCalls(fn, req) {
		n++
		if !MustPass(gb.(ssa.Instruction), newCut().Edges(gbNonNil...)) {
			ok = false
		}
	}
	if depth > 0 {
		calls, idxs := c13RespParamCalls(fn, req)
		for k, call := range calls {
			h := StaticCallee(call)
			if h == fn {
				continue
			}
			o, m := c17GetBodyGuarded(h, Aliases(h.Params[idxs[k]]), depth-1)
			n += m
			if !o {
				ok = false
			}
		}
	}
	return
}

// ---------- R1: auth.Client.Do and the rewind helper ----------

func c17R1Auth(c *Ctx) {
	const (
		RA = "C17.R1.rewind-between-sends"
		RH = "C17.R1.rewind-helper"
	)
	c.Expect(RA, 5)
	c.Expect(RH, 3)
	Do := c.P.Fn(c17PkgAuth, "Client.Do")
	if Do == nil {
		c.LostAnchor(RA, "~/registry/remote/auth.Client.Do")
		return
	}
	rew := c13FuncsWhere(c.P, c17PkgAuth, func(f *ssa.Function) bool {
		ps := f.Signature.Params()
		return f.Parent() == nil && f.Signature.Recv() == nil && ps.Len() == 1 && c13IsPtrTo(ps.At(0).Type(), c13PkgHTTP, "Request") && c13ResultsAre(f, [2]string{"", "error"})
	})
	if len(rew) != 1 {
		c.LostAnchor(RH, fmt.Sprintf("rewind helper func(*http.Request) error in ~/registry/remote/auth (found %d)", len(rew)))
		return
	}
	RW := rew[0]
	dn := FnName(Do)
	sends := c13SendSites(Do)
	sort.Slice(sends, func(i, j int) bool { return sends[i].Pos() < sends[j].Pos() }) // stable numbering: source order
	if len(sends) < 2 {
		c.LostAnchor(RA, dn+": at least two sends")
		return
	}
	rcalls := c13CallsToFn(Do, RW)
	senders := map[*ssa.Function]bool{}
	c17NestedSenders = map[*ssa.Function]bool{}
	pairs := 0
	for i, s1 := range sends {
		for j, s2 := range sends {
			if !Reachable(s1.(ssa.Instruction), s2.(ssa.Instruction)) {
				continue
			}
			pairs++
			req2 := c13RequestArg(s2)
			cutR := newCut()
			for k, s := range sends { // consecutive sends only: paths through a third send belong to other pairs
				if k != i && k != j {
					cutR.Instr(s.(ssa.Instruction))
				}
			}
			for _, r := range rcalls {
				if !c17SameReq(r.Common().Args[0], req2) {
					continue
				}
				if e := ErrOf(r); e != nil {
					nilE, _, _ := NilTests(Do, Aliases(e))
					cutR.Edges(nilE...)
				}
			}
			ok := MustPassBetween(s1.(ssa.Instruction), s2.(ssa.Instruction), cutR)
			if g := StaticCallee(s2); !ok && g != nil && inModule(g) && len(g.Blocks) > 0 {
				// the second send goes through a helper: fine when the helper itself rewinds what it sends, on every path, before sending
				if okH, why := c17RewindingSender(g, RW, 2); okH {
					senders[g] = true
					c.OK(RA, fmt.Sprintf("%s|send#%d→send#%d", dn, i+1, j+1), s2.Pos(), "the second send goes through "+FnName(g)+", which on every path rewinds the request it sends before sending it")
					continue
				} else if len(c13CallsToFn(g, RW)) > 0 {
					c.Violation(RA, fmt.Sprintf("%s|send#%d→send#%d", dn, i+1, j+1), s2.Pos(), "the second send goes through helper "+FnName(g)+", which does not rewind the request it sends on every path: "+why)
					continue
				}
			}
			c.Check(RA, fmt.Sprintf("%s|send#%d→send#%d", dn, i+1, j+1), s2.Pos(), ok,
				ifelse(ok, "every path between the two sends passes the success edge of the rewind helper applied to the request sent second",
					"a request can be sent again without its body having been rewound (the second send would carry an empty or truncated body)"))
		}
	}
	if pairs == 0 {
		c.LostAnchor(RA, dn+": no send is reachable from another send")
	}
	for n, r := range rcalls {
		res := c13ErrFlow(r, ErrFlowOpts{})
		c.Check(RA, fmt.Sprintf("%s|rewind#%d-error-returned", dn, n+1), r.Pos(), res.OK, res.How+res.Detail)
	}
	for h := range c17NestedSenders { // e.g. resend() used by answerBasic/answerBearer: its rewind error and its own error are returned
		if senders[h] {
			continue
		}
		for n, r := range c13CallsToFn(h, RW) {
			res := c13ErrFlow(r, ErrFlowOpts{})
			c.Check(RA, fmt.Sprintf("%s|rewind#%d-error-returned", FnName(h), n+1), r.Pos(), res.OK, res.How+res.Detail)
		}
		for g := range senders {
			for _, hc := range c13CallsToFn(g, h) {
				res := c13ErrFlow(hc, ErrFlowOpts{})
				c.Check(RA, fmt.Sprintf("%s|%s-error-returned", FnName(g), FnName(h)), hc.Pos(), res.OK, res.How+res.Detail)
			}
		}
	}
	for g := range senders {
		for n, r := range c13CallsToFn(g, RW) {
			res := c13ErrFlow(r, ErrFlowOpts{})
			c.Check(RA, fmt.Sprintf("%s|rewind#%d-error-returned", FnName(g), n+1), r.Pos(), res.OK, res.How+res.Detail)
		}
		for _, ci := range Calls(g, func(string) bool { return true }) { // factories of rewound requests used by the sender
			F := StaticCallee(ci)
			if !c17RewoundFactory(F, RW) {
				continue
			}
			res := c13ErrFlow(ci, ErrFlowOpts{})
			c.Check(RA, fmt.Sprintf("%s|%s-error-returned", FnName(g), FnName(F)), ci.Pos(), res.OK, res.How+res.Detail)
			for n, r := range c13CallsToFn(F, RW) {
				res := c13ErrFlow(r, ErrFlowOpts{})
				c.Check(RA, fmt.Sprintf("%s|rewind#%d-error-returned", FnName(F), n+1), r.Pos(), res.OK, res.How+res.Detail)
			}
		}
		for _, hc := range c13CallsToFn(Do, g) { // the helper's failure is Do's failure
			res := c13ErrFlow(hc, ErrFlowOpts{})
			c.Check(RA, fmt.Sprintf("%s|%s-error-returned", dn, FnName(g)), hc.Pos(), res.OK, res.How+res.Detail)
		}
	}

	// the helper
	rn := FnName(RW)
	req := Aliases(RW.Params[0])
	cutFresh, _ := c13FactCut(RW, req, c17FreshFact, 2)
	bad := c13SuccessEscapes(RW, RW.Blocks[0], 0, cutFresh, nil)
	okFresh := bad == nil && len(cutFresh.instrs) > 0
	c.Check(RH, rn+"|nil-only-if-no-body-or-fresh-body", RW.Pos(), okFresh,
		ifelse(okFresh, "every nil return passes Body == nil, Body == http.NoBody, or the store of a fresh GetBody() result into req.Body",
			"the rewind helper can report success without having installed a fresh body"))
	okGuard, nGB := c17GetBodyGuarded(RW, req, 2)
	okGuard = okGuard && nGB > 0
	c.Check(RH, rn+"|GetBody-called-only-if-set", RW.Pos(), okGuard,
		ifelse(okGuard, "GetBody() is called only on the edge GetBody != nil (a one-shot body yields an error, not a nil-call panic)", "req.GetBody may be called while nil (or is never called)"))
	cutGB, _ := c13FactCut(RW, req, c17GetBodyOKFact, 2)
	okInst := c13SuccessEscapes(RW, RW.Blocks[0], 0, cutGB, nil) == nil
	detail := ""
	for _, gb := range c17GetBodyCalls(RW, req) {
		if res := c13ErrFlow(gb, ErrFlowOpts{}); !res.OK {
			okInst, detail = false, res.Detail
		}
	}
	c.Check(RH, rn+"|GetBody-error-returned", RW.Pos(), okInst, ifelse(okInst, "a failing GetBody() makes the helper fail: nil is returned only over GetBody()'s nil-error edge", "the helper can report success although GetBody() failed: "+detail))
}

// c17RewindingSender: every send in g is preceded, on every path from g's
// entry, by the success edge of the rewind helper applied to the very request
// being sent (or goes through another rewinding sender).
// c17NestedSenders collects the rewinding senders found below the ones Do calls (reset by c17R1Auth).
var c17NestedSenders map[*ssa.Function]bool

func c17RewindingSender(g *ssa.Function, RW *ssa.Function, depth int) (bool, string) {
	sends := c13SendSites(g)
	if len(sends) == 0 {
		return false, "it sends nothing"
	}
	rcalls := c13CallsToFn(g, RW)
	for _, s := range sends {
		if h := StaticCallee(s); h != nil && h != g && depth > 0 && inModule(h) && len(h.Blocks) > 0 {
			if ok, _ := c17RewindingSender(h, RW, depth-1); ok {
				if c17NestedSenders != nil {
					c17NestedSenders[h] = true
				}
				continue
			}
		}
		req := c13RequestArg(s)
		ct := newCut()
		for _, r := range rcalls {
			if req == nil || !c17SameReq(r.Common().Args[0], req) {
				continue
			}
			if e := ErrOf(r); e != nil {
				nilE, _, _ := NilTests(g, Aliases(e))
				ct.Edges(nilE...)
			}
		}
		// the request may come from a factory that hands out rewound requests only
		if req != nil {
			for _, rt := range Roots(req) {
				ex, isEx := rt.(*ssa.Extract)
				if !isEx || ex.Index != 0 {
					continue
				}
				fc, isCall := ex.Tuple.(*ssa.Call)
				if !isCall || !c17RewoundFactory(StaticCallee(fc), RW) {
					continue
				}
				if e := ErrOf(fc); e != nil {
					nilE, _, _ := NilTests(g, Aliases(e))
					ct.Edges(nilE...)
				}
			}
		}
		if len(ct.edges) == 0 || !MustPass(s.(ssa.Instruction), ct) {
			return false, "a path reaches its send without a successful rewind of the request sent"
		}
	}
	return true, ""
}

// c17RewoundFactory: F returns (*http.Request, error) and every return with a
// possibly-nil error hands out a request on which the rewind helper succeeded.
func c17RewoundFactory(F *ssa.Function, RW *ssa.Function) bool {
	if F == nil || !inModule(F) || len(F.Blocks) == 0 {
		return false
	}
	rs := F.Signature.Results()
	if rs.Len() != 2 || !c13IsPtrTo(rs.At(0).Type(), c13PkgHTTP, "Request") || !isErrorType(rs.At(1).Type()) {
		return false
	}
	rcalls := c13CallsToFn(F, RW)
	some := false
	for _, r := range Returns(F) {
		if ErrNilStatus(r.Results[1], 0) == NonNil {
			continue
		}
		if nn := func() bool { // returned on the non-nil side of its own test
			_, nonNil, _ := NilTests(F, Aliases(r.Results[1]))
			return len(nonNil) > 0 && MustPass(r, newCut().Edges(nonNil...))
		}(); nn {
			continue
		}
		ct := newCut()
		for _, rc := range rcalls {
			if !c17SameReq(rc.Common().Args[0], r.Results[0]) {
				continue
			}
			if e := ErrOf(rc); e != nil {
				nilE, _, _ := NilTests(F, Aliases(e))
				ct.Edges(nilE...)
			}
		}
		if len(ct.edges) == 0 || !MustPass(r, ct) {
			return false
		}
		some = true
	}
	return some
}

// ---------- RoundTrip ----------

func c17RoundTrip(c *Ctx) {
	const (
		R1 = "C17.R1.retry-rewinds-body"
		R2 = "C17.R2.attempt-accounting"
		R3 = "C17.R3.pause-and-cancellation"
	)
	c.Expect(R1, 3)
	c.Expect(R2, 7)
	c.Expect(R3, 5)
	RT := c.P.Fn(c17PkgRetry, "Transport.RoundTrip")
	if RT == nil {
		c.LostAnchor(R1, "~/registry/remote/retry.Transport.RoundTrip")
		return
	}
	rn := FnName(RT)
	var S ssa.CallInstruction
	var L *Loop
	for _, l := range Loops(RT) {
		for _, s := range c13SendSites(RT) {
			if l.Contains(s.(ssa.Instruction)) {
				if S != nil && S != s {
					c.Undecided(R1, rn+"|one-round-trip-in-loop", s.Pos(), "several round-trip calls inside the retry loop")
					return
				}
				S, L = s, l
			}
		}
	}
	if S == nil {
		c.LostAnchor(R1, rn+": a loop containing the round-trip call")
		return
	}
	Si := S.(ssa.Instruction)
	reqArg := c13RequestArg(S)
	req := Aliases(reqArg)
	resp, respErr := ResultOf(S, 0), ResultOf(S, 1)

	// --- R1: body rewound on every path round-trip → round-trip (in RoundTrip itself or through a helper it hands req to)
	cutFresh, _ := c13FactCut(RT, req, c17FreshFact, 2)
	ok := (len(cutFresh.instrs) > 0 || len(cutFresh.edges) > 0) && MustPassBetween(Si, Si, cutFresh)
	c.Check(R1, rn+"|resend-has-fresh-body", S.Pos(), ok,
		ifelse(ok, "every path from one round trip to the next passes req.Body == nil or the store of a GetBody() result into req.Body",
			"the request can be sent again with the body the previous attempt consumed"))
	cutGB, _ := c13FactCut(RT, req, c17GetBodyOKFact, 2)
	okSucc := MustPassBetween(Si, Si, cutGB)
	for _, gb := range c17GetBodyCalls(RT, req) {
		if e := ErrOf(gb); e != nil {
			_, nonNilE, _ := NilTests(RT, Aliases(e))
			for _, ne := range nonNilE { // after a failed GetBody no further round trip
				if reach(ne.To, 0, Si, nil) {
					okSucc = false
				}
			}
		} else {
			okSucc = false
		}
	}
	okGuard, nGB := c17GetBodyGuarded(RT, req, 2)
	okGuard = okGuard && nGB > 0
	okSucc = okSucc && nGB > 0
	c.Check(R1, rn+"|rewind-failure-stops-retry", S.Pos(), okSucc, ifelse(okSucc, "the next round trip is reached only over GetBody()'s nil-error edge (or with no body); a failed GetBody() leads to no further round trip", "a failed GetBody() does not stop the retry (the request would go out with a nil or stale body)"))
	c.Check(R1, rn+"|GetBody-called-only-if-set", S.Pos(), okGuard, ifelse(okGuard, "GetBody() is called only on the edge GetBody != nil", "req.GetBody may be called while nil (one-shot body): panic instead of returning the last response"))

	// --- R2: policy consulted, counter, gates
	pcs := Calls(RT, func(n string) bool { return n == "(~/registry/remote/retry.Policy).Retry" })
	if len(pcs) != 1 {
		c.LostAnchor(R2, fmt.Sprintf("%s: exactly one Policy.Retry call (found %d)", rn, len(pcs)))
		return
	}
	P := pcs[0]
	Pi := P.(ssa.Instruction)
	ok = L.Contains(Pi) && MustPassBetween(Si, Si, newCut().Instr(Pi))
	c.Check(R2, rn+"|policy-consulted-every-iteration", P.Pos(), ok, ifelse(ok, "between two round trips lies a Policy.Retry call", "a round trip can be repeated without asking the policy"))
	args := P.Common().Args
	okArgs := len(args) == 3 && resp != nil && respErr != nil && args[1] == resp && args[2] == respErr
	c.Check(R2, rn+"|policy-sees-this-attempt", P.Pos(), okArgs, "Policy.Retry receives the response and error of the round trip just made")
	// counter
	okCnt, why := false, "the attempt argument is not a loop-carried counter"
	if len(args) == 3 {
		if phi, isPhi := args[0].(*ssa.Phi); isPhi && phi.Block() == L.Header {
			okCnt, why = true, ""
			for i, pred := range phi.Block().Preds {
				e := phi.Edges[i]
				if L.Blocks[pred] {
					add, isAdd := e.(*ssa.BinOp)
					k := int64(0)
					if isAdd {
						k, _ = c13ConstInt(add.Y)
					}
					if !isAdd || add.Op != token.ADD || add.X != ssa.Value(phi) || k != 1 {
						okCnt, why = false, "the counter does not grow by exactly 1 on a back edge ("+describe(e)+")"
					}
				} else if k, isC := c13ConstInt(e); !isC || k != 0 {
					okCnt, why = false, "the counter does not start at 0"
				}
			}
		}
	}
	c.Check(R2, rn+"|attempt-counter", P.Pos(), okCnt, ifelse(okCnt, "attempt starts at 0 and is incremented by 1 on every back edge", why+": the MaxRetry bound would not limit the number of attempts"))
	// gates
	dur := ResultOf(P, 0)
	perr := ErrOf(P)
	if dur == nil || perr == nil {
		c.Violation(R2, rn+"|policy-result-used", P.Pos(), "the duration or the error of Policy.Retry is discarded")
		return
	}
	durAl := Aliases(dur)
	dt := c13TestsOf(RT, durAl)
	ok = MustPassBetween(Pi, Si, newCut().Edges(dt.ge0...))
	c.Check(R2, rn+"|negative-duration-ends", P.Pos(), ok, ifelse(ok, "the next round trip is reached only over the edge duration >= 0", "a negative duration (= do not retry) does not end the call"))
	nilE, nonNilE, _ := NilTests(RT, Aliases(perr))
	ok = len(nilE) > 0 && MustPassBetween(Pi, Si, newCut().Edges(nilE...))
	for _, ne := range nonNilE {
		if reach(ne.To, 0, Si, nil) {
			ok = false
		}
	}
	r := c13ErrFlow(P, ErrFlowOpts{})
	c.Check(R2, rn+"|policy-error-ends", P.Pos(), ok && r.OK, ifelse(ok && r.OK, "a policy error is returned and no further round trip follows", "a policy error does not end the call: "+r.Detail))
	// on a negative duration the last response and error are handed back unchanged
	okLast := len(dt.lt0) > 0
	for _, e := range dt.lt0 {
		for _, ret := range Returns(RT) {
			if !reach(e.To, 0, ret, newCut().Instr(Si)) {
				continue
			}
			if len(ret.Results) != 2 || ret.Results[0] != resp || ret.Results[1] != respErr {
				okLast = false
			}
		}
	}
	c.Check(R2, rn+"|no-retry-returns-last-response", P.Pos(), okLast, ifelse(okLast, "on duration < 0 the response and error of the last round trip are returned as they are", "a non-retryable answer is not returned as it is"))
	// loop exits: none other than returns (for {} has no exit edge)
	okExit := true
	for _, x := range L.Exits {
		if reach(x.To, 0, Si, nil) {
			okExit = false
		}
	}
	c.Check(R2, rn+"|single-retry-loop", blockPos(L.Header), okExit, "no round trip is reachable after leaving the retry loop")

	// --- R3: the pause
	isReqCtx := func(v ssa.Value) bool {
		for _, cr := range Roots(v) {
			if cc, ok := cr.(*ssa.Call); ok && CalleeName(cc) == "(*net/http.Request).Context" && req[cc.Call.Args[0]] {
				return true
			}
		}
		return false
	}
	var sel *ssa.Select
	AllInstrs(RT, func(in ssa.Instruction) {
		if s, ok := in.(*ssa.Select); ok && L.Contains(s) {
			sel = s
		}
	})
	if sel == nil {
		// the pause may live in a helper pause(ctx, d) error called between the policy decision and the next round trip
		for _, k := range Calls(RT, func(string) bool { return true }) {
			h := StaticCallee(k)
			if _, isCall := k.(*ssa.Call); !isCall || h == nil || !inModule(h) || len(h.Blocks) == 0 || !L.Contains(k.(ssa.Instruction)) {
				continue
			}
			if c17PauseViaHelper(c, R3, rn, RT, k, h, Pi, Si, isReqCtx, durAl) {
				return
			}
		}
		c.Violation(R3, rn+"|pause-is-select", P.Pos(), "no select (here or in a pause helper returning the context's error) between policy decision and next round trip: the pause cannot be cancelled")
		return
	}
	ok = sel.Blocking && MustPassBetween(Pi, Si, newCut().Instr(sel))
	c.Check(R3, rn+"|pause-before-resend", sel.Pos(), ok, ifelse(ok, "every path from the policy decision to the next round trip executes the blocking select", "a retry can be sent without pausing"))
	doneIdx, timerIdx, timerCall := c17SelectShape(sel, isReqCtx)
	okSel := doneIdx >= 0 && timerIdx >= 0 && len(sel.States) == 2
	c.Check(R3, rn+"|select-on-timer-and-ctx", sel.Pos(), okSel, ifelse(okSel, "the pause is a select over a timer and the request context's Done()", "the pause is not a select over exactly a timer and req.Context().Done()"))
	if timerCall != nil {
		okDur := durAl[timerCall.Call.Args[0]]
		c.Check(R3, rn+"|timer-is-policy-duration", timerCall.Pos(), okDur, ifelse(okDur, "the timer runs for exactly the duration the policy returned", "the pause is not the duration computed (and clamped) by the policy"))
	}
	if doneIdx >= 0 {
		if e, found := selectCaseEdge(sel, doneIdx); found {
			bad := reach(e.To, 0, Si, nil)
			if a := findNilReturnFrom(RT, e, 1, newCut(), map[ssa.Value]bool{}); a != nil && !isCtxErr(a.Val) {
				bad = true
			}
			c.Check(R3, rn+"|cancel-ends-call", sel.Pos(), !bad, ifelse(!bad, "the ctx.Done() case returns ctx.Err() and reaches no further round trip", "cancellation during the pause can lead to another round trip or to a nil error"))
		} else {
			c.Undecided(R3, rn+"|cancel-ends-call", sel.Pos(), "cannot resolve the select's case dispatch")
		}
		if e, found := selectCaseEdge(sel, timerIdx); found && timerIdx >= 0 {
			// only the timer case continues the loop
			okOnly := !reach(sel.Block(), instrIndex(sel)+1, Si, newCut().Edges(e))
			c.Check(R3, rn+"|only-timer-continues", sel.Pos(), okOnly, "only the timer case leads to the next round trip")
		}
	}
}

// c17SelectShape: which state of the select receives from ctx.Done() (ctx
// accepted by isCtx) and which from a timer (time.NewTimer(d).C / time.After(d)).
func c17SelectShape(sel *ssa.Select, isCtx func(ssa.Value) bool) (doneIdx, timerIdx int, timerCall *ssa.Call) {
	doneIdx, timerIdx = -1, -1
	for i, st := range sel.States {
		if st.Dir != types.RecvOnly {
			continue
		}
		for _, rt := range Roots(st.Chan) {
			switch u := rt.(type) {
			case *ssa.Call:
				if CalleeName(u) == "(context.Context).Done" && isCtx(u.Call.Value) {
					doneIdx = i
				}
				if CalleeName(u) == "time.After" {
					timerIdx, timerCall = i, u
				}
			case *ssa.UnOp:
				if fa, ok := u.X.(*ssa.FieldAddr); ok && c13IsNamed(fa.X.Type(), "time", "Timer") {
					for _, tr := range Roots(fa.X) {
						if tc, ok := tr.(*ssa.Call); ok && CalleeName(tc) == "time.NewTimer" {
							timerIdx, timerCall = i, tc
						}
					}
				}
			}
		}
	}
	return
}

// c17PauseViaHelper: k = h(ctx, d) is the cancellable pause: h blocks in a
// select over a timer of its duration parameter and its context parameter's
// Done(), returns the context's error in the latter case and nil after the
// timer; the caller passes the request context and the policy's duration,
// returns h's error and goes on only over its nil edge.  Reports the five R3
// obligations and returns true when h has that role (a select on its params).
func c17PauseViaHelper(c *Ctx, R3, rn string, RT *ssa.Function, k ssa.CallInstruction, h *ssa.Function, Pi, Si ssa.Instruction, isReqCtx func(ssa.Value) bool, durAl map[ssa.Value]bool) bool {
	var ctxP, durP *ssa.Parameter
	for _, p := range h.Params {
		if c13IsNamed(p.Type(), "context", "Context") {
			ctxP = p
		}
		if c13IsNamed(p.Type(), "time", "Duration") {
			durP = p
		}
	}
	var sel *ssa.Select
	AllInstrs(h, func(in ssa.Instruction) {
		if s, ok := in.(*ssa.Select); ok {
			sel = s
		}
	})
	if ctxP == nil || durP == nil || sel == nil {
		return false
	}
	ctxAl, durPAl := Aliases(ctxP), Aliases(durP)
	doneIdx, timerIdx, timerCall := c17SelectShape(sel, func(v ssa.Value) bool { return ctxAl[v] })
	ki := k.(ssa.Instruction)
	var ctxArg, durArg ssa.Value
	for i, p := range h.Params {
		if p == ctxP {
			ctxArg = k.Common().Args[i]
		}
		if p == durP {
			durArg = k.Common().Args[i]
		}
	}
	hn := FnName(h)
	okPause := sel.Blocking && MustPassBetween(Pi, Si, newCut().Instr(ki))
	for _, r := range Returns(h) { // every return of the helper lies behind the select
		if !MustPass(r, newCut().Instr(sel)) {
			okPause = false
		}
	}
	c.Check(R3, rn+"|pause-before-resend", k.Pos(), okPause, ifelse(okPause, "every path from the policy decision to the next round trip calls "+hn+", which always blocks in its select", "a retry can be sent without pausing"))
	okSel := doneIdx >= 0 && timerIdx >= 0 && len(sel.States) == 2 && ctxArg != nil && isReqCtx(ctxArg)
	c.Check(R3, rn+"|select-on-timer-and-ctx", sel.Pos(), okSel, ifelse(okSel, "the pause helper selects over a timer and the Done() of the request context it is given", "the pause is not a select over exactly a timer and req.Context().Done()"))
	okDur := timerCall != nil && durPAl[timerCall.Call.Args[0]] && durArg != nil && durAl[durArg]
	c.Check(R3, rn+"|timer-is-policy-duration", k.Pos(), okDur, ifelse(okDur, "the helper's timer runs for its duration parameter, which is the duration the policy returned", "the pause is not the duration computed (and clamped) by the policy"))
	// cancellation: the helper's Done case returns the context's error; the caller returns it and sends nothing more
	errIdx := ErrResultIndex(h.Signature)
	if rs := h.Signature.Results(); errIdx < 0 && rs.Len() == 1 && types.Identical(rs.At(0).Type(), types.Typ[types.Bool]) {
		// predicate form: sleep(ctx, d) bool — false when the context ended; the caller returns ctx.Err() on false
		okCancel := doneIdx >= 0
		okOnly := timerIdx >= 0
		doneE, f1 := selectCaseEdge(sel, doneIdx)
		timerE, f2 := selectCaseEdge(sel, timerIdx)
		if !f1 || !f2 {
			okCancel, okOnly = false, false
		} else {
			for _, a := range RetAtoms(h, 0) {
				cv, isConst := a.Val.(*ssa.Const)
				mayTrue := !isConst || cv.Value == nil || cv.Value.Kind() != constant.Bool || constant.BoolVal(cv.Value)
				if mayTrue && c13AtomReach(sel.Block(), instrIndex(sel)+1, a, newCut().Edges(timerE)) {
					okOnly = false // true without the timer having fired
				}
				if mayTrue && c13AtomReach(doneE.To, 0, a, nil) {
					okCancel = false // true although the context ended
				}
			}
		}
		te, fe := BoolTests(RT, Aliases(k.Value()))
		if len(te) == 0 || !MustPassBetween(ki, Si, newCut().Edges(te...)) {
			okCancel = false
		}
		for _, e := range fe {
			if reach(e.To, 0, Si, nil) {
				okCancel = false
			}
			if a := findNilReturnFrom(RT, e, 1, newCut(), map[ssa.Value]bool{}); a != nil && !isCtxErr(a.Val) {
				okCancel = false
			}
		}
		c.Check(R3, rn+"|cancel-ends-call", k.Pos(), okCancel, ifelse(okCancel, "on ctx.Done() the helper reports false; the caller then returns the context's error without a further round trip", "cancellation during the pause is not reported: the helper does not report it or the caller sends another request / returns nil"))
		c.Check(R3, rn+"|only-timer-continues", sel.Pos(), okOnly, "the helper reports true only through the timer case")
		return true
	}
	okCancel := errIdx >= 0 && doneIdx >= 0
	if okCancel {
		if e, found := selectCaseEdge(sel, doneIdx); found {
			if a := findNilReturnFrom(h, e, errIdx, newCut(), map[ssa.Value]bool{}); a != nil && !isCtxErr(a.Val) {
				okCancel = false
			}
		} else {
			okCancel = false
		}
		kerr := ErrOf(k)
		if kerr == nil {
			okCancel = false
		} else {
			nilE, nonNilE, _ := NilTests(RT, Aliases(kerr))
			if len(nilE) == 0 || !MustPassBetween(ki, Si, newCut().Edges(nilE...)) {
				okCancel = false
			}
			for _, ne := range nonNilE {
				if reach(ne.To, 0, Si, nil) {
					okCancel = false
				}
			}
			if r := c13ErrFlow(k, ErrFlowOpts{}); !r.OK {
				okCancel = false
			}
		}
	}
	c.Check(R3, rn+"|cancel-ends-call", k.Pos(), okCancel, ifelse(okCancel, "on ctx.Done() the helper returns the context's error, which the caller returns without a further round trip", "cancellation during the pause is not reported: the helper does not return the context's error or the caller sends another request"))
	okOnly := timerIdx >= 0
	if e, found := selectCaseEdge(sel, timerIdx); found && okOnly && errIdx >= 0 {
		// a nil result only via the timer case
		ctxErrs := map[ssa.Value]bool{}
		AllInstrs(h, func(in ssa.Instruction) {
			if v, ok := in.(ssa.Value); ok && isCtxErr(v) {
				ctxErrs[v] = true
			}
		})
		if bad := c13SuccessEscapes(h, sel.Block(), instrIndex(sel)+1, newCut().Edges(e), ctxErrs); bad != nil {
			okOnly = false
		}
	} else {
		okOnly = false
	}
	c.Check(R3, rn+"|only-timer-continues", sel.Pos(), okOnly, "the helper returns nil only through the timer case")
	return true
}

// ---------- GenericPolicy.Retry ----------

func c17Policy(c *Ctx) {
	const (
		R2 = "C17.R2.policy-gates"
		R3 = "C17.R3.pause-clamped"
	)
	c.Expect(R2, 4)
	c.Expect(R3, 3)
	F := c.P.Fn(c17PkgRetry, "GenericPolicy.Retry")
	if F == nil {
		c.LostAnchor(R2, "~/registry/remote/retry.GenericPolicy.Retry")
		return
	}
	fn := FnName(F)
	recv := Aliases(F.Params[0])
	fld := func(name string) map[ssa.Value]bool {
		return c13FieldLoads(F, c17PkgRetry, "GenericPolicy", name, func(b ssa.Value) bool { return recv[b] })
	}
	for _, name := range []string{"MaxRetry", "Retryable", "Backoff", "MinWait", "MaxWait"} {
		if n := c.P.Named(c17PkgRetry, "GenericPolicy"); n == nil || !c17HasField(n, name) {
			c.LostAnchor(R2, "~/registry/remote/retry.GenericPolicy."+name)
			return
		}
	}
	var attempt *ssa.Parameter
	for _, p := range F.Params[1:] {
		if b, ok := p.Type().Underlying().(*types.Basic); ok && b.Kind() == types.Int {
			attempt = p
		}
	}
	if attempt == nil {
		c.LostAnchor(R2, fn+": attempt parameter")
		return
	}
	attAl := Aliases(attempt)
	maxRetry := fld("MaxRetry")
	var below []Edge // edges with attempt < MaxRetry
	otherShape := false
	for _, i := range Ifs(F) {
		cond, t, f := ifEdges(i)
		bo, ok := cond.(*ssa.BinOp)
		if !ok {
			continue
		}
		x, y, op := bo.X, bo.Y, bo.Op
		if attAl[y] && maxRetry[x] {
			x, y = y, x
			op = map[token.Token]token.Token{token.LSS: token.GTR, token.GTR: token.LSS, token.LEQ: token.GEQ, token.GEQ: token.LEQ, token.EQL: token.EQL, token.NEQ: token.NEQ}[op]
		}
		if !attAl[x] || !maxRetry[y] {
			continue
		}
		switch op {
		case token.GEQ:
			below = append(below, f)
		case token.LSS:
			below = append(below, t)
		default:
			otherShape = true
		}
	}
	// positive (retry) atoms of result 0
	isNoRetry := func(v ssa.Value) bool {
		k, ok := c13ConstInt(v)
		return ok && k < 0
	}
	type atom = RetAtom
	var retry []atom
	for _, a := range RetAtoms(F, 0) {
		if !isNoRetry(a.Val) {
			retry = append(retry, a)
		}
	}
	if len(retry) == 0 {
		c.LostAnchor(R2, fn+": a return with a non-negative pause")
		return
	}
	passes := func(cut *cut) bool {
		for _, a := range retry {
			if c13AtomReach(F.Blocks[0], 0, a, cut) {
				return false
			}
		}
		return true
	}
	ok := len(below) > 0 && passes(newCut().Edges(below...))
	switch {
	case ok:
		c.OK(R2, fn+"|attempt-below-MaxRetry", F.Pos(), "a pause is returned only over the edge attempt < MaxRetry")
	case otherShape:
		c.Undecided(R2, fn+"|attempt-below-MaxRetry", F.Pos(), "attempt is compared with MaxRetry in a shape other than </>= (== is equivalent only for a counter that cannot skip the bound); not interpreted")
	default:
		c.Violation(R2, fn+"|attempt-below-MaxRetry", F.Pos(), "a retry pause can be returned although attempt >= MaxRetry: the number of attempts is unbounded")
	}
	// predicate
	var pred ssa.CallInstruction
	for _, call := range Calls(F, func(n string) bool { return n == "field:~/registry/remote/retry.GenericPolicy.Retryable" }) {
		pred = call
	}
	if pred == nil {
		c.Violation(R2, fn+"|predicate-consulted", F.Pos(), "GenericPolicy.Retryable is never called")
	} else {
		okv := ResultOf(pred, 0)
		perr := ErrOf(pred)
		okP := okv != nil && perr != nil
		if okP {
			te, _ := BoolTests(F, Aliases(okv))
			nilE, _, _ := NilTests(F, Aliases(perr))
			okP = len(te) > 0 && len(nilE) > 0 && passes(newCut().Edges(te...)) && passes(newCut().Edges(nilE...))
		}
		c.Check(R2, fn+"|predicate-gates-retry", pred.Pos(), okP, ifelse(okP, "a pause is returned only over the predicate's true edge and nil-error edge", "a retry pause can be returned although the predicate said no or failed: non-retryable answers would be retried"))
		r := c13ErrFlow(pred, ErrFlowOpts{})
		c.Check(R2, fn+"|predicate-error-returned", pred.Pos(), r.OK, r.How+r.Detail)
		// predicate sees the response and error given
		pa := pred.Common().Args
		okArgs := len(pa) == 2 && pa[0] == ssa.Value(F.Params[2]) && pa[1] == ssa.Value(F.Params[3])
		c.Check(R2, fn+"|predicate-sees-this-answer", pred.Pos(), okArgs, "the predicate receives the response and error given to Retry")
	}
	// clamp
	var back ssa.CallInstruction
	for _, call := range Calls(F, func(n string) bool { return n == "field:~/registry/remote/retry.GenericPolicy.Backoff" }) {
		back = call
	}
	if back == nil {
		c.Violation(R3, fn+"|backoff-consulted", F.Pos(), "GenericPolicy.Backoff is never called")
		return
	}
	R := back.Value()
	minW, maxW := fld("MinWait"), fld("MaxWait")
	hasR := func(v ssa.Value) bool {
		if v == R {
			return true
		}
		for _, r := range Roots(v) {
			if r == R {
				return true
			}
		}
		return false
	}
	var geMin, ltMin, leMax, gtMax []Edge
	for _, i := range Ifs(F) {
		cond, t, f := ifEdges(i)
		bo, ok := cond.(*ssa.BinOp)
		if !ok {
			continue
		}
		x, y, op := bo.X, bo.Y, bo.Op
		if hasR(y) && (minW[x] || maxW[x]) {
			x, y = y, x
			op = map[token.Token]token.Token{token.LSS: token.GTR, token.GTR: token.LSS, token.LEQ: token.GEQ, token.GEQ: token.LEQ, token.EQL: token.EQL, token.NEQ: token.NEQ}[op]
		}
		if !hasR(x) {
			continue
		}
		switch {
		case minW[y] && (op == token.LSS || op == token.LEQ):
			ltMin, geMin = append(ltMin, t), append(geMin, f)
		case minW[y] && (op == token.GEQ || op == token.GTR):
			geMin, ltMin = append(geMin, t), append(ltMin, f)
		case maxW[y] && (op == token.GTR || op == token.GEQ):
			gtMax, leMax = append(gtMax, t), append(leMax, f)
		case maxW[y] && (op == token.LEQ || op == token.LSS):
			leMax, gtMax = append(leMax, t), append(gtMax, f)
		}
	}
	okLow, okUp, okForm := true, true, true
	detail := ""
	entry := F.Blocks[0]
	for _, a := range retry {
		v := a.Val
		// builtin min/max forms
		lower, upper := false, false
		for {
			call, isCall := v.(*ssa.Call)
			if !isCall {
				break
			}
			n := CalleeName(call)
			if n != "builtin:min" && n != "builtin:max" || len(call.Call.Args) != 2 {
				break
			}
			x, y := call.Call.Args[0], call.Call.Args[1]
			if n == "builtin:max" && (minW[x] || minW[y]) {
				lower = true
			} else if n == "builtin:min" && (maxW[x] || maxW[y]) {
				upper = true
			} else {
				break
			}
			if minW[x] || maxW[x] {
				v = y
			} else {
				v = x
			}
		}
		switch {
		case v == R:
			if !lower && c13AtomReach(entry, 0, a, newCut().Edges(geMin...)) {
				okLow, detail = false, "the Backoff result can be returned without having been found >= MinWait"
			}
			if !upper && c13AtomReach(entry, 0, a, newCut().Edges(leMax...)) {
				okUp, detail = false, "the Backoff result can be returned without having been found <= MaxWait"
			}
		case minW[v]:
			if c13AtomReach(entry, 0, a, newCut().Edges(ltMin...)) {
				okLow, detail = false, "MinWait is returned on a path where the pause was not found below it"
			}
		case maxW[v]:
			if c13AtomReach(entry, 0, a, newCut().Edges(gtMax...)) {
				okUp, detail = false, "MaxWait is returned on a path where the pause was not found above it"
			}
		default:
			okForm, detail = false, "the returned pause "+describe(v)+" is neither the Backoff result nor one of its bounds"
		}
	}
	if !okForm {
		c.Undecided(R3, fn+"|pause-form", F.Pos(), detail+"; the clamp cannot be decided")
		return
	}
	c.OK(R3, fn+"|pause-form", F.Pos(), "every pause returned is the Backoff result, MinWait or MaxWait")
	c.Check(R3, fn+"|lower-clamp", back.Pos(), okLow, ifelse(okLow, "the pause is never below MinWait", detail))
	c.Check(R3, fn+"|upper-clamp", back.Pos(), okUp, ifelse(okUp, "the pause is never above MaxWait", detail))
}

func c17HasField(n *types.Named, name string) bool {
	st, ok := n.Underlying().(*types.Struct)
	if !ok {
		return false
	}
	for i := 0; i < st.NumFields(); i++ {
		if st.Field(i).Name() == name {
			return true
		}
	}
	return false
}

// ---------- R4: one-shot manifest bodies ----------

func c17R4(c *Ctx) {
	const R4 = "C17.R4.one-shot-body"
	c.Expect(R4, 5)
	n := 0
	for _, f := range c.P.FuncsOfPkg(c13PkgRemote) {
		if c13IsForwarder(f) {
			continue
		}
		for _, site := range c13SendSites(f) {
			reqArg := c13RequestArg(site)
			if reqArg == nil {
				continue
			}
			ms, ok := c13MethodsOfRequest(reqArg)
			if !ok || len(ms) != 1 || ms[0] != "PUT" {
				continue
			}
			n++
			fn := FnName(f)
			req := Aliases(reqArg)
			// (a) a replayable body of the wrong length is rejected before sending (here or in a helper given the request)
			_, gbNonNil, _ := NilTests(f, c17ReqFieldLoads(f, "GetBody", req))
			cutLen, _ := c13FactCut(f, req, c17LengthFact, 2)
			okLen := len(cutLen.edges) > 0 && MustPass(site.(ssa.Instruction), cutLen)
			c.Check(R4, fn+"|replayable-length-checked", site.Pos(), okLen,
				ifelse(okLen, "the PUT is reached only with GetBody == nil or ContentLength == expected.Size", "a replayable body whose length differs from the descriptor is sent (and re-sent) instead of being rejected"))
			// (b) auth client + one-shot body ⇒ buffered
			var okEdgesFalse []Edge
			hasAssert := false
			AllInstrs(f, func(in ssa.Instruction) {
				ta, isTA := in.(*ssa.TypeAssert)
				if !isTA || !ta.CommaOk || !c13IsPtrTo(ta.AssertedType, c17PkgAuth, "Client") {
					return
				}
				hasAssert = true
				for _, r := range *ta.Referrers() {
					if ex, isEx := r.(*ssa.Extract); isEx && ex.Index == 1 {
						_, fe := BoolTests(f, Aliases(ex))
						okEdgesFalse = append(okEdgesFalse, fe...)
					}
				}
			})
			if !hasAssert {
				continue // blob upload: the caller's reader is sent as is
			}
			withFact := func(fact c13Fact) (bool, *cut) {
				ct, _ := c13FactCut(f, req, fact, 2)
				has := len(ct.instrs) > 0 || len(ct.edges) > 0
				ct.Edges(okEdgesFalse...).Edges(gbNonNil...)
				return has && MustPass(site.(ssa.Instruction), ct), ct
			}
			okGB, _ := withFact(c17GetBodySetFact)
			okB, _ := withFact(c17BodySetFact)
			c.Check(R4, fn+"|one-shot-gets-GetBody", site.Pos(), okGB, ifelse(okGB, "through *auth.Client a request without GetBody is sent only after req.GetBody has been set", "a one-shot manifest body can be sent through the auth client without GetBody: the re-send after the 401 challenge fails or is empty"))
			c.Check(R4, fn+"|one-shot-body-replaced", site.Pos(), okB, ifelse(okB, "req.Body is replaced by the first GetBody() result before sending", "the buffered content is not installed as the request body"))
			// the buffering push's error is returned (from the function, or from the helper and then from the function)
			isBufPush := func(n string) bool { return n == "(*~/internal/cas.Memory).Push" }
			for _, p := range Calls(f, isBufPush) {
				r := c13ErrFlow(p, ErrFlowOpts{})
				c.Check(R4, fn+"|buffering-error-returned", p.Pos(), r.OK, r.How+r.Detail)
			}
			hcalls, _ := c13RespParamCalls(f, req)
			for _, hc := range hcalls {
				h := StaticCallee(hc)
				for _, p := range Calls(h, isBufPush) {
					r := c13ErrFlow(p, ErrFlowOpts{})
					r2 := c13ErrFlow(hc, ErrFlowOpts{})
					c.Check(R4, fn+"|buffering-error-returned", p.Pos(), r.OK && r2.OK, r.How+r.Detail+r2.Detail)
				}
			}
		}
	}
	if n == 0 {
		c.LostAnchor(R4, "PUT exchanges in ~/registry/remote")
	}
}

var c17Mutants = []Mutant{
	{Name: "retry-closes-response-on-transport-error", File: "registry/remote/retry/client.go",
		Old:    "\t\t\tif respErr == nil {\n\t\t\t\tresp.Body.Close()\n\t\t\t}\n\t\t\treturn nil, err",
		New:    "\t\t\tif respErr != nil {\n\t\t\t\tresp.Body.Close()\n\t\t\t}\n\t\t\treturn nil, err",
		Expect: "C17.R2.attempt-accounting"},
	{Name: "retry-after-ignored-when-positive", File: "registry/remote/retry/policy.go",
		Old: "retryAfter > 0 {", New: "!(retryAfter > 0) {", Expect: "C17.R3.retry-after-honoured"},
	{Name: "retry-after-read-only-when-empty", File: "registry/remote/retry/policy.go",
		Old: "v != \"\" {", New: "!(v != \"\") {", Expect: "C17.R3.retry-after-honoured"},
	{Name: "upload-put-credential-not-reused", File: "registry/remote/repository.go",
		Old: "\t\treq.Header.Set(\"Authorization\", auth)\n", New: "\t\t_ = auth\n", Expect: "C17.R4.one-shot-body"},
	{Name: "auth-final-send-no-rewind", File: "registry/remote/auth/client.go",
		Old:    "\tif err := rewindRequestBody(req); err != nil {\n\t\treturn nil, err\n\t}\n\n\treturn c.send(req)",
		New:    "\treturn c.send(req)",
		Expect: "C17.R1.rewind-between-sends"},
	{Name: "auth-rewind-error-ignored", File: "registry/remote/auth/client.go",
		Old:    "\t\t\t\tif err := rewindRequestBody(req); err != nil {\n\t\t\t\t\treturn nil, err\n\t\t\t\t}\n",
		New:    "\t\t\t\trewindRequestBody(req)\n",
		Expect: "C17.R1.rewind-between-sends"},
	{Name: "auth-rewind-wrong-request", File: "registry/remote/auth/client.go",
		Old:    "\tif err := rewindRequestBody(req); err != nil {\n\t\treturn nil, err\n\t}\n\n\treturn c.send(req)",
		New:    "\tif err := rewindRequestBody(originalReq); err != nil {\n\t\treturn nil, err\n\t}\n\n\treturn c.send(req)",
		Expect: "C17.R1.rewind-between-sends"},
	{Name: "rewind-one-shot-is-success", File: "registry/remote/auth/client.go",
		Old:    "\tif req.GetBody == nil {\n\t\treturn fmt.Errorf(\"%s %q: request body is not rewindable\", req.Method, req.URL)\n\t}",
		New:    "\tif req.GetBody == nil {\n\t\treturn nil\n\t}",
		Expect: "C17.R1.rewind-helper"},
	{Name: "retry-one-shot-resent", File: "registry/remote/retry/client.go",
		Old:    "\t\t\tif req.GetBody == nil {\n\t\t\t\t// body can't be rewound, so we can't retry\n\t\t\t\treturn resp, respErr\n\t\t\t}\n\t\t\tbody, err := req.GetBody()\n\t\t\tif err != nil {\n\t\t\t\t// failed to rewind the body, so we can't retry\n\t\t\t\treturn resp, respErr\n\t\t\t}\n\t\t\treq.Body = body",
		New:    "\t\t\tif req.GetBody != nil {\n\t\t\t\tbody, err := req.GetBody()\n\t\t\t\tif err != nil {\n\t\t\t\t\t// failed to rewind the body, so we can't retry\n\t\t\t\t\treturn resp, respErr\n\t\t\t\t}\n\t\t\t\treq.Body = body\n\t\t\t}",
		Expect: "C17.R1.retry-rewinds-body"},
	{Name: "retry-getbody-error-ignored", File: "registry/remote/retry/client.go",
		Old:    "\t\t\tbody, err := req.GetBody()\n\t\t\tif err != nil {\n\t\t\t\t// failed to rewind the body, so we can't retry\n\t\t\t\treturn resp, respErr\n\t\t\t}\n\t\t\treq.Body = body",
		New:    "\t\t\tbody, _ := req.GetBody()\n\t\t\treq.Body = body",
		Expect: "C17.R1.retry-rewinds-body"},
	{Name: "retry-attempt-not-incremented", File: "registry/remote/retry/client.go",
		Old: "\t\tcase <-timer.C:\n\t\t}\n\t\tattempt++\n", New: "\t\tcase <-timer.C:\n\t\t}\n", Expect: "C17.R2.attempt-accounting"},
	{Name: "retry-negative-duration-only-on-error", File: "registry/remote/retry/client.go",
		Old: "\t\tif duration < 0 {\n\t\t\treturn resp, respErr\n\t\t}", New: "\t\tif duration < 0 && respErr != nil {\n\t\t\treturn resp, respErr\n\t\t}", Expect: "C17.R2.attempt-accounting"},
	{Name: "policy-maxretry-off", File: "registry/remote/retry/policy.go",
		Old: "\tif attempt >= p.MaxRetry {\n\t\treturn -1, nil\n\t}", New: "\tif attempt >= p.MaxRetry && resp != nil {\n\t\treturn -1, nil\n\t}", Expect: "C17.R2.policy-gates"},
	{Name: "policy-predicate-ignored-on-response", File: "registry/remote/retry/policy.go",
		Old: "\t} else if !ok {\n\t\treturn -1, nil\n\t}", New: "\t} else if !ok && resp == nil {\n\t\treturn -1, nil\n\t}", Expect: "C17.R2.policy-gates"},
	{Name: "policy-no-upper-clamp", File: "registry/remote/retry/policy.go",
		Old: "\tif backoff > p.MaxWait {\n\t\tbackoff = p.MaxWait\n\t}\n", New: "", Expect: "C17.R3.pause-clamped"},
	{Name: "policy-lower-clamp-skipped-for-429", File: "registry/remote/retry/policy.go",
		Old: "\tif backoff < p.MinWait {", New: "\tif backoff < p.MinWait && (resp == nil || resp.StatusCode != http.StatusTooManyRequests) {", Expect: "C17.R3.pause-clamped"},
	{Name: "retry-pause-not-cancellable", File: "registry/remote/retry/client.go",
		Old:    "\t\tselect {\n\t\tcase <-ctx.Done():\n\t\t\ttimer.Stop()\n\t\t\treturn nil, ctx.Err()\n\t\tcase <-timer.C:\n\t\t}",
		New:    "\t\t_ = ctx\n\t\t<-timer.C",
		Expect: "C17.R3.pause-and-cancellation"},
	{Name: "retry-cancel-continues", File: "registry/remote/retry/client.go",
		Old: "\t\tcase <-ctx.Done():\n\t\t\ttimer.Stop()\n\t\t\treturn nil, ctx.Err()\n", New: "\t\tcase <-ctx.Done():\n\t\t\ttimer.Stop()\n", Expect: "C17.R3.pause-and-cancellation"},
	{Name: "manifest-push-no-buffering", File: "registry/remote/repository.go",
		Old:    "\tif _, ok := client.(*auth.Client); ok && req.GetBody == nil {\n\t\tstore := cas.NewMemory()",
		New:    "\tif _, ok := client.(*auth.Client); ok && req.GetBody == nil && expected.Size > 1024 {\n\t\tstore := cas.NewMemory()",
		Expect: "C17.R4"},
	{Name: "blob-put-length-unchecked", File: "registry/remote/repository.go",
		Old:    "\tif req.GetBody != nil && req.ContentLength != expected.Size {\n\t\t// short circuit a size mismatch for built-in types.\n\t\treturn fmt.Errorf(\"mismatch content length %d: expect %d\", req.ContentLength, expected.Size)\n\t}\n\treq.ContentLength = expected.Size\n\t// the expected media type is ignored as in the API doc.",
		New:    "\treq.ContentLength = expected.Size\n\t// the expected media type is ignored as in the API doc.",
		Expect: "C17.R4"},
}
