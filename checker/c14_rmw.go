package main

// C14.R3 — the read-modify-write of a referrers index is serialised per tag.
// The updater, its prepare/update callbacks (function literals, method values
// or plain functions) and their helpers are analysed as one view; values are
// identified by what they denote (captured variables and struct fields that
// merely carry values are looked through), effects by the calls that perform
// them, wherever they sit.

import (
	"fmt"
	"go/constant"
	"go/token"
	"go/types"
	"sort"
	"strings"

	"golang.org/x/tools/go/ssa"
)

const (
	c14NPush = "(*~/registry/remote.manifestStore).push"
	c14NDel  = "(*~/registry/remote.Repository).delete"
)

// c14RemoteExpand: unexported helpers of registry/remote are looked into; the
// confirmed effects and readers are kept as calls.
func c14RemoteExpand(g *ssa.Function) bool {
	if fnPkgPath(g) != pkgPath(c14PkgRemote) {
		return false
	}
	if c14IsIndexReader(g) || c14HTTPKind(g) != "" {
		return false
	}
	if g.Parent() != nil {
		return true
	}
	return g.Object() == nil || !g.Object().Exported()
}

// c14HTTPKind: g itself builds an HTTP request (http.NewRequestWithContext /
// http.NewRequest with a constant method): returns that method ("PUT",
// "DELETE", …), "mixed" for several, "" if g is not such a primitive.
func c14HTTPKind(g *ssa.Function) string {
	if g == nil {
		return ""
	}
	kind := ""
	for _, call := range CallsTo(g, "net/http.NewRequestWithContext", "net/http.NewRequest") {
		args := call.Common().Args
		i := 0
		if CalleeName(call) == "net/http.NewRequestWithContext" {
			i = 1
		}
		m, ok := constString(args[i])
		if !ok {
			m = "mixed"
		}
		if kind != "" && kind != m {
			return "mixed"
		}
		kind = m
	}
	return kind
}

// c14IsIndexReader: g reads an index by reference: it returns a list of
// descriptors (and an error) and gets its content through the exported
// FetchReference; it builds no request of its own.
func c14IsIndexReader(g *ssa.Function) bool {
	if g == nil || len(g.Blocks) == 0 || fnPkgPath(g) != pkgPath(c14PkgRemote) || c14HTTPKind(g) != "" {
		return false
	}
	res := g.Signature.Results()
	hasList := false
	for i := 0; i < res.Len(); i++ {
		if sl, ok := res.At(i).Type().Underlying().(*types.Slice); ok && strings.HasSuffix(sl.Elem().String(), "specs-go/v1.Descriptor") {
			hasList = true
		}
	}
	if !hasList || ErrResultIndex(g.Signature) < 0 {
		return false
	}
	return len(CallsTo(g, "(*~/registry/remote.Repository).FetchReference")) > 0
}

func c14IsPush(call ssa.CallInstruction) bool { return c14HTTPKind(StaticCallee(call)) == "PUT" }
func c14IsDel(call ssa.CallInstruction) bool  { return c14HTTPKind(StaticCallee(call)) == "DELETE" }

type c14Upd struct {
	U               *ssa.Function
	V               *c14View
	DoCall, GetCall ssa.CallInstruction
	TagCall         *ssa.Call
	TagFn           *ssa.Function
	TagVal          ssa.Value
	Prep, Upd       *ssa.Function
	PFns, UpFns     map[*ssa.Function]bool
}

func (u *c14Upd) only(v ssa.Value, want ssa.Value) bool {
	if want == nil {
		return false
	}
	ls := u.V.LeavesShallow(v)
	ok := len(ls) > 0
	for _, l := range ls {
		if l != want {
			ok = false
		}
	}
	if ok {
		return true
	}
	// through the results of helpers (which may return nil/zero next to an error)
	n := 0
	for _, l := range u.V.Leaves(v) {
		if c14IsZero(l) {
			continue
		}
		n++
		if l != want {
			return false
		}
	}
	return n > 0
}

// isTag: v denotes the referrers tag computed by the updater.
func (u *c14Upd) isTag(v ssa.Value) bool { return u.only(strip(v), u.TagVal) }

// c14ErrFlowUp decides the error discipline of call and follows the error
// through the helpers that return it up to a root of the view.
func c14ErrFlowUp(V *c14View, call ssa.CallInstruction, o ErrFlowOpts, depth int) ErrFlowResult {
	r := ErrFlow(call, o)
	if !r.OK || depth > 3 {
		return r
	}
	f := call.Parent()
	if V.isRoot(f) {
		return r
	}
	for _, cx := range V.byFn[f] {
		site, ok := cx.site.(*ssa.Call)
		if !ok || cx.virtual {
			continue
		}
		if ErrResultIndex(f.Signature) < 0 {
			continue
		}
		if up := c14ErrFlowUp(V, site, o, depth+1); !up.OK {
			return up
		}
	}
	return r
}

func (v *c14View) entryOf(fn *ssa.Function) []c14Pt {
	var out []c14Pt
	for _, cx := range v.byFn[fn] {
		if cx.parent == nil {
			out = append(out, c14Pt{ctx: cx, b: fn.Blocks[0]})
		}
	}
	return out
}

// MustPassFrom: every path from the entry of root fn to `to` hits the cut.
func (v *c14View) MustPassFrom(fn *ssa.Function, to ssa.Instruction, cu *cut) bool {
	r, _ := v.walk(v.entryOf(fn), c14Is(to), cu, false)
	return !r
}

// ExitFrom: an exit reachable from the entry of root fn avoiding the cut.
func (v *c14View) ExitFrom(fn *ssa.Function, cu *cut) bool {
	r, _ := v.walk(v.entryOf(fn), nil, cu, true)
	return r
}

// c14NilReturnReach: from the start points a Return of root whose error result
// may be nil is reachable without hitting the cut.  Returns that provably
// carry a non-nil error (constructed, or returned under their own != nil test)
// do not count.
func c14NilReturnReach(V *c14View, starts []c14Pt, root *ssa.Function, cu *cut) bool {
	r, _ := V.walk(starts, func(in ssa.Instruction) bool {
		ret, ok := in.(*ssa.Return)
		return ok && ret.Parent() == root && V.retErrStatusAt(ret, V.cur) != NonNil
	}, cu, false)
	return r
}

// c14ThroughSpill resolves v through parameters of inlined helpers and through
// the local copies a struct-typed parameter is spilled into (`t = local T; *t = p`).
func c14ThroughSpill(V *c14View, v ssa.Value) ssa.Value {
	for i := 0; i < 8; i++ {
		ls := V.LeavesShallow(v)
		if len(ls) != 1 {
			return nil
		}
		u, ok := ls[0].(*ssa.UnOp)
		if !ok || u.Op != token.MUL {
			return ls[0]
		}
		a, ok := u.X.(*ssa.Alloc)
		if !ok {
			return ls[0]
		}
		sts := c14CellStores(a)
		if len(sts) != 1 {
			return ls[0]
		}
		v = sts[0].Val
	}
	return nil
}

func c14FnSet(v *c14View) map[*ssa.Function]bool {
	out := map[*ssa.Function]bool{}
	for _, f := range v.Funcs() {
		out[f] = true
	}
	return out
}

func c14R3(c *Ctx) {
	const R = "C14.R3.serialised-rmw"
	c.Expect(R, 18)
	doGen := c.P.Fn(c14PkgSync, "Merge.Do")
	getGen := c.P.Fn(c14PkgSync, "Pool.Get")
	if doGen == nil || getGen == nil {
		c.LostAnchor(R, "~/internal/syncutil.Merge.Do / Pool.Get")
		return
	}
	if _, pool := c14RepoFields(c); pool == "" || !c14HasField(c.P, c14PkgRemote, "Repository", "SkipReferrersGC") {
		c.LostAnchor(R, "~/registry/remote.Repository.{referrersMergePool,SkipReferrersGC}")
		return
	}
	nReaders := 0
	for _, f := range c.P.FuncsOfPkg(c14PkgRemote) {
		if c14IsIndexReader(f) {
			nReaders++
		}
	}
	if nReaders == 0 {
		c.LostAnchor(R, "the referrers index reader of registry/remote (returns a descriptor list, reads through FetchReference)")
		return
	}
	// every user of Merge.Do in the module
	var us []*c14Upd
	var fns []*ssa.Function
	for f := range c.P.All {
		if inModule(f) && len(f.Blocks) > 0 && fnPkgPath(f) != pkgPath(c14PkgSync) {
			fns = append(fns, f)
		}
	}
	sort.Slice(fns, func(i, j int) bool { return fns[i].String() < fns[j].String() })
	for _, f := range fns {
		for _, call := range Calls(f, func(string) bool { return true }) {
			if c14OriginIs(StaticCallee(call), doGen) {
				us = append(us, &c14Upd{U: f, DoCall: call})
			}
		}
	}
	if len(us) == 0 {
		c.LostAnchor(R, "a caller of syncutil.Merge.Do in the module (the referrers index updater)")
		return
	}
	for _, u := range us {
		if fnPkgPath(u.U) != pkgPath(c14PkgRemote) {
			c.Violation(R, FnName(u.U)+"|merge-user", u.DoCall.Pos(), "unclassified user of syncutil.Merge.Do outside registry/remote")
			continue
		}
		c14R3Updater(c, u, getGen)
	}
	c14R3Callers(c, us)
	c14R3TagInventory(c, us)
}

func c14R3Updater(c *Ctx, u *c14Upd, getGen *ssa.Function) {
	const R = "C14.R3.serialised-rmw"
	// the updater proper: the outermost unexported function around the Merge.Do call
	U := u.U
	for U.Parent() != nil {
		U = U.Parent()
	}
	u.U = U
	un := FnName(U)
	V := c14NewView(U, 4, c14RemoteExpand)
	u.V = V
	args := u.DoCall.Common().Args
	if len(args) != 4 {
		c.LostAnchor(R, un+": Merge.Do(recv, item, prepare, resolve)")
		return
	}
	// the Merge object comes from the repository-wide pool, keyed by the tag
	ok := false
	if ls := V.LeavesShallow(args[0]); len(ls) == 1 {
		if ex, isEx := ls[0].(*ssa.Extract); isEx && ex.Index == 0 {
			if call, isCall := ex.Tuple.(*ssa.Call); isCall && c14OriginIs(StaticCallee(call), getGen) {
				u.GetCall = call
				ok = true
			}
		}
	}
	if !c.Check(R, un+"|merge-from-pool", u.DoCall.Pos(), ok,
		ifelse(ok, "the Merge object is the one returned by Pool.Get", "the Merge object does not come from the per-tag pool: concurrent updaters of one index do not share it (unserialised read-modify-write: lost update)")) {
		return
	}
	gargs := u.GetCall.Common().Args
	okPool := false
	for _, l := range V.LeavesShallow(gargs[0]) {
		fa, isFA := l.(*ssa.FieldAddr)
		_, poolField := c14RepoFields(c)
		okPool = isFA && fieldName(fa.X.Type(), fa.Field) == "~/registry/remote.Repository."+poolField
		if !okPool {
			break
		}
	}
	c.Check(R, un+"|pool-is-repository-wide", u.GetCall.Pos(), okPool,
		ifelse(okPool, "the pool is the Repository.referrersMergePool field", "the pool is not the repository-wide Repository.referrersMergePool: updaters on the same Repository do not meet in one Merge"))
	// key = tag = tagFn(subject)
	if kr := V.LeavesShallow(strip(gargs[1])); len(kr) == 1 {
		if ex, isEx := kr[0].(*ssa.Extract); isEx && ex.Index == 0 {
			if call, isCall := ex.Tuple.(*ssa.Call); isCall && StaticCallee(call) != nil && inModule(StaticCallee(call)) {
				u.TagCall, u.TagFn, u.TagVal = call, StaticCallee(call), ex
			}
		}
	}
	if u.TagCall == nil {
		c.Undecided(R, un+"|pool-key-is-referrers-tag", u.GetCall.Pos(), "cannot resolve the pool key to the result of a tag-building function")
		return
	}
	okSubj := false
	if len(u.TagCall.Call.Args) == 1 {
		a := u.TagCall.Call.Args[0]
		if c14ParamOf(a, U) != nil {
			okSubj = true
		} else if ls := V.LeavesShallow(a); len(ls) == 1 {
			if p, isP := ls[0].(*ssa.Parameter); isP && p.Parent() == U {
				okSubj = true
			} else if c14ParamOf(ls[0], U) != nil {
				okSubj = true
			}
		}
	}
	c.Check(R, un+"|pool-key-is-referrers-tag", u.GetCall.Pos(), okSubj,
		ifelse(okSubj, "the pool key is "+FnName(u.TagFn)+"(subject parameter)", "the pool key is not the referrers tag of the subject being updated: updaters of one index are not serialised with each other"))
	// the entry is not released before Do returns
	okRel := true
	if done := ResultOf(u.GetCall, 1); done != nil {
		for a := range V.Aliases(done) {
			if a.Referrers() == nil {
				continue
			}
			for _, r := range *a.Referrers() {
				if call, isCall := r.(*ssa.Call); isCall && call.Call.Value == a && (V.Reachable(call, u.DoCall.(ssa.Instruction)) || call == u.DoCall) {
					okRel = false
				}
			}
		}
	}
	c.Check(R, un+"|no-release-before-do", u.DoCall.Pos(), okRel,
		ifelse(okRel, "the pool entry is not released on any path before Merge.Do", "the pool entry can be released before Merge.Do runs: the pool forgets the Merge while it is in use and the next updater gets a fresh one (two concurrent read-modify-write cycles)"))
	// the callbacks
	target := func(arg ssa.Value) (*ssa.Function, ssa.Value) {
		ls := V.LeavesShallow(arg)
		if len(ls) != 1 {
			return nil, nil
		}
		fn, recv, _ := c14FuncTarget(ls[0])
		return fn, recv
	}
	P, precv := target(args[2])
	Up, urecv := target(args[3])
	if P == nil || Up == nil || len(P.Blocks) == 0 || len(Up.Blocks) == 0 {
		c.Undecided(R, un+"|prepare-update-callbacks", u.DoCall.Pos(), "cannot resolve the prepare/update arguments of Merge.Do to functions of the module")
		return
	}
	u.Prep, u.Upd = P, Up
	V.AddRoot(P, 4, c14RemoteExpand)
	V.AddRoot(Up, 4, c14RemoteExpand)
	if precv != nil && len(P.Params) > 0 {
		V.bind[P.Params[0]] = append(V.bind[P.Params[0]], precv)
	}
	if urecv != nil && len(Up.Params) > 0 {
		V.bind[Up.Params[0]] = append(V.bind[Up.Params[0]], urecv)
	}
	u.PFns = c14FnSet(c14NewView(P, 4, c14RemoteExpand))
	u.UpFns = c14FnSet(c14NewView(Up, 4, c14RemoteExpand))
	pn, upn := FnName(P), FnName(Up)
	callsIn := func(fs map[*ssa.Function]bool, pred func(call ssa.CallInstruction) bool) []ssa.CallInstruction {
		var out []ssa.CallInstruction
		for _, f := range V.Funcs() {
			if !fs[f] {
				continue
			}
			for _, call := range Calls(f, func(n string) bool { return n != "fmt.Errorf" && !strings.HasPrefix(n, "builtin:") }) {
				if _, isCall := call.(*ssa.Call); isCall && !V.Inlined(call) && pred(call) {
					out = append(out, call)
				}
			}
		}
		return out
	}
	hasTagArg := func(call ssa.CallInstruction) bool {
		for _, a := range call.Common().Args {
			if u.isTag(a) {
				return true
			}
		}
		return false
	}
	// prepare: fetch by tag, publish the result
	fetches := callsIn(u.PFns, hasTagArg)
	if len(fetches) != 1 {
		c.Violation(R, pn+"|fetches-index-by-tag", P.Pos(), fmt.Sprintf("prepare makes %d calls with the referrers tag (expected exactly the fetch of the current index)", len(fetches)))
		return
	}
	fetch := fetches[0]
	if !c14IsIndexReader(StaticCallee(fetch)) {
		c.Undecided(R, pn+"|fetches-index-by-tag", fetch.Pos(), "prepare passes the tag to "+CalleeName(fetch)+", which is not an index reader (descriptor list through FetchReference): classify it")
	} else {
		c.OK(R, pn+"|fetches-index-by-tag", fetch.Pos(), "prepare reads the index by tag through the index reader "+CalleeName(fetch))
	}
	rf := c14ErrFlowUp(V, fetch, ErrFlowOpts{Tolerated: []string{"~/errdef.ErrNotFound"}}, 0)
	c.Check(R, pn+"|fetch-error-surfaces", fetch.Pos(), rf.OK, ifelse(rf.OK, rf.How, "a failed read of the old index (other than not-found) is swallowed: the update would start from an empty list and drop every existing referrer. "+rf.Detail))
	var fRefs, fDesc ssa.Value
	if tup, isTup := fetch.Value().Type().(*types.Tuple); isTup {
		for i := 0; i < tup.Len(); i++ {
			switch tup.At(i).Type().Underlying().(type) {
			case *types.Slice:
				fRefs = ResultOf(fetch, i)
			case *types.Struct:
				fDesc = ResultOf(fetch, i)
			}
		}
	}
	if !c.Check(R, pn+"|publishes-fetched-state", P.Pos(), fRefs != nil && fDesc != nil,
		ifelse(fRefs != nil && fDesc != nil, "prepare keeps the fetched referrers list and index descriptor", "prepare discards the fetched referrers list / index descriptor")) {
		return
	}
	// values that carry the fetched state to update: stores of fetch-derived values into
	// captured variables / fields, only on the success edge
	fetched := map[ssa.Value]bool{fetch.Value(): true}
	if e := ErrOf(fetch); e != nil {
		ne, _ := V.NilTests(V.StrictAliases(e))
		okPub := len(ne) > 0
		nPub := 0
		for _, f := range V.Funcs() {
			if !u.PFns[f] {
				continue
			}
			AllInstrs(f, func(in ssa.Instruction) {
				st, isSt := in.(*ssa.Store)
				if !isSt {
					return
				}
				switch st.Addr.(type) {
				case *ssa.FreeVar, *ssa.FieldAddr:
				default:
					return
				}
				derivedOf := func(src ssa.Value) bool {
					if c14Derives(src, fetched, 0) {
						return true
					}
					if a, isAlloc := src.(*ssa.Alloc); isAlloc {
						for _, s2 := range storesTo(a) {
							if c14Derives(s2.Val, fetched, 0) {
								return true
							}
						}
					}
					return false
				}
				src := st.Val
				if derivedOf(src) {
					nPub++
					if !V.MustPassFrom(P, st, newCut().Edges(ne...)) {
						okPub = false
					}
					return
				}
				// the value comes out of a helper: the helper's returns that carry fetched state are gated instead
				viaHelper := false
				for _, l := range V.Leaves(src) {
					if c14IsZero(l) || !derivedOf(l) {
						continue
					}
					viaHelper = true
				}
				if !viaHelper {
					return
				}
				nPub++
				for _, g := range V.Funcs() {
					if !u.PFns[g] || V.isRoot(g) {
						continue
					}
					for _, ret := range Returns(g) {
						carries := false
						for _, rv := range ret.Results {
							if isErrorType(rv.Type()) {
								continue
							}
							for _, l := range Roots(rv) {
								if !c14IsZero(l) && derivedOf(l) {
									carries = true
								}
							}
						}
						if carries && !V.MustPassFrom(P, ret, newCut().Edges(ne...)) {
							okPub = false
						}
					}
				}
			})
		}
		c.Check(R, pn+"|publishes-only-on-success", P.Pos(), okPub && nPub > 0, ifelse(okPub && nPub > 0, "the shared variables are set only on the nil-error edge of the fetch", "the fetched state is not handed on, or can be handed on from a failed fetch"))
	}
	// the old index descriptor, as update sees it: a pointer to a copy of the fetched descriptor, or the value
	var isOldDescD func(v ssa.Value, depth int) bool
	// a pointer to (a copy of) the fetched descriptor
	isOldDescPtrD := func(v ssa.Value, depth int) bool {
		ls := V.Leaves(v)
		if len(ls) == 0 || depth > 4 {
			return false
		}
		nA := 0
		for _, l := range ls {
			if c14IsZero(l) {
				continue // the nil a helper returns when there is no old index
			}
			nA++
			a, isAlloc := l.(*ssa.Alloc)
			if !isAlloc {
				return false
			}
			sts := c14CellStores(a)
			if len(sts) == 0 {
				return false
			}
			for _, st := range sts {
				if !isOldDescD(st.Val, depth+1) {
					return false
				}
			}
		}
		return nA > 0
	}
	// (a copy of) the fetched descriptor
	isOldDescD = func(v ssa.Value, depth int) bool {
		if u.only(v, fDesc) {
			return true
		}
		ls := V.LeavesShallow(v)
		if len(ls) == 0 || depth > 4 {
			return false
		}
		for _, l := range ls {
			d, isDeref := l.(*ssa.UnOp)
			if !isDeref || d.Op != token.MUL || !isOldDescPtrD(d.X, depth+1) {
				return false
			}
		}
		return true
	}
	isOldDescPtr := func(v ssa.Value) bool { return isOldDescPtrD(v, 0) }
	isOldDesc := func(v ssa.Value) bool { return isOldDescD(v, 0) }
	// update: the batch parameter
	var batch *ssa.Parameter
	for _, p := range Up.Params {
		if _, isSl := p.Type().Underlying().(*types.Slice); isSl {
			batch = p
		}
	}
	var applies []ssa.CallInstruction
	for _, f := range V.Funcs() {
		if !u.UpFns[f] {
			continue
		}
		for _, call := range Calls(f, func(string) bool { return true }) {
			if StaticCallee(call) == nil {
				continue
			}
			hasOld, hasBatch := false, false
			for _, a := range call.Common().Args {
				if u.only(a, fRefs) {
					hasOld = true
				}
				if batch != nil && u.only(a, batch) {
					hasBatch = true
				}
			}
			if hasOld && hasBatch {
				applies = append(applies, call)
			}
		}
	}
	// a wrapper around the apply step matches too: keep the innermost
	var apply ssa.CallInstruction
	for _, a := range applies {
		inner := true
		for _, b := range applies {
			if b != a && c14FnSet(c14NewView(StaticCallee(a), 3, c14RemoteExpand))[b.Parent()] {
				inner = false
			}
		}
		if inner {
			apply = a
		}
	}
	if !c.Check(R, upn+"|applies-batch-to-fetched-list", Up.Pos(), apply != nil,
		ifelse(apply != nil, "update computes the new list from (the list fetched by prepare, the committed batch)", "update does not combine the list fetched by prepare with the whole committed batch: batched changes are lost")) {
		return
	}
	applied := map[ssa.Value]bool{apply.Value(): true}
	newList := ResultOf(apply, 0)
	applyErr := ErrOf(apply)
	af := apply.Parent()
	var sentinel string
	if applyErr != nil {
		al := Aliases(applyErr)
		for _, i := range Ifs(af) {
			cond, _, _ := ifEdges(i)
			switch x := cond.(type) {
			case *ssa.BinOp:
				if al[x.X] && sentinelName(x.Y) != "" {
					sentinel = sentinelName(x.Y)
				} else if al[x.Y] && sentinelName(x.X) != "" {
					sentinel = sentinelName(x.X)
				}
			case *ssa.Call:
				if CalleeName(x) == "errors.Is" && al[x.Call.Args[0]] {
					sentinel = sentinelName(x.Call.Args[1])
				}
			}
		}
	}
	var tol []string
	if sentinel != "" {
		tol = []string{sentinel}
	}
	ra := c14ErrFlowUp(V, apply, ErrFlowOpts{Tolerated: tol}, 0)
	c.Check(R, upn+"|apply-error-surfaces", apply.Pos(), ra.OK, ifelse(ra.OK, ra.How, ra.Detail))
	// "nothing to update" is a verdict on the whole merged batch: only the apply step may produce the sentinel
	if sentinel != "" {
		applyFns := c14FnSet(c14NewView(StaticCallee(apply), 3, c14RemoteExpandAll))
		okProd, who := true, ""
		for _, f := range c.P.FuncsOfPkg(c14PkgRemote) {
			if applyFns[f] {
				continue
			}
			AllInstrs(f, func(in ssa.Instruction) {
				ld, isLd := in.(*ssa.UnOp)
				if !isLd || ld.Op != token.MUL {
					return
				}
				g, isG := ld.X.(*ssa.Global)
				if !isG || short(g.Pkg.Pkg.Path()+"."+g.Name()) != sentinel {
					return
				}
				for a := range Aliases(ld) {
					if a.Referrers() == nil {
						continue
					}
					for _, r := range *a.Referrers() {
						switch x := r.(type) {
						case *ssa.Return, *ssa.Store, *ssa.MakeClosure, *ssa.Send:
							okProd, who = false, FnName(f)
						case *ssa.Call:
							if CalleeName(x) != "errors.Is" {
								okProd, who = false, FnName(f)
							}
						}
					}
				}
			})
		}
		c.Check(R, upn+"|no-update-verdict-only-from-apply", apply.Pos(), okProd,
			ifelse(okProd, sentinel+" is produced only by the apply step (evaluated over the whole merged batch); elsewhere it is only compared",
				who+" produces "+sentinel+" itself: the merge leader declares \"nothing to update\" without evaluating the whole batch, so changes of other callers merged into this batch are dropped while their calls report success"))
	}
	// the leader's callbacks decide from the merged batch, never from the leader's own request
	if ls := V.LeavesShallow(args[1]); len(ls) == 1 {
		own, isP := ls[0].(*ssa.Parameter)
		if !isP {
			own = c14ParamOf(ls[0], U)
			isP = own != nil
		}
		if isP && own.Parent() == U {
			carriers := map[ssa.Value]bool{own: true}
			for _, f := range V.Funcs() {
				AllInstrs(f, func(in ssa.Instruction) {
					if st, isSt := in.(*ssa.Store); isSt {
						for _, l := range V.LeavesShallow(st.Val) {
							if l == ssa.Value(own) {
								carriers[st.Addr] = true
							}
						}
					}
				})
			}
			okOwn, where := true, ""
			for _, f := range V.Funcs() {
				if !u.PFns[f] && !u.UpFns[f] {
					continue
				}
				AllInstrs(f, func(in ssa.Instruction) {
					for _, op := range in.Operands(nil) {
						if *op == nil {
							continue
						}
						v := *op
						hit := carriers[v]
						if fv, isFV := v.(*ssa.FreeVar); isFV {
							if cell := c14FreeVarAlloc(fv); cell != nil && carriers[cell] {
								hit = true
							}
						}
						if fa, isFA := v.(*ssa.FieldAddr); isFA && !hit {
							if obj := V.objOf(fa.X); obj != nil {
								for _, st := range V.FieldStoresOf(obj, fa.Field) {
									if carriers[st.Addr] {
										hit = true
									}
								}
							}
						}
						if hit {
							okOwn, where = false, FnName(f)+" at "+c.P.Pos(in.Pos())
						}
					}
				})
			}
			c.Check(R, un+"|leader-decides-from-batch-only", u.DoCall.Pos(), okOwn,
				ifelse(okOwn, "prepare/update never read the leader's own change (only the merged batch handed over by Merge.Do)",
					"the merge leader's callback reads the leader's own request ("+where+") instead of the merged batch: a decision taken from it (skip, early success) is applied to every change merged behind it, and those callers are told their update succeeded"))
		}
	}
	var tolE []Edge
	if applyErr != nil {
		tolE = toleratedEdges(af, Aliases(applyErr), tol)
	}
	pushes := callsIn(u.UpFns, hasTagArg)
	deletes := callsIn(u.UpFns, func(call ssa.CallInstruction) bool {
		for _, a := range call.Common().Args {
			if isOldDesc(a) {
				return true
			}
		}
		return false
	})
	okKinds := len(pushes) > 0 && len(deletes) > 0
	for _, p := range pushes {
		if !c14IsPush(p) {
			c.Undecided(R, upn+"|effects-classified", p.Pos(), "update passes the referrers tag to "+CalleeName(p)+": not the confirmed index push, classify it")
			okKinds = false
		}
	}
	for _, d := range deletes {
		if !c14IsDel(d) {
			c.Undecided(R, upn+"|effects-classified", d.Pos(), "update passes the old index descriptor to "+CalleeName(d)+": not the confirmed delete, classify it")
			okKinds = false
		}
	}
	if !c.Check(R, upn+"|effects-classified", Up.Pos(), okKinds, ifelse(okKinds, "update pushes the new index under the tag and deletes the old index descriptor", "update lacks the push of the new index under the referrers tag or the delete of the old index")) {
		return
	}
	// pushed content derives from the applied list
	var derivesApplied func(v ssa.Value) bool
	seenD := map[ssa.Value]bool{}
	derivesApplied = func(v ssa.Value) bool {
		if v == nil || seenD[v] {
			return false
		}
		seenD[v] = true
		for _, l := range V.LeavesShallow(v) {
			if applied[l] || c14Derives(l, applied, 0) {
				return true
			}
			switch x := l.(type) {
			case *ssa.Extract:
				if applied[x.Tuple] || derivesApplied(x.Tuple) {
					return true
				}
			case *ssa.Call:
				for _, a := range x.Call.Args {
					if derivesApplied(a) {
						return true
					}
				}
			case *ssa.UnOp:
				if _, isAlloc := x.X.(*ssa.Alloc); !isAlloc && derivesApplied(x.X) {
					return true
				}
			case *ssa.MakeInterface:
				if derivesApplied(x.X) {
					return true
				}
			}
		}
		return false
	}
	okContent := true
	for _, p := range pushes {
		d := false
		for _, a := range p.Common().Args {
			seenD = map[ssa.Value]bool{}
			if !u.isTag(a) && derivesApplied(a) {
				d = true
			}
		}
		okContent = okContent && d
	}
	c.Check(R, upn+"|pushes-the-applied-list", pushes[0].Pos(), okContent, ifelse(okContent, "the pushed index is generated from the list returned by the apply step", "the index pushed under the tag is not generated from the updated list"))
	// no-update sentinel: nothing is pushed or deleted
	effects := append(c14CallsI(pushes), c14CallsI(deletes)...)
	okNo := len(tolE) > 0
	for _, e := range tolE {
		for _, x := range effects {
			if V.EdgeReach(e, x, nil) {
				okNo = false
			}
		}
	}
	c.Check(R, upn+"|no-update-leaves-index-alone", apply.Pos(), okNo,
		ifelse(okNo, "on "+sentinel+" neither push nor delete is reachable", "when the apply step reports that nothing changed, update can still delete (or re-push) the index: the unchanged, still current index is deleted and all referrers of the subject vanish"))
	// ordering
	var lenZero []Edge
	if newList != nil {
		nl := V.Aliases(newList)
		for _, f := range V.Funcs() {
			if !u.UpFns[f] {
				continue
			}
			for _, i := range Ifs(f) {
				cond, t, fe := ifEdges(i)
				bo, isBin := cond.(*ssa.BinOp)
				if !isBin {
					continue
				}
				x, y, op := bo.X, bo.Y, bo.Op
				if _, isK := constInt(x); isK {
					x, y = y, x
					op = map[token.Token]token.Token{token.LSS: token.GTR, token.GTR: token.LSS, token.LEQ: token.GEQ, token.GEQ: token.LEQ, token.NEQ: token.NEQ, token.EQL: token.EQL}[op]
				}
				ln, isCall := x.(*ssa.Call)
				k, isK := constInt(y)
				if !isCall || !isK || CalleeName(ln) != "builtin:len" || !nl[ln.Call.Args[0]] {
					continue
				}
				switch {
				case op == token.NEQ && k == 0, op == token.GTR && k == 0, op == token.GEQ && k == 1:
					lenZero = append(lenZero, fe)
				case op == token.EQL && k == 0, op == token.LSS && k == 1, op == token.LEQ && k == 0:
					lenZero = append(lenZero, t)
				}
			}
		}
	}
	okOrd := true
	for _, d := range deletes {
		for _, p := range pushes {
			if V.Reachable(d.(ssa.Instruction), p.(ssa.Instruction)) {
				okOrd = false
			}
		}
		if !V.MustPassFrom(Up, d.(ssa.Instruction), newCut().Calls(pushes).Edges(lenZero...)) {
			okOrd = false
		}
	}
	c.Check(R, upn+"|push-precedes-delete", deletes[0].Pos(), okOrd,
		ifelse(okOrd, "every path to the delete of the old index has pushed the new one, or the new list is empty", "the old index can be deleted before (or without) the push of a non-empty new index: a crash or failure in between leaves the subject without any referrers index"))
	for i, p := range pushes {
		rp := c14ErrFlowUp(V, p, ErrFlowOpts{}, 0)
		okP := rp.OK
		if e := ErrOf(p); e != nil {
			_, nn := V.NilTests(V.StrictAliases(e))
			for _, ed := range nn {
				for _, d := range deletes {
					if V.EdgeReach(ed, d.(ssa.Instruction), nil) {
						okP = false
					}
				}
			}
		}
		c.Check(R, fmt.Sprintf("%s|push#%d-failure-stops", upn, i+1), p.Pos(), okP,
			ifelse(okP, "a failed push is returned and the old index is not deleted", "after a failed push of the new index update continues (old index deleted, or nil returned): referrers are lost. "+rp.Detail))
	}
	// delete iff GC enabled and an old index exists
	gcLoads := map[ssa.Value]bool{}
	for _, f := range V.Funcs() {
		if u.UpFns[f] {
			for _, ld := range c14FieldLoads(f, "~/registry/remote.Repository", "SkipReferrersGC") {
				for a := range V.Aliases(ld) {
					gcLoads[a] = true
				}
			}
		}
	}
	skipT, skipF := V.BoolTests(gcLoads)
	var descNil, descNonNil []Edge
	for _, f := range V.Funcs() {
		if !u.UpFns[f] {
			continue
		}
		for _, i := range Ifs(f) {
			cond, t, fe := ifEdges(i)
			bo, isBin := cond.(*ssa.BinOp)
			if !isBin || (bo.Op != token.EQL && bo.Op != token.NEQ) {
				continue
			}
			var x ssa.Value
			if isNilConst(bo.Y) {
				x = bo.X
			} else if isNilConst(bo.X) {
				x = bo.Y
			} else {
				continue
			}
			if !isOldDescPtr(x) {
				continue
			}
			if bo.Op == token.EQL {
				descNil, descNonNil = append(descNil, t), append(descNonNil, fe)
			} else {
				descNil, descNonNil = append(descNil, fe), append(descNonNil, t)
			}
		}
	}
	okGuard := len(skipF) > 0 && len(descNonNil) > 0
	for _, d := range deletes {
		if !V.MustPassFrom(Up, d.(ssa.Instruction), newCut().Edges(skipF...)) || !V.MustPassFrom(Up, d.(ssa.Instruction), newCut().Edges(descNonNil...)) {
			okGuard = false
		}
	}
	c.Check(R, upn+"|delete-only-if-gc-and-old-index", deletes[0].Pos(), okGuard,
		ifelse(okGuard, "the delete is reached only with SkipReferrersGC==false and oldIndexDesc!=nil", "the old index can be deleted with SkipReferrersGC set, or dereferenced when no old index exists"))
	// a return that may carry a nil error, reached without delete / skip / no-old-index / nothing-changed
	cuDone := newCut().Calls(deletes).Edges(skipT...).Edges(descNil...).Edges(tolE...)
	okIff := !c14NilReturnReach(V, V.entryOf(Up), Up, cuDone)
	c.Check(R, upn+"|superseded-index-deleted", deletes[0].Pos(), okIff,
		ifelse(okIff, "every successful path either deletes the old index, or GC is skipped, or there was no old index, or nothing changed", "a successful update can return without deleting the superseded index although GC is enabled and an old index exists (dangling index manifests accumulate)"))
	// a failed delete is reported as ReferrersError{Op: opDeleteReferrersIndex}
	var opConst string
	if k, isK := c.P.Obj(c14PkgRemote, "opDeleteReferrersIndex").(*types.Const); isK && k.Val().Kind() == constant.String {
		opConst = constant.StringVal(k.Val())
	} else {
		c.LostAnchor(R, "constant ~/registry/remote.opDeleteReferrersIndex")
		return
	}
	for i, d := range deletes {
		rd := c14ErrFlowUp(V, d, ErrFlowOpts{}, 0)
		okD := rd.OK
		detail := rd.Detail
		df := d.Parent()
		if e := ErrOf(d); e != nil && okD {
			_, nn, _ := NilTests(df, Aliases(e))
			n := 0
			for _, a := range RetAtoms(df, ErrResultIndex(df.Signature)) {
				from := false
				for _, ed := range nn {
					if reach(ed.To, 0, a.Ret, nil) {
						from = true
					}
				}
				if !from {
					continue
				}
				n++
				mi, isMI := a.Val.(*ssa.MakeInterface)
				if !isMI || c14NamedOf(mi.X.Type()) != "~/registry/remote.ReferrersError" {
					okD, detail = false, "the value returned after a failed delete is not a *ReferrersError"
					continue
				}
				al, isAlloc := mi.X.(*ssa.Alloc)
				if !isAlloc {
					okD, detail = false, "cannot resolve the returned *ReferrersError to a literal"
					continue
				}
				opOK, errOK := false, false
				for _, r := range *al.Referrers() {
					fa, isFA := r.(*ssa.FieldAddr)
					if !isFA {
						continue
					}
					name := fieldName(fa.X.Type(), fa.Field)
					for _, r2 := range *fa.Referrers() {
						st, isSt := r2.(*ssa.Store)
						if !isSt {
							continue
						}
						if strings.HasSuffix(name, ".Op") {
							if s, isS := constString(st.Val); isS && s == opConst {
								opOK = true
							}
						}
						if strings.HasSuffix(name, ".Err") && c14Derives(st.Val, Aliases(e), 0) {
							errOK = true
						}
					}
				}
				if !opOK || !errOK {
					okD, detail = false, "the returned ReferrersError does not carry Op=opDeleteReferrersIndex and the delete's error"
				}
			}
			if n == 0 {
				okD, detail = false, "no return on the failure edge of the delete"
			}
		}
		c.Check(R, fmt.Sprintf("%s|delete#%d-failure-is-index-delete-error", upn, i+1), d.Pos(), okD,
			ifelse(okD, "a failed delete of the old index is returned as *ReferrersError{Op: "+opConst+", Err: wraps the cause}", "a failed delete of the superseded index is not reported as the referrers-index-delete error callers are told to tolerate: "+detail))
	}
}

// ---------- callers: indexing iff subject and no Referrers API ----------

// c14EvidenceV: in view V, the edges on which the Referrers API is known not
// to be (known as) supported, and the complementary edges.
func c14EvidenceV(V *c14View, supported int64) (notAvail, avail []Edge) {
	notAvail, avail, _, _ = c14EvidenceVT(V, supported)
	return
}

// c14EvidenceVT additionally returns the predecessor-restricted edges (the probe's
// result tested inside a materialised `a && b` / `a || b`).
func c14EvidenceVT(V *c14View, supported int64) (notAvail, avail []Edge, notAvailTri, availTri [][3]*ssa.BasicBlock) {
	const setCap = "(*~/registry/remote.Repository).SetReferrersCapability"
	probe := map[ssa.Value]bool{}
	state := map[ssa.Value]bool{}
	all := V.Calls(func(string) bool { return true })
	var probes []ssa.CallInstruction
	for _, pc := range all {
		if CalleeName(pc) == setCap {
			probes = append(probes, pc)
			continue
		}
		pg := StaticCallee(pc)
		if pg == nil || !inModule(pg) {
			continue
		}
		if reachesCall(pg, 3, func(n string, _ ssa.CallInstruction) bool { return n == setCap }) {
			probes = append(probes, pc)
		}
	}
	for _, call := range all {
		g := StaticCallee(call)
		if g == nil || !inModule(g) || call.Value() == nil {
			continue
		}
		res := g.Signature.Results()
		switch {
		case res.Len() == 2 && ErrResultIndex(g.Signature) == 1 && types.Identical(res.At(0).Type(), types.Typ[types.Bool]) &&
			reachesCall(g, 2, func(n string, _ ssa.CallInstruction) bool { return n == setCap }):
			if ok := ResultOf(call, 0); ok != nil {
				for a := range V.Aliases(ok) {
					probe[a] = true
				}
			}
		case res.Len() == 1 && c14ReturnsAtomicState(g):
			// the recorded state is evidence only when it is read after an
			// exchange that could have recorded "supported"
			var before []ssa.CallInstruction
			for _, pc := range probes {
				if pc == call {
					continue
				}
				// a probe counts once it has returned: not while the read sits inside its extent
				if pg := StaticCallee(pc); pg != nil && V.Inlined(pc) && c14FnSet(c14NewView(pg, 5, c14RemoteExpandAll))[call.Parent()] {
					continue
				}
				before = append(before, pc)
			}
			if len(before) == 0 || !V.MustPass(call.(ssa.Instruction), newCut().Calls(before)) {
				continue
			}
			for a := range V.Aliases(call.Value()) {
				state[a] = true
			}
		}
	}
	t, fl := V.BoolTests(probe)
	avail, notAvail = append(avail, t...), append(notAvail, fl...)
	pt, pf, ptT, pfT := V.PhiBoolTests(probe)
	avail, notAvail = append(avail, pt...), append(notAvail, pf...)
	availTri, notAvailTri = append(availTri, ptT...), append(notAvailTri, pfT...)
	for _, f := range V.Funcs() {
		for _, i := range Ifs(f) {
			cond, te, fe := ifEdges(i)
			bo, ok := cond.(*ssa.BinOp)
			if !ok || (bo.Op != token.EQL && bo.Op != token.NEQ) {
				continue
			}
			var k ssa.Value
			if state[bo.X] {
				k = bo.Y
			} else if state[bo.Y] {
				k = bo.X
			} else {
				continue
			}
			if n, isK := constInt(k); !isK || n != supported {
				continue
			}
			if bo.Op == token.EQL {
				avail, notAvail = append(avail, te), append(notAvail, fe)
			} else {
				avail, notAvail = append(avail, fe), append(notAvail, te)
			}
		}
	}
	return
}

func c14RemoteExpandAll(g *ssa.Function) bool {
	if fnPkgPath(g) != pkgPath(c14PkgRemote) {
		return false
	}
	if g.Parent() != nil {
		return true
	}
	return g.Object() == nil || !g.Object().Exported()
}

func c14R3Callers(c *Ctx, us []*c14Upd) {
	const R = "C14.R3.indexing-iff-subject-and-no-api"
	c.Expect(R, 6)
	k, ok := c.P.Obj(c14PkgRemote, "referrersStateSupported").(*types.Const)
	if !ok {
		c.LostAnchor(R, "constant ~/registry/remote.referrersStateSupported")
		return
	}
	supported, _ := constant.Int64Val(k.Val())
	isU := map[*ssa.Function]bool{}
	for _, u := range us {
		isU[u.U] = true
	}
	fns := c.P.FuncsOfPkg(c14PkgRemote)
	callers := map[*ssa.Function][]*ssa.Function{}
	for _, f := range fns {
		for _, call := range Calls(f, func(string) bool { return true }) {
			if g := StaticCallee(call); g != nil {
				callers[g] = append(callers[g], f)
			}
		}
	}
	// entry points from which a call of the updater is reachable
	entriesOf := func(f *ssa.Function) []*ssa.Function {
		var out []*ssa.Function
		seen := map[*ssa.Function]bool{}
		var up func(g *ssa.Function, d int)
		up = func(g *ssa.Function, d int) {
			if seen[g] || d > 6 {
				return
			}
			seen[g] = true
			cs := callers[g]
			exported := g.Object() != nil && g.Object().Exported()
			if len(cs) == 0 || exported {
				out = append(out, g)
			}
			for _, p := range cs {
				up(p, d+1)
			}
		}
		up(f, 0)
		return out
	}
	n := 0
	for _, f := range fns {
		if isU[f] {
			continue
		}
		var ucalls []ssa.CallInstruction
		for _, x := range Calls(f, func(string) bool { return true }) {
			if isU[StaticCallee(x)] {
				ucalls = append(ucalls, x)
			}
		}
		if len(ucalls) == 0 {
			continue
		}
		// f is a helper of a larger indexing function if its callers hand it the decoded subject: analyse the outermost
		// function that still decodes the manifest — here: every function with a direct call is analysed with its helpers inlined
		V := c14NewView(f, 4, c14RemoteExpandAll)
		fn := FnName(f)
		isSubjPtr := func(v ssa.Value) bool {
			ls := V.Leaves(v)
			n := 0
			for _, l := range ls {
				if isNilConst(l) {
					continue // the nil a decoding helper returns next to an error
				}
				n++
				ld, isLd := l.(*ssa.UnOp)
				if !isLd || ld.Op != token.MUL || !isFieldLoad(ld, "Subject") {
					return false
				}
				if _, isPtr := ld.Type().Underlying().(*types.Pointer); !isPtr {
					return false
				}
			}
			return n > 0
		}
		var subjNonNil []Edge
		for _, g := range V.Funcs() {
			for _, i := range Ifs(g) {
				cond, t, fe := ifEdges(i)
				bo, isBin := cond.(*ssa.BinOp)
				if !isBin || (bo.Op != token.EQL && bo.Op != token.NEQ) {
					continue
				}
				var x ssa.Value
				if isNilConst(bo.Y) {
					x = bo.X
				} else if isNilConst(bo.X) {
					x = bo.Y
				} else {
					continue
				}
				if !isSubjPtr(x) {
					continue
				}
				if bo.Op == token.EQL {
					subjNonNil = append(subjNonNil, fe)
				} else {
					subjNonNil = append(subjNonNil, t)
				}
			}
		}
		for _, call := range ucalls {
			n++
			okS := len(subjNonNil) > 0 && V.MustPass(call.(ssa.Instruction), newCut().Edges(subjNonNil...))
			okArg := false
			for _, a := range call.Common().Args {
				ls := V.Leaves(a)
				allDeref := len(ls) > 0
				for _, r := range ls {
					d, isDeref := r.(*ssa.UnOp)
					if !isDeref || d.Op != token.MUL || !isSubjPtr(d.X) {
						allDeref = false
					}
				}
				if allDeref {
					okArg = true
				}
			}
			c.Check(R, fn+"|only-with-subject", call.Pos(), okS && okArg,
				ifelse(okS && okArg, "the index update is reached only on the Subject!=nil edge and is given the decoded subject", "the referrers index update is reached without a (decoded) subject, or is given another descriptor than the manifest's subject"))
			// evidence, seen from every entry point that reaches this call
			okG, why := true, ""
			ents := entriesOf(f)
			if len(ents) == 0 {
				okG, why = false, "no entry point reaches it"
			}
			for _, E := range ents {
				EV := c14NewView(E, 6, c14RemoteExpandAll)
				if !EV.Has(f) {
					okG, why = false, FnName(E)+" reaches it through calls the analysis does not follow"
					continue
				}
				notAvail, _, notAvailTri, _ := c14EvidenceVT(EV, supported)
				if len(notAvail)+len(notAvailTri) == 0 || !EV.MustPass(call.(ssa.Instruction), EV.CutPredEdge(newCut().Edges(notAvail...), notAvailTri...)) {
					okG, why = false, "from "+FnName(E)+" a path reaches it without having seen the Referrers API as unsupported"
				}
			}
			c.Check(R, fn+"|only-without-referrers-api", call.Pos(), okG,
				ifelse(okG, fmt.Sprintf("every path to the index update (from %d entry point(s)) has seen the Referrers API as not supported", len(ents)), "the client-side index is updated although the Referrers API may be known as supported: "+why))
			// delete flow: the deletion of the manifest itself still happens when the index update ends in an error
			// (the index was already rewritten without the manifest; the error may be the ignorable index-GC error)
			for _, E := range ents {
				EV := c14NewView(E, 6, c14RemoteExpandAll)
				var target *ssa.Parameter
				for _, p := range E.Params {
					if strings.HasSuffix(p.Type().String(), "specs-go/v1.Descriptor") {
						target = p
					}
				}
				var dels []ssa.CallInstruction
				for _, dc := range EV.Calls(func(string) bool { return true }) {
					if !c14IsDel(dc) {
						continue
					}
					for _, a := range dc.Common().Args {
						if target != nil && c14ThroughSpill(EV, a) == ssa.Value(target) {
							dels = append(dels, dc)
						}
					}
				}
				if len(dels) == 0 || target == nil {
					continue // not a delete flow
				}
				var nn []Edge
				if er := ErrOf(call); er != nil {
					_, nn = EV.NilTests(EV.Aliases(er))
				}
				okDel := false
				for _, ed := range nn {
					for _, dc := range dels {
						if EV.EdgeReach(ed, dc.(ssa.Instruction), nil) {
							okDel = true
						}
					}
				}
				c.Check(R, FnName(E)+"|manifest-delete-not-skipped-on-index-error", call.Pos(), okDel,
					ifelse(okDel, "after an error of the index update the manifest delete is still reachable", "when the referrers index update ends in an error — including the ignorable ReferrersError for the GC of the old index, reported after the new index (without this manifest) was pushed — the manifest itself is not deleted: it stays live, names the subject, and is no longer listed as its referrer (demo: checker/c14_demo_delete_skipped_after_index_gc_failure.txt)"))
			}
			// converse: with a subject and no API the update is not skipped
			_, avail, _, availTri := c14EvidenceVT(V, supported)
			cu := V.CutPredEdge(newCut().Calls(ucalls).Edges(avail...), availTri...)
			okC := len(subjNonNil) > 0
			for _, e := range subjNonNil {
				// a return that may carry a nil error (an error that is tested and then dropped is no excuse)
				if c14NilReturnReach(V, V.atBlock(e.To), f, cu) {
					okC = false
				}
			}
			c.Check(R, fn+"|never-skipped-with-subject", call.Pos(), okC,
				ifelse(okC, "once a subject was decoded every non-error path updates the index unless the Referrers API is available", "a manifest with a subject can be pushed/deleted without updating the referrers index although the registry has no Referrers API: the referrer is never listed (or listed forever)"))
		}
	}
	if n == 0 {
		c.LostAnchor(R, "callers of the referrers index updater")
	}
}

// ---------- who receives a referrers tag ----------

// c14R3TagInventory: every call that is handed the result of the tag builder
// (directly, through a captured variable or struct field, or down through the
// parameters of unexported helpers) must be one of: the pool key, the
// confirmed readers, an error text, or THE write — the push — and that only
// inside what the update callback of Merge.Do runs.
func c14R3TagInventory(c *Ctx, us []*c14Upd) {
	const R = "C14.R3.referrers-tag-users"
	c.Expect(R, 5)
	var tagFn *ssa.Function
	upFns := map[*ssa.Function]bool{}
	for _, u := range us {
		if u.TagFn != nil {
			tagFn = u.TagFn
		}
		for f := range u.UpFns {
			upFns[f] = true
		}
	}
	if tagFn == nil {
		c.LostAnchor(R, "the referrers tag builder (producer of the pool key)")
		return
	}
	fns := c.P.FuncsOfPkg(c14PkgRemote)
	// forward taint from the tag builder's result
	tainted := map[ssa.Value]bool{}
	var work []ssa.Value
	add := func(v ssa.Value) {
		if v != nil && !tainted[v] {
			tainted[v] = true
			work = append(work, v)
		}
	}
	nTagCalls := 0
	for _, f := range fns {
		for _, tc := range Calls(f, func(string) bool { return true }) {
			if StaticCallee(tc) == tagFn {
				nTagCalls++
				add(ResultOf(tc, 0))
			}
		}
	}
	type use struct {
		f    *ssa.Function
		call ssa.CallInstruction
	}
	var uses []use
	cellLoads := func(a *ssa.Alloc) {
		for _, r := range *a.Referrers() {
			switch x := r.(type) {
			case *ssa.UnOp:
				if x.Op == token.MUL {
					add(x)
				}
			case *ssa.MakeClosure:
				g := x.Fn.(*ssa.Function)
				for i, b := range x.Bindings {
					if b == ssa.Value(a) {
						for _, r2 := range *g.FreeVars[i].Referrers() {
							if ld, ok := r2.(*ssa.UnOp); ok && ld.Op == token.MUL {
								add(ld)
							}
						}
					}
				}
			}
		}
	}
	fieldLoads := func(t types.Type, field int) {
		for _, f := range fns {
			AllInstrs(f, func(in ssa.Instruction) {
				fa, ok := in.(*ssa.FieldAddr)
				if !ok || fa.Field != field || !types.Identical(fa.X.Type(), t) {
					return
				}
				for _, r := range *fa.Referrers() {
					if ld, ok := r.(*ssa.UnOp); ok && ld.Op == token.MUL {
						add(ld)
					}
				}
			})
		}
	}
	for len(work) > 0 {
		v := work[len(work)-1]
		work = work[:len(work)-1]
		refs := v.Referrers()
		if refs == nil {
			continue
		}
		for _, r := range *refs {
			switch x := r.(type) {
			case *ssa.MakeInterface, *ssa.ChangeType, *ssa.Phi, *ssa.Convert:
				add(x.(ssa.Value))
			case *ssa.Store:
				if x.Val != v {
					continue
				}
				switch a := x.Addr.(type) {
				case *ssa.Alloc:
					cellLoads(a)
				case *ssa.FreeVar:
					if cell := c14FreeVarAlloc(a); cell != nil {
						cellLoads(cell)
					}
				case *ssa.FieldAddr:
					// a struct field carrying the tag (updater object): every load of that field
					fieldLoads(a.X.Type(), a.Field)
				case *ssa.IndexAddr:
					if arr, ok := a.X.(*ssa.Alloc); ok {
						for _, ar := range *arr.Referrers() {
							if sl, ok := ar.(*ssa.Slice); ok {
								add(sl)
							}
						}
					}
				}
			case ssa.CallInstruction:
				g := StaticCallee(x)
				if g != nil && c14RemoteExpand(g) && len(g.Blocks) > 0 {
					for i, a := range x.Common().Args {
						if a == v && i < len(g.Params) {
							add(g.Params[i])
						}
					}
					continue
				}
				if strings.HasPrefix(CalleeName(x), "builtin:") {
					continue
				}
				uses = append(uses, use{x.Parent(), x})
			}
		}
	}
	if nTagCalls < 2 {
		c.LostAnchor(R, "calls of the referrers tag builder "+FnName(tagFn))
	}
	// the reader's own use of its tag parameter (one level down)
	roles := map[string]string{
		"(*~/internal/syncutil.Pool[T]).Get":             "pool key (serialisation point)",
		"(*~/registry/remote.Repository).FetchReference": "read (GET by tag)",
		"fmt.Errorf": "error text",
	}
	for _, fetchFn := range fns {
		if !c14IsIndexReader(fetchFn) {
			continue
		}
		// which parameters of the reader receive a tag
		for _, p := range fetchFn.Params {
			if !tainted[p] {
				// the reader is not expanded by the taint (it is an effect), so look at its call sites
				isTagParam := false
				for _, us := range uses {
					if StaticCallee(us.call) == fetchFn {
						for i, a := range us.call.Common().Args {
							if i < len(fetchFn.Params) && fetchFn.Params[i] == p && (tainted[a] || tainted[strip(a)]) {
								isTagParam = true
							}
						}
					}
				}
				if !isTagParam {
					continue
				}
			}
			al := Aliases(p)
			for _, call := range Calls(fetchFn, func(n string) bool { return !strings.HasPrefix(n, "builtin:") }) {
				for _, a := range call.Common().Args {
					hit := al[strip(a)]
					if sl, ok := a.(*ssa.Slice); ok && !hit {
						if arr, ok := sl.X.(*ssa.Alloc); ok {
							for _, r := range *arr.Referrers() {
								if ia, ok := r.(*ssa.IndexAddr); ok {
									for _, r2 := range *ia.Referrers() {
										if st, ok := r2.(*ssa.Store); ok && al[strip(st.Val)] {
											hit = true
										}
									}
								}
							}
						}
					}
					if hit {
						uses = append(uses, use{fetchFn, call})
						break
					}
				}
			}
		}
	}
	type agg struct {
		pos token.Pos
		ok  bool
		why string
		n   int
	}
	res := map[string]*agg{}
	var order []string
	seenPush, seenKey := false, false
	for _, us := range uses {
		name := CalleeName(us.call)
		role, known := roles[name]
		if c14IsIndexReader(StaticCallee(us.call)) {
			role, known, name = "read of the current index", true, "index-reader"
		}
		isPush := c14IsPush(us.call)
		if isPush {
			role, known, name = "THE write: push (HTTP PUT) of the new index, inside the update callback run by Merge.Do", true, "push(PUT)"
		}
		where := "elsewhere"
		if upFns[us.f] {
			where = "in-update"
		}
		k := name + "|" + where
		a := res[k]
		if a == nil {
			a = &agg{pos: us.call.Pos(), ok: true}
			res[k] = a
			order = append(order, k)
		}
		a.n++
		switch {
		case !known:
			a.ok, a.why, a.pos = false, "unclassified use of a referrers tag in "+FnName(us.f)+": this call receives a referrers tag but is not on the confirmed list (read of the index, pool key, or the single push inside the Merge-protected update callback); a push/tag/delete by referrers tag outside Merge.Do is an unserialised read-modify-write", us.call.Pos()
		case isPush && !upFns[us.f]:
			a.ok, a.why, a.pos = false, "the index is pushed under a referrers tag by "+FnName(us.f)+", which is not run by the update callback of Merge.Do: unserialised read-modify-write", us.call.Pos()
		default:
			if a.why == "" {
				a.why = role
			}
		}
		if isPush && upFns[us.f] {
			seenPush = true
		}
		if strings.HasSuffix(name, ".Get") && strings.Contains(name, "syncutil.Pool") {
			seenKey = true
		}
	}
	sort.Strings(order)
	for _, k := range order {
		a := res[k]
		if a.ok {
			c.Exists(R, k, a.pos, true, fmt.Sprintf("%d use(s): %s", a.n, a.why))
		} else {
			c.Violation(R, k, a.pos, a.why)
		}
	}
	if !seenPush {
		c.ob(R, "push(PUT)|in-update", token.NoPos, Lost, true, "required use of the referrers tag no longer present: the push of the new index inside the update callback")
	}
	if !seenKey {
		c.ob(R, "Pool.Get|key", token.NoPos, Lost, true, "required use of the referrers tag no longer present: the pool key")
	}
}
