package main

// C04 — bounded concurrency, single transfer, ordered callbacks.
// Rules: R1 permit typestate (LimitedRegion), R2 single owner, R3 one limiter
// per call sized by Concurrency, R4 callback sequencing.

import (
	"fmt"
	"go/token"
	"go/types"
	"strings"

	"golang.org/x/tools/go/ssa"
)

func init() {
	register(&propDef{
		ID: "C04",
		Explain: "Decided: (R1) LimitedRegion.End releases the semaphore only while the region holds a permit and then marks it released, Start acquires only while released, " +
			"marks the region held only after a successful Acquire and returns Acquire's error, a new region starts in the released state; (R2) Tracker.TryCommit's `committed` " +
			"is the negated `loaded` of one atomic sync.Map.LoadOrStore on the FromOCI key, and in every traversal that claims its node with TryCommit every other call is " +
			"dominated by the committed edge; (R3) each semaphore is created once per copy call outside any closure, sized by opts.Concurrency after defaulting non-positive " +
			"values to a positive constant, and the traversal dispatches with that shared limiter; (R4) in the node copy PreCopy (unless nil) precedes the single fetch+push which " +
			"precedes PostCopy (unless nil), each at most once, SkipNode from PreCopy reaches neither push nor PostCopy, callback errors are returned unchanged; the transfer does one " +
			"Fetch and one Push and closes the reader; the traversal performs at most one of OnCopySkipped / node copy / mount-or-copy per node; in the mount path OnMounted and " +
			"PostCopy exclude each other, PostCopy runs only after the mount loop, the loop continues only when the mount fell back to copying, and the fallback reader calls PreCopy " +
			"before fetching; (R6) every PreCopy / PostCopy / OnCopySkipped / OnMounted / MountFrom call of the graph copy is handed the descriptor of the node being handled, " +
			"an OnCopySkipped error is returned unchanged by the traversal, and the hook wrappers installed by Copy return the wrapped callback's error unchanged. The hand-off of the permit around the blocking dispatch/wait (region.End before syncutil.Go and the select, a successful region.Start before storage " +
			"effects, the goroutine body always releasing) is C02.R4, and `PostCopy after the successors' terminal notification` is C02.R1 — both are discharged there and not repeated. " +
			"NOT decided (not applicable to static analysis): measured in-flight counts, `fetched at most once` through user-supplied stores, whether Mount invokes getContent, callback totals at run time.",
		Run:     runC04,
		Mutants: append(c04Mutants, c04CovMutants...),
	})
}

func runC04(c *Ctx) {
	c01P = c.P
	c.NotArmed("C04.R1(b,c)", "permit hand-off around the blocking dispatch/wait and the goroutine body's release are C02.R4; discharged under C02, not duplicated here")
	c.NotArmed("C04.R4.postcopy-after-successors", "same obligation as C02.R1 (wait-before-push); discharged under C02")
	c04R1(c)
	c04R2(c)
	c04R3(c)
	c04R4(c)
	c04R5(c)
	runC04Coverage(c)
}

const (
	nAcquire = "(*golang.org/x/sync/semaphore.Weighted).Acquire"
	nRelease = "(*golang.org/x/sync/semaphore.Weighted).Release"
	nNewSem  = "golang.org/x/sync/semaphore.NewWeighted"
)

func c04FieldValues(fn *ssa.Function, fv *types.Var) map[ssa.Value]bool {
	out := map[ssa.Value]bool{}
	AllInstrs(fn, func(in ssa.Instruction) {
		if v, ok := in.(ssa.Value); ok && c01IsFieldValue(v, fv) {
			out[v] = true
		}
	})
	return out
}

func c04FieldStores(fn *ssa.Function, fv *types.Var) []*ssa.Store {
	var out []*ssa.Store
	AllInstrs(fn, func(in ssa.Instruction) {
		if s, ok := in.(*ssa.Store); ok {
			if p, ok := c01AddrPath(s.Addr); ok && p.last() == fv {
				out = append(out, s)
			}
		}
	})
	return out
}

func c04BoolStores(ss []*ssa.Store, want bool) (match []ssa.Instruction, other int) {
	for _, s := range ss {
		if k, ok := s.Val.(*ssa.Const); ok && k.Value != nil && boolConst(k) == want {
			match = append(match, s)
		} else {
			other++
		}
	}
	return
}

// ---------- R1 ----------

func c04R1(c *Ctx) {
	const R = "C04.R1.permit-typestate"
	c.Expect(R, 8)
	Start := c.P.Fn("internal/syncutil", "LimitedRegion.Start")
	End := c.P.Fn("internal/syncutil", "LimitedRegion.End")
	New := c.P.Fn("internal/syncutil", "LimitRegion")
	LR := c.P.Named("internal/syncutil", "LimitedRegion")
	if Start == nil || End == nil || New == nil || LR == nil {
		c.LostAnchor(R, "~/internal/syncutil.LimitedRegion.{Start,End} / LimitRegion")
		return
	}
	// the state: the region's only bool field, whatever it is called; its polarity ("holds a permit" <=> field == held)
	// is the constant Start stores after acquiring
	var state *types.Var
	if st, ok := LR.Underlying().(*types.Struct); ok {
		for i := 0; i < st.NumFields(); i++ {
			if b, isB := st.Field(i).Type().Underlying().(*types.Basic); isB && b.Kind() == types.Bool {
				if state != nil {
					c.Undecided(R, "~/internal/syncutil.LimitedRegion|state-field", Start.Pos(), "LimitedRegion has several bool fields; which one records the permit cannot be told")
					return
				}
				state = st.Field(i)
			}
		}
	}
	if state == nil {
		c.Undecided(R, "~/internal/syncutil.LimitedRegion|state-field", Start.Pos(), "LimitedRegion has no bool field recording whether it holds a permit")
		return
	}
	held, heldKnown := false, false
	for _, st := range c04FieldStores(Start, state) {
		if k, ok := st.Val.(*ssa.Const); ok && k.Value != nil {
			if heldKnown && held != boolConst(k) {
				c.Undecided(R, FnName(Start)+"|state-polarity", st.Pos(), "Start stores both values into the state field")
				return
			}
			held, heldKnown = boolConst(k), true
		}
	}
	if !heldKnown {
		c.Violation(R, FnName(Start)+"|successful-acquire-marks-held", Start.Pos(), "Start never records that the region now holds a permit: End would not release it")
		return
	}
	// edges on which the region holds / does not hold a permit
	// predicates on the state: module functions whose result is the state field or its negation (paths taken only
	// for a nil receiver aside), e.g. `func (lr *LimitedRegion) active() bool { return lr == nil || !lr.ended }`
	statePred := map[*ssa.Function]bool{} // fn -> result == state (true) / == !state (false)
	for _, g := range c.P.FuncsOfPkg("internal/syncutil") {
		if g == Start || g == End || g.Signature.Results().Len() != 1 || len(g.Params) == 0 {
			continue
		}
		if b, ok := g.Signature.Results().At(0).Type().Underlying().(*types.Basic); !ok || b.Kind() != types.Bool {
			continue
		}
		nilE, _, _ := NilTests(g, Aliases(g.Params[0]))
		pol, known, okP := false, false, true
		for _, a := range RetAtoms(g, 0) {
			if len(nilE) > 0 && AtomMustPass(a, newCut().Edges(nilE...)) {
				continue // nil receiver
			}
			v, neg := a.Val, false
			for {
				u, isNot := v.(*ssa.UnOp)
				if !isNot || u.Op != token.NOT {
					break
				}
				v, neg = u.X, !neg
			}
			if !c01IsFieldValue(v, state) {
				okP = false
				break
			}
			if known && pol != !neg {
				okP = false
				break
			}
			pol, known = !neg, true
		}
		if okP && known {
			statePred[g] = pol
		}
	}
	edges := func(fn *ssa.Function) (heldE, freeE []Edge) {
		t, f := BoolTests(fn, c04FieldValues(fn, state))
		for _, i := range Ifs(fn) {
			cond, te, fe := ifEdges(i)
			call, isCall := cond.(*ssa.Call)
			if !isCall {
				continue
			}
			if pol, isPred := statePred[StaticCallee(call)]; isPred && len(call.Call.Args) > 0 && c01ParamOf(call.Call.Args[0]) != nil {
				if pol {
					t, f = append(t, te), append(f, fe)
				} else {
					t, f = append(t, fe), append(f, te)
				}
			}
		}
		if held {
			return t, f
		}
		return f, t
	}
	// End
	{
		en := FnName(End)
		heldE, _ := edges(End)
		rels := CallsTo(End, nRelease)
		setFree, other := c04BoolStores(c04FieldStores(End, state), !held)
		ok := len(rels) > 0 && len(heldE) > 0
		for _, r := range rels {
			if !MustPass(r.(ssa.Instruction), newCut().Edges(heldE...)) {
				ok = false
			}
			if k, isK := constInt(r.Common().Args[len(r.Common().Args)-1]); !isK || k != 1 {
				ok = false
			}
		}
		c.Check(R, en+"|release-only-while-held", End.Pos(), ok,
			ifelse(ok, "Release(1) runs only on the edge where the region holds a permit", "End can release a permit the region does not hold (double release raises the concurrency bound)"))
		ok = len(setFree) > 0 && other == 0
		for _, r := range rels {
			for _, ret := range Returns(End) {
				if Reachable(r.(ssa.Instruction), ret) && !MustPassBetween(r.(ssa.Instruction), ret, newCut().Instr(setFree...)) {
					ok = false
				}
			}
		}
		c.Check(R, en+"|release-marks-ended", End.Pos(), ok,
			ifelse(ok, "after Release the region is marked as not holding on every path", "after Release the region may still look held: a later End releases again"))
		ok = true
		for _, s := range setFree {
			if !MustPass(s, newCut().Calls(rels)) {
				ok = false
			}
		}
		c.Check(R, en+"|ended-only-after-release", End.Pos(), ok,
			ifelse(ok, "the region is marked as not holding only after releasing", "the region can be marked as not holding without releasing its permit (the permit leaks; copies starve)"))
	}
	// Start
	{
		sn := FnName(Start)
		_, freeE := edges(Start)
		acqs := CallsTo(Start, nAcquire)
		setHeld, other := c04BoolStores(c04FieldStores(Start, state), held)
		ok := len(acqs) > 0 && len(freeE) > 0
		var nilE []Edge
		for _, a := range acqs {
			if !MustPass(a.(ssa.Instruction), newCut().Edges(freeE...)) {
				ok = false
			}
			if k, isK := constInt(a.Common().Args[len(a.Common().Args)-1]); !isK || k != 1 {
				ok = false
			}
			if e := ErrOf(a); e != nil {
				ne, _, _ := NilTests(Start, Aliases(e))
				nilE = append(nilE, ne...)
			}
		}
		c.Check(R, sn+"|acquire-only-while-ended", Start.Pos(), ok,
			ifelse(ok, "Acquire(1) runs only on the edge where the region holds no permit", "Start can acquire a second permit while already holding one (the permit leaks; the bound shrinks to deadlock)"))
		for _, a := range acqs {
			r := ErrFlow(a, ErrFlowOpts{})
			c.Check(R, sn+"|acquire-error-returned", a.Pos(), r.OK, r.How+r.Detail)
		}
		ok = len(setHeld) > 0 && other == 0 && len(nilE) > 0
		for _, s := range setHeld {
			if !MustPass(s, newCut().Edges(nilE...)) {
				ok = false
			}
		}
		c.Check(R, sn+"|held-only-after-successful-acquire", Start.Pos(), ok,
			ifelse(ok, "the region is marked held only on the edge where Acquire succeeded", "the region can be marked held although Acquire failed or was not called: End then releases a permit that was never taken"))
		ok = len(nilE) > 0
		for _, e := range nilE {
			for _, ret := range Returns(Start) {
				if reach(e.To, 0, ret, newCut().Instr(setHeld...)) {
					ok = false
				}
			}
		}
		c.Check(R, sn+"|successful-acquire-marks-held", Start.Pos(), ok,
			ifelse(ok, "after a successful Acquire the region is marked held on every path", "after a successful Acquire the region may still look released: its permit is never released"))
	}
	// initial state: not holding (an omitted field is false)
	{
		ss := c04FieldStores(New, state)
		free, other := c04BoolStores(ss, !held)
		ok := other == 0 && (len(free) > 0 || (len(ss) == 0 && held))
		c.Check(R, FnName(New)+"|starts-released", New.Pos(), ok,
			ifelse(ok, "a new region starts without a permit", "a new region starts as if it held a permit: Start never acquires and the limiter bounds nothing"))
	}
}

// ---------- R2 ----------

func c04R2(c *Ctx) {
	const R = "C04.R2.single-owner"
	c.Expect(R, 5)
	c04ClaimMapAppendOnly(c, R)
	TC := c.P.Fn("internal/status", "Tracker.TryCommit")
	if TC == nil {
		c.LostAnchor(R, nTryCommit)
		return
	}
	tn := FnName(TC)
	los := CallsTo(TC, "(*sync.Map).LoadOrStore")
	mapCalls := Calls(TC, func(n string) bool { return strings.HasPrefix(n, "(*sync.Map).") })
	if len(los) != 1 {
		hasLock := len(Calls(TC, func(n string) bool { return strings.HasSuffix(n, "Mutex).Lock") })) > 0
		c.Undecided(R, tn+"|atomic-claim", TC.Pos(), fmt.Sprintf("TryCommit does not use exactly one sync.Map.LoadOrStore (found %d; mutex present: %v): the claim's atomicity has to be re-confirmed", len(los), hasLock))
	} else {
		lo := los[0]
		// besides the one LoadOrStore only a Load of the same key may precede it as a fast path: with an append-only claim
		// map (checked above) a hit returns exactly what LoadOrStore would — the stored channel and committed == false
		ok := true
		var hitT []Edge
		hitVals := map[ssa.Value]bool{}
		for _, mc := range mapCalls {
			if mc == lo {
				continue
			}
			if CalleeName(mc) != "(*sync.Map).Load" || !c01SameStrip(mc.Common().Args[1], lo.Common().Args[1]) {
				ok = false
				continue
			}
			if hv := ResultOf(mc, 1); hv != nil {
				t, _ := BoolTests(TC, Aliases(hv))
				hitT = append(hitT, t...)
			}
			if v0 := ResultOf(mc, 0); v0 != nil {
				hitVals[v0] = true
			}
		}
		loadedV := ResultOf(lo, 1)
		var loadedT, loadedF []Edge
		if loadedV != nil {
			loadedT, loadedF = BoolTests(TC, Aliases(loadedV))
		}
		for _, a := range RetAtoms(TC, 1) {
			// committed == !loaded: the negation itself, or a constant on the matching side of a test of `loaded`
			if not, isNot := a.Val.(*ssa.UnOp); isNot && not.Op == token.NOT {
				if ex, isEx := not.X.(*ssa.Extract); isEx && ex.Tuple == lo.Value() && ex.Index == 1 {
					continue
				}
			}
			if k, isK := a.Val.(*ssa.Const); isK && k.Value != nil && loadedV != nil {
				if boolConst(k) && len(loadedF) > 0 && AtomMustPass(a, newCut().Edges(loadedF...)) {
					continue
				}
				if !boolConst(k) && len(loadedT) > 0 && AtomMustPass(a, newCut().Edges(loadedT...)) {
					continue
				}
				if !boolConst(k) && len(hitT) > 0 && AtomMustPass(a, newCut().Edges(hitT...)) {
					continue // fast path: already claimed
				}
			}
			ok = false
		}
		c.Check(R, tn+"|atomic-claim", lo.Pos(), ok,
			ifelse(ok, "committed = !loaded of the only sync.Map operation, one atomic LoadOrStore", "committed is not the negated `loaded` of a single LoadOrStore: two goroutines can both believe they own the node (double transfer)"))
		ok = true
		offered := strip(lo.Common().Args[len(lo.Common().Args)-1])
		for _, a := range RetAtoms(TC, 0) {
			if c01Slice(a.Val, func(x ssa.Value) bool {
				ex, isEx := x.(*ssa.Extract)
				return isEx && ex.Tuple == lo.Value() && ex.Index == 0
			}) {
				continue
			}
			if len(hitT) > 0 && AtomMustPass(a, newCut().Edges(hitT...)) && c01Slice(a.Val, func(x ssa.Value) bool { return hitVals[x] }) {
				continue // fast path: the channel found by Load
			}
			// the channel offered to LoadOrStore is the stored one exactly when nothing was loaded
			if strip(a.Val) == offered && len(loadedF) > 0 && AtomMustPass(a, newCut().Edges(loadedF...)) {
				continue
			}
			ok = false
		}
		c.Check(R, tn+"|channel-is-the-stored-one", lo.Pos(), ok, ifelse(ok, "the returned channel is the value LoadOrStore reports (the winner's channel)", "the returned channel may differ from the one stored in the tracker: waiters and the owner would use different channels"))
	}
	// claim sites
	n := 0
	for _, F := range c01ModuleFuncs(c.P) {
		for _, tc := range CallsTo(F, nTryCommit) {
			prm := c01ParamOf(tc.Common().Args[len(tc.Common().Args)-1])
			if prm == nil || prm.Parent() != F {
				continue // waiting on a successor's channel, not claiming
			}
			n++
			key := c01OuterName(F) + "$claim|effects-only-when-committed"
			committed := ResultOf(tc, 1)
			if committed == nil {
				c.Violation(R, key, tc.Pos(), "the `committed` result of TryCommit(node) is discarded: the node is processed by every goroutine that reaches it")
				continue
			}
			te, _ := BoolTests(F, Aliases(committed))
			bad := ""
			for _, call := range Calls(F, func(string) bool { return true }) {
				if call == tc || !c04IsEffect(call) {
					continue
				}
				if !MustPass(call.(ssa.Instruction), newCut().Edges(te...)) {
					bad = CalleeName(call)
				}
			}
			c.Check(R, key, tc.Pos(), bad == "" && len(te) > 0,
				ifelse(bad == "" && len(te) > 0, "every storage effect, callback, dispatch and repository call of the traversal is dominated by the committed==true edge",
					"a goroutine that did not win TryCommit can still reach "+bad+": the node may be fetched/pushed more than once"))
		}
	}
	if n == 0 {
		c.LostAnchor(R, "a traversal claiming its node with TryCommit(param)")
	}
}

// c04ClaimMapAppendOnly: the tracker's claim map (its sync.Map field, or a module wrapper type around a sync.Map) only
// ever grows during a copy call: anywhere in the module only Load / LoadOrStore / Range are applied to it, and the field is
// never replaced.  Deleting or overwriting an entry lets a second goroutine win TryCommit for a node that was already
// claimed, i.e. the node is transferred twice.
func c04ClaimMapAppendOnly(c *Ctx, R string) {
	TR := c.P.Named("internal/status", "Tracker")
	if TR == nil {
		c.LostAnchor(R, "~/internal/status.Tracker")
		return
	}
	isSyncMap := func(t types.Type) bool {
		n, ok := t.(*types.Named)
		return ok && n.Obj().Pkg() != nil && n.Obj().Pkg().Path() == "sync" && n.Obj().Name() == "Map"
	}
	st, _ := TR.Underlying().(*types.Struct)
	var claim *types.Var    // the Tracker field holding the claims
	var inner *types.Var    // for a wrapper type: its sync.Map field
	var wrapper *types.Named
	for i := 0; st != nil && i < st.NumFields(); i++ {
		ft := derefType(st.Field(i).Type())
		if isSyncMap(ft) {
			claim = st.Field(i)
			continue
		}
		if n, ok := ft.(*types.Named); ok && n.Obj().Pkg() != nil && strings.HasPrefix(n.Obj().Pkg().Path(), Mod) {
			if isSyncMap(n.Underlying()) {
				claim, wrapper = st.Field(i), n
			} else if ws, isStruct := n.Underlying().(*types.Struct); isStruct {
				for j := 0; j < ws.NumFields(); j++ {
					if isSyncMap(derefType(ws.Field(j).Type())) {
						claim, wrapper, inner = st.Field(i), n, ws.Field(j)
					}
				}
			}
		}
	}
	if claim == nil {
		c.Undecided(R, "~/internal/status.Tracker|claim-map-append-only", token.NoPos, "the tracker has no sync.Map (or module wrapper of one) field: the claim store is not the confirmed kind")
		return
	}
	allowed := map[string]bool{"Load": true, "LoadOrStore": true, "Range": true}
	opOf := func(call ssa.CallInstruction) string {
		n := CalleeName(call)
		if !strings.HasPrefix(n, "(*sync.Map).") {
			return ""
		}
		return strings.TrimPrefix(n, "(*sync.Map).")
	}
	// the disallowed operations a wrapper method applies to its inner map (transitively through the wrapper's methods)
	badOps := map[*ssa.Function][]string{}
	if wrapper != nil {
		for _, f := range c01ModuleFuncs(c.P) {
			if f.Signature.Recv() == nil || derefType(f.Signature.Recv().Type()) == nil {
				continue
			}
			rn, _ := derefType(f.Signature.Recv().Type()).(*types.Named)
			if rn == nil || rn.Origin() != wrapper.Origin() {
				continue
			}
			for _, call := range Calls(f, func(string) bool { return true }) {
				if op := opOf(call); op != "" && !allowed[op] {
					_ = inner
					badOps[f] = append(badOps[f], op)
				}
			}
		}
		for changed := true; changed; {
			changed = false
			for f := range badOps {
				_ = f
			}
			for _, f := range c01ModuleFuncs(c.P) {
				if len(badOps[f]) > 0 || f.Signature.Recv() == nil {
					continue
				}
				for _, call := range Calls(f, func(string) bool { return true }) {
					if g := StaticCallee(call); g != nil && len(badOps[g]) > 0 && len(call.Common().Args) > 0 && c01ParamOf(call.Common().Args[0]) != nil {
						badOps[f] = append(badOps[f], badOps[g]...)
						changed = true
						break
					}
				}
			}
		}
	}
	onClaim := func(v ssa.Value) bool { // v is the address (or value) of the Tracker's claim field
		for _, r := range Roots(v) {
			if p, ok := c01AddrPath(r); ok && p.last() == claim {
				return true
			}
			if p, ok := c01ValuePath(r); ok && p.last() == claim {
				return true
			}
		}
		return false
	}
	bad, pos := "", token.NoPos
	for _, f := range c01ModuleFuncs(c.P) {
		AllInstrs(f, func(in ssa.Instruction) {
			switch x := in.(type) {
			case *ssa.Store:
				if p, ok := c01AddrPath(x.Addr); ok && p.last() == claim && bad == "" {
					bad, pos = FnName(f)+" replaces the claim map", x.Pos()
				}
			case ssa.CallInstruction:
				args := x.Common().Args
				if len(args) == 0 || !onClaim(args[0]) {
					return
				}
				if op := opOf(x); op != "" && !allowed[op] && bad == "" {
					bad, pos = FnName(f)+" applies sync.Map."+op+" to the claim map", x.Pos()
				}
				if g := StaticCallee(x); g != nil && len(badOps[g]) > 0 && bad == "" {
					bad, pos = FnName(f)+" calls "+FnName(g)+" (sync.Map."+badOps[g][0]+") on the claim map", x.Pos()
				}
			}
		})
	}
	c.Check(R, "~/internal/status.Tracker|claim-map-append-only", pos, bad == "",
		ifelse(bad == "", "only Load / LoadOrStore / Range are ever applied to the tracker's claim map, and it is never replaced",
			bad+": a claimed node can be claimed again during the same copy call, so it is transferred (PreCopy, Fetch, Push) twice"))
}

// c04IsEffect: calls that touch storage, user callbacks, dispatch, or other
// repository code (as opposed to context/fmt/errors plumbing).
func c04IsEffect(call ssa.CallInstruction) bool {
	n := CalleeName(call)
	if n == nTryCommit {
		return false
	}
	if isPushEffect(call) || strings.HasPrefix(n, "field:") || strings.HasPrefix(n, "dyn:") ||
		strings.HasSuffix(n, ").Exists") || strings.HasSuffix(n, ").Fetch") || strings.HasSuffix(n, ").FetchCached") {
		return true
	}
	if g := StaticCallee(call); g != nil && inModule(g) {
		return true
	}
	return false
}

// ---------- R3 ----------

func c04R3(c *Ctx) {
	const R = "C04.R3.limiter-per-call"
	c.Expect(R, 2) // one creation point (both copy entry points may share a constructor) + the traversal's dispatch
	conc := c01FieldOf(c.P, "", "CopyGraphOptions", "Concurrency")
	if conc == nil {
		c.LostAnchor(R, "~.CopyGraphOptions.Concurrency")
		return
	}
	// positive(F, x-values): program points / edges after which a value in vals is known to be >= 1
	positiveCut := func(F *ssa.Function, vals map[ssa.Value]bool, stores []*ssa.Store) *cut {
		positive := newCut()
		for _, i := range Ifs(F) {
			cond, t, f := ifEdges(i)
			bo, ok := cond.(*ssa.BinOp)
			if !ok || !vals[bo.X] {
				continue
			}
			k, ok := constInt(bo.Y)
			if !ok {
				continue
			}
			switch {
			case bo.Op == token.LEQ && k == 0, bo.Op == token.LSS && k == 1:
				positive.Edges(f)
			case bo.Op == token.GTR && k == 0, bo.Op == token.GEQ && k == 1:
				positive.Edges(t)
			}
		}
		for _, s := range stores {
			if c04CertainPositive(s.Val, 0) {
				positive.Instr(s)
			}
		}
		return positive
	}
	// a limiter helper: returns the semaphore it creates, sized by one of its parameters (newCopyLimiter(concurrency))
	// hp >= 0: sized by parameter #hp; hp == -2: a helper sized by the Concurrency option it reaches itself
	// (method on the options); hp == -1: not a limiter helper
	helperParam := func(h *ssa.Function) (int, ssa.CallInstruction) {
		if h.Parent() != nil || h.Signature.Results().Len() != 1 || !strings.HasSuffix(h.Signature.Results().At(0).Type().String(), "semaphore.Weighted") {
			return -1, nil
		}
		sems := CallsTo(h, nNewSem)
		if len(sems) != 1 {
			return -1, nil
		}
		if c01Slice(sems[0].Common().Args[0], func(x ssa.Value) bool { return c01IsFieldValue(x, conc) }) {
			return -2, sems[0]
		}
		for i, prm := range h.Params {
			if b, isInt := prm.Type().Underlying().(*types.Basic); isInt && b.Info()&types.IsInteger != 0 {
				if c01Slice(sems[0].Common().Args[0], func(x ssa.Value) bool { return x == ssa.Value(prm) }) {
					return i, sems[0]
				}
			}
		}
		return -1, nil
	}
	type creation struct {
		F     *ssa.Function       // where the limiter comes into being for a copy call
		call  ssa.CallInstruction // NewWeighted, or the call of the limiter helper
		size  ssa.Value           // the size expression in F
		inner ssa.CallInstruction // NewWeighted inside the helper (nil when direct)
		h     *ssa.Function
		hp    int
	}
	var points []creation
	for _, F := range c.P.FuncsOfPkg("") {
		if hp, _ := helperParam(F); hp != -1 {
			continue // its call sites are the creation points
		}
		for _, call := range CallsTo(F, nNewSem) {
			points = append(points, creation{F: F, call: call, size: call.Common().Args[0]})
		}
		for _, call := range Calls(F, func(string) bool { return true }) {
			if h := StaticCallee(call); h != nil && inModule(h) && len(h.Blocks) > 0 {
				if hp, inner := helperParam(h); hp >= 0 && hp < len(call.Common().Args) {
					points = append(points, creation{F: F, call: call, size: call.Common().Args[hp], inner: inner, h: h, hp: hp})
				} else if hp == -2 {
					points = append(points, creation{F: F, call: call, size: inner.Common().Args[0], inner: inner, h: h, hp: hp})
				}
			}
		}
	}
	for _, pt := range points {
		F, call := pt.F, pt.call
		key := c01ClosureKey(F, "closure") + "|limiter-created-once-sized-by-Concurrency"
		why := ""
		if F.Parent() != nil {
			why = "the semaphore is created inside a closure (per node / per root) instead of once per copy call"
		}
		if Reachable(call.(ssa.Instruction), call.(ssa.Instruction)) {
			why = "the semaphore is created inside a loop"
		}
		if !c01Slice(pt.size, func(x ssa.Value) bool { return c01IsFieldValue(x, conc) }) {
			why = "the semaphore's size does not derive from opts.Concurrency"
		}
		// defaulting: a positive test edge or a store of a positive constant precedes — in F on the option field,
		// or inside the helper on its parameter
		okPos := MustPass(call.(ssa.Instruction), positiveCut(F, c04FieldValues(F, conc), c04FieldStores(F, conc)))
		if !okPos && pt.h == nil {
			// the size goes through a local: every alternative is a positive constant or a value tested positive
			okPos = true
			for _, alt := range c03Alternatives(strip(pt.size)) {
				v := strip(alt.Val)
				if k, isK := constInt(v); isK && k >= 1 {
					continue
				}
				vals := Aliases(v)
				if c01IsFieldValue(v, conc) {
					for fvv := range c04FieldValues(F, conc) {
						vals[fvv] = true
					}
				}
				pc := positiveCut(F, vals, c04FieldStores(F, conc))
				guarded := MustPass(call.(ssa.Instruction), pc)
				for _, e := range alt.Edges {
					if c01MustPassEdge(e, pc) {
						guarded = true
					}
				}
				if !guarded {
					okPos = false
				}
			}
		}
		if !okPos && pt.h != nil && pt.hp == -2 {
			okPos = MustPass(pt.inner.(ssa.Instruction), positiveCut(pt.h, c04FieldValues(pt.h, conc), c04FieldStores(pt.h, conc)))
		}
		if !okPos && pt.h != nil && pt.hp >= 0 {
			prm := pt.h.Params[pt.hp]
			pc := positiveCut(pt.h, Aliases(prm), nil)
			okPos = true
			for _, alt := range c03Alternatives(strip(pt.inner.Common().Args[0])) {
				v := strip(alt.Val)
				if k, isK := constInt(v); isK && k >= 1 {
					continue
				}
				guarded := MustPass(pt.inner.(ssa.Instruction), pc)
				for _, e := range alt.Edges {
					if c01MustPassEdge(e, pc) {
						guarded = true
					}
				}
				if !guarded {
					okPos = false
				}
			}
		}
		if why == "" && !okPos {
			why = "a non-positive Concurrency reaches semaphore.NewWeighted without being replaced by the default (a zero-weight semaphore blocks every copy)"
			for _, st := range c04FieldStores(F, conc) {
				if mx, isCall := strip(st.Val).(*ssa.Call); isCall && CalleeName(mx) == "builtin:max" {
					why = "the size is max(Concurrency, k): a positive Concurrency below k is raised to k, so more than Concurrency copy tasks run at once (max is not a default for non-positive values)"
				}
			}
		}
		// with a limiter parameter: only when none was handed in
		for _, p := range F.Params {
			if strings.HasSuffix(p.Type().String(), "semaphore.Weighted") {
				vals := Aliases(p)
				// the parameter may be parked in a field of a state struct and tested there
				AllInstrs(F, func(in ssa.Instruction) {
					st, isStore := in.(*ssa.Store)
					if !isStore || !vals[st.Val] {
						return
					}
					if fa, isFA := st.Addr.(*ssa.FieldAddr); isFA {
						AllInstrs(F, func(in2 ssa.Instruction) {
							if ld, isLoad := in2.(*ssa.UnOp); isLoad && ld.Op == token.MUL {
								if fa2, ok := ld.X.(*ssa.FieldAddr); ok && fa2.X == fa.X && fa2.Field == fa.Field {
									vals[ld] = true
								}
							}
						})
					}
				})
				nilE, _, _ := NilTests(F, vals)
				if why == "" && (len(nilE) == 0 || !MustPass(call.(ssa.Instruction), newCut().Edges(nilE...))) {
					why = "a limiter handed in by the caller is replaced by a fresh one (the roots of an extended copy would not share the bound)"
				}
			}
		}
		c.Check(R, key, call.Pos(), why == "", ifelse(why == "", "created once, outside closures and loops, sized by the defaulted opts.Concurrency", why))
	}
	if len(points) == 0 {
		c.LostAnchor(R, "creation of the semaphore (semaphore.NewWeighted, directly or through a helper) in package ~")
	}
	graphFns := c01GraphCopyFns(c.P)
	for _, tr := range c01Traversals(c.P) {
		T := tr.Body
		key := c01ClosureKey(T, "traverse") + "|dispatch-uses-shared-limiter"
		ok := len(CallsTo(T, nNewSem)) == 0
		why := "the traversal creates its own semaphore"
		// the limiters the graph copy dispatches the traversal with
		var initial []ssa.Value
		for g := range graphFns {
			for _, d := range c01DispatchCalls(g, tr.Entry) {
				initial = append(initial, d.Limiter)
			}
		}
		var limArgs []ssa.Value
		for _, d := range c01DispatchCalls(T, tr.Entry) {
			// a dispatching helper receives the limiter as a parameter: judged at the call handing it over
			if holder := d.GoCall.Parent(); holder != T {
				if prm := c01ParamOf(d.Limiter); prm != nil && prm.Parent() == holder {
					mapped := false
					for k, q := range holder.Params {
						if q == prm && k < len(d.Call.Common().Args) && StaticCallee(d.Call) == holder {
							limArgs = append(limArgs, d.Call.Common().Args[k])
							mapped = true
						}
					}
					if mapped {
						continue
					}
				}
			}
			limArgs = append(limArgs, d.Limiter)
		}
		for _, arg := range limArgs {
			srcs, carried := c01CarriedSources(c.P, arg)
			if !carried {
				ok, why = false, "the traversal dispatches successors with a limiter that is not state carried from the enclosing copy call"
				continue
			}
			// the initial dispatch reads the very same carrier field: same state
			sameCarrier := false
			if ap, isPath := c01ValuePath(strip(arg)); isPath && len(ap.Vars) > 0 {
				for _, iv := range initial {
					if ip, ok := c01ValuePath(strip(iv)); ok && len(ip.Vars) > 0 && ip.last() == ap.last() {
						sameCarrier = true
					}
				}
			}
			if sameCarrier {
				continue
			}
			// every value the carrier can hold is (one of) the value(s) the initial dispatch used
			for _, sv := range srcs {
				match := false
				for _, iv := range initial {
					if c01SameStrip(sv, iv) {
						match = true
						continue
					}
					in := map[ssa.Value]bool{}
					for _, r := range Roots(iv) {
						in[r] = true
					}
					all := true
					for _, r := range Roots(sv) {
						if !in[r] {
							all = false
						}
					}
					if all {
						match = true
					}
				}
				if !match {
					ok, why = false, "the limiter the traversal dispatches successors with is not the one the copy call started the traversal with"
				}
			}
		}
		c.Check(R, key, T.Pos(), ok && len(initial) > 0, ifelse(ok, "successors are dispatched with the limiter the enclosing copy call started the traversal with", why))
	}
}

// c04CertainPositive: v is >= 1 whatever the inputs: a positive constant, or the
// result of a module function (positiveOr(v, def)) each of whose results is a
// positive constant, a parameter returned under a positive test of it, or a
// parameter whose argument at this call is itself certainly positive.
func c04CertainPositive(v ssa.Value, depth int) bool { return c04Positive(v, nil, depth, true) }

// c04Positive: v >= 1 (strict) or v >= 0 (!strict) whatever the inputs.  bind maps the parameters of the helper being
// summarised to the arguments at the call under consideration.
func c04Positive(v ssa.Value, bind map[*ssa.Parameter]ssa.Value, depth int, strict bool) bool {
	v = strip(v)
	if depth > 4 {
		return false
	}
	if k, ok := constInt(v); ok {
		return k >= 1 || (!strict && k >= 0)
	}
	if prm, isParam := v.(*ssa.Parameter); isParam {
		if a, ok := bind[prm]; ok {
			return c04Positive(a, nil, depth+1, strict)
		}
		return false
	}
	call, ok := v.(*ssa.Call)
	if !ok {
		return false
	}
	switch CalleeName(call) {
	case "builtin:max":
		// max(x, c): at least the largest constant operand.  As the final size this is only a clamp at zero inside
		// cmp.Or (non-strict use); max(x, k>=1) would also raise a positive x below k, which is not a default.
		if strict {
			return false
		}
		for _, a := range call.Call.Args {
			if c04Positive(a, bind, depth+1, strict) {
				return true
			}
		}
		return false
	case "cmp.Or":
		// first non-zero operand: positive when every operand is >= 0 and the last one is >= 1
		if len(call.Call.Args) != 1 {
			return false
		}
		sl, isSl := call.Call.Args[0].(*ssa.Slice)
		if !isSl {
			return false
		}
		arr, isArr := sl.X.(*ssa.Alloc)
		if !isArr {
			return false
		}
		elems := map[int64]ssa.Value{}
		for _, r := range *arr.Referrers() {
			if ia, isIA := r.(*ssa.IndexAddr); isIA {
				if k, isK := constInt(ia.Index); isK {
					for _, r2 := range *ia.Referrers() {
						if st, isSt := r2.(*ssa.Store); isSt && st.Addr == ssa.Value(ia) {
							elems[k] = st.Val
						}
					}
				}
			}
		}
		n := int64(len(elems))
		if n == 0 {
			return false
		}
		for k := int64(0); k < n; k++ {
			e, okE := elems[k]
			if !okE || !c04Positive(e, bind, depth+1, false) {
				return false
			}
		}
		return !strict || c04Positive(elems[n-1], bind, depth+1, true)
	}
	h := StaticCallee(call)
	if h == nil || !inModule(h) || len(h.Blocks) == 0 || h.Signature.Results().Len() != 1 {
		return false
	}
	atoms := RetAtoms(h, 0)
	if len(atoms) == 0 {
		return false
	}
	hb := map[*ssa.Parameter]ssa.Value{}
	for i, q := range h.Params {
		if i < len(call.Call.Args) {
			a := call.Call.Args[i]
			if pa, isP := strip(a).(*ssa.Parameter); isP && bind != nil {
				if b, okB := bind[pa]; okB {
					a = b
				}
			}
			hb[q] = a
		}
	}
	for _, a := range atoms {
		av := strip(a.Val)
		if prm, isParam := av.(*ssa.Parameter); isParam && strict {
			// returned under a positive test of the parameter?
			pos := newCut()
			for _, i := range Ifs(h) {
				cond, t, f := ifEdges(i)
				bo, isBo := cond.(*ssa.BinOp)
				if !isBo || strip(bo.X) != ssa.Value(prm) {
					continue
				}
				k, isK := constInt(bo.Y)
				if !isK {
					continue
				}
				switch {
				case bo.Op == token.LEQ && k == 0, bo.Op == token.LSS && k == 1:
					pos.Edges(f)
				case bo.Op == token.GTR && k == 0, bo.Op == token.GEQ && k == 1:
					pos.Edges(t)
				}
			}
			if len(pos.edges) > 0 && AtomMustPass(a, pos) {
				continue
			}
		}
		// a field read returned under a positive test of that same field (EffectiveConcurrency())
		if ap, isPath := c01ValuePath(av); isPath && len(ap.Vars) > 0 && strict {
			pos := newCut()
			for _, i := range Ifs(h) {
				cond, t, f := ifEdges(i)
				bo, isBo := cond.(*ssa.BinOp)
				if !isBo {
					continue
				}
				xp, okX := c01ValuePath(strip(bo.X))
				if !okX || xp.Base != ap.Base || len(xp.Vars) != len(ap.Vars) || xp.last() != ap.last() {
					continue
				}
				k, isK := constInt(bo.Y)
				if !isK {
					continue
				}
				switch {
				case bo.Op == token.LEQ && k == 0, bo.Op == token.LSS && k == 1:
					pos.Edges(f)
				case bo.Op == token.GTR && k == 0, bo.Op == token.GEQ && k == 1:
					pos.Edges(t)
				}
			}
			// the field must not be written in the helper
			written := false
			AllInstrs(h, func(in ssa.Instruction) {
				if st, isSt := in.(*ssa.Store); isSt {
					if sp, okS := c01AddrPath(st.Addr); okS && sp.last() == ap.last() {
						written = true
					}
				}
			})
			if !written && len(pos.edges) > 0 && AtomMustPass(a, pos) {
				continue
			}
		}
		if !c04Positive(av, hb, depth+1, strict) {
			return false
		}
	}
	return true
}

// ---------- R4 ----------

const (
	nPre     = "field:~.CopyGraphOptions.PreCopy"
	nPost    = "field:~.CopyGraphOptions.PostCopy"
	nSkipped = "field:~.CopyGraphOptions.OnCopySkipped"
	nMounted = "field:~.CopyGraphOptions.OnMounted"
	nMountFr = "field:~.CopyGraphOptions.MountFrom"
	nFetch   = "(~/content.Fetcher).Fetch"
	nPush    = "(~/content.Pusher).Push"
	nMount   = "(~/registry.Mounter).Mount"
)

// c04Closures: the function values created in f (and its closures): closure literals and bound method values.
func c04Closures(f *ssa.Function) []*ssa.Function {
	seen := map[*ssa.Function]bool{}
	var out []*ssa.Function
	var scan func(g *ssa.Function)
	scan = func(g *ssa.Function) {
		AllInstrs(g, func(in ssa.Instruction) {
			if mc, ok := in.(*ssa.MakeClosure); ok {
				if fn := mc.Fn.(*ssa.Function); !seen[fn] {
					seen[fn] = true
					out = append(out, fn)
					if fn.Synthetic == "" {
						scan(fn)
					}
				}
			}
		})
	}
	scan(f)
	for _, a := range Anons(f) {
		if !seen[a] {
			seen[a] = true
			out = append(out, a)
		}
	}
	return out
}

// c04IIFESites: calls in f of a function literal defined in f (immediately invoked, or via a local) whose body
// contains exactly one call of `name`.
func c04IIFESites(f *ssa.Function, name string) []ssa.CallInstruction {
	var out []ssa.CallInstruction
	for _, call := range Calls(f, func(string) bool { return true }) {
		if _, isDefer := call.(*ssa.Defer); isDefer {
			continue
		}
		g := StaticCallee(call)
		if g == nil || g.Parent() != f {
			continue
		}
		if len(CallsTo(g, name)) == 1 {
			out = append(out, call)
		}
	}
	return out
}

func c04Instrs(cs []ssa.CallInstruction) []ssa.Instruction {
	var out []ssa.Instruction
	for _, x := range cs {
		out = append(out, x.(ssa.Instruction))
	}
	return out
}

func c04AnyReach(from, to []ssa.Instruction) (ssa.Instruction, ssa.Instruction) {
	for _, a := range from {
		for _, b := range to {
			if Reachable(a, b) {
				return a, b
			}
		}
	}
	return nil, nil
}

// c04NilEdgesOfField: edges where the callback field fv is nil.
func c04NilEdgesOfField(fn *ssa.Function, fv *types.Var) []Edge {
	ne, _, _ := NilTests(fn, c01CallbackValues(fn, fv))
	return ne
}

// c04Unchanged: the error of call is returned as is on every failure path
// (except along tolerated sentinel edges).
func c04Unchanged(call ssa.CallInstruction, tolerated []string) (bool, string) {
	fn := call.Parent()
	e := ErrOf(call)
	if e == nil {
		return false, "the callback's error is discarded"
	}
	aliases := Aliases(e)
	errIdx := ErrResultIndex(fn.Signature)
	if errIdx < 0 {
		return false, "enclosing function returns no error"
	}
	_, nonNil, ifs := NilTests(fn, aliases)
	if len(ifs) == 0 {
		for _, a := range RetAtoms(fn, errIdx) {
			if aliases[a.Val] {
				return true, "returned directly"
			}
		}
		return false, "the callback's error is neither tested nor returned"
	}
	tol := newCut().Edges(toleratedEdges(fn, aliases, tolerated)...)
	tol.Instr(call.(ssa.Instruction))
	type st struct{ b, p *ssa.BasicBlock }
	seen := map[st]bool{}
	bad := ""
	var walk func(b, p *ssa.BasicBlock)
	walk = func(b, p *ssa.BasicBlock) {
		if bad != "" || seen[st{b, p}] {
			return
		}
		seen[st{b, p}] = true
		for _, in := range b.Instrs {
			if tol.instrs[in] {
				return
			}
			if r, ok := in.(*ssa.Return); ok {
				for _, v := range resolveAt(r.Results[errIdx], b, p, r, aliases) {
					if !aliases[v] && !aliases[strip(v)] {
						bad = "a failure path returns " + describe(v) + " instead of the callback's error"
					}
				}
				return
			}
		}
		for _, s := range b.Succs {
			if !tol.edges[Edge{b, s}] {
				walk(s, b)
			}
		}
	}
	for _, e := range nonNil {
		walk(e.To, e.From)
	}
	if bad != "" {
		return false, bad
	}
	return true, "every failure path returns the callback's own error"
}

func c04R4(c *Ctx) {
	const R = "C04.R4.callback-sequencing"
	c.Expect(R, 19)
	pre := c01FieldOf(c.P, "", "CopyGraphOptions", "PreCopy")
	post := c01FieldOf(c.P, "", "CopyGraphOptions", "PostCopy")
	skippedF := c01FieldOf(c.P, "", "CopyGraphOptions", "OnCopySkipped")
	mountedF := c01FieldOf(c.P, "", "CopyGraphOptions", "OnMounted")
	mountFromF := c01FieldOf(c.P, "", "CopyGraphOptions", "MountFrom")
	if pre == nil || post == nil || skippedF == nil || mountedF == nil || mountFromF == nil {
		c.LostAnchor(R, "~.CopyGraphOptions.{PreCopy,PostCopy,OnCopySkipped,OnMounted,MountFrom}")
		return
	}
	// callback sites: direct calls through the field or calls of a nil-safe hook helper receiving it
	sitesOf := func(f *ssa.Function, fv *types.Var) []ssa.CallInstruction {
		ss, _ := c01CallbackSites(f, fv)
		return ss
	}
	// roles
	var doCopy, copyNode, mountFn *ssa.Function
	var xferViaHelper []ssa.CallInstruction
	_ = xferViaHelper
	for _, f := range c.P.FuncsOfPkg("") {
		hasIn := func(name string) bool {
			if len(CallsTo(f, name)) > 0 {
				return true
			}
			for _, a := range c04Closures(f) {
				if len(CallsTo(a, name)) > 0 {
					return true
				}
			}
			return false
		}
		// fetches and pushes itself, or in closures / bound method values it hands to a transfer helper
		if f.Parent() == nil && hasIn(nFetch) && hasIn(nPush) {
			if doCopy != nil {
				c.Undecided(R, "roles|transfer", f.Pos(), "more than one function fetches and pushes directly: "+FnName(doCopy)+", "+FnName(f))
				return
			}
			doCopy = f
		}
		if len(CallsTo(f, nMount)) > 0 {
			mountFn = f
		}
	}
	if doCopy == nil {
		c.LostAnchor(R, "transfer function (invokes Fetcher.Fetch and Pusher.Push) in package ~")
		return
	}
	isCallTo := func(g *ssa.Function) func(f *ssa.Function) []ssa.CallInstruction {
		return func(f *ssa.Function) []ssa.CallInstruction {
			var out []ssa.CallInstruction
			for _, call := range Calls(f, func(string) bool { return true }) {
				if _, isDefer := call.(*ssa.Defer); !isDefer && StaticCallee(call) == g {
					out = append(out, call)
				}
			}
			return out
		}
	}
	for _, f := range c.P.FuncsOfPkg("") {
		if len(isCallTo(doCopy)(f)) > 0 && len(sitesOf(f, pre)) > 0 {
			copyNode = f
		}
	}
	// the mount attempt (invokes Mounter.Mount) may sit in a helper of the function that drives the attempts and
	// announces OnMounted / PostCopy
	attemptFn := mountFn
	if mountFn != nil && len(sitesOf(mountFn, mountedF)) == 0 {
		for _, f := range c.P.FuncsOfPkg("") {
			if f != mountFn && len(isCallTo(mountFn)(f)) > 0 && len(sitesOf(f, mountedF)) > 0 {
				mountFn = f
			}
		}
	}
	inlined := false
	if copyNode == nil && len(sitesOf(doCopy, pre)) > 0 {
		copyNode, inlined = doCopy, true // the transfer is inlined into the node copy
	}
	if copyNode == nil || mountFn == nil {
		c.LostAnchor(R, "node copy (calls PreCopy and the transfer function) / mount-or-copy (invokes Mounter.Mount) in package ~")
		return
	}

	// --- node copy ---
	{
		F := copyNode
		fn := FnName(F)
		pres, posts, xfers := sitesOf(F, pre), sitesOf(F, post), isCallTo(doCopy)(F)
		if inlined {
			xfers = CallsTo(F, nPush)
			if len(xfers) == 0 {
				xfers = c04IIFESites(F, nPush)
			}
			if len(xfers) == 0 {
				// the push happens in a closure handed to a transfer helper: that call is the transfer
				pushers := map[*ssa.Function]bool{}
				for _, cl := range c04Closures(F) {
					if len(CallsTo(cl, nPush)) > 0 {
						pushers[cl] = true
					}
				}
				for _, call := range Calls(F, func(string) bool { return true }) {
					if h := StaticCallee(call); h != nil && inModule(h) {
						for _, a := range call.Common().Args {
							for _, r := range Roots(a) {
								if mc, isMC := r.(*ssa.MakeClosure); isMC && pushers[mc.Fn.(*ssa.Function)] {
									xfers = append(xfers, call)
								}
							}
						}
					}
				}
			}
		}
		preNil, postNil := c04NilEdgesOfField(F, pre), c04NilEdgesOfField(F, post)
		ok := true
		for _, x := range xfers {
			if !MustPass(x.(ssa.Instruction), newCut().Calls(pres).Edges(preNil...)) {
				ok = false
			}
		}
		c.Check(R, fn+"|PreCopy-before-transfer", F.Pos(), ok && len(pres) > 0,
			ifelse(ok, "the transfer is preceded by PreCopy on every path unless PreCopy is nil", "a node can be transferred without PreCopy having been called"))
		a, b := c04AnyReach(c04Instrs(xfers), c04Instrs(pres))
		if a == nil {
			a, b = c04AnyReach(c04Instrs(posts), append(c04Instrs(xfers), c04Instrs(pres)...))
		}
		c.Check(R, fn+"|order-PreCopy-transfer-PostCopy", F.Pos(), a == nil,
			ifelse(a == nil, "no path runs PreCopy after the transfer, or the transfer/PreCopy after PostCopy", fmt.Sprintf("%s can be followed by %s", instrLabelOr(a), instrLabelOr(b))))
		var rep []string
		for _, group := range [][]ssa.CallInstruction{pres, posts, xfers} {
			if x, y := c04AnyReach(c04Instrs(group), c04Instrs(group)); x != nil {
				rep = append(rep, instrLabelOr(y))
			}
		}
		c.Check(R, fn+"|each-at-most-once", F.Pos(), len(rep) == 0,
			ifelse(len(rep) == 0, "PreCopy, the transfer and PostCopy each occur at most once on any path", "can run twice on one path: "+strings.Join(rep, ", ")))
		var bad *ssa.Return
		for _, x := range xfers {
			if e := ErrOf(x); e != nil {
				nilE, _, _ := NilTests(F, Aliases(e))
				if len(nilE) == 0 {
					bad = Returns(F)[0]
				}
				for _, ne := range nilE {
					if r := c01SuccessReturnFrom(F, ne, newCut().Calls(posts).Edges(postNil...), nil); r != nil {
						bad = r
					}
				}
			}
		}
		c.Check(R, fn+"|PostCopy-after-successful-transfer", F.Pos(), bad == nil && len(posts) > 0,
			ifelse(bad == nil, "after a successful transfer every successful return follows PostCopy unless it is nil", "a transferred node can be reported done without PostCopy (for the root this is where the tag is set)"))
		okSkip := true
		nTol := 0
		for _, p := range pres {
			if e := ErrOf(p); e != nil {
				for _, te := range toleratedEdges(F, Aliases(e), []string{"~.SkipNode"}) {
					nTol++
					for _, t := range append(c04Instrs(xfers), c04Instrs(posts)...) {
						if reach(te.To, 0, t, nil) {
							okSkip = false
						}
					}
				}
			}
		}
		c.Check(R, fn+"|SkipNode-reaches-neither-transfer-nor-PostCopy", F.Pos(), okSkip && nTol > 0,
			ifelse(okSkip && nTol > 0, "when PreCopy returns SkipNode neither the transfer nor PostCopy is reachable", "SkipNode from PreCopy is not recognised, or still leads to a transfer / second PostCopy"))
		for _, p := range pres {
			ok, d := c04Unchanged(p, []string{"~.SkipNode"})
			c.Check(R, fn+"|PreCopy-error-unchanged", p.Pos(), ok, d)
		}
		for _, p := range posts {
			ok, d := c04Unchanged(p, nil)
			c.Check(R, fn+"|PostCopy-error-unchanged", p.Pos(), ok, d)
		}
	}
	// --- transfer ---
	{
		F := doCopy
		fn := FnName(F)
		fs, ps := CallsTo(F, nFetch), CallsTo(F, nPush)
		if len(ps) == 0 {
			ps = c04IIFESites(F, nPush) // push inside an immediately invoked function literal
		}
		if len(fs) == 0 {
			fs = c04IIFESites(F, nFetch)
		}
		if len(fs) == 0 || len(ps) == 0 {
			// Fetch / Push sit in closures handed to a module helper: transfer(fetch, push, …).  The sequencing is the
			// helper's: it calls its fetch parameter, then its push parameter, and closes the reader.
			closureWith := func(name string) *ssa.Function {
				var out *ssa.Function
				n := 0
				for _, a := range c04Closures(doCopy) {
					if k := len(CallsTo(a, name)); k == 1 {
						out = a
						n++
					} else if k > 1 {
						n += 2
					}
				}
				if n != 1 {
					return nil
				}
				return out
			}
			cf, cp := closureWith(nFetch), closureWith(nPush)
			fs, ps = nil, nil
			for _, call := range Calls(doCopy, func(string) bool { return true }) {
				h := StaticCallee(call)
				if h == nil || !inModule(h) || len(h.Blocks) == 0 || cf == nil || cp == nil {
					continue
				}
				fi, pi := -1, -1
				for i, a := range call.Common().Args {
					for _, r := range Roots(a) {
						if mc, isMC := r.(*ssa.MakeClosure); isMC {
							if mc.Fn == ssa.Value(cf) {
								fi = i
							}
							if mc.Fn == ssa.Value(cp) {
								pi = i
							}
						}
					}
				}
				if fi < 0 || pi < 0 || Reachable(call.(ssa.Instruction), call.(ssa.Instruction)) {
					continue
				}
				F = h
				xferViaHelper = append(xferViaHelper, call)
				for _, hc := range Calls(h, func(string) bool { return true }) {
					if hc.Common().IsInvoke() {
						continue
					}
					if hc.Common().Value == ssa.Value(h.Params[fi]) {
						fs = append(fs, hc)
					}
					if hc.Common().Value == ssa.Value(h.Params[pi]) {
						ps = append(ps, hc)
					}
				}
			}
		}
		ok := len(fs) == 1 && len(ps) == 1
		if ok {
			x, _ := c04AnyReach(append(c04Instrs(fs), c04Instrs(ps)...), c04Instrs(fs))
			ok = x == nil && !Reachable(ps[0].(ssa.Instruction), ps[0].(ssa.Instruction)) && MustPass(ps[0].(ssa.Instruction), newCut().Calls(fs))
		}
		c.Check(R, fn+"|one-fetch-then-one-push", F.Pos(), ok,
			ifelse(ok, "one Fetch, then one Push, neither repeated", "the transfer fetches or pushes more than once per node (or pushes without fetching), or Fetch/Push are reached in a way that is not recognised"))
		okClose := false
		if len(fs) == 1 {
			rc := ResultOf(fs[0], 0)
			var closes []ssa.Instruction
			if rc != nil {
				al := Aliases(rc)
				for _, call := range Calls(F, func(n string) bool { return n == "(io.Closer).Close" }) {
					if al[call.Common().Value] {
						closes = append(closes, call.(ssa.Instruction))
					}
				}
				// a function literal of F, called in F, that closes the captured reader
				for _, call := range Calls(F, func(string) bool { return true }) {
					g := StaticCallee(call)
					if g == nil || g.Parent() != F {
						continue
					}
					for _, cc := range Calls(g, func(n string) bool { return n == "(io.Closer).Close" }) {
						if srcs, okS := c01CarriedSources(c.P, cc.Common().Value); okS {
							all := len(srcs) > 0
							for _, sv := range srcs {
								if !al[sv] {
									all = false
								}
							}
							okExit := true
							for _, ret := range Returns(g) {
								if !MustPass(ret, newCut().Instr(cc.(ssa.Instruction))) {
									okExit = false
								}
							}
							if all && okExit {
								closes = append(closes, call.(ssa.Instruction))
							}
						}
					}
				}
			}
			if e := ErrOf(fs[0]); e != nil && len(closes) > 0 {
				nilE, _, _ := NilTests(F, Aliases(e))
				okClose = len(nilE) > 0
				rcNil, _, _ := NilTests(F, Aliases(rc)) // a nil reader has nothing to close
				for _, ne := range nilE {
					for _, ret := range Returns(F) {
						if reach(ne.To, 0, ret, newCut().Instr(closes...).Edges(rcNil...)) {
							okClose = false
						}
					}
				}
			}
		}
		c.Check(R, fn+"|reader-closed", F.Pos(), okClose,
			ifelse(okClose, "the fetched reader is closed (deferred or explicit) on every path after a successful Fetch", "the fetched reader can stay open after the transfer (a source read stays in flight beyond the permit)"))
	}
	// --- traversal: one terminal action per node ---
	for _, tr := range c01Traversals(c.P) {
		T := tr.Body
		// terminal actions of f: the callback / node copy / mount-or-copy sites, and calls of module helpers that
		// perform one (their inner sites must exclude each other as well)
		var a, b ssa.Instruction
		nLeaf := 0
		var actions func(f *ssa.Function, depth int, seen map[*ssa.Function]bool) []ssa.Instruction
		actions = func(f *ssa.Function, depth int, seen map[*ssa.Function]bool) []ssa.Instruction {
			var out []ssa.Instruction
			out = append(out, c04Instrs(sitesOf(f, skippedF))...)
			out = append(out, c04Instrs(isCallTo(copyNode)(f))...)
			out = append(out, c04Instrs(isCallTo(mountFn)(f))...)
			if depth < 2 {
				for _, call := range Calls(f, func(string) bool { return true }) {
					if _, isDefer := call.(*ssa.Defer); isDefer {
						continue
					}
					h := StaticCallee(call)
					if h == nil && !call.Common().IsInvoke() {
						h, _ = c01FuncOfValue(call.Common().Value)
					}
					if h == nil || !inModule(h) || len(h.Blocks) == 0 || h == copyNode || h == mountFn || h == doCopy || seen[h] || h == tr.Entry {
						continue
					}
					if fnPkgPath(h) != Mod {
						continue
					}
					seen[h] = true
					if inner := actions(h, depth+1, seen); len(inner) > 0 {
						out = append(out, call.(ssa.Instruction))
					}
				}
			}
			if x, y := c04AnyReach(out, out); x != nil && a == nil {
				a, b = x, y
			}
			if len(out) > nLeaf {
				nLeaf = len(out)
			}
			return out
		}
		acts := actions(tr.Entry, 0, map[*ssa.Function]bool{})
		if nLeaf > len(acts) {
			acts = make([]ssa.Instruction, nLeaf) // the alternatives live in a function the entry calls
		}
		c.Check(R, c01ClosureKey(T, "traverse")+"|one-terminal-action-per-node", T.Pos(), a == nil && len(acts) >= 2,
			ifelse(a == nil, fmt.Sprintf("OnCopySkipped / node copy / mount-or-copy exclude each other and none repeats (%d sites)", len(acts)), fmt.Sprintf("%s can be followed by %s for the same node", instrLabelOr(a), instrLabelOr(b))))
	}
	// --- mount-or-copy ---
	{
		F, A := mountFn, attemptFn
		fn := FnName(F)
		mounts := CallsTo(F, nMount) // the attempts as seen in the driver
		if A != F {
			mounts = isCallTo(A)(F)
		}
		mounteds, posts, fallbacks := sitesOf(F, mountedF), sitesOf(F, post), isCallTo(copyNode)(F)
		a, _ := c04AnyReach(c04Instrs(mounteds), c04Instrs(posts))
		if a == nil {
			a, _ = c04AnyReach(c04Instrs(posts), c04Instrs(mounteds))
		}
		c.Check(R, fn+"|OnMounted-excludes-PostCopy", F.Pos(), a == nil && len(mounteds) > 0 && len(posts) > 0,
			ifelse(a == nil, "no path calls both OnMounted and PostCopy", "a node can trigger both OnMounted and PostCopy"))
		var loop *Loop
		for _, l := range Loops(F) {
			if len(mounts) > 0 && l.Contains(mounts[0].(ssa.Instruction)) {
				loop = l
			}
		}
		ok := loop != nil
		if ok {
			for _, p := range posts {
				if loop.Contains(p.(ssa.Instruction)) || !MustPass(p.(ssa.Instruction), newCut().Edges(loop.Exits...)) {
					ok = false
				}
			}
			if x, _ := c04AnyReach(c04Instrs(posts), c04Instrs(mounts)); x != nil {
				ok = false
			}
		}
		c.Check(R, fn+"|PostCopy-only-after-mount-loop", F.Pos(), ok,
			ifelse(ok, "PostCopy is reached only through the exit of the mount loop and never followed by another Mount", "PostCopy can run before the mount attempts are over"))
		// the loop continues only when the mount fell back (flag set by the content getter)
		ok = loop != nil
		if ok {
			for _, m := range CallsTo(A, nMount) {
				args := m.Common().Args
				G, recv := c01FuncOfValue(args[len(args)-1])
				if G == nil || len(G.Blocks) == 0 {
					ok = false
					continue
				}
				var getter *ssa.MakeClosure
				for _, r := range Roots(args[len(args)-1]) {
					if mc, isMC := r.(*ssa.MakeClosure); isMC {
						getter = mc
					}
				}
				// the fallback flag: a bool the getter sets to a constant K on entry — a captured variable, or a field of
				// the getter's receiver (method value of a per-attempt state struct); "fell back" <=> flag == K
				fellBack, flagFound := true, false
				loads := map[ssa.Value]bool{}
				for _, in := range G.Blocks[0].Instrs {
					st, isStore := in.(*ssa.Store)
					if !isStore {
						continue
					}
					k, isK := st.Val.(*ssa.Const)
					if !isK || k.Value == nil {
						continue
					}
					if b, isBool := k.Type().Underlying().(*types.Basic); !isBool || b.Kind() != types.Bool {
						continue
					}
					switch addr := st.Addr.(type) {
					case *ssa.FreeVar:
						if getter == nil || recv != nil {
							continue
						}
						for i, fv := range G.FreeVars {
							if fv != addr {
								continue
							}
							cell, isAlloc := getter.Bindings[i].(*ssa.Alloc)
							if !isAlloc {
								continue
							}
							flagFound, fellBack = true, boolConst(k)
							// before Mount the flag holds the opposite value
							for _, rs := range ReachingStores(cell, m.(ssa.Instruction)) {
								if rs == nil {
									if !fellBack {
										ok = false // zero value false == K
									}
									continue
								}
								if k2, isK2 := rs.Val.(*ssa.Const); !isK2 || k2.Value == nil || boolConst(k2) == fellBack {
									ok = false
								}
							}
							for _, r := range *cell.Referrers() {
								if ld, isLoad := r.(*ssa.UnOp); isLoad && ld.Op == token.MUL {
									loads[ld] = true
								}
							}
						}
					case *ssa.FieldAddr:
						if recv == nil || len(G.Params) == 0 || addr.X != ssa.Value(G.Params[0]) {
							continue
						}
						flagFound, fellBack = true, boolConst(k)
						// in F: the same field of the bound receiver
						nStores := 0
						AllInstrs(A, func(in2 ssa.Instruction) {
							switch x := in2.(type) {
							case *ssa.Store:
								if fa, isFA := x.Addr.(*ssa.FieldAddr); isFA && fa.X == recv && fa.Field == addr.Field {
									nStores++
									if k2, isK2 := x.Val.(*ssa.Const); !isK2 || k2.Value == nil || boolConst(k2) == fellBack || !Dominates(x, m.(ssa.Instruction)) {
										ok = false
									}
								}
							case *ssa.UnOp:
								if fa, isFA := x.X.(*ssa.FieldAddr); isFA && x.Op == token.MUL && fa.X == recv && fa.Field == addr.Field {
									loads[x] = true
								}
							}
						})
						if nStores == 0 && !fellBack {
							ok = false // zero value false == K
						}
						// a fresh state per attempt
						if a, isAlloc := recv.(*ssa.Alloc); !isAlloc || !Dominates(a, m.(ssa.Instruction)) || (A == F && !loop.Contains(a)) {
							ok = false
						}
					}
				}
				if !flagFound {
					ok = false
					continue
				}
				var te, fe []Edge // edges of the driver on which the attempt fell back / did not
				if A == F {
					te, fe = BoolTests(F, loads)
					if !fellBack {
						te, fe = fe, te
					}
				} else {
					// the attempt helper reports the flag (or its negation) as a bool result
					ridx, neg, okRes := -1, false, true
					for j := 0; j < A.Signature.Results().Len(); j++ {
						if b, isB := A.Signature.Results().At(j).Type().Underlying().(*types.Basic); !isB || b.Kind() != types.Bool {
							continue
						}
						for _, ret := range Returns(A) {
							if c01IsErrorReturn(ret, ErrResultIndex(A.Signature)) {
								continue
							}
							v, n := ret.Results[j], false
							for {
								u, isNot := v.(*ssa.UnOp)
								if !isNot || u.Op != token.NOT {
									break
								}
								v, n = u.X, !n
							}
							if !loads[v] {
								okRes = false
								continue
							}
							ridx, neg = j, n
						}
					}
					if ridx < 0 || !okRes {
						ok = false
						continue
					}
					for _, ac := range mounts {
						if v := ResultOf(ac, ridx); v != nil {
							t, f := BoolTests(F, Aliases(v))
							// result true <=> flag == !neg ; fell back <=> flag == fellBack
							if (!neg) == fellBack {
								te, fe = append(te, t...), append(fe, f...)
							} else {
								te, fe = append(te, f...), append(fe, t...)
							}
						}
					}
				}
				for _, ac := range mounts {
					if reach(ac.Block(), instrIndex(ac.(ssa.Instruction))+1, loop.Header.Instrs[0], newCut().Edges(te...)) {
						ok = false
					}
				}
				for _, md := range mounteds {
					if !MustPass(md.(ssa.Instruction), newCut().Edges(fe...)) {
						ok = false
					}
				}
				// the fallback fetcher announces PreCopy before it fetches: the getter itself, or the closure of the
				// driver it delegates to
				fetchers := []*ssa.Function{G}
				if len(CallsTo(G, nFetch)) == 0 {
					fetchers = nil
					for _, cand := range append(Anons(F), Anons(A)...) {
						if len(CallsTo(cand, nFetch)) > 0 && types.Identical(cand.Signature, G.Signature) {
							fetchers = append(fetchers, cand)
						}
					}
					// ... or the named module helper the getter delegates to (`return preCopyAndFetch(ctx, src, desc, opts)`):
					// it yields what the getter yields, and the getter hands its error on as it is
					for _, call := range Calls(G, func(string) bool { return true }) {
						h := StaticCallee(call)
						if _, isDefer := call.(*ssa.Defer); isDefer || h == nil || !inModule(h) || len(h.Blocks) == 0 || len(CallsTo(h, nFetch)) == 0 {
							continue
						}
						if !types.Identical(h.Signature.Results(), G.Signature.Results()) {
							continue
						}
						if okD, _ := c04Unchanged(call, nil); okD {
							fetchers = append(fetchers, h)
						}
					}
				}
				for _, FG := range fetchers {
					pres := sitesOf(FG, pre)
					preNil := c04NilEdgesOfField(FG, pre)
					okPre := len(pres) > 0
					for _, f := range CallsTo(FG, nFetch) {
						if !MustPass(f.(ssa.Instruction), newCut().Calls(pres).Edges(preNil...)) {
							okPre = false
						}
					}
					c.Check(R, fn+"$content-getter|PreCopy-before-fetch", FG.Pos(), okPre,
						ifelse(okPre, "the fallback fetch is preceded by PreCopy unless it is nil", "the mount fallback fetches the content without PreCopy"))
					for _, p := range pres {
						if e := ErrOf(p); e != nil {
							okE, d := c04Unchanged(p, nil)
							c.Check(R, fn+"$content-getter|PreCopy-error-unchanged", p.Pos(), okE, d)
						}
					}
				}
				if len(fetchers) == 0 {
					c.Violation(R, fn+"$content-getter|PreCopy-before-fetch", G.Pos(), "no fallback fetcher (closure fetching the content for the mounter) found")
				}
			}
		}
		c.Check(R, fn+"|loop-continues-only-after-fallback", F.Pos(), ok,
			ifelse(ok, "after Mount the next source is tried only when the content getter ran (mount fell back); OnMounted only when it did not", "the mount loop can continue although the blob was mounted, or OnMounted can fire although the content was copied"))
		// fallbacks are terminal
		x, y := c04AnyReach(c04Instrs(fallbacks), append(append(c04Instrs(mounts), c04Instrs(posts)...), c04Instrs(mounteds)...))
		c.Check(R, fn+"|fallback-copy-is-terminal", F.Pos(), x == nil && len(fallbacks) > 0,
			ifelse(x == nil, "a fallback to the plain node copy is never followed by Mount / PostCopy / OnMounted", fmt.Sprintf("%s can be followed by %s", instrLabelOr(x), instrLabelOr(y))))
		for _, grp := range []struct {
			label string
			sites []ssa.CallInstruction
		}{{"MountFrom", sitesOf(F, mountFromF)}, {"OnMounted", mounteds}, {"PostCopy", posts}} {
			for _, cb := range grp.sites {
				okE, d := c04Unchanged(cb, nil)
				c.Check(R, fn+"|"+grp.label+"-error-unchanged", cb.Pos(), okE, d)
			}
		}
	}
}

// ---------- R5: hook wrappers forward their own arguments ----------

// c04ForwardsOwnArgs: in wrapper W every dynamic call of a function value with
// W's own signature (the callback it wraps / chains to) receives W's own
// parameters, position by position.  tolerate(call, i, arg) may accept another
// argument (the root descriptor on the path where the node equals the root).
func c04ForwardsOwnArgs(p *Prog, W *ssa.Function, fields map[*types.Var]bool, tolerate func(call ssa.CallInstruction, i int, arg ssa.Value) bool) (n int, bad string, pos token.Pos) {
	// the callbacks being wrapped: values read from the option fields, directly or through a captured variable /
	// a field of a state struct filled from them (a locally defined step such as selectPlatform is not one)
	isPrev := func(v ssa.Value) bool {
		isField := func(x ssa.Value) bool {
			for fv := range fields {
				if c01IsFieldValue(x, fv) {
					return true
				}
			}
			return false
		}
		rs := Roots(v)
		if len(rs) == 0 {
			return false
		}
		for _, r := range rs {
			if isField(r) {
				continue
			}
			srcs, ok := c01CarriedSources(p, r)
			if !ok {
				return false
			}
			for _, sv := range srcs {
				okSrc := false
				for _, r2 := range Roots(sv) {
					if isField(r2) {
						okSrc = true
					}
				}
				if !okSrc {
					return false
				}
			}
		}
		return true
	}
	check := func(call ssa.CallInstruction, args []ssa.Value, what string) {
		off := len(W.Params) - len(args) // 1 when the wrapper is a method (receiver first)
		if off < 0 || off > 1 {
			return
		}
		n++
		for i, a := range args {
			if prm := c01ParamOf(a); prm != nil && prm == W.Params[i+off] {
				continue
			}
			if tolerate != nil && tolerate(call, i, a) {
				continue
			}
			if bad == "" {
				bad = fmt.Sprintf("argument #%d of the wrapped callback (%s) is not the wrapper's own parameter %s", i, what, W.Params[i+off].Name())
				pos = call.Pos()
			}
		}
	}
	for _, call := range Calls(W, func(string) bool { return true }) {
		cc := call.Common()
		if cc.IsInvoke() {
			continue
		}
		if _, isB := cc.Value.(*ssa.Builtin); isB {
			continue
		}
		if h := StaticCallee(call); h != nil {
			// a nil-safe hook helper: runHook(ctx, hook, desc) -> hook(ctx, desc)
			if !inModule(h) || len(h.Blocks) == 0 {
				continue
			}
			for i, a := range cc.Args {
				sig, isSig := a.Type().Underlying().(*types.Signature)
				if !isSig || !types.Identical(sig, W.Signature) || !isPrev(a) || !c01HookHelper(h, i) {
					continue
				}
				for _, inner := range Calls(h, func(string) bool { return true }) {
					if inner.Common().IsInvoke() || inner.Common().Value != ssa.Value(h.Params[i]) {
						continue
					}
					var eff []ssa.Value
					okMap := true
					for _, ia := range inner.Common().Args {
						hp := c01ParamOf(ia)
						idx := -1
						for k, q := range h.Params {
							if q == hp {
								idx = k
							}
						}
						if hp == nil || idx < 0 || idx >= len(cc.Args) {
							okMap = false
							break
						}
						eff = append(eff, cc.Args[idx])
					}
					if okMap {
						check(call, eff, CalleeName(call))
					}
				}
			}
			continue
		}
		sig, ok := cc.Value.Type().Underlying().(*types.Signature)
		if !ok || !types.Identical(sig, W.Signature) || !isPrev(cc.Value) {
			continue
		}
		check(call, cc.Args, CalleeName(call))
	}
	return
}

func c04R5(c *Ctx) {
	const R = "C04.R5.wrapper-forwards-own-arguments"
	c.Expect(R, 3)
	found := 0
	fields := map[*types.Var]bool{}
	for _, name := range []string{"PreCopy", "PostCopy", "OnCopySkipped", "OnMounted"} {
		if fv := c01FieldOf(c.P, "", "CopyGraphOptions", name); fv != nil {
			fields[fv] = true
		}
	}
	for _, name := range []string{"PreCopy", "PostCopy", "OnCopySkipped", "OnMounted"} {
		fv := c01FieldOf(c.P, "", "CopyGraphOptions", name)
		if fv == nil {
			c.LostAnchor(R, "~.CopyGraphOptions."+name)
			continue
		}
		for _, F := range c.P.FuncsOfPkg("") {
			for _, st := range c04FieldStores(F, fv) {
				W, _ := c01FuncOfValue(st.Val)
				if W == nil || len(W.Blocks) == 0 || !inModule(W) {
					continue
				}
				// the root may stand in for the node on the path where content.Equal(node, root) holds
				eqT, _, _ := CallTests(W, "~/content.Equal", nil)
				tolerate := func(call ssa.CallInstruction, i int, arg ssa.Value) bool {
					if !c01IsOCIDescriptor(arg.Type()) || len(eqT) == 0 || !MustPass(call.(ssa.Instruction), newCut().Edges(eqT...)) {
						return false
					}
					for _, ec := range CallsTo(W, "~/content.Equal") {
						for _, ea := range ec.Common().Args {
							if c01SameStrip(ea, arg) {
								return true
							}
							if sa, ok := c01CarriedSources(c.P, ea); ok {
								if sb, ok2 := c01CarriedSources(c.P, arg); ok2 && len(sa) == 1 && len(sb) == 1 && sa[0] == sb[0] {
									return true
								}
							}
						}
					}
					return false
				}
				n, bad, pos := c04ForwardsOwnArgs(c.P, W, fields, tolerate)
				if n == 0 {
					continue // wraps nothing
				}
				found++
				if bad == "" {
					pos = W.Pos()
				}
				c.Check(R, c01OuterName(F)+"$"+name+"|forwards-own-arguments", pos, bad == "",
					ifelse(bad == "", fmt.Sprintf("the %d callback call(s) in the wrapper receive the wrapper's own ctx and descriptor", n), bad+": the user's callback is told about another node than the one being handled (callback accounting per node is wrong)"))
			}
		}
	}
	if found == 0 {
		c.LostAnchor(R, "callback wrappers installed into CopyGraphOptions.{PreCopy,PostCopy,OnCopySkipped,OnMounted}")
	}
}

func instrLabelOr(in ssa.Instruction) string {
	if in == nil {
		return "-"
	}
	return instrLabel(in)
}

var c04Mutants = []Mutant{
	{Name: "concurrency-floor-instead-of-default", File: "extendedcopy.go",
		Old: "\tif opts.Concurrency <= 0 {\n\t\topts.Concurrency = defaultConcurrency\n\t}\n\tlimiter := semaphore.NewWeighted", New: "\topts.Concurrency = max(opts.Concurrency, defaultConcurrency)\n\tlimiter := semaphore.NewWeighted", Expect: "C04.R3.limiter-per-call|~.ExtendedCopyGraph"},
	{Name: "tracker-forgets-failed-node", File: "internal/status/tracker.go",
		Old: "\tstatus, exists := t.status.LoadOrStore(key, make(chan struct{}))\n\treturn status.(chan struct{}), !exists\n}\n", New: "\tstatus, exists := t.status.LoadOrStore(key, make(chan struct{}))\n\treturn status.(chan struct{}), !exists\n}\n\n// Forget drops the record of target.\nfunc (t *Tracker) Forget(target ocispec.Descriptor) {\n\tt.status.Delete(descriptor.FromOCI(target))\n}\n", Expect: "C04.R2.single-owner|~/internal/status.Tracker|claim-map-append-only"},
	{Name: "skipped-hook-told-about-root", File: "copy.go",
		Old: "\t\t\tif onCopySkipped != nil {\n\t\t\t\treturn onCopySkipped(ctx, desc)\n\t\t\t}\n\t\t\treturn nil", New: "\t\t\tif onCopySkipped != nil {\n\t\t\t\treturn onCopySkipped(ctx, root)\n\t\t\t}\n\t\t\treturn nil", Expect: "C04.R5.wrapper-forwards-own-arguments|~.prepareCopy$OnCopySkipped"},
	{Name: "postcopy-hook-gets-background-ctx", File: "copy.go",
		Old: "\t\t\tif postCopy != nil {\n\t\t\t\treturn postCopy(ctx, desc)\n\t\t\t}", New: "\t\t\tif postCopy != nil {\n\t\t\t\treturn postCopy(context.Background(), desc)\n\t\t\t}", Expect: "C04.R5.wrapper-forwards-own-arguments|~.prepareCopy$PostCopy"},
	// --- the repository's own test suite stays green under these (verified in a scratch copy) ---
	{Name: "onmounted-error-wrapped", File: "copy.go",
		Old: "\t\t\t\tif err := opts.OnMounted(ctx, desc); err != nil {\n\t\t\t\t\treturn err\n\t\t\t\t}",
		New: "\t\t\t\tif err := opts.OnMounted(ctx, desc); err != nil {\n\t\t\t\t\treturn fmt.Errorf(\"on mounted: %w\", err)\n\t\t\t\t}", Expect: "C04.R4.callback-sequencing|~.mountOrCopyNode|OnMounted-error-unchanged"},
	{Name: "postcopy-only-for-manifests", File: "copy.go",
		Old: "\tif opts.PostCopy != nil {\n\t\treturn opts.PostCopy(ctx, desc)\n\t}\n\treturn nil\n}\n\n// copyCachedNodeWithReference",
		New: "\tif opts.PostCopy != nil && (descriptor.IsManifest(desc) || desc.Size > 0) {\n\t\treturn opts.PostCopy(ctx, desc)\n\t}\n\treturn nil\n}\n\n// copyCachedNodeWithReference", Expect: "C04.R4.callback-sequencing|~.copyNode|PostCopy-after-successful-transfer"},
	// --- below: see the report for which of these the repository's tests also catch ---
	{Name: "end-double-release", File: "internal/syncutil/limit.go",
		Old: "\tif lr == nil || lr.ended {\n\t\treturn\n\t}\n\tlr.limiter.Release(1)", New: "\tif lr == nil {\n\t\treturn\n\t}\n\tlr.limiter.Release(1)", Expect: "C04.R1.permit-typestate|(*~/internal/syncutil.LimitedRegion).End|release-only-while-held"},
	{Name: "end-forgets-ended", File: "internal/syncutil/limit.go",
		Old: "\tlr.limiter.Release(1)\n\tlr.ended = true\n", New: "\tlr.limiter.Release(1)\n", Expect: "C04.R1.permit-typestate|(*~/internal/syncutil.LimitedRegion).End|release-marks-ended"},
	{Name: "start-marks-held-before-acquire", File: "internal/syncutil/limit.go",
		Old: "\tif err := lr.limiter.Acquire(lr.ctx, 1); err != nil {\n\t\treturn err\n\t}\n\tlr.ended = false\n", New: "\tlr.ended = false\n\tif err := lr.limiter.Acquire(lr.ctx, 1); err != nil {\n\t\treturn err\n\t}\n", Expect: "C04.R1.permit-typestate|(*~/internal/syncutil.LimitedRegion).Start|held-only-after-successful-acquire"},
	{Name: "start-reacquires", File: "internal/syncutil/limit.go",
		Old: "\tif lr == nil || !lr.ended {\n\t\treturn nil\n\t}\n\tif err := lr.limiter.Acquire", New: "\tif lr == nil {\n\t\treturn nil\n\t}\n\tif err := lr.limiter.Acquire", Expect: "C04.R1.permit-typestate|(*~/internal/syncutil.LimitedRegion).Start|acquire-only-while-ended"},
	{Name: "region-starts-held", File: "internal/syncutil/limit.go",
		Old: "\t\tended:   true,\n", New: "\t\tended:   false,\n", Expect: "C04.R1.permit-typestate|~/internal/syncutil.LimitRegion|starts-released"},
	{Name: "trycommit-load-then-store", File: "internal/status/tracker.go",
		Old: "\tstatus, exists := t.status.LoadOrStore(key, make(chan struct{}))\n\treturn status.(chan struct{}), !exists",
		New: "\tif status, exists := t.status.Load(key); exists {\n\t\treturn status.(chan struct{}), false\n\t}\n\tstatus := make(chan struct{})\n\tt.status.Store(key, status)\n\treturn status, true", Expect: "C04.R2.single-owner"},
	{Name: "committed-check-dropped", File: "copy.go",
		Old: "\t\tdone, committed := tracker.TryCommit(desc)\n\t\tif !committed {\n\t\t\treturn nil\n\t\t}\n\t\tdefer func() {",
		New: "\t\tdone, committed := tracker.TryCommit(desc)\n\t\t_ = committed\n\t\tdefer func() {", Expect: "C04.R2.single-owner|~.copyGraph$claim"},
	{Name: "indexall-committed-ignored", File: "internal/graph/memory.go",
		Old: "\t\t_, committed := tracker.TryCommit(desc)\n\t\tif !committed {\n\t\t\treturn nil\n\t\t}\n", New: "\t\t_, committed := tracker.TryCommit(desc)\n\t\t_ = committed\n", Expect: "C04.R2.single-owner|(*~/internal/graph.Memory).IndexAll$claim"},
	{Name: "limiter-always-fresh", File: "copy.go",
		Old: "\tif limiter == nil {\n", New: "\t{\n", Expect: "C04.R3.limiter-per-call|~.copyGraph|"},
	{Name: "mount-flag-inverted", File: "copy.go",
		Old: "\t\tif !mountFailed {\n\t\t\t// mounted, success", New: "\t\tif mountFailed {\n\t\t\t// mounted, success", Expect: "C04.R4.callback-sequencing|~.mountOrCopyNode|loop-continues-only-after-fallback"},
	{Name: "limiter-per-node", File: "copy.go",
		Old: "\t\t\tif err := syncutil.Go(ctx, limiter, fn, successors...); err != nil {", New: "\t\t\tif err := syncutil.Go(ctx, semaphore.NewWeighted(int64(opts.Concurrency)), fn, successors...); err != nil {", Expect: "C04.R3.limiter-per-call"},
	{Name: "concurrency-default-dropped", File: "extendedcopy.go",
		Old: "\tif opts.Concurrency <= 0 {\n\t\topts.Concurrency = defaultConcurrency\n\t}\n\tlimiter := semaphore.NewWeighted", New: "\tlimiter := semaphore.NewWeighted", Expect: "C04.R3.limiter-per-call|~.ExtendedCopyGraph"},
	{Name: "postcopy-before-transfer", File: "copy.go",
		Old: "\tif err := doCopyNode(ctx, src, dst, desc); err != nil {\n\t\treturn err\n\t}\n\n\tif opts.PostCopy != nil {\n\t\treturn opts.PostCopy(ctx, desc)\n\t}\n\treturn nil",
		New: "\tif opts.PostCopy != nil {\n\t\tif err := opts.PostCopy(ctx, desc); err != nil {\n\t\t\treturn err\n\t\t}\n\t}\n\treturn doCopyNode(ctx, src, dst, desc)", Expect: "C04.R4.callback-sequencing|~.copyNode"},
	{Name: "precopy-error-wrapped", File: "copy.go",
		Old: "\t\t\tif err == SkipNode {\n\t\t\t\treturn nil\n\t\t\t}\n\t\t\treturn err", New: "\t\t\tif err == SkipNode {\n\t\t\t\treturn nil\n\t\t\t}\n\t\t\treturn fmt.Errorf(\"pre-copy: %v\", err)", Expect: "C04.R4.callback-sequencing|~.copyNode|PreCopy-error-unchanged"},
	{Name: "skipnode-still-copies", File: "copy.go",
		Old: "\t\t\tif err == SkipNode {\n\t\t\t\treturn nil\n\t\t\t}\n\t\t\treturn err\n\t\t}\n\t}\n\n\tif err := doCopyNode", New: "\t\t\tif err != SkipNode {\n\t\t\t\treturn err\n\t\t\t}\n\t\t}\n\t}\n\n\tif err := doCopyNode", Expect: "C04.R4.callback-sequencing|~.copyNode|SkipNode-reaches-neither-transfer-nor-PostCopy"},
	{Name: "mounted-also-postcopy", File: "copy.go",
		Old: "\t\t\tif opts.OnMounted != nil {\n\t\t\t\tif err := opts.OnMounted(ctx, desc); err != nil {\n\t\t\t\t\treturn err\n\t\t\t\t}\n\t\t\t}\n\t\t\treturn nil\n",
		New: "\t\t\tif opts.OnMounted != nil {\n\t\t\t\tif err := opts.OnMounted(ctx, desc); err != nil {\n\t\t\t\t\treturn err\n\t\t\t\t}\n\t\t\t}\n\t\t\tbreak\n", Expect: "C04.R4.callback-sequencing|~.mountOrCopyNode"},
	{Name: "mount-fallback-without-precopy", File: "copy.go",
		Old: "\t\t\tif opts.PreCopy != nil {\n\t\t\t\tif err := opts.PreCopy(ctx, desc); err != nil {\n\t\t\t\t\treturn nil, err\n\t\t\t\t}\n\t\t\t}\n\t\t\treturn src.Fetch(ctx, desc)", New: "\t\t\treturn src.Fetch(ctx, desc)", Expect: "C04.R4.callback-sequencing|~.mountOrCopyNode$content-getter"},
	{Name: "skipped-then-copied", File: "copy.go",
		Old: "\t\t\tif opts.OnCopySkipped != nil {\n\t\t\t\tif err := opts.OnCopySkipped(ctx, desc); err != nil {\n\t\t\t\t\treturn err\n\t\t\t\t}\n\t\t\t}\n\t\t\treturn nil\n\t\t}",
		New: "\t\t\tif opts.OnCopySkipped != nil {\n\t\t\t\tif err := opts.OnCopySkipped(ctx, desc); err != nil {\n\t\t\t\t\treturn err\n\t\t\t\t}\n\t\t\t}\n\t\t}", Expect: "C04.R4.callback-sequencing|~.copyGraph$traverse|one-terminal-action-per-node"},
	{Name: "reader-not-closed", File: "copy.go",
		Old: "\t\treturn newCopyError(\"Fetch\", CopyErrorOriginSource, err)\n\t}\n\tdefer rc.Close()\n\terr = dst.Push(ctx, desc, rc)", New: "\t\treturn newCopyError(\"Fetch\", CopyErrorOriginSource, err)\n\t}\n\terr = dst.Push(ctx, desc, rc)", Expect: "C04.R4.callback-sequencing|~.doCopyNode|reader-closed"},
}
