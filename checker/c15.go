package main

// C15 — listings: every item once, bounded metadata reads.
// R1 bounded decode (use inventory of response bodies, descriptor-sized reads
// behind limitSize, the two limit helpers, decode errors propagate);
// R2 page loops (url advances, exit iff error, only errNoLink ends a listing,
// `last` cleared, query preserved, callback before next link, parseLink);
// R3 client-side filter; R4 OCI-layout listTags.

import (
	"fmt"
	"go/token"
	"go/types"
	"strings"

	"golang.org/x/tools/go/ssa"
)

func init() {
	register(&propDef{
		ID: "C15",
		Explain: "Decided: (R1) every use of an http.Response.Body in registry/remote, its errutil and auth packages is Close, a hand-off of content to the caller, " +
			"or the first argument of io.LimitReader / the package's limit helper — nothing parses a response body unbounded; descriptor-sized reads " +
			"(content.ReadAll / FetchAll / decodeJSON) are dominated by a successful limitSize of the same descriptor; the limit helpers use the given limit or the default, " +
			"the given one only when positive; decode/read errors are returned; a bounded io.ReadAll of a response (which, unlike a JSON decoder, stops silently at the limit) is gated by a test of the bytes read or of Content-Length against the limit; (R2) each page loop feeds the page function's returned URL into the next call, " +
			"leaves only when the page function fails, maps only errNoLink to success, sends `last` on the first page only, page functions keep the query of the URL they were given, " +
			"return the callback's error, call the callback before taking the next link, and parseLink resolves the link against the request URL and reports errNoLink only for an absent header; " +
			"(R3) the referrers page is filtered client-side unless no filter was asked or the server declares it applied, the tag-schema path always filters; " +
			"(R4) listTags skips digest-named and not-after-`last` entries and sorts before calling back. " +
			"NOT decided (not applicable to static analysis): exactly-once delivery over all page splits and Link header shapes, byte counts actually consumed.",
		Run:     runC15,
		Mutants: c15Mutants,
	})
}

func runC15(c *Ctx) {
	if c15CoverageHook != nil {
		defer c15CoverageHook(c)
	}
	c15R1(c)
	c15R2(c)
	c15R3(c)
	c15R4(c)
}

var c15Pkgs = []string{"registry/remote", "registry/remote/internal/errutil", "registry/remote/auth"}

// c15Limiter: in-module func(io.Reader, int64) io.Reader (limitReader by role).
func c15Limiters(p *Prog) []*ssa.Function {
	return c13FuncsWhere(p, c13PkgRemote, func(f *ssa.Function) bool {
		ps := f.Signature.Params()
		return f.Parent() == nil && f.Signature.Recv() == nil && ps.Len() == 2 && c13IsNamed(ps.At(0).Type(), "io", "Reader") &&
			c15IsInt64(ps.At(1).Type()) && c13ResultsAre(f, [2]string{"io", "Reader"})
	})
}

// c15SizeLimiters: in-module func(Descriptor, int64) error (limitSize by role).
func c15SizeLimiters(p *Prog) []*ssa.Function {
	return c13FuncsWhere(p, c13PkgRemote, func(f *ssa.Function) bool {
		ps := f.Signature.Params()
		return f.Parent() == nil && f.Signature.Recv() == nil && ps.Len() == 2 && c13IsNamed(ps.At(0).Type(), c13PkgOCI, "Descriptor") &&
			c15IsInt64(ps.At(1).Type()) && c13ResultsAre(f, [2]string{"", "error"})
	})
}

func c15IsInt64(t types.Type) bool {
	b, ok := types.Unalias(t).Underlying().(*types.Basic)
	return ok && b.Kind() == types.Int64
}

// c15SameStruct: a and b denote the same struct value: identical, or loads of
// the same local cell that is written exactly once.
func c15SameStruct(a, b ssa.Value) bool {
	if a == b {
		return true
	}
	cell := func(v ssa.Value) *ssa.Alloc {
		if al := cellOf(v); al != nil && len(storesTo(al)) == 1 && len(closureWriters(al)) == 0 {
			return al
		}
		return nil
	}
	ca, cb := cell(a), cell(b)
	if ca != nil && cb != nil {
		return ca == cb
	}
	// one side the cell's load, the other the value stored into it
	if ca != nil && storesTo(ca)[0].Val == b {
		return true
	}
	if cb != nil && storesTo(cb)[0].Val == a {
		return true
	}
	return false
}

func c15R1(c *Ctx) {
	const (
		RB = "C15.R1.bounded-body-read"
		RS = "C15.R1.sized-read-behind-limit"
		RH = "C15.R1.limit-helpers"
		RE = "C15.R1.read-error-propagates"
	)
	c.Expect(RB, 4) // at least: error parser, two token fetches, one registry/remote reader (copies may be merged into a helper)
	c.Expect(RS, 3)
	c.Expect(RH, 2)
	c.Expect(RE, 7)

	lims := c15Limiters(c.P)
	isLimiter := map[*ssa.Function]bool{}
	for _, l := range lims {
		isLimiter[l] = true
	}
	if len(lims) != 1 {
		c.LostAnchor(RH, fmt.Sprintf("limit helper func(io.Reader, int64) io.Reader in ~/registry/remote (found %d)", len(lims)))
	}
	var limited []ssa.CallInstruction
	for _, rel := range c15Pkgs {
		fs := c.P.FuncsOfPkg(rel)
		if len(fs) == 0 {
			c.LostAnchor(RB, "package ~/"+rel)
			continue
		}
		for _, f := range fs {
			bodies := c13FieldLoads(f, c13PkgHTTP, "Response", "Body", nil)
			if len(bodies) == 0 {
				continue
			}
			handsBack := false
			rs := f.Signature.Results()
			for i := 0; i < rs.Len(); i++ {
				if c13IsNamed(rs.At(i).Type(), "io", "ReadCloser") {
					handsBack = true
				}
			}
			seenUse := map[ssa.Instruction]bool{}
			n := 0
			for v := range bodies {
				if v.Referrers() == nil {
					continue
				}
				for _, use := range *v.Referrers() {
					if seenUse[use] {
						continue
					}
					seenUse[use] = true
					n++
					key := fmt.Sprintf("%s|body-use:", FnName(f))
					switch u := use.(type) {
					case *ssa.DebugRef, *ssa.Phi, *ssa.ChangeInterface, *ssa.MakeInterface, *ssa.ChangeType:
						continue
					case *ssa.BinOp:
						continue // comparison with nil / http.NoBody
					case *ssa.Store:
						if u.Val == v {
							if _, isCell := u.Addr.(*ssa.Alloc); isCell {
								continue // local variable / named result: followed through Aliases
							}
							if fa, isFA := u.Addr.(*ssa.FieldAddr); isFA && c13IsNamed(fa.X.Type(), "io", "LimitedReader") && c13FieldNameOf(fa.X.Type(), fa.Field) == "R" {
								c.OK(RB, fmt.Sprintf("%s|limited-by:io.LimitedReader", FnName(f)), u.Pos(), "the body is consumed only through an io.LimitedReader literal")
								continue
							}
							c.Undecided(RB, key+"store", u.Pos(), "the response body is stored into a field or element; its later uses are not followed")
						}
						continue
					case *ssa.Return:
						if !handsBack {
							c.Violation(RB, key+"return", u.Pos(), "response body returned from a function that does not hand back content (no io.ReadCloser result)")
						}
						continue
					case ssa.CallInstruction:
						cc := u.Common()
						name := CalleeName(u)
						if cc.IsInvoke() && cc.Value == v {
							if cc.Method.Name() == "Close" {
								continue
							}
							c.Violation(RB, key+name, u.Pos(), "the response body is read directly ("+name+"), not through a size limiter")
							continue
						}
						g := StaticCallee(u)
						switch {
						case name == "io.LimitReader" && cc.Args[0] == v, g != nil && isLimiter[g] && cc.Args[0] == v:
							limited = append(limited, u)
							c.OK(RB, fmt.Sprintf("%s|limited-by:%s", FnName(f), name), u.Pos(), "the body is consumed only through "+name)
						case g != nil && fnPkgPath(g) == pkgPath("internal/httputil") && handsBack:
							continue // wrapped as seekable content and handed back
						case g != nil && c15HelperLimitsArg(g, u, v, isLimiter, 2):
							limited = append(limited, u)
							if ErrResultIndex(g.Signature) >= 0 {
								r := ErrFlow(u, ErrFlowOpts{})
								c.Check(RE, FnName(f)+"|"+name, u.Pos(), r.OK, r.How+r.Detail)
							}
							c.OK(RB, fmt.Sprintf("%s|limited-by:%s", FnName(f), name), u.Pos(), "the body is handed to "+name+", which consumes it only through a size limiter")
						case g != nil && inModule(g) && handsBack && c15HelperHandsBack(g, u, v):
							continue // helper that wraps / returns the body as content for the caller
						default:
							c.Violation(RB, key+name, u.Pos(), "the response body is passed to "+name+" without a size limiter: an arbitrarily large metadata response would be read into memory")
						}
					default:
						c.Undecided(RB, key+fmt.Sprintf("%T", use), use.Pos(), "unrecognised use of a response body")
					}
				}
			}
		}
	}
	errFlow := func(call ssa.CallInstruction) ErrFlowResult {
		r := ErrFlow(call, ErrFlowOpts{})
		if !r.OK && c15ErrFlowPathSensitive(call) {
			return ErrFlowResult{OK: true, How: "tested; every feasible failure path returns a non-nil error (the error variable is shared with a later step)"}
		}
		return r
	}
	_ = errFlow
	// every JSON decode / ReadAll of these packages (all of them read registry or token responses, in the function or a helper): errors propagate
	for _, rel := range c15Pkgs {
		for _, f := range c.P.FuncsOfPkg(rel) {
			for _, call := range CallsTo(f, "(*encoding/json.Decoder).Decode", "io.ReadAll") {
				r := errFlow(call)
				c.Check(RE, FnName(f)+"|"+CalleeName(call), call.Pos(), r.OK, r.How+r.Detail)
			}
		}
	}
	// decode helpers (given a response or a reader, single result error): their callers return the error too
	for _, rel := range c15Pkgs {
		for _, h := range c.P.FuncsOfPkg(rel) {
			if len(CallsTo(h, "(*encoding/json.Decoder).Decode", "io.ReadAll")) == 0 || !c13ResultsAre(h, [2]string{"", "error"}) ||
				!(c13HasParam(h, c13PkgHTTP, "Response") || c13HasParam(h, "io", "Reader")) {
				continue
			}
			for _, rel2 := range c15Pkgs {
				for _, f := range c.P.FuncsOfPkg(rel2) {
					for _, call := range c13CallsToFn(f, h) {
						if v := call.Value(); v == nil || ErrNilStatus(v, 0) == NonNil {
							continue // an error constructor (the error-response parser): nothing to propagate
						}
						r := ErrFlow(call, ErrFlowOpts{})
						c.Check(RE, FnName(f)+"|"+FnName(h), call.Pos(), r.OK, r.How+r.Detail)
					}
				}
			}
		}
	}
	c15Truncation(c, limited, isLimiter)

	// descriptor-sized reads behind limitSize
	sls := c15SizeLimiters(c.P)
	if len(sls) != 1 {
		c.LostAnchor(RS, fmt.Sprintf("size guard func(Descriptor, int64) error in ~/registry/remote (found %d)", len(sls)))
	} else {
		SL := sls[0]
		// helpers that read (reader param, descriptor param) → obligation is the callers'
		isSizedHelper := func(g *ssa.Function) bool {
			if g == nil || !inModule(g) || fnPkgPath(g) != pkgPath(c13PkgRemote) || len(c13CallsToFn(g, SL)) > 0 {
				return false // a function with its own size guard is checked itself
			}
			for _, call := range CallsTo(g, "~/content.ReadAll") {
				if _, ok := call.Common().Args[1].(*ssa.Parameter); ok {
					return true
				}
				if al := cellOf(call.Common().Args[1]); al != nil {
					for _, s := range storesTo(al) {
						if _, ok := s.Val.(*ssa.Parameter); ok {
							return true
						}
					}
				}
			}
			return false
		}
		for _, f := range c.P.FuncsOfPkg(c13PkgRemote) {
			if isSizedHelper(f) {
				continue
			}
			for _, call := range Calls(f, func(string) bool { return true }) {
				name := CalleeName(call)
				var D ssa.Value
				switch {
				case name == "~/content.ReadAll":
					D = call.Common().Args[1]
				case name == "~/content.FetchAll":
					D = call.Common().Args[2]
				case isSizedHelper(StaticCallee(call)):
					for _, a := range call.Common().Args {
						if c13IsNamed(a.Type(), c13PkgOCI, "Descriptor") {
							D = a
						}
					}
				default:
					continue
				}
				key := FnName(f) + "|" + name
				var okEdges []Edge
				for _, g := range c13CallsToFn(f, SL) {
					if !c15SameStruct(g.Common().Args[0], D) {
						continue
					}
					if e := ErrOf(g); e != nil {
						nilE, _, _ := NilTests(f, Aliases(e))
						okEdges = append(okEdges, nilE...)
					}
				}
				ok := len(okEdges) > 0 && MustPass(call.(ssa.Instruction), newCut().Edges(okEdges...))
				c.Check(RS, key, call.Pos(), ok,
					ifelse(ok, "the read is dominated by the nil edge of "+FnName(SL)+" on the same descriptor",
						"a descriptor-sized read ("+name+") can be reached without a successful size guard on that descriptor: a manifest of any declared size would be read into memory"))
				r := errFlow(call)
				c.Check(RE, key, call.Pos(), r.OK, r.How+r.Detail)
			}
		}
		c15SizeLimiterBody(c, RH, SL)
	}
	for _, l := range lims {
		c15LimiterBody(c, RH, l)
	}
}

// c15HelperLimitsArg: the in-module callee g uses the reader parameter that
// receives v only as Close receiver or as first argument of io.LimitReader /
// the limit helper / another such helper.
func c15HelperLimitsArg(g *ssa.Function, call ssa.CallInstruction, v ssa.Value, isLimiter map[*ssa.Function]bool, depth int) bool {
	if !inModule(g) || len(g.Blocks) == 0 || len(g.Params) != len(call.Common().Args) {
		return false
	}
	idx := -1
	for i, a := range call.Common().Args {
		if a == v {
			idx = i
		}
	}
	if idx < 0 {
		return false
	}
	limitedUse := false
	for a := range Aliases(g.Params[idx]) {
		if a.Referrers() == nil {
			continue
		}
		for _, use := range *a.Referrers() {
			switch u := use.(type) {
			case *ssa.DebugRef, *ssa.Phi, *ssa.ChangeInterface, *ssa.MakeInterface, *ssa.ChangeType, *ssa.BinOp:
			case *ssa.Store:
				if _, isCell := u.Addr.(*ssa.Alloc); !isCell {
					return false
				}
			case ssa.CallInstruction:
				cc := u.Common()
				if cc.IsInvoke() && cc.Value == a {
					if cc.Method.Name() != "Close" {
						return false
					}
					continue
				}
				h := StaticCallee(u)
				switch {
				case CalleeName(u) == "io.LimitReader" && cc.Args[0] == a, h != nil && isLimiter[h] && cc.Args[0] == a:
					limitedUse = true
				case h != nil && depth > 0 && c15HelperLimitsArg(h, u, a, isLimiter, depth-1):
					limitedUse = true
				default:
					return false
				}
			default:
				return false
			}
		}
	}
	return limitedUse
}

// c15HelperHandsBack: the callee returns the body (possibly wrapped as a
// seekable reader by internal/httputil) as an io.ReadCloser and does nothing else with it.
func c15HelperHandsBack(g *ssa.Function, call ssa.CallInstruction, v ssa.Value) bool {
	if len(g.Blocks) == 0 || len(g.Params) != len(call.Common().Args) {
		return false
	}
	rs := g.Signature.Results()
	has := false
	for i := 0; i < rs.Len(); i++ {
		if c13IsNamed(rs.At(i).Type(), "io", "ReadCloser") {
			has = true
		}
	}
	if !has {
		return false
	}
	for i, a := range call.Common().Args {
		if a != v {
			continue
		}
		for al := range Aliases(g.Params[i]) {
			if al.Referrers() == nil {
				continue
			}
			for _, use := range *al.Referrers() {
				switch u := use.(type) {
				case *ssa.DebugRef, *ssa.Phi, *ssa.ChangeInterface, *ssa.MakeInterface, *ssa.ChangeType, *ssa.BinOp, *ssa.Return:
				case *ssa.Store:
					if _, isCell := u.Addr.(*ssa.Alloc); !isCell {
						return false
					}
				case ssa.CallInstruction:
					h := StaticCallee(u)
					if u.Common().IsInvoke() && u.Common().Value == al && u.Common().Method.Name() == "Close" {
						continue
					}
					if h == nil || fnPkgPath(h) != pkgPath("internal/httputil") {
						return false
					}
				default:
					return false
				}
			}
		}
	}
	return true
}

// c13ErrFlow: the shared ErrFlow with the path-sensitive / pass-through-aware second opinion.
func c13ErrFlow(call ssa.CallInstruction, o ErrFlowOpts) ErrFlowResult {
	r := ErrFlow(call, o)
	if !r.OK && len(o.Tolerated) == 0 && c15ErrFlowPathSensitive(call) {
		return ErrFlowResult{OK: true, How: "tested; every feasible failure path returns a non-nil error (through a pass-through helper / shared error variable)"}
	}
	return r
}

// c15ErrFlowPathSensitive: a second opinion for the shared ErrFlow when the
// error is merged into a variable that a later step also assigns
// (`x, err := a(); if err == nil { err = b(x) }; if err != nil { return … }`):
// walk forward from the non-nil edges keeping the set of values known non-nil
// (phis inherit it along the arrival edge) and prune the nil side of tests on
// them; every return reached must carry a non-nil error.
func c15ErrFlowPathSensitive(call ssa.CallInstruction) bool {
	fn := call.Parent()
	errIdx := ErrResultIndex(fn.Signature)
	e := ErrOf(call)
	if e == nil || errIdx < 0 {
		return false
	}
	_, nonNilE, ifs := NilTests(fn, Aliases(e))
	if len(ifs) == 0 {
		return false
	}
	type state struct {
		b    *ssa.BasicBlock
		pred *ssa.BasicBlock
	}
	ok := true
	var walk func(b, pred *ssa.BasicBlock, known map[ssa.Value]bool, seen map[state]bool)
	walk = func(b, pred *ssa.BasicBlock, known map[ssa.Value]bool, seen map[state]bool) {
		if !ok || seen[state{b, pred}] {
			return
		}
		seen[state{b, pred}] = true
		k2 := map[ssa.Value]bool{}
		for v := range known {
			k2[v] = true
		}
		for _, in := range b.Instrs {
			switch u := in.(type) {
			case *ssa.Phi:
				for i, p := range b.Preds {
					if p == pred && known[u.Edges[i]] {
						k2[u] = true
					}
				}
			case *ssa.Return:
				v := c13PassThrough(u.Results[errIdx])
				if !(k2[v] || ErrNilStatus(v, 0) == NonNil || derivesFromAny(v, k2, 0)) {
					ok = false
				}
				return
			}
			if in == call.(ssa.Instruction) {
				return // a new attempt: a new error value
			}
		}
		if iff, isIf := b.Instrs[len(b.Instrs)-1].(*ssa.If); isIf {
			cond, t, f := ifEdges(iff)
			if bo, isBin := cond.(*ssa.BinOp); isBin && (bo.Op == token.EQL || bo.Op == token.NEQ) {
				var x ssa.Value
				if isNilConst(bo.Y) {
					x = bo.X
				} else if isNilConst(bo.X) {
					x = bo.Y
				}
				if x != nil && k2[x] { // known non-nil: only the non-nil side is feasible
					if bo.Op == token.EQL {
						walk(f.To, b, k2, seen)
					} else {
						walk(t.To, b, k2, seen)
					}
					return
				}
			}
		}
		for _, s := range b.Succs {
			walk(s, b, k2, seen)
		}
	}
	for _, ne := range nonNilE {
		known := map[ssa.Value]bool{}
		for a := range Aliases(e) {
			if _, isPhi := a.(*ssa.Phi); !isPhi {
				known[a] = true
			}
		}
		// the tested value itself is non-nil on this edge
		if iff, isIf := ne.From.Instrs[len(ne.From.Instrs)-1].(*ssa.If); isIf {
			if cond, _, _ := ifEdges(iff); cond != nil {
				if bo, isBin := cond.(*ssa.BinOp); isBin {
					known[bo.X], known[bo.Y] = true, true
				}
			}
		}
		walk(ne.To, ne.From, known, map[state]bool{})
	}
	return ok
}

// c15Truncation: io.ReadAll over a limited reader stops silently at the limit
// (unlike a JSON decoder, which fails on a cut document).  A function that
// reads a response this way must have its success gated by a test that can see
// the truncation: a condition mentioning len(bytes read) or the response's
// Content-Length compared with a non-constant — in the function itself after
// the read, or dominating every call of it (size guard / Content-Length test
// in the callers).
func c15Truncation(c *Ctx, limited []ssa.CallInstruction, isLimiter map[*ssa.Function]bool) {
	const RT = "C15.R1.truncation-detected"
	c.Expect(RT, 1)
	mentions := func(v ssa.Value, pred func(ssa.Value) bool) bool {
		seen := map[ssa.Value]bool{}
		var rec func(v ssa.Value, d int) bool
		rec = func(v ssa.Value, d int) bool {
			if v == nil || d > 6 || seen[v] {
				return false
			}
			seen[v] = true
			if pred(v) {
				return true
			}
			switch u := v.(type) {
			case *ssa.BinOp:
				return rec(u.X, d+1) || rec(u.Y, d+1)
			case *ssa.UnOp:
				if u.Op == token.NOT || u.Op == token.SUB {
					return rec(u.X, d+1)
				}
			case *ssa.Convert:
				return rec(u.X, d+1)
			case *ssa.ChangeType:
				return rec(u.X, d+1)
			case *ssa.Phi:
				for _, e := range u.Edges {
					if rec(e, d+1) {
						return true
					}
				}
			case *ssa.Call:
				if CalleeName(u) == "builtin:len" {
					return rec(u.Call.Args[0], d+1)
				}
			}
			return false
		}
		return rec(v, 0)
	}
	// Ifs of fn whose condition compares (something mentioning pred) with a non-constant
	gates := func(fn *ssa.Function, pred func(ssa.Value) bool) []*ssa.If {
		var out []*ssa.If
		for _, i := range Ifs(fn) {
			cond, _, _ := ifEdges(i)
			bo, ok := cond.(*ssa.BinOp)
			if !ok {
				continue
			}
			_, xc := bo.X.(*ssa.Const)
			_, yc := bo.Y.(*ssa.Const)
			if xc || yc {
				continue
			}
			if mentions(bo.X, pred) || mentions(bo.Y, pred) {
				out = append(out, i)
			}
		}
		return out
	}
	sls := c15SizeLimiters(c.P)
	for _, l := range limited {
		f := l.Parent()
		lv := l.Value()
		if lv == nil || isLimiter[f] {
			continue
		}
		for a := range Aliases(lv) {
			if a.Referrers() == nil {
				continue
			}
			for _, use := range *a.Referrers() {
				ra, ok := use.(*ssa.Call)
				if !ok || CalleeName(ra) != "io.ReadAll" {
					continue
				}
				key := FnName(f) + "|io.ReadAll"
				data := c13AliasSet(ResultOf(ra, 0))
				cl := c13FieldLoads(f, c13PkgHTTP, "Response", "ContentLength", nil)
				inFn := false
				// an unknown length (Content-Length < 0) is rejected by the descriptor generators (C13.R2): exempt
				unknownLen := c13TestsOf(f, cl).lt0
				for _, g := range gates(f, func(v ssa.Value) bool { return data[v] || cl[v] }) {
					_, t, e := ifEdges(g)
					for _, edge := range []Edge{t, e} {
						if c13SuccessEscapes(f, f.Blocks[0], 0, newCut().Edges(edge).Edges(unknownLen...), nil) == nil {
							inFn = true
						}
					}
				}
				if inFn {
					c.OK(RT, key, ra.Pos(), "success after the bounded ReadAll is gated by a test of the bytes read / the Content-Length")
					continue
				}
				// callers
				callers := 0
				allGuarded := true
				for _, rel := range c15Pkgs {
					for _, g := range c.P.FuncsOfPkg(rel) {
						for _, call := range c13CallsToFn(g, f) {
							callers++
							guarded := false
							gcl := c13FieldLoads(g, c13PkgHTTP, "Response", "ContentLength", nil)
							for _, gi := range gates(g, func(v ssa.Value) bool { return gcl[v] }) {
								_, t, e := ifEdges(gi)
								for _, edge := range []Edge{t, e} {
									if MustPass(call.(ssa.Instruction), newCut().Edges(edge)) {
										guarded = true
									}
								}
							}
							for _, sl := range sls {
								for _, sc := range c13CallsToFn(g, sl) {
									if e := ErrOf(sc); e != nil {
										nilE, _, _ := NilTests(g, Aliases(e))
										if len(nilE) > 0 && MustPass(call.(ssa.Instruction), newCut().Edges(nilE...)) {
											guarded = true
										}
									}
								}
							}
							if !guarded {
								allGuarded = false
							}
						}
					}
				}
				if callers > 0 && allGuarded {
					c.OK(RT, key, ra.Pos(), "every call of the function is dominated by a size guard / Content-Length test")
					continue
				}
				c.Violation(RT, key, ra.Pos(), "io.ReadAll over the size-limited body stops silently at the limit and nothing compares the bytes read or the Content-Length with the limit: "+
					"a response larger than MaxMetadataBytes is truncated without error (FetchReference by tag without Docker-Content-Digest returns the digest of the prefix and a cut body)")
			}
		}
	}
}

// c15PosEdges: edges on which a value of vals is known > 0.
func c15PosEdges(fn *ssa.Function, vals map[ssa.Value]bool) []Edge {
	var out []Edge
	for _, i := range Ifs(fn) {
		cond, t, f := ifEdges(i)
		bo, ok := cond.(*ssa.BinOp)
		if !ok {
			continue
		}
		x, y, op := bo.X, bo.Y, bo.Op
		if vals[y] && !vals[x] {
			x, y = y, x
			op = map[token.Token]token.Token{token.LSS: token.GTR, token.GTR: token.LSS, token.LEQ: token.GEQ, token.GEQ: token.LEQ, token.EQL: token.EQL, token.NEQ: token.NEQ}[op]
		}
		if !vals[x] {
			continue
		}
		k, isConst := c13ConstInt(y)
		if !isConst {
			continue
		}
		switch {
		case op == token.LEQ && k == 0, op == token.LSS && k == 1:
			out = append(out, f)
		case op == token.GTR && k == 0, op == token.GEQ && k == 1:
			out = append(out, t)
		}
	}
	return out
}

// c15LimitValueOK: the limit value is the int64 parameter (only where it is
// known positive) or a package-level default.
// c15IsLimitNormaliser: h is func(n int64) int64 returning n only where it is
// known positive and a package-level default otherwise (a shared
// "effective limit" helper).
func c15IsLimitNormaliser(h *ssa.Function) bool {
	if h == nil || !inModule(h) || len(h.Blocks) == 0 || len(h.Params) != 1 || !c15IsInt64(h.Params[0].Type()) {
		return false
	}
	rs := h.Signature.Results()
	if rs.Len() != 1 || !c15IsInt64(rs.At(0).Type()) {
		return false
	}
	np := h.Params[0]
	pos := c15PosEdges(h, Aliases(np))
	sawDefault, sawParam := false, false
	for _, a := range RetAtoms(h, 0) {
		switch v := a.Val.(type) {
		case *ssa.Parameter:
			if v != np || c13AtomReach(h.Blocks[0], 0, a, newCut().Edges(pos...)) {
				return false
			}
			sawParam = true
		case *ssa.UnOp:
			if _, isG := v.X.(*ssa.Global); !isG || v.Op != token.MUL {
				return false
			}
			sawDefault = true
		case *ssa.Const:
			sawDefault = true
		case *ssa.Call:
			if !c15IsOrDefault(v, np) {
				return false
			}
			sawDefault, sawParam = true, true
		default:
			return false
		}
	}
	return sawDefault && sawParam
}

// c15IsOrDefault: v = cmp.Or(max(n, 0), default) — the first non-zero of the
// given limit clamped at zero and the default, i.e. n when positive, else the default.
func c15IsOrDefault(v ssa.Value, param *ssa.Parameter) bool {
	call, ok := v.(*ssa.Call)
	if !ok || CalleeName(call) != "cmp.Or" || len(call.Call.Args) != 1 {
		return false
	}
	// variadic: the elements stored into the backing array
	var elems []ssa.Value
	if sl, isSlice := call.Call.Args[0].(*ssa.Slice); isSlice {
		if al, isAlloc := sl.X.(*ssa.Alloc); isAlloc {
			byIdx := map[int64]ssa.Value{}
			for _, r := range *al.Referrers() {
				if ia, isIA := r.(*ssa.IndexAddr); isIA {
					k, _ := c13ConstInt(ia.Index)
					for _, r2 := range *ia.Referrers() {
						if st, isStore := r2.(*ssa.Store); isStore {
							byIdx[k] = st.Val
						}
					}
				}
			}
			for i := int64(0); i < int64(len(byIdx)); i++ {
				elems = append(elems, byIdx[i])
			}
		}
	}
	if len(elems) != 2 {
		return false
	}
	first, isCall := elems[0].(*ssa.Call)
	if !isCall || CalleeName(first) != "builtin:max" || len(first.Call.Args) != 2 {
		return false
	}
	a, b := first.Call.Args[0], first.Call.Args[1]
	ka, okA := c13ConstInt(a)
	kb, okB := c13ConstInt(b)
	clamped := (a == ssa.Value(param) && okB && kb == 0) || (b == ssa.Value(param) && okA && ka == 0)
	if !clamped {
		return false
	}
	d := strip(elems[1])
	if ld, isLoad := d.(*ssa.UnOp); isLoad && ld.Op == token.MUL {
		_, isG := ld.X.(*ssa.Global)
		return isG
	}
	k, isC := c13ConstInt(d)
	return isC && k > 0
}

func c15LimitValueOK(fn *ssa.Function, lim ssa.Value, param *ssa.Parameter) (ok bool, why string) {
	if c15IsOrDefault(lim, param) {
		return true, ""
	}
	// the effective limit computed by a shared normalising helper from the given limit
	if call, isCall := lim.(*ssa.Call); isCall && len(call.Call.Args) == 1 && call.Call.Args[0] == ssa.Value(param) && c15IsLimitNormaliser(StaticCallee(call)) {
		return true, ""
	}
	pos := c15PosEdges(fn, Aliases(param))
	okRoot := func(r ssa.Value) (isParam, fine bool) {
		if r == ssa.Value(param) {
			return true, true
		}
		if u, isLoad := r.(*ssa.UnOp); isLoad && u.Op == token.MUL {
			if _, isG := u.X.(*ssa.Global); isG {
				return false, true
			}
		}
		if _, isConst := r.(*ssa.Const); isConst {
			return false, true
		}
		return false, false
	}
	sawDefault := false
	if phi, isPhi := lim.(*ssa.Phi); isPhi {
		for i, e := range phi.Edges {
			edge := Edge{phi.Block().Preds[i], phi.Block()}
			for _, r := range Roots(e) {
				isParam, fine := okRoot(r)
				if !fine {
					return false, "the limit is computed (" + describe(r) + "), not the given limit or the default"
				}
				if !isParam {
					sawDefault = true
					continue
				}
				inPos := false
				for _, p := range pos {
					if p == edge {
						inPos = true
					}
				}
				if !inPos && reach(fn.Blocks[0], 0, edge.From.Instrs[len(edge.From.Instrs)-1], newCut().Edges(pos...)) {
					return false, "the given limit is used on a path where it is not known to be positive (the zero value would mean `read nothing`)"
				}
			}
		}
		if !sawDefault {
			return false, "no default limit is substituted"
		}
		return true, ""
	}
	for _, r := range Roots(lim) {
		isParam, fine := okRoot(r)
		if !fine {
			return false, "the limit is computed (" + describe(r) + "), not the given limit or the default"
		}
		if isParam {
			return false, "the given limit is used as is: no default is substituted when it is not positive"
		}
	}
	return true, ""
}

func c15Int64Param(f *ssa.Function) *ssa.Parameter {
	for _, p := range f.Params {
		if c15IsInt64(p.Type()) {
			return p
		}
	}
	return nil
}

// c15LimitedReaders: the size-limited readers constructed in fn, as
// (value returned / used, wrapped reader, limit, position): calls of
// io.LimitReader(r, n) and literals &io.LimitedReader{R: r, N: n}.
type c15Limited struct {
	Val    ssa.Value
	Reader ssa.Value
	Limit  ssa.Value
	At     ssa.Instruction
}

func c15LimitedReaders(fn *ssa.Function) []c15Limited {
	var out []c15Limited
	for _, lr := range CallsTo(fn, "io.LimitReader") {
		out = append(out, c15Limited{lr.Value(), lr.Common().Args[0], lr.Common().Args[1], lr.(ssa.Instruction)})
	}
	AllInstrs(fn, func(in ssa.Instruction) {
		al, ok := in.(*ssa.Alloc)
		if !ok || !c13IsNamed(al.Type(), "io", "LimitedReader") {
			return
		}
		l := c15Limited{Val: al, At: al}
		for _, r := range *al.Referrers() {
			fa, ok := r.(*ssa.FieldAddr)
			if !ok {
				continue
			}
			for _, r2 := range *fa.Referrers() {
				st, ok := r2.(*ssa.Store)
				if !ok {
					continue
				}
				switch c13FieldNameOf(fa.X.Type(), fa.Field) {
				case "R":
					l.Reader, l.At = st.Val, st
				case "N":
					l.Limit = st.Val
				}
			}
		}
		if l.Reader != nil && l.Limit != nil {
			out = append(out, l)
		}
	})
	return out
}

func c15LimiterBody(c *Ctx, rule string, L *ssa.Function) {
	lrs := c15LimitedReaders(L)
	key := FnName(L) + "|limit-is-n-or-default"
	if len(lrs) == 0 {
		c.Violation(rule, key, L.Pos(), "the limit helper does not wrap its reader in io.LimitReader / io.LimitedReader")
		return
	}
	isLR := map[ssa.Value]bool{}
	ok, why := true, ""
	np := c15Int64Param(L)
	pos := c15PosEdges(L, Aliases(np))
	sawDefault := false
	ownReader := Aliases(L.Params[0])
	for _, lr := range lrs {
		for a := range Aliases(lr.Val) {
			isLR[a] = true
		}
		if !ownReader[lr.Reader] && !ownReader[strip(lr.Reader)] {
			ok, why = false, "the limited reader does not wrap the helper's own reader"
		}
		if lr.Limit == ssa.Value(np) {
			// the given limit as is: only where it is known positive
			if !MustPass(lr.At, newCut().Edges(pos...)) {
				ok, why = false, "the given limit is used on a path where it is not known to be positive (the zero value would mean `read nothing`)"
			}
			continue
		}
		if o, w := c15LimitValueOK(L, lr.Limit, np); !o {
			ok, why = false, w
		} else {
			sawDefault = true
		}
	}
	if ok && !sawDefault {
		ok, why = false, "no default limit is substituted"
	}
	for _, a := range RetAtoms(L, 0) {
		if !isLR[a.Val] && !isLR[strip(a.Val)] {
			ok, why = false, "the helper does not return the limited reader of its own reader on every path"
		}
	}
	c.Check(rule, key, lrs[0].At.Pos(), ok, ifelse(ok, "returns io.LimitReader(r, n>0 ? n : default)", why))
}

func c15SizeLimiterBody(c *Ctx, rule string, S *ssa.Function) {
	key := FnName(S) + "|nil-only-if-size-within-limit"
	size := c13FieldLoads(S, c13PkgOCI, "Descriptor", "Size", nil)
	np := c15Int64Param(S)
	var within []Edge
	why := "no comparison of desc.Size with the limit found"
	for _, i := range Ifs(S) {
		cond, t, f := ifEdges(i)
		bo, ok := cond.(*ssa.BinOp)
		if !ok {
			continue
		}
		var lim ssa.Value
		var e Edge
		switch {
		case size[bo.X] && bo.Op == token.GTR: // size > lim
			lim, e = bo.Y, f
		case size[bo.X] && bo.Op == token.LEQ:
			lim, e = bo.Y, t
		case size[bo.Y] && bo.Op == token.LSS: // lim < size
			lim, e = bo.X, f
		case size[bo.Y] && bo.Op == token.GEQ:
			lim, e = bo.X, t
		default:
			continue
		}
		if ok, w := c15LimitValueOK(S, lim, np); ok {
			within = append(within, e)
		} else {
			why = w
		}
	}
	bad := c13SuccessEscapes(S, S.Blocks[0], 0, newCut().Edges(within...), nil)
	ok := len(within) > 0 && bad == nil
	c.Check(rule, key, S.Pos(), ok, ifelse(ok, "every nil return passes the edge desc.Size <= (n>0 ? n : default)", "the size guard can return nil without having found desc.Size within the limit: "+why))
}

// ---------- R2 page loops ----------

type c15PageLoop struct {
	fn   *ssa.Function
	loop *Loop
	call ssa.CallInstruction
	page *ssa.Function
}

// c15PageFns: functions of registry/remote with results (string, error) that
// perform an HTTP exchange (page functions by role).
func c15IsPageFn(g *ssa.Function) bool {
	if g == nil || !inModule(g) || len(g.Blocks) == 0 {
		return false
	}
	rs := g.Signature.Results()
	if rs.Len() != 2 || !isErrorType(rs.At(1).Type()) {
		return false
	}
	if !types.Identical(types.Unalias(rs.At(0).Type()), types.Typ[types.String]) {
		return false
	}
	return len(c13SendSites(g)) > 0
}

// c15QueryArgOK: v is the value of query parameter `key` built from vals:
// for "n" strconv.Itoa(x) with x in vals, otherwise a value of vals itself.
func c15QueryArgOK(key string, v ssa.Value, vals map[ssa.Value]bool) bool {
	if vals[v] {
		return true
	}
	for _, r := range Roots(v) {
		if call, ok := r.(*ssa.Call); ok && (CalleeName(call) == "strconv.Itoa" || CalleeName(call) == "strconv.FormatInt") && len(call.Call.Args) > 0 && vals[strip(call.Call.Args[0])] {
			return true
		}
	}
	return false
}

// c15QueryFact: "the value is carried by the request's query, or need not be":
// edges on which the value is absent (string == "" / integer <= 0), and the
// RawQuery stores reached only after Values.Set(key, value) or over such an edge.
func c15QueryFact(key string, numeric bool) c13Fact {
	absent := func(fn *ssa.Function, vals map[ssa.Value]bool) []Edge {
		if !numeric {
			return c13FactEdgesOfConds(fn, c13EmptyStringClass(vals))
		}
		return c13FactEdgesOfConds(fn, func(cond ssa.Value) (bool, bool) {
			op, other, ok := c13CmpNorm(cond, vals)
			if !ok {
				return false, false
			}
			k, isC := c13ConstInt(other)
			if !isC {
				return false, false
			}
			switch {
			case op == token.LEQ && k == 0, op == token.LSS && k == 1, op == token.EQL && k == 0:
				return true, false
			case op == token.GTR && k == 0, op == token.GEQ && k == 1, op == token.NEQ && k == 0:
				return false, true
			}
			return false, false
		})
	}
	return c13Fact{ID: "query:" + key,
		Use: func(fn *ssa.Function, vals map[ssa.Value]bool, _ map[ssa.Value]int64) ([]Edge, []ssa.Value) {
			return absent(fn, vals), nil
		},
		Instrs: func(fn *ssa.Function, vals map[ssa.Value]bool) []ssa.Instruction {
			ct := newCut().Edges(absent(fn, vals)...)
			n := 0
			for _, set := range CallsTo(fn, "(net/url.Values).Set", "(net/url.Values).Add") {
				if k, ok := constString(set.Common().Args[1]); ok && k == key && c15QueryArgOK(key, set.Common().Args[2], vals) {
					ct.Instr(set.(ssa.Instruction))
					n++
				}
			}
			var out []ssa.Instruction
			if n == 0 {
				return nil
			}
			for _, st := range c13FieldStores(fn, "net/url", "URL", "RawQuery", nil) {
				if MustPass(st, ct) {
					out = append(out, st)
				}
			}
			return out
		}}
}

// c15QueryInputs: the value sets of fn that become query parameter `key`
// (in fn itself or through a helper): parameter aliases, or all loads of the
// struct field the value is read from.
func c15QueryInputs(fn *ssa.Function, key string, depth int) []map[ssa.Value]bool {
	var out []map[ssa.Value]bool
	widen := func(v ssa.Value) map[ssa.Value]bool {
		v = strip(v)
		set := Aliases(v)
		if ld, ok := v.(*ssa.UnOp); ok && ld.Op == token.MUL {
			if fa, ok := ld.X.(*ssa.FieldAddr); ok { // a configuration field: every load of it is the same setting
				AllInstrs(fn, func(in ssa.Instruction) {
					if l2, ok := in.(*ssa.UnOp); ok && l2.Op == token.MUL {
						if f2, ok := l2.X.(*ssa.FieldAddr); ok && f2.Field == fa.Field && types.Identical(f2.X.Type(), fa.X.Type()) {
							set[l2] = true
						}
					}
				})
			}
		}
		return set
	}
	for _, set := range CallsTo(fn, "(net/url.Values).Set", "(net/url.Values).Add") {
		if k, ok := constString(set.Common().Args[1]); !ok || k != key {
			continue
		}
		v := set.Common().Args[2]
		for _, r := range Roots(v) {
			if call, ok := r.(*ssa.Call); ok && (CalleeName(call) == "strconv.Itoa" || CalleeName(call) == "strconv.FormatInt") && len(call.Call.Args) > 0 {
				v = call.Call.Args[0]
			}
		}
		out = append(out, widen(v))
	}
	if depth > 0 {
		for _, ci := range Calls(fn, func(string) bool { return true }) {
			call, ok := ci.(*ssa.Call)
			h := StaticCallee(ci)
			if !ok || h == nil || !inModule(h) || len(h.Blocks) == 0 || h == fn || len(h.Params) != len(call.Call.Args) {
				continue
			}
			for _, hv := range c15QueryInputs(h, key, depth-1) {
				for i, p := range h.Params {
					if hv[p] {
						out = append(out, widen(call.Call.Args[i]))
					}
				}
			}
		}
	}
	return out
}

// c15DecodeTargetsFresh: every (*json.Decoder).Decode / json.Unmarshal target
// reached from the page function pg (in pg or in helpers it calls, depth 2)
// is rooted in an allocation made while handling this page: a local of pg or
// of a helper below it; a parameter is followed to the callers — an
// allocation in a caller is fresh only inside the loop that calls the page
// function; captured variables, fields and globals outlive a page unless a
// zeroing store to the target precedes the decode.
func c15DecodeTargetsFresh(c *Ctx, pg *ssa.Function, drivers []c15Driver) (bool, string) {
	isDecode := func(n string) bool { return n == "(*encoding/json.Decoder).Decode" || n == "encoding/json.Unmarshal" }
	// the activations that handle one page: pg and its helpers
	perPage := map[*ssa.Function]bool{pg: true}
	var below func(f *ssa.Function, d int)
	below = func(f *ssa.Function, d int) {
		if d == 0 {
			return
		}
		for _, ci := range Calls(f, func(string) bool { return true }) {
			if h := StaticCallee(ci); h != nil && inModule(h) && len(h.Blocks) > 0 && !perPage[h] && !c15IsPageFn(h) {
				perPage[h] = true
				below(h, d-1)
			}
		}
	}
	below(pg, 2)
	var fresh func(f *ssa.Function, v ssa.Value, at ssa.Instruction, depth int) (bool, string)
	fresh = func(f *ssa.Function, v ssa.Value, at ssa.Instruction, depth int) (bool, string) {
		for _, r := range Roots(v) {
			r = strip(r)
			// zeroed before use
			zeroed := false
			AllInstrs(f, func(in ssa.Instruction) {
				if st, ok := in.(*ssa.Store); ok && (st.Addr == r || SameValue(st.Addr, r)) && at != nil && MustPass(at, newCut().Instr(st)) {
					if _, isAlloc := r.(*ssa.Alloc); !isAlloc {
						zeroed = true
					}
				}
			})
			if zeroed {
				continue
			}
			switch u := r.(type) {
			case *ssa.Alloc:
				if perPage[f] || c15IsPageFn(f) { // a local of this page's handling, or of another page function sharing the helper
					continue
				}
				// an allocation in a caller: fresh only if made inside the loop around the page call
				inLoop := false
				for _, l := range Loops(f) {
					if l.Contains(u) && at != nil && l.Contains(at) {
						inLoop = true
					}
				}
				if !inLoop {
					return false, fmt.Sprintf("the decode target is a variable of %s that lives across pages (allocated at %s): members missing from a later page keep the previous page's items and slices handed to the callback are overwritten", FnName(f), c.P.Pos(u.Pos()))
				}
			case *ssa.Parameter:
				if depth <= 0 {
					return false, "the decode target is handed down through too many calls to be followed"
				}
				idx := -1
				for i, q := range f.Params {
					if q == u {
						idx = i
					}
				}
				callers := 0
				for _, rel := range c15Pkgs {
					for _, g := range c.P.FuncsOfPkg(rel) {
						for _, call := range c13CallsToFn(g, f) {
							callers++
							if ok, why := fresh(g, call.Common().Args[idx], call.(ssa.Instruction), depth-1); !ok {
								return false, why
							}
						}
					}
				}
				if callers == 0 {
					return false, "the decode target is a parameter for which no caller was found"
				}
			default:
				return false, fmt.Sprintf("the decode target (%s) is a captured variable, field or global that outlives one page and is not reset before the decode", describe(r))
			}
		}
		return true, ""
	}
	for f := range perPage {
		for _, d := range Calls(f, isDecode) {
			args := d.Common().Args
			if ok, why := fresh(f, args[len(args)-1], d.(ssa.Instruction), 3); !ok {
				return false, why
			}
		}
	}
	_ = drivers
	return true, ""
}

// c15FeedsRequestURL: a value of vals is the URL of the request built by fn
// (http.NewRequestWithContext), directly or in a helper fn hands it to.
func c15FeedsRequestURL(fn *ssa.Function, vals map[ssa.Value]bool, depth int) bool {
	for _, nr := range CallsTo(fn, "net/http.NewRequestWithContext") {
		if vals[nr.Common().Args[2]] {
			return true
		}
	}
	if depth <= 0 {
		return false
	}
	calls, idxs := c13RespParamCalls(fn, vals)
	for k, call := range calls {
		h := StaticCallee(call)
		if h != fn && c15FeedsRequestURL(h, Aliases(h.Params[idxs[k]]), depth-1) {
			return true
		}
	}
	return false
}

// c15FeedsLastParam: a value of vals becomes the `last` query parameter:
// Values.Set("last", v) in fn, or in a helper fn hands it to (depth).
func c15FeedsLastParam(fn *ssa.Function, vals map[ssa.Value]bool, depth int) bool {
	for _, set := range CallsTo(fn, "(net/url.Values).Set", "(net/url.Values).Add") {
		if k, ok := constString(set.Common().Args[1]); ok && k == "last" && vals[set.Common().Args[2]] {
			return true
		}
	}
	if depth <= 0 {
		return false
	}
	calls, idxs := c13RespParamCalls(fn, vals)
	for k, call := range calls {
		h := StaticCallee(call)
		if h != fn && c15FeedsLastParam(h, Aliases(h.Params[idxs[k]]), depth-1) {
			return true
		}
	}
	return false
}

// c15Driver: a pagination loop: a function with a loop around page calls —
// static calls of a page function, or calls of a func(string) (string, error)
// parameter (a generic driver; the page functions are bound by its callers).
type c15Driver struct {
	fn    *ssa.Function
	loop  *Loop
	calls []ssa.CallInstruction // all page calls of fn (at least one inside the loop)
	page  *ssa.Function         // static page function, nil for a generic driver
	fetch *ssa.Parameter        // the fetcher parameter of a generic driver
}

func c15IsFetcherType(t types.Type) bool {
	sig, ok := types.Unalias(t).Underlying().(*types.Signature)
	if !ok || sig.Params().Len() < 1 || sig.Params().Len() > 2 || sig.Results().Len() != 2 {
		return false
	}
	for i := 0; i < sig.Params().Len(); i++ { // (url) or (url, last)
		if !types.Identical(sig.Params().At(i).Type(), types.Typ[types.String]) {
			return false
		}
	}
	return types.Identical(sig.Results().At(0).Type(), types.Typ[types.String]) && isErrorType(sig.Results().At(1).Type())
}

func c15Drivers(p *Prog) []c15Driver {
	var out []c15Driver
	for _, pl := range c15PageLoops(p) {
		out = append(out, c15Driver{fn: pl.fn, loop: pl.loop, calls: []ssa.CallInstruction{pl.call}, page: pl.page})
	}
	for _, f := range p.FuncsOfPkg(c13PkgRemote) {
		for _, prm := range f.Params {
			if !c15IsFetcherType(prm.Type()) {
				continue
			}
			al := Aliases(prm)
			var calls []ssa.CallInstruction
			for _, ci := range Calls(f, func(string) bool { return true }) {
				if _, isCall := ci.(*ssa.Call); isCall && !ci.Common().IsInvoke() && al[ci.Common().Value] {
					calls = append(calls, ci)
				}
			}
			for _, l := range Loops(f) {
				in := false
				for _, ci := range calls {
					if l.Contains(ci.(ssa.Instruction)) {
						in = true
					}
				}
				if in {
					out = append(out, c15Driver{fn: f, loop: l, calls: calls, fetch: prm})
					break
				}
			}
		}
	}
	return out
}

func c15PageLoops(p *Prog) []c15PageLoop {
	var out []c15PageLoop
	for _, f := range p.FuncsOfPkg(c13PkgRemote) {
		for _, l := range Loops(f) {
			for _, call := range Calls(f, func(string) bool { return true }) {
				if l.Contains(call.(ssa.Instruction)) && c15IsPageFn(StaticCallee(call)) {
					out = append(out, c15PageLoop{f, l, call, StaticCallee(call)})
				}
			}
		}
	}
	return out
}

// c15Links: link parser by role: func(*http.Response) (string, error), no exchange.
func c15LinkFns(p *Prog) []*ssa.Function {
	return c13FuncsWhere(p, c13PkgRemote, func(f *ssa.Function) bool {
		ps := f.Signature.Params()
		if f.Parent() != nil || f.Signature.Recv() != nil || ps.Len() != 1 || !c13IsPtrTo(ps.At(0).Type(), c13PkgHTTP, "Response") {
			return false
		}
		rs := f.Signature.Results()
		if rs.Len() != 2 || !isErrorType(rs.At(1).Type()) {
			return false
		}
		if !types.Identical(types.Unalias(rs.At(0).Type()), types.Typ[types.String]) || len(c13SendSites(f)) > 0 {
			return false
		}
		// it reads the Link header of the response (RFC 5988 header name: a protocol constant)
		for _, g := range CallsTo(f, "(net/http.Header).Get") {
			if s, ok := constString(g.Common().Args[1]); ok && s == "Link" {
				return true
			}
		}
		return false
	})
}

// c15NoLink: the end-of-pages sentinel, resolved by role in c15R2: the package-level error the link parser returns
// when the response carries no Link header (errNoLink on the pinned tree).
var c15NoLink = "~/registry/remote.errNoLink"

func c15R2(c *Ctx) {
	const (
		RL = "C15.R2.page-loop"
		RP = "C15.R2.page-function"
		RK = "C15.R2.link-parser"
	)
	c.Expect(RL, 9) // per loop 4 (+ last-first-page-only); with one shared generic driver: 4 + per bound page fetcher 1 (+ last): 9 is the minimum
	c.Expect(RP, 26)
	c.Expect(RK, 3)
	links := c15LinkFns(c.P)
	if len(links) != 1 {
		c.LostAnchor(RK, fmt.Sprintf("link parser func(*http.Response) (string, error) in ~/registry/remote (found %d)", len(links)))
		return
	}
	LK := links[0]
	// the sentinel by role: the package-level error variable the link parser returns
	sentinels := map[string]bool{}
	for _, a := range RetAtoms(LK, 1) {
		if ld, ok := a.Val.(*ssa.UnOp); ok && ld.Op == token.MUL {
			if _, isG := ld.X.(*ssa.Global); isG {
				sentinels[sentinelName(a.Val)] = true
			}
		}
	}
	if len(sentinels) != 1 {
		c.LostAnchor(RL, fmt.Sprintf("end-of-pages sentinel (the package-level error returned by %s; found %d)", FnName(LK), len(sentinels)))
		return
	}
	for name := range sentinels {
		c15NoLink = name
	}
	drivers := c15Drivers(c.P)
	if len(drivers) == 0 {
		c.LostAnchor(RL, "page loops (a loop calling a page function, or a func(string) (string, error) parameter) in ~/registry/remote")
		return
	}
	pages := map[*ssa.Function]bool{}
	pageIdx := func(pg *ssa.Function) (urlIdx, lastIdx int) {
		urlIdx, lastIdx = -1, -1
		for i, prm := range pg.Params {
			al := Aliases(prm)
			if c15FeedsRequestURL(pg, al, 2) {
				urlIdx = i
			}
			if c15FeedsLastParam(pg, al, 2) {
				lastIdx = i
			}
		}
		return
	}
	for _, d := range drivers {
		f, l := d.fn, d.loop
		fnm := FnName(f)
		urlIdx, lastIdx := 0, -1
		if d.page != nil {
			pages[d.page] = true
			urlIdx, lastIdx = pageIdx(d.page)
		}
		var inLoop []ssa.CallInstruction
		allCalls := newCut()
		next := map[ssa.Value]bool{}
		errAl := map[ssa.Value]bool{}
		for _, P := range d.calls {
			allCalls.Instr(P.(ssa.Instruction))
			if l.Contains(P.(ssa.Instruction)) {
				inLoop = append(inLoop, P)
			}
			for a := range c13AliasSet(ResultOf(P, 0)) {
				next[a] = true
			}
			for a := range c13AliasSet(ErrOf(P)) {
				errAl[a] = true
			}
		}
		P0 := inLoop[0]
		// how an argument of an in-loop page call is carried around the loop: "advancing" = fed from the page call's
		// first result, "cleared" = "" from the second iteration on; the carrier is a loop phi or a struct field
		// (a cursor object) that every path round the loop stores into
		carried := func(P ssa.CallInstruction, arg ssa.Value) string {
			if phi, isPhi := arg.(*ssa.Phi); isPhi && phi.Block() == l.Header {
				adv, clr := true, true
				for i, pred := range phi.Block().Preds {
					if !l.Blocks[pred] {
						continue
					}
					if !c13RootsIn(phi.Edges[i], next) {
						adv = false
					}
					if sv, isC := constString(phi.Edges[i]); !isC || sv != "" {
						clr = false
					}
				}
				switch {
				case adv:
					return "advancing"
				case clr:
					return "cleared"
				}
				return ""
			}
			ld, isLoad := strip(arg).(*ssa.UnOp)
			if !isLoad || ld.Op != token.MUL {
				return ""
			}
			fa, isFA := ld.X.(*ssa.FieldAddr)
			if !isFA {
				return ""
			}
			var advS, clrS []ssa.Instruction
			AllInstrs(f, func(in ssa.Instruction) {
				st, ok := in.(*ssa.Store)
				if !ok {
					return
				}
				f2, ok := st.Addr.(*ssa.FieldAddr)
				if !ok || f2.Field != fa.Field || !(f2.X == fa.X || SameValue(f2.X, fa.X)) {
					return
				}
				if next[st.Val] || c13RootsIn(st.Val, next) {
					advS = append(advS, st)
				}
				if sv, isC := constString(st.Val); isC && sv == "" {
					clrS = append(clrS, st)
				}
			})
			Pi := P.(ssa.Instruction)
			switch {
			case len(advS) > 0 && MustPassBetween(Pi, Pi, newCut().Instr(advS...)):
				return "advancing"
			case len(clrS) > 0 && MustPassBetween(Pi, Pi, newCut().Instr(clrS...)):
				return "cleared"
			}
			return ""
		}
		advIdx, clrIdx := -1, -1
		if d.fetch != nil {
			for i, a := range P0.Common().Args {
				switch carried(P0, a) {
				case "advancing":
					advIdx = i
				case "cleared":
					clrIdx = i
				}
			}
			urlIdx = advIdx
		}
		// (1) url advances
		okURL, why := urlIdx >= 0, "the page function's URL parameter was not identified"
		for _, P := range inLoop {
			if urlIdx < 0 {
				break
			}
			if carried(P, P.Common().Args[urlIdx]) != "advancing" {
				okURL, why = false, "the URL argument of the page call is not a loop-carried value fed from the page function's first result"
			}
		}
		c.Check(RL, fnm+"|url-advances", P0.Pos(), okURL, ifelse(okURL, "the URL sent on the next iteration is the link returned by the page function", why+": the same page would be requested for ever"))
		// (2) a page call runs on every iteration; the loop leaves only on its error
		okEvery := true
		inLoopCut := newCut().Calls(inLoop)
		for _, be := range l.Backs {
			if reach(l.Header, 0, be.From.Instrs[len(be.From.Instrs)-1], inLoopCut) {
				okEvery = false
			}
		}
		c.Check(RL, fnm+"|page-call-every-iteration", P0.Pos(), okEvery, "every path around the loop calls the page function")
		okExit, whyExit := len(errAl) > 0, "the page function's error is discarded"
		if okExit {
			nilAll, nonNilAll, _ := NilTests(f, errAl)
			var nilE, nonNilE []Edge
			for _, x := range nilAll {
				if l.Blocks[x.From] {
					nilE = append(nilE, x)
				}
			}
			for _, x := range nonNilAll {
				if l.Blocks[x.From] {
					nonNilE = append(nonNilE, x)
				}
			}
			if len(nilE) == 0 {
				okExit, whyExit = false, "the page function's error is not tested inside the loop"
			}
			for _, Pa := range d.calls {
				for _, Pb := range inLoop {
					if okExit && !MustPassBetween(Pa.(ssa.Instruction), Pb.(ssa.Instruction), newCut().Edges(nilE...)) {
						okExit, whyExit = false, "the next page can be requested although the page function failed (the loop continues past a non-nil error)"
					}
				}
			}
			// with a nil error the loop goes on to the next page call: no way out without calling the page function again
			for _, ne := range nilE {
				for _, x := range l.Exits {
					if okExit && len(x.To.Instrs) > 0 && reach(ne.To, 0, x.To.Instrs[0], allCalls) {
						okExit, whyExit = false, "the loop can be left although the page function succeeded and returned a next link: pages would be dropped"
					}
				}
			}
			// after an error no further page is requested
			for _, nn := range nonNilE {
				for _, Pb := range d.calls {
					if okExit && reach(nn.To, 0, Pb.(ssa.Instruction), nil) {
						okExit, whyExit = false, "after a failed page call another page call is reachable"
					}
				}
			}
		}
		c.Check(RL, fnm+"|exit-iff-error", blockPos(l.Header), okExit,
			ifelse(okExit, "the next page is requested only over the nil edge of the page function's error, and with a nil error the loop is not left", whyExit))
		// (3) only errNoLink maps to success
		okTol, whyTol := true, ""
		tol := toleratedEdges(f, errAl, []string{c15NoLink})
		for _, P := range d.calls {
			if r := ErrFlow(P, ErrFlowOpts{Tolerated: []string{c15NoLink}}); !r.OK {
				okTol, whyTol = false, r.Detail
				continue
			}
			// every possibly-nil return after a page call (before the next one) lies behind `err is errNoLink`
			// (also when that test comes before the nil test, as in `for { …; if err == errNoLink { return nil } … }`)
			ct := newCut().Edges(tol...)
			for k := range allCalls.instrs {
				ct.instrs[k] = true
			}
			pb, pi := c13AfterSite(P)
			if bad := c13SuccessEscapes(f, pb, pi, ct, c13ToleratedReturns(f, errAl, []string{c15NoLink})); bad != nil {
				okTol, whyTol = false, fmt.Sprintf("the return at %s (error %s) reports success after a page call although the page function's error was not found to be errNoLink", c.P.Pos(bad.Ret.Pos()), describe(bad.Val))
			}
		}
		c.Check(RL, fnm+"|only-no-link-ends-listing", P0.Pos(), okTol, ifelse(okTol, "after a page call success is reported only over the edge err == errNoLink; every other error is returned", whyTol))
		// (4) last only on the first page
		if d.page != nil && lastIdx >= 0 {
			okLast := false
			if phi, ok := P0.Common().Args[lastIdx].(*ssa.Phi); ok && phi.Block() == l.Header {
				okLast = true
				for i, pred := range phi.Block().Preds {
					if l.Blocks[pred] {
						if s, isConst := constString(phi.Edges[i]); !isConst || s != "" {
							okLast = false
						}
					}
				}
			}
			c.Check(RL, fnm+"|last-first-page-only", P0.Pos(), okLast,
				ifelse(okLast, "`last` is the caller's value on the first page and \"\" afterwards", "`last` is sent again on later pages: it overrides the position encoded in the Link URL and the listing repeats / never ends"))
		}
		// (5) a generic driver: every function handed to it as the page fetcher is an adapter of a page function
		if d.fetch == nil {
			continue
		}
		fidx := -1
		for i, p := range f.Params {
			if p == d.fetch {
				fidx = i
			}
		}
		bound := 0
		for _, g := range c.P.FuncsOfPkg(c13PkgRemote) {
			for _, call := range c13CallsToFn(g, f) {
				bound++
				var K *ssa.Function
				for _, r := range Roots(call.Common().Args[fidx]) {
					switch k := strip(r).(type) {
					case *ssa.MakeClosure:
						K = k.Fn.(*ssa.Function)
					case *ssa.Function:
						K = k
					}
				}
				kn := FnName(g) + "|page-fetcher"
				if K == nil || len(K.Blocks) == 0 {
					c.Undecided(RL, kn, call.Pos(), "the page fetcher handed to "+fnm+" cannot be resolved to a function")
					continue
				}
				var pcs []ssa.CallInstruction
				for _, ci := range Calls(K, func(string) bool { return true }) {
					if c15IsPageFn(StaticCallee(ci)) {
						pcs = append(pcs, ci)
					}
				}
				if len(pcs) != 1 {
					c.Violation(RL, kn, call.Pos(), fmt.Sprintf("the page fetcher %s does not call exactly one page function (found %d)", FnName(K), len(pcs)))
					continue
				}
				pc := pcs[0]
				pg := StaticCallee(pc)
				pages[pg] = true
				uI, lI := pageIdx(pg)
				// the fetcher's own parameters (after the captured variables): which one is the URL, which one `last`
				kparams := K.Params
				if len(kparams) > len(call.Common().Args) { // method values etc. are not expected here
					kparams = kparams[len(kparams)-1:]
				}
				posOf := func(v ssa.Value) int {
					for j, kp := range kparams {
						if Aliases(kp)[v] {
							return j
						}
					}
					return -1
				}
				okFwd := uI >= 0 && advIdx >= 0 && posOf(pc.Common().Args[uI]) == advIdx
				nextV, errV := c13AliasSet(ResultOf(pc, 0)), c13AliasSet(ErrOf(pc))
				for _, ra := range RetAtoms(K, 0) {
					if !nextV[ra.Val] {
						okFwd = false
					}
				}
				for _, ra := range RetAtoms(K, 1) {
					if !errV[ra.Val] {
						okFwd = false
					}
				}
				c.Check(RL, FnName(K)+"|adapter-forwards-page", pc.Pos(), okFwd, ifelse(okFwd, "the fetcher requests the URL it is given from the page function and hands back its link and error unchanged", "the page fetcher does not pass its URL to the page function, or does not return the page function's link and error as they are"))
				if lI < 0 {
					continue
				}
				// `last`: the captured variable is passed and cleared ("" stored) on every path of the fetcher
				okLast := false
				larg := pc.Common().Args[lI]
				if s, isConst := constString(larg); isConst && s == "" {
					okLast = true
				}
				if clrIdx >= 0 && posOf(larg) == clrIdx {
					okLast = true // the driver hands the value in and clears it after the first page
				}
				for _, r := range Roots(larg) {
					ld, isLoad := r.(*ssa.UnOp)
					if !isLoad || ld.Op != token.MUL {
						continue
					}
					fv, isFV := ld.X.(*ssa.FreeVar)
					if !isFV {
						continue
					}
					var clears []ssa.Instruction
					AllInstrs(K, func(in ssa.Instruction) {
						if st, ok := in.(*ssa.Store); ok && st.Addr == ssa.Value(fv) {
							if sv, isC := constString(st.Val); isC && sv == "" {
								clears = append(clears, st)
							}
						}
					})
					okLast = len(clears) > 0
					for _, ret := range Returns(K) {
						if !MustPass(ret, newCut().Instr(clears...)) {
							okLast = false
						}
					}
				}
				c.Check(RL, FnName(K)+"|last-first-page-only", pc.Pos(), okLast,
					ifelse(okLast, "`last` is read from the captured variable, which every call of the fetcher clears: only the first page carries it", "`last` is sent again on later pages: it overrides the position encoded in the Link URL and the listing repeats / never ends"))
			}
		}
		if bound == 0 {
			c.Violation(RL, fnm+"|page-fetcher", f.Pos(), "the generic pagination driver is never given a page fetcher")
		}
	}
	// page functions
	for pg := range pages {
		pn := FnName(pg)
		sites := c13SendSites(pg)
		if len(sites) != 1 {
			c.Undecided(RP, pn+"|one-exchange", pg.Pos(), "page function with several exchanges")
			continue
		}
		site := sites[0]
		// callback: call of a function-typed parameter
		collect := func(g *ssa.Function) (cbs []ssa.CallInstruction, lks []ssa.CallInstruction) {
			for _, call := range Calls(g, func(n string) bool { return strings.HasPrefix(n, "dyn:param:") }) {
				cbs = append(cbs, call)
			}
			return cbs, c13CallsToFn(g, LK)
		}
		// body: the function that handles the response of this page — the page function itself, or the one
		// helper it hands the response (and the callback) to; (bb, bi): where the handling starts
		body := pg
		bb, bi := c13AfterSite(site.(ssa.Instruction))
		respAl := c13AliasSet(ResultOf(site, 0))
		cbs, linkCalls := collect(pg)
		if len(cbs) == 0 && len(linkCalls) == 0 {
			type cand struct {
				call *ssa.Call
				idx  int
			}
			var cands []cand
			hcalls, hidxs := c13RespParamCalls(pg, respAl)
			for k, hc := range hcalls {
				h := StaticCallee(hc)
				rs := h.Signature.Results()
				if h == pg || rs.Len() != 2 || !isErrorType(rs.At(1).Type()) || !types.Identical(types.Unalias(rs.At(0).Type()), types.Typ[types.String]) {
					continue
				}
				if a, b := collect(h); len(a) > 0 && len(b) > 0 {
					cands = append(cands, cand{hc, hidxs[k]})
				}
			}
			if len(cands) == 1 {
				hc, H := cands[0].call, StaticCallee(cands[0].call)
				okDel, whyDel := true, ""
				// the callback handed down is the page function's own
				fnParams := map[ssa.Value]bool{}
				for _, prm := range pg.Params {
					if _, isSig := prm.Type().Underlying().(*types.Signature); isSig {
						for a := range Aliases(prm) {
							fnParams[a] = true
						}
					}
				}
				for _, a := range hc.Call.Args {
					if _, isSig := a.Type().Underlying().(*types.Signature); isSig && !fnParams[a] {
						okDel, whyDel = false, "the callback handed to the response handler is not the page function's own callback parameter"
					}
				}
				// the handler's link and error are handed back as they are
				hNext, hErr := c13AliasSet(ResultOf(hc, 0)), c13AliasSet(ErrOf(hc))
				for _, a := range RetAtoms(pg, 0) {
					if sv, isConst := constString(a.Val); isConst && sv == "" {
						continue
					}
					if _, isZero := a.Val.(zeroMarker); isZero {
						continue
					}
					if !hNext[a.Val] {
						okDel, whyDel = false, "the URL handed back is not the response handler's result"
					}
				}
				for _, a := range RetAtoms(pg, 1) {
					if sentinelName(a.Val) == c15NoLink && !hErr[a.Val] {
						okDel, whyDel = false, "the page function itself returns the end-of-listing sentinel"
					}
				}
				if bad := c13SuccessEscapes(pg, bb, bi, newCut(), hErr); bad != nil {
					okDel, whyDel = false, fmt.Sprintf("the return at %s (error %s) can succeed without the response handler's verdict", c.P.Pos(bad.Ret.Pos()), describe(bad.Val))
				}
				c.Check(RP, pn+"|response-handler-forwarded", hc.Pos(), okDel,
					ifelse(okDel, "the response and the callback are handed to "+FnName(H)+", whose link and error are returned as they are on every path after the exchange", whyDel))
				body = H
				bb, bi = H.Blocks[0], 0
				respAl = Aliases(H.Params[cands[0].idx])
				cbs, linkCalls = collect(H)
			}
		}
		if len(cbs) == 0 || len(linkCalls) == 0 {
			c.LostAnchor(RP, pn+": callback call and link-parser call")
			continue
		}
		for _, cb := range cbs {
			r := ErrFlow(cb, ErrFlowOpts{})
			c.Check(RP, pn+"|callback-error-returned", cb.Pos(), r.OK, r.How+r.Detail)
		}
		cutCB := newCut().Calls(cbs)
		for _, cb := range cbs {
			if len(cb.Common().Args) == 1 {
				z, _ := c13LenZeroEdges(body, c13AliasSet(cb.Common().Args[0]))
				cutCB.Edges(z...)
			}
		}
		for _, lk := range linkCalls {
			ok := !reach(bb, bi, lk.(ssa.Instruction), cutCB)
			c.Check(RP, pn+"|callback-before-next-link", lk.Pos(), ok,
				ifelse(ok, "every path from the exchange to the link parser delivers the page to the callback (or the page is empty)", "a page can be skipped: the next link is taken without handing the page's items to the callback"))
		}
		// next URL comes only from the link parser
		okNext := true
		nextVals := map[ssa.Value]bool{}
		for _, lk := range linkCalls {
			for a := range c13AliasSet(ResultOf(lk, 0)) {
				nextVals[a] = true
			}
		}
		for _, a := range RetAtoms(body, 0) {
			if s, isConst := constString(a.Val); isConst && s == "" {
				continue
			}
			if _, isZero := a.Val.(zeroMarker); isZero {
				continue
			}
			if !nextVals[a.Val] {
				okNext = false
			}
		}
		c.Check(RP, pn+"|next-url-from-link", pg.Pos(), okNext, "the URL handed back is the link parser's result (or empty on failure)")
		// the end-of-listing sentinel comes only from the link parser applied to this response, and
		// no success return bypasses the link parser
		linkErr := map[ssa.Value]bool{}
		for _, lk := range linkCalls {
			for a := range c13AliasSet(ErrOf(lk)) {
				linkErr[a] = true
			}
		}
		okSent, whySent := true, ""
		for _, a := range RetAtoms(body, 1) {
			if sentinelName(a.Val) == c15NoLink && !linkErr[a.Val] {
				okSent = false
				whySent = fmt.Sprintf("the page function itself returns errNoLink (at %s): the listing ends although this response's Link header was never consulted, later pages are dropped silently", c.P.Pos(a.Ret.Pos()))
			}
		}
		if okSent {
			if bad := c13SuccessEscapes(body, bb, bi, newCut(), linkErr); bad != nil {
				okSent = false
				whySent = fmt.Sprintf("the return at %s (error %s) can succeed without the link parser's verdict: the loop would continue with an empty URL or stop without following the Link header", c.P.Pos(bad.Ret.Pos()), describe(bad.Val))
			}
		}
		c.Check(RP, pn+"|end-of-listing-only-from-link-parser", pg.Pos(), okSent,
			ifelse(okSent, "every return after the exchange whose error may be nil or errNoLink returns the link parser's own error result", whySent))
		// the decode target of a page is fresh per page (encoding/json keeps members the document lacks and reuses the
		// backing array of a slice: a target that outlives one page would re-deliver or overwrite earlier items)
		okFresh, whyFresh := c15DecodeTargetsFresh(c, pg, drivers)
		c.Check(RP, pn+"|decode-target-fresh", pg.Pos(), okFresh, ifelse(okFresh, "every JSON decode of this page writes into a variable allocated (or zeroed) within the handling of this page", whyFresh))
		// the pagination parameters reach the request: on every path to the exchange the value was put into the
		// query that is stored back, or is absent (last == "" / page size <= 0)
		for _, qp := range []struct {
			key     string
			numeric bool
		}{{"last", false}, {"n", true}} {
			for _, vals := range c15QueryInputs(pg, qp.key, 2) {
				ct, _ := c13FactCut(pg, vals, c15QueryFact(qp.key, qp.numeric), 2)
				ok := (len(ct.instrs) > 0 || len(ct.edges) > 0) && MustPass(site.(ssa.Instruction), ct)
				c.Check(RP, pn+"|query-carries:"+qp.key, site.Pos(), ok,
					ifelse(ok, "every path to the exchange sets `"+qp.key+"` on the query stored back into the URL, or found the value absent",
						"the request can be sent without the `"+qp.key+"` parameter although a value was given: the listing starts from the wrong position / ignores the page size"))
			}
		}
		// query of the given URL is preserved (same helper as C13.R4)
		_, badQ, whyQ := c13QueryStores(pg)
		okQ := badQ == nil
		c.Check(RP, pn+"|query-preserved", pg.Pos(), okQ,
			ifelse(okQ, "RawQuery is only replaced by the encoding of the URL's own Query() with n/last set", "the page function replaces the query of the URL it was given: the position parameters of a Link URL are lost ("+whyQ+")"))
		// the link is taken from this exchange's response
		okResp := true
		for _, lk := range linkCalls {
			if !respAl[lk.Common().Args[0]] {
				okResp = false
			}
		}
		c.Check(RP, pn+"|link-of-this-response", pg.Pos(), okResp, "the link parser is applied to the response of this page's exchange")
	}
	c15LinkParser(c, RK, LK)
}

func c15LinkParser(c *Ctx, rule string, LK *ssa.Function) {
	ln := FnName(LK)
	resp := LK.Params[0]
	respAl := Aliases(resp)
	// header value
	var hdr ssa.Value
	for _, g := range CallsTo(LK, "(net/http.Header).Get") {
		if s, ok := constString(g.Common().Args[1]); ok && s == "Link" {
			hdr = g.Value()
		}
	}
	if hdr == nil {
		c.LostAnchor(rule, ln+": resp.Header.Get(\"Link\")")
		return
	}
	zero, _ := c13LenZeroEdges(LK, Aliases(hdr))
	// errNoLink only when the header is absent
	okNoLink := len(zero) > 0
	sawNoLink := false
	for _, a := range RetAtoms(LK, 1) {
		if sentinelName(a.Val) != c15NoLink {
			continue
		}
		sawNoLink = true
		if c13AtomReach(LK.Blocks[0], 0, a, newCut().Edges(zero...)) { // (shared AtomMustPass is vacuous for plain atoms)
			okNoLink = false
		}
	}
	c.Check(rule, ln+"|no-link-only-if-absent", LK.Pos(), okNoLink && sawNoLink,
		ifelse(okNoLink && sawNoLink, "errNoLink is returned only on the edge Link == \"\"", "errNoLink (= end of listing, success) can be returned although a Link header is present: a malformed link would silently truncate the listing"))
	// success: URL.Parse on resp.Request.URL, result String()
	parses := CallsTo(LK, "(*net/url.URL).Parse")
	okBase := len(parses) == 1
	if okBase {
		base := parses[0].Common().Args[0]
		okBase = false
		for _, r := range Roots(base) {
			ld, ok := r.(*ssa.UnOp)
			if !ok || ld.Op != token.MUL {
				continue
			}
			fa, ok := ld.X.(*ssa.FieldAddr)
			if !ok || !c13IsNamed(fa.X.Type(), c13PkgHTTP, "Request") || c13FieldNameOf(fa.X.Type(), fa.Field) != "URL" {
				continue
			}
			for _, r2 := range Roots(fa.X) {
				ld2, ok := r2.(*ssa.UnOp)
				if !ok {
					continue
				}
				fa2, ok := ld2.X.(*ssa.FieldAddr)
				if ok && respAl[fa2.X] && c13FieldNameOf(fa2.X.Type(), fa2.Field) == "Request" {
					okBase = true
				}
			}
		}
	}
	okRes := okBase
	if okBase {
		parsed := c13AliasSet(ResultOf(parses[0], 0))
		for _, a := range RetAtoms(LK, 0) {
			if s, isConst := constString(a.Val); isConst && s == "" {
				continue
			}
			call, ok := a.Val.(*ssa.Call)
			if !ok || CalleeName(call) != "(*net/url.URL).String" || !parsed[call.Call.Args[0]] {
				okRes = false
			}
		}
		r := ErrFlow(parses[0], ErrFlowOpts{})
		c.Check(rule, ln+"|parse-error-returned", parses[0].Pos(), r.OK, r.How+r.Detail)
	}
	c.Check(rule, ln+"|resolved-against-request-URL", LK.Pos(), okRes,
		ifelse(okRes, "the next URL is resp.Request.URL.Parse(link).String()", "the link is not resolved against the URL of the request that produced the response: relative Link headers would break"))
}

// ---------- R3 client-side filter ----------

func c15R3(c *Ctx) {
	const R3 = "C15.R3.client-side-filter"
	c.Expect(R3, 2)
	// filter by role: func([]Descriptor, string) []Descriptor in registry/remote
	isDescSlice := func(t types.Type) bool {
		s, ok := types.Unalias(t).Underlying().(*types.Slice)
		return ok && c13IsNamed(s.Elem(), c13PkgOCI, "Descriptor")
	}
	filters := c13FuncsWhere(c.P, c13PkgRemote, func(f *ssa.Function) bool {
		ps, rs := f.Signature.Params(), f.Signature.Results()
		return f.Parent() == nil && f.Signature.Recv() == nil && ps.Len() == 2 && rs.Len() == 1 && isDescSlice(ps.At(0).Type()) && isDescSlice(rs.At(0).Type()) &&
			types.Identical(ps.At(1).Type().Underlying(), types.Typ[types.String])
	})
	if len(filters) != 1 {
		c.LostAnchor(R3, fmt.Sprintf("referrers filter func([]Descriptor, string) []Descriptor (found %d)", len(filters)))
		return
	}
	F := filters[0]
	applied := c13FuncsWhere(c.P, c13PkgRemote, func(f *ssa.Function) bool {
		ps, rs := f.Signature.Params(), f.Signature.Results()
		return f.Parent() == nil && f.Signature.Recv() == nil && ps.Len() == 2 && rs.Len() == 1 &&
			types.Identical(ps.At(0).Type(), types.Typ[types.String]) && types.Identical(ps.At(1).Type(), types.Typ[types.String]) && types.Identical(rs.At(0).Type(), types.Typ[types.Bool])
	})
	isApplied := map[*ssa.Function]bool{}
	for _, g := range applied {
		isApplied[g] = true
	}
	var appliedClass c13CondClass
	appliedClass = func(cond ssa.Value) (bool, bool) {
		call, ok := cond.(*ssa.Call)
		if !ok {
			return false, false
		}
		if isApplied[StaticCallee(call)] {
			return true, false
		}
		// slices.ContainsFunc(declarations, pred): true ⇒ some declaration satisfies pred; counts when pred's true does
		if CalleeName(call) == "slices.ContainsFunc" && len(call.Call.Args) == 2 {
			var K *ssa.Function
			switch k := strip(call.Call.Args[1]).(type) {
			case *ssa.MakeClosure:
				K = k.Fn.(*ssa.Function)
			case *ssa.Function:
				K = k
			}
			if K != nil && len(K.Blocks) > 0 {
				cf := c13NewCondFacts(K, appliedClass)
				all := true
				for _, a := range RetAtoms(K, 0) {
					if !cf.Implies(a.Val, true, 0) && c13AtomReach(K.Blocks[0], 0, a, newCut().Edges(cf.list()...)) {
						all = false
					}
				}
				return all, false
			}
		}
		return false, false
	}
	// okList: every way the list value v (used at `target` in fn) is established is either the filter's
	// result (directly or through a helper all of whose results are), or — only where the server may have
	// filtered (conditional) — the raw list on a path behind "no filter requested / server declares it applied".
	var helperFilters func(h *ssa.Function, conditional bool, depth int) bool
	var okList func(fn *ssa.Function, v ssa.Value, target ssa.Instruction, conditional, needFiltered bool, depth int) (bool, string)
	isFiltered := func(v ssa.Value, conditional bool, depth int) bool {
		call, ok := v.(*ssa.Call)
		if !ok {
			return false
		}
		h := StaticCallee(call)
		if h == F {
			return true
		}
		return h != nil && depth > 0 && inModule(h) && len(h.Blocks) > 0 && helperFilters(h, conditional, depth-1)
	}
	okList = func(fn *ssa.Function, v ssa.Value, target ssa.Instruction, conditional, needFiltered bool, depth int) (bool, string) {
		// the artifact type the function filters by: the string handed to the filter or to a filtering helper
		at := map[ssa.Value]bool{}
		for _, call := range Calls(fn, func(string) bool { return true }) {
			h := StaticCallee(call)
			if h == nil || !(h == F || (depth > 0 && inModule(h) && len(h.Blocks) > 0 && h != fn && helperFilters(h, conditional, depth-1))) {
				continue
			}
			for _, a := range call.Common().Args {
				if types.Identical(a.Type().Underlying(), types.Typ[types.String]) {
					for x := range Aliases(a) {
						at[x] = true
					}
				}
			}
		}
		var skip []Edge
		if conditional {
			base := func(_ *ssa.Function, sets []map[ssa.Value]bool) c13CondClass {
				return c13OrClass(c13EmptyStringClass(sets[0]), appliedClass)
			}
			skip = c13FactEdgesOfConds(fn, c13PredicateClass(base, fn, []map[ssa.Value]bool{at}, 2))
		}
		sawFiltered := false
		for _, lf := range c13Leaves(v) {
			if isFiltered(lf.Val, conditional, depth) {
				sawFiltered = true
				continue
			}
			if !conditional {
				return false, "an unfiltered list can be delivered"
			}
			if c13ChainReach(fn.Blocks[0], 0, lf.Edges, target, newCut().Edges(skip...)) {
				return false, "the unfiltered list is delivered on a path where a filter was requested and the server did not declare it applied"
			}
		}
		if needFiltered && !sawFiltered {
			return false, "the filter's result is never delivered"
		}
		return true, ""
	}
	memo := map[string]bool{}
	helperFilters = func(h *ssa.Function, conditional bool, depth int) bool {
		rs := h.Signature.Results()
		if rs.Len() != 1 || !isDescSlice(rs.At(0).Type()) || h == F {
			return false
		}
		key := fmt.Sprintf("%p|%v|%d", h, conditional, depth)
		if v, ok := memo[key]; ok {
			return v
		}
		memo[key] = false
		ok := len(Returns(h)) > 0
		some := false
		for _, r := range Returns(h) {
			if o, _ := okList(h, r.Results[0], r, conditional, false, depth); !o {
				ok = false
			}
			for _, lf := range c13Leaves(r.Results[0]) {
				if isFiltered(lf.Val, conditional, depth) {
					some = true
				}
			}
		}
		memo[key] = ok && some
		return ok && some
	}
	for _, f := range c.P.FuncsOfPkg(c13PkgRemote) {
		var cbs []ssa.CallInstruction
		for _, call := range Calls(f, func(n string) bool { return strings.HasPrefix(n, "dyn:param:") }) {
			if len(call.Common().Args) == 1 && isDescSlice(call.Common().Args[0].Type()) {
				cbs = append(cbs, call)
			}
		}
		if len(cbs) == 0 || isApplied[f] || f == F {
			continue
		}
		// functions that merely forward lists they were given (no exchange, no fetch of an index) are not listing ends
		// the API page may rely on the server's own filtering (it sees the response: it performs the exchange or is handed the
		// response by the page function); the tag-schema path may not
		conditional := len(c13SendSites(f)) > 0 || c13HasParam(f, c13PkgHTTP, "Response")
		fn := FnName(f)
		for _, cb := range cbs {
			ok, why := okList(f, cb.Common().Args[0], cb.(ssa.Instruction), conditional, true, 2)
			c.Check(R3, fn+"|callback-gets-filtered", cb.Pos(), ok, ifelse(ok, "the callback receives the filtered list unless no filter was requested or the server applied it", why))
		}
	}
}

// ---------- R4 listTags ----------

func c15R4(c *Ctx) {
	const R4 = "C15.R4.oci-list-tags"
	c.Expect(R4, 5)
	// role: function of content/oci with a *resolver.Memory parameter and a func([]string) error parameter
	// role: the function of content/oci that ranges over the tag map (map[string]Descriptor: the resolver's dump,
	// obtained inside or handed in) and calls its func([]string) error parameter
	cands := c13FuncsWhere(c.P, "content/oci", func(f *ssa.Function) bool {
		if f.Parent() != nil {
			return false
		}
		calls := false
		for _, call := range Calls(f, func(n string) bool { return strings.HasPrefix(n, "dyn:param:") }) {
			if args := call.Common().Args; len(args) == 1 {
				if sl, ok := types.Unalias(args[0].Type()).Underlying().(*types.Slice); ok && types.Identical(sl.Elem(), types.Typ[types.String]) {
					calls = true
				}
			}
		}
		if !calls {
			return false
		}
		if f.Name() == "Tags" && f.Signature.Recv() != nil {
			return false // the exported methods are checked by c15TagsMethods
		}
		if len(c15StreamListCalls(f)) > 0 {
			return true
		}
		for _, l := range Loops(f) {
			if ranged, _, _, _, ok := l.RangeMap(); ok {
				if m, isMap := types.Unalias(ranged.Type()).Underlying().(*types.Map); isMap && c13IsNamed(m.Elem(), c13PkgOCI, "Descriptor") {
					return true
				}
			}
		}
		return false
	})
	if len(cands) == 0 {
		c.LostAnchor(R4, "tag lister (ranges over map[string]Descriptor and calls its func([]string) error parameter) in ~/content/oci")
		return
	}
	isLister := map[*ssa.Function]bool{}
	for _, f := range cands {
		isLister[f] = true
		c15CheckLister(c, R4, f)
	}
	c15TagsMethods(c, R4, isLister)
}

// c15TagsMethods: every exported Tags method of content/oci delivers exactly
// the tags after `last`: by handing its own `last` and callback to a lister,
// or by slicing a sorted tag list at the position found by a binary search of
// `last` (pos+1 when found, pos when not found; 0 only when last == "").
func c15TagsMethods(c *Ctx, R4 string, isLister map[*ssa.Function]bool) {
	isStrSlice := func(t types.Type) bool {
		sl, ok := types.Unalias(t).Underlying().(*types.Slice)
		return ok && types.Identical(sl.Elem(), types.Typ[types.String])
	}
	n := 0
	for _, m := range c.P.FuncsOfPkg("content/oci") {
		if m.Parent() != nil || m.Name() != "Tags" || m.Signature.Recv() == nil || isLister[m] {
			continue
		}
		var last, fnp *ssa.Parameter
		for _, p := range m.Params[1:] {
			if types.Identical(p.Type(), types.Typ[types.String]) {
				last = p
			}
			if sig, ok := types.Unalias(p.Type()).Underlying().(*types.Signature); ok && sig.Params().Len() == 1 && isStrSlice(sig.Params().At(0).Type()) {
				fnp = p
			}
		}
		if last == nil || fnp == nil {
			continue
		}
		n++
		key := FnName(m) + "|tags-after-last"
		lastAl, fnAl := Aliases(last), Aliases(fnp)
		// (a) forwarded to a lister with the method's own last and callback
		forwarded, direct := 0, 0
		okFwd := true
		for _, call := range Calls(m, func(string) bool { return true }) {
			g := StaticCallee(call)
			hasFn := false
			for _, a := range call.Common().Args {
				if fnAl[a] {
					hasFn = true
				}
			}
			if call.Common().Value != nil && fnAl[call.Common().Value] && !call.Common().IsInvoke() {
				direct++
				continue
			}
			if !hasFn {
				continue
			}
			if g == nil || !isLister[g] {
				okFwd = false
				continue
			}
			forwarded++
			hasLast := false
			for _, a := range call.Common().Args {
				if lastAl[a] {
					hasLast = true
				}
			}
			if !hasLast {
				okFwd = false
			}
		}
		switch {
		case direct == 0 && forwarded > 0:
			c.Check(R4, key, m.Pos(), okFwd, ifelse(okFwd, "the method hands its own `last` and callback to the tag lister", "the callback is handed to something other than the tag lister, or without the method's `last`"))
			continue
		case direct == 0:
			c.Violation(R4, key, m.Pos(), "the Tags method neither calls its callback nor hands it to the tag lister")
			continue
		}
		// (b) the method calls the callback itself: the list must be a sorted list sliced at the searched position
		empty := c13FactEdgesOfConds(m, c13EmptyStringClass(lastAl))
		verdict, why := "ok", ""
		note := func(v, w string) {
			if verdict == "ok" || (verdict == "undecided" && v == "violation") {
				verdict, why = v, w
			}
		}
		for _, call := range Calls(m, func(string) bool { return true }) {
			if call.Common().IsInvoke() || !fnAl[call.Common().Value] {
				continue
			}
			for _, lf := range c13Leaves(call.Common().Args[0]) {
				v := lf.Val
				if cst, isC := v.(*ssa.Const); isC && cst.Value == nil {
					continue // nil list (nothing after `last`)
				}
				for { // look through copies
					cl, isCall := v.(*ssa.Call)
					if !isCall || !(CalleeName(cl) == "slices.Clone" || CalleeName(cl) == "builtin:append") {
						break
					}
					v = cl.Call.Args[len(cl.Call.Args)-1]
					if CalleeName(cl) == "slices.Clone" {
						v = cl.Call.Args[0]
					}
				}
				sl, isSlice := v.(*ssa.Slice)
				if !isSlice {
					note("undecided", "the list handed to the callback ("+describe(v)+") is neither built by the tag lister nor a slice of a sorted tag list")
					continue
				}
				if sl.Low == nil {
					if reach(m.Blocks[0], 0, sl, newCut().Edges(empty...)) {
						note("violation", "the whole tag list is delivered although `last` is not empty")
					}
					continue
				}
				for _, st := range c13Leaves(sl.Low) {
					x := st.Val
					behind := func(edges []Edge) bool {
						return len(edges) > 0 && !c13ChainReach(m.Blocks[0], 0, st.Edges, sl, newCut().Edges(edges...))
					}
					search := func(v ssa.Value) (call *ssa.Call, found ssa.Value) {
						ex, ok := v.(*ssa.Extract)
						if !ok || ex.Index != 0 {
							return nil, nil
						}
						cl, ok := ex.Tuple.(*ssa.Call)
						if !ok || CalleeName(cl) != "slices.BinarySearch" || len(cl.Call.Args) != 2 || !lastAl[cl.Call.Args[1]] {
							return nil, nil
						}
						return cl, ResultOf(cl, 1)
					}
					if k, isC := c13ConstInt(x); isC {
						if k != 0 || !behind(empty) {
							note("violation", "the list starts at a constant index although `last` is not empty")
						}
						continue
					}
					if cl, found := search(x); cl != nil {
						// start = pos: only where `last` was not found
						var nf []Edge
						if found != nil {
							_, nf = BoolTests(m, Aliases(found))
						}
						if !behind(nf) {
							note("violation", "the list starts at the searched position itself although `last` may have been found there: `last` would be listed again")
						}
						continue
					}
					if add, isAdd := x.(*ssa.BinOp); isAdd && add.Op == token.ADD {
						if k, isC := c13ConstInt(add.Y); isC && k == 1 {
							if cl, found := search(add.X); cl != nil {
								var fe []Edge
								if found != nil {
									fe, _ = BoolTests(m, Aliases(found))
								}
								if !behind(fe) {
									note("violation", "the list starts one past the searched position although `last` may not be a tag: the first tag after `last` is skipped")
								}
								continue
							}
						}
					}
					if len(Calls(m, func(n string) bool { return n == "slices.BinarySearch" })) > 0 {
						note("violation", "the start index "+describe(x)+" is neither pos+1 (found) nor pos (not found) of the binary search of `last`")
					} else {
						note("undecided", "the start index "+describe(x)+" comes from a search shape that is not interpreted")
					}
				}
				// the sliced list is sorted: a receiver field only ever assigned the lister's (sorted) output, or sorted here
				if !c15SortedSource(c, sl.X, sl, isLister) {
					note("undecided", "the sliced list is not known to be sorted (neither the tag lister's output nor sorted before use)")
				}
			}
		}
		switch verdict {
		case "ok":
			c.OK(R4, key, m.Pos(), "the callback receives the sorted tag list from the position right after `last` (pos+1 if found, pos if not)")
		case "undecided":
			c.Undecided(R4, key, m.Pos(), why)
		default:
			c.Violation(R4, key, m.Pos(), why)
		}
	}
	if n == 0 {
		c.LostAnchor(R4, "exported Tags methods of ~/content/oci")
	}
}

// c15SortedSource: v is sorted when used at `at`: slices.Sort / sort.Strings
// of it dominates, or it is a field load and every store to that field in the
// package stores the slice a tag lister hands to its callback (the lister sorts
// before calling back) or a slice sorted before the store.
func c15SortedSource(c *Ctx, v ssa.Value, at ssa.Instruction, isLister map[*ssa.Function]bool) bool {
	sortedAt := func(fn *ssa.Function, x ssa.Value, at ssa.Instruction) bool {
		al := Aliases(x)
		var sorts []ssa.CallInstruction
		for _, s := range Calls(fn, func(n string) bool { return n == "slices.Sort" || n == "sort.Strings" }) {
			if al[s.Common().Args[0]] || s.Common().Args[0] == x {
				sorts = append(sorts, s)
			}
		}
		return len(sorts) > 0 && MustPass(at, newCut().Calls(sorts))
	}
	if sortedAt(at.Parent(), v, at) {
		return true
	}
	ld, ok := strip(v).(*ssa.UnOp)
	if !ok || ld.Op != token.MUL {
		return false
	}
	fa, ok := ld.X.(*ssa.FieldAddr)
	if !ok {
		return false
	}
	stores := 0
	for _, g := range c.P.FuncsOfPkg("content/oci") {
		okAll := true
		AllInstrs(g, func(in ssa.Instruction) {
			st, isStore := in.(*ssa.Store)
			if !isStore {
				return
			}
			f2, isFA := st.Addr.(*ssa.FieldAddr)
			if !isFA || f2.Field != fa.Field || !types.Identical(f2.X.Type(), fa.X.Type()) {
				return
			}
			stores++
			if sortedAt(g, st.Val, st) {
				return
			}
			// the parameter of a closure used as the callback of a tag lister
			if prm, isParam := st.Val.(*ssa.Parameter); isParam && g.Parent() != nil {
				for _, call := range Calls(g.Parent(), func(string) bool { return true }) {
					if h := StaticCallee(call); h != nil && isLister[h] {
						for _, a := range call.Common().Args {
							if mc, isMC := a.(*ssa.MakeClosure); isMC && mc.Fn == prm.Parent() {
								return
							}
						}
					}
				}
			}
			okAll = false
		})
		if !okAll {
			return false
		}
	}
	return stores > 0
}

// c15StreamListCalls: callback calls of f whose list is collected from an
// iterator pipeline: fn(slices.Sorted(seq)) / slices.Collect(seq) (+ sort).
func c15StreamListCalls(f *ssa.Function) []ssa.CallInstruction {
	var out []ssa.CallInstruction
	for _, cb := range Calls(f, func(n string) bool { return strings.HasPrefix(n, "dyn:param:") }) {
		if len(cb.Common().Args) != 1 {
			continue
		}
		for _, r := range Roots(cb.Common().Args[0]) {
			if call, ok := r.(*ssa.Call); ok && (CalleeName(call) == "slices.Sorted" || CalleeName(call) == "slices.Collect") {
				out = append(out, cb)
			}
		}
	}
	return out
}

// c15CheckStreamLister: the lister collects its tags from an iterator
// pipeline; the per-tag conditions are looked for in the producers, adapters
// and predicates of the pipeline (c13StreamHasFact).
func c15CheckStreamLister(c *Ctx, R4 string, f *ssa.Function, cb ssa.CallInstruction) {
	fn := FnName(f)
	var last *ssa.Parameter
	for _, p := range f.Params {
		if types.Identical(p.Type(), types.Typ[types.String]) {
			last = p
		}
	}
	top := &c13Frame{Fn: f}
	var collect *ssa.Call
	for _, r := range Roots(cb.Common().Args[0]) {
		if call, ok := r.(*ssa.Call); ok {
			collect = call
		}
	}
	okSort := CalleeName(collect) == "slices.Sorted"
	if !okSort {
		sorts := Calls(f, func(n string) bool { return n == "slices.Sort" || n == "sort.Strings" })
		okSort = len(sorts) > 0 && MustPass(cb.(ssa.Instruction), newCut().Calls(sorts))
	}
	c.Check(R4, fn+"|sorted-before-callback", cb.Pos(), okSort, ifelse(okSort, "the list handed to the callback is slices.Sorted(…) / sorted before the call", "the tags are handed to the callback unsorted"))
	if last == nil {
		c.LostAnchor(R4, fn+": `last` parameter")
		return
	}
	lastO := c13Origin{last, top}
	setsOf := func(fr *c13Frame, elem map[ssa.Value]bool) []map[ssa.Value]bool {
		return []map[ssa.Value]bool{elem, c13ValuesOriginating(fr, lastO)}
	}
	mk := func(base func(fn *ssa.Function, sets []map[ssa.Value]bool) c13CondClass) c13StreamFact {
		return func(fr *c13Frame, at ssa.Instruction, elem ssa.Value) bool {
			el := Aliases(elem)
			edges := c13FactEdgesOfConds(fr.Fn, c13FrameClass(fr, base, setsOf, el, 3))
			return len(edges) > 0 && MustPass(at, newCut().Edges(edges...))
		}
	}
	seq := collect.Call.Args[0]
	// maps.Keys(m) of a map pruned with maps.DeleteFunc(m, pred): the remaining keys are those for which pred is false
	if kc, isCall := strip(seq).(*ssa.Call); isCall && CalleeName(kc) == "maps.Keys" {
		pruned := func(base func(fn *ssa.Function, sets []map[ssa.Value]bool) c13CondClass) (bool, string) {
			m := kc.Call.Args[0]
			mal := Aliases(m)
			for _, dc := range Calls(f, func(n string) bool { return n == "maps.DeleteFunc" }) {
				da := dc.Common().Args
				if len(da) != 2 || !(mal[da[0]] || SameValue(da[0], m)) || !MustPass(kc, newCut().Instr(dc.(ssa.Instruction))) {
					continue
				}
				o := c13OriginOf(da[1], top)
				var kf *c13Frame
				switch k := o.Val.(type) {
				case *ssa.MakeClosure:
					kf = &c13Frame{Fn: k.Fn.(*ssa.Function), MC: k, Parent: o.Frame}
				case *ssa.Function:
					kf = &c13Frame{Fn: k, Parent: top}
				}
				if kf == nil || len(kf.Fn.Blocks) == 0 || len(kf.Fn.Params) == 0 {
					continue
				}
				if _, hf := c13PredicateImplies(kf, base, setsOf, Aliases(kf.Fn.Params[0]), 3); hf {
					return true, ""
				}
			}
			return false, "no maps.DeleteFunc on the listed map removes the entries violating the condition before its keys are taken"
		}
		okAfter, whyA := pruned(c15AfterOrNoLastBase)
		c.Check(R4, fn+"|only-tags-after-last", cb.Pos(), okAfter, ifelse(okAfter, "the keys listed are those left after deleting every entry with last != \"\" && tag <= last", "a tag not after `last` can be listed: "+whyA))
		okDg, whyD := pruned(c15NotDigestBase)
		c.Check(R4, fn+"|digest-entries-skipped", cb.Pos(), okDg, ifelse(okDg, "the keys listed are those left after deleting every entry named by its own digest", "digest-named entries of the tag map can be listed as tags: "+whyD))
		return
	}
	okAfter, whyA := c13StreamHasFact(seq, top, mk(c15AfterOrNoLastBase), 16)
	c.Check(R4, fn+"|only-tags-after-last", cb.Pos(), okAfter, ifelse(okAfter, "every element of the iterator pipeline passed last == \"\" or tag > last", "a tag not after `last` can be listed: "+whyA))
	okDg, whyD := c13StreamHasFact(seq, top, mk(c15NotDigestBase), 16)
	c.Check(R4, fn+"|digest-entries-skipped", cb.Pos(), okDg, ifelse(okDg, "every element of the iterator pipeline passed tag != desc.Digest.String()", "digest-named entries of the tag map can be listed as tags: "+whyD))
}

// classifier factories over (tag values, last values)
func c15AfterBase(_ *ssa.Function, sets []map[ssa.Value]bool) c13CondClass {
	return func(cond ssa.Value) (bool, bool) {
		op, other, ok := c13CmpNorm(cond, sets[0])
		if !ok || !sets[1][other] {
			return false, false
		}
		return op == token.GTR, op == token.LEQ
	}
}

func c15AfterOrNoLastBase(fn *ssa.Function, sets []map[ssa.Value]bool) c13CondClass {
	return c13OrClass(c15AfterBase(fn, sets), c13EmptyStringClass(sets[1]))
}

func c15NotDigestBase(_ *ssa.Function, sets []map[ssa.Value]bool) c13CondClass {
	return func(cond ssa.Value) (bool, bool) {
		op, other, ok := c13CmpNorm(cond, sets[0])
		if !ok {
			return false, false
		}
		for _, r := range Roots(other) {
			if call, isCall := r.(*ssa.Call); isCall && CalleeName(call) == "(digest.Digest).String" {
				return op == token.NEQ, op == token.EQL
			}
		}
		return false, false
	}
}

func c15CheckLister(c *Ctx, R4 string, f *ssa.Function) {
	if cbs := c15StreamListCalls(f); len(cbs) > 0 {
		for _, cb := range cbs {
			c15CheckStreamLister(c, R4, f, cb)
		}
		return
	}
	fn := FnName(f)
	cb := Calls(f, func(n string) bool { return strings.HasPrefix(n, "dyn:param:") })[0]
	sorts := Calls(f, func(n string) bool { return n == "slices.Sort" || n == "sort.Strings" })
	okSort := len(sorts) > 0 && MustPass(cb.(ssa.Instruction), newCut().Calls(sorts))
	for _, s := range sorts {
		if !c13RootsIn(s.Common().Args[0], c13AliasSet(cb.Common().Args[0])) && s.Common().Args[0] != cb.Common().Args[0] {
			okSort = false
		}
	}
	c.Check(R4, fn+"|sorted-before-callback", cb.Pos(), okSort, ifelse(okSort, "slices.Sort(tags) precedes fn(tags) on every path", "the tags are handed to the callback unsorted"))
	var last *ssa.Parameter
	for _, p := range f.Params {
		if types.Identical(p.Type(), types.Typ[types.String]) {
			last = p
		}
	}
	apps := CallsTo(f, "builtin:append")
	if last == nil || len(apps) == 0 {
		c.LostAnchor(R4, fn+": `last` parameter / append of a tag")
		return
	}
	lastAl := Aliases(last)
	zeroLast, _ := c13LenZeroEdges(f, lastAl)
	for _, ap := range apps {
		// the appended tag
		var tag ssa.Value
		if sl, ok := ap.Common().Args[1].(*ssa.Slice); ok {
			if al, ok := sl.X.(*ssa.Alloc); ok {
				for _, r := range *al.Referrers() {
					if ia, ok := r.(*ssa.IndexAddr); ok {
						for _, r2 := range *ia.Referrers() {
							if st, ok := r2.(*ssa.Store); ok {
								tag = st.Val
							}
						}
					}
				}
			}
		}
		if tag == nil {
			c.Undecided(R4, fn+"|append", ap.Pos(), "cannot identify the appended element")
			continue
		}
		tagAl := Aliases(tag)
		afterBase, afterOrNoLastBase, notDigestBase := c15AfterBase, c15AfterOrNoLastBase, c15NotDigestBase
		sets := []map[ssa.Value]bool{tagAl, lastAl}
		afterClass := afterBase(f, sets)
		after := c13FactEdgesOfConds(f, c13PredicateClass(afterBase, f, sets, 2))
		afterOrNoLast := c13FactEdgesOfConds(f, c13PredicateClass(afterOrNoLastBase, f, sets, 2))
		notDigest := c13FactEdgesOfConds(f, c13PredicateClass(notDigestBase, f, sets, 2))
		_, _ = after, afterClass
		_ = zeroLast
		okAfter := MustPass(ap.(ssa.Instruction), newCut().Edges(afterOrNoLast...))
		c.Check(R4, fn+"|only-tags-after-last", ap.Pos(), okAfter && len(afterOrNoLast) > 0, ifelse(okAfter && len(afterOrNoLast) > 0, "a tag is listed only if last == \"\" or tag > last", "a tag not after `last` can be listed"))
		okDg := len(notDigest) > 0 && MustPass(ap.(ssa.Instruction), newCut().Edges(notDigest...))
		c.Check(R4, fn+"|digest-entries-skipped", ap.Pos(), okDg, ifelse(okDg, "entries whose name is their own digest are skipped", "digest-named entries of the tag map can be listed as tags"))
	}
}

var c15Mutants = []Mutant{
	{Name: "referrers-index-closed-before-decode", File: "registry/remote/repository.go",
		Old: "\tdefer rc.Close()\n\n\tif err := limitSize(desc, r.MaxMetadataBytes); err != nil {", New: "\trc.Close()\n\n\tif err := limitSize(desc, r.MaxMetadataBytes); err != nil {",
		Expect: "C15.R1.reader-not-closed-before-read"},
	{Name: "tag-schema-nonempty-list-dropped", File: "registry/remote/repository.go",
		Old: "\tif len(filtered) == 0 {\n\t\treturn nil\n\t}\n\treturn fn(filtered)", New: "\tif len(filtered) != 0 {\n\t\treturn nil\n\t}\n\treturn fn(filtered)",
		Expect: "C15.R3"},
	// generic error-discipline rule (errdiscipline.go): a failure branch that returns success
	{Name: "ed-limit-error-returns-nil", File: "registry/remote/repository.go",
		Old:    "\t\treturn ocispec.Descriptor{}, nil, fmt.Errorf(\"failed to read referrers index from referrers tag %s: %w\", referrersTag, err)",
		New:    "\t\treturn ocispec.Descriptor{}, nil, nil",
		Expect: "C15.ED.error-surfaces"},
	{Name: "referrers-page-ignores-configured-limit", File: "registry/remote/repository.go",
		Old:    "\tlr := limitReader(resp.Body, r.MaxMetadataBytes)\n\tif err := json.NewDecoder(lr).Decode(&index); err != nil {",
		New:    "\tlr := limitReader(resp.Body, 0)\n\tif err := json.NewDecoder(lr).Decode(&index); err != nil {",
		Expect: "C15.R1.limit-is-the-option"},
	// applies only once the truncation defect (D8) is repaired the way notes/triage/d8-candidate-fix.diff does; skipped otherwise
	{Name: "d8-size-guard-removed", File: "registry/remote/repository.go",
		Old: "\t\t\tif err := limitSize(ocispec.Descriptor{Size: resp.ContentLength}, s.repo.MaxMetadataBytes); err != nil {\n\t\t\t\treturn ocispec.Descriptor{}, fmt.Errorf(\"%s %q: %w\", resp.Request.Method, resp.Request.URL, err)\n\t\t\t}\n",
		New: "", Expect: "C15.R1.truncation-detected"},
	{Name: "tags-unbounded-decode", File: "registry/remote/repository.go",
		Old:    "\tlr := limitReader(resp.Body, r.MaxMetadataBytes)\n\tif err := json.NewDecoder(lr).Decode(&page); err != nil {",
		New:    "\tif err := json.NewDecoder(resp.Body).Decode(&page); err != nil {",
		Expect: "C15.R1.bounded-body-read"},
	{Name: "token-unbounded-decode", File: "registry/remote/auth/client.go",
		Old:    "\tlr := io.LimitReader(resp.Body, maxResponseBytes)\n\tif err := json.NewDecoder(lr).Decode(&result); err != nil {\n\t\treturn \"\", fmt.Errorf(\"%s %q: failed to decode response: %w\", resp.Request.Method, resp.Request.URL, err)\n\t}\n\tif result.AccessToken != \"\" {\n\t\treturn result.AccessToken, nil\n\t}\n\tif result.Token != \"\" {",
		New:    "\tif err := json.NewDecoder(resp.Body).Decode(&result); err != nil {\n\t\treturn \"\", fmt.Errorf(\"%s %q: failed to decode response: %w\", resp.Request.Method, resp.Request.URL, err)\n\t}\n\tif result.AccessToken != \"\" {\n\t\treturn result.AccessToken, nil\n\t}\n\tif result.Token != \"\" {",
		Expect: "C15.R1.bounded-body-read"},
	{Name: "digest-calc-unbounded", File: "registry/remote/repository.go",
		Old:    "\tbody := limitReader(resp.Body, maxMetadataBytes)\n\tcontent, err := io.ReadAll(body)",
		New:    "\t_ = maxMetadataBytes\n\tcontent, err := io.ReadAll(resp.Body)",
		Expect: "C15.R1.bounded-body-read"},
	{Name: "referrers-index-size-unchecked", File: "registry/remote/repository.go",
		Old:    "\tif err := limitSize(desc, r.MaxMetadataBytes); err != nil {\n\t\treturn ocispec.Descriptor{}, nil, fmt.Errorf(\"failed to read referrers index from referrers tag %s: %w\", referrersTag, err)\n\t}\n",
		New:    "",
		Expect: "C15.R1.sized-read-behind-limit"},
	{Name: "limit-size-wrong-descriptor", File: "registry/remote/repository.go",
		Old:    "\t\tif err := limitSize(target, s.repo.MaxMetadataBytes); err != nil {\n\t\t\treturn err\n\t\t}\n\t\tctx = auth.AppendRepositoryScope(ctx, s.repo.Reference, auth.ActionPull, auth.ActionDelete)",
		New:    "\t\tif err := limitSize(target, s.repo.MaxMetadataBytes); err != nil && target.MediaType != ocispec.MediaTypeImageIndex {\n\t\t\treturn err\n\t\t}\n\t\tctx = auth.AppendRepositoryScope(ctx, s.repo.Reference, auth.ActionPull, auth.ActionDelete)",
		Expect: "C15.R1.sized-read-behind-limit"},
	{Name: "limit-reader-doubles", File: "registry/remote/utils.go",
		Old: "\treturn io.LimitReader(r, n)", New: "\treturn io.LimitReader(r, 2*n)", Expect: "C15.R1.limit-helpers"},
	{Name: "limit-size-off", File: "registry/remote/utils.go",
		Old: "\tif desc.Size > n {", New: "\tif desc.Size > n && desc.MediaType == \"\" {", Expect: "C15.R1.limit-helpers"},
	{Name: "decode-error-swallowed", File: "registry/remote/registry.go",
		Old:    "\tif err := json.NewDecoder(lr).Decode(&page); err != nil {\n\t\treturn \"\", fmt.Errorf(\"%s %q: failed to decode response: %w\", resp.Request.Method, resp.Request.URL, err)\n\t}",
		New:    "\tif err := json.NewDecoder(lr).Decode(&page); err != nil && len(page.Repositories) == 0 {\n\t\treturn \"\", fmt.Errorf(\"%s %q: failed to decode response: %w\", resp.Request.Method, resp.Request.URL, err)\n\t}",
		Expect: "C15.R1.read-error-propagates"},
	{Name: "tags-last-resent", File: "registry/remote/repository.go",
		Old:    "\t\turl, err = r.tags(ctx, last, fn, url)\n\t\t// clear `last` for subsequent pages\n\t\tlast = \"\"\n",
		New:    "\t\turl, err = r.tags(ctx, last, fn, url)\n",
		Expect: "C15.R2.page-loop"},
	{Name: "referrers-url-not-advanced", File: "registry/remote/repository.go",
		Old:    "\t\turl, err = r.referrersPageByAPI(ctx, artifactType, fn, url)",
		New:    "\t\t_, err = r.referrersPageByAPI(ctx, artifactType, fn, url)",
		Expect: "C15.R2.page-loop"},
	{Name: "repositories-any-error-ends", File: "registry/remote/registry.go",
		Old:    "\tif err != errNoLink {\n\t\treturn err\n\t}\n\treturn nil\n}",
		New:    "\tif err != errNoLink && err != errdef.ErrNotFound {\n\t\treturn err\n\t}\n\treturn nil\n}",
		Expect: "C15.R2.page-loop"},
	{Name: "tags-query-replaced", File: "registry/remote/repository.go",
		Old:    "\t\treq.URL.RawQuery = q.Encode()\n\t}\n\tresp, err := r.do(req)",
		New:    "\t\treq.URL.RawQuery = \"n=\" + q.Get(\"n\") + \"&last=\" + q.Get(\"last\")\n\t}\n\tresp, err := r.do(req)",
		Expect: "C15.R2.page-function"},
	{Name: "callback-error-dropped", File: "registry/remote/repository.go",
		Old:    "\tif err := fn(page.Tags); err != nil {\n\t\treturn \"\", err\n\t}\n\n\treturn parseLink(resp)",
		New:    "\tfn(page.Tags)\n\n\treturn parseLink(resp)",
		Expect: "C15.R2.page-function"},
	{Name: "empty-filtered-page-ends-listing", File: "registry/remote/repository.go",
		Old:    "\tif len(referrers) > 0 {\n\t\tif err := fn(referrers); err != nil {\n\t\t\treturn \"\", err\n\t\t}\n\t}\n\treturn parseLink(resp)",
		New:    "\tif len(referrers) == 0 {\n\t\t// nothing to report\n\t\treturn \"\", errNoLink\n\t}\n\tif err := fn(referrers); err != nil {\n\t\treturn \"\", err\n\t}\n\treturn parseLink(resp)",
		Expect: "C15.R2.page-function"},
	{Name: "empty-tags-page-returns-early", File: "registry/remote/repository.go",
		Old:    "\tif err := fn(page.Tags); err != nil {\n\t\treturn \"\", err\n\t}\n\n\treturn parseLink(resp)",
		New:    "\tif len(page.Tags) == 0 {\n\t\treturn \"\", nil\n\t}\n\tif err := fn(page.Tags); err != nil {\n\t\treturn \"\", err\n\t}\n\n\treturn parseLink(resp)",
		Expect: "C15.R2.page-function"},
	{Name: "tags-last-guard-flipped", File: "registry/remote/repository.go",
		Old:    "\tif r.TagListPageSize > 0 || last != \"\" {\n\t\tq := req.URL.Query()",
		New:    "\tif r.TagListPageSize > 0 || last == \"\" {\n\t\tq := req.URL.Query()",
		Expect: "C15.R2.page-function"},
	{Name: "repositories-n-only-with-last", File: "registry/remote/registry.go",
		Old:    "\tif r.RepositoryListPageSize > 0 || last != \"\" {",
		New:    "\tif last != \"\" {",
		Expect: "C15.R2.page-function"},
	{Name: "tags-page-struct-shared", File: "registry/remote/repository.go",
		Old:    "\tvar page struct {\n\t\tTags []string `json:\"tags\"`\n\t}\n\tlr := limitReader(resp.Body, r.MaxMetadataBytes)\n\tif err := json.NewDecoder(lr).Decode(&page); err != nil {\n\t\treturn \"\", fmt.Errorf(\"%s %q: failed to decode response: %w\", resp.Request.Method, resp.Request.URL, err)\n\t}\n\tif err := fn(page.Tags); err != nil {\n\t\treturn \"\", err\n\t}\n\n\treturn parseLink(resp)\n}\n",
		New:    "\tpage := &sharedTagsPage\n\tlr := limitReader(resp.Body, r.MaxMetadataBytes)\n\tif err := json.NewDecoder(lr).Decode(page); err != nil {\n\t\treturn \"\", fmt.Errorf(\"%s %q: failed to decode response: %w\", resp.Request.Method, resp.Request.URL, err)\n\t}\n\tif err := fn(page.Tags); err != nil {\n\t\treturn \"\", err\n\t}\n\n\treturn parseLink(resp)\n}\n\n// sharedTagsPage is reused by every tag list request to save allocations.\nvar sharedTagsPage struct {\n\tTags []string `json:\"tags\"`\n}\n",
		Expect: "C15.R2.page-function"},
	{Name: "link-malformed-ends-listing", File: "registry/remote/utils.go",
		Old:    "\tif link[0] != '<' {\n\t\treturn \"\", fmt.Errorf(\"invalid next link %q: missing '<'\", link)\n\t}",
		New:    "\tif link[0] != '<' {\n\t\treturn \"\", errNoLink\n\t}",
		Expect: "C15.R2.link-parser"},
	{Name: "link-not-resolved", File: "registry/remote/utils.go",
		Old:    "\tlinkURL, err := resp.Request.URL.Parse(link)\n\tif err != nil {\n\t\treturn \"\", err\n\t}\n\treturn linkURL.String(), nil",
		New:    "\treturn link, nil",
		Expect: "C15.R2.link-parser"},
	{Name: "filter-skipped-when-header-empty", File: "registry/remote/repository.go",
		Old:    "\t\tif !isReferrersFilterApplied(filtersHeader, filterTypeArtifactType) &&\n\t\t\t!isReferrersFilterApplied(filtersAnnotation, filterTypeArtifactType) {",
		New:    "\t\tif filtersHeader != \"\" && !isReferrersFilterApplied(filtersHeader, filterTypeArtifactType) &&\n\t\t\t!isReferrersFilterApplied(filtersAnnotation, filterTypeArtifactType) {",
		Expect: "C15.R3"},
	{Name: "readonly-tags-by-search-skips-one", File: "content/oci/readonlyoci.go",
		Old:    "\treturn listTags(s.tagResolver, last, fn)\n}\n\n// validateOCILayoutFile",
		New:    "\tvar all []string\n\tlistTags(s.tagResolver, \"\", func(tags []string) error {\n\t\tall = tags\n\t\treturn nil\n\t})\n\tstart := 0\n\tif last != \"\" {\n\t\tpos, _ := slices.BinarySearch(all, last)\n\t\tstart = pos + 1\n\t}\n\tif start > len(all) {\n\t\tstart = len(all)\n\t}\n\treturn fn(all[start:])\n}\n\n// validateOCILayoutFile",
		Expect: "C15.R4"},
	{Name: "listtags-unsorted", File: "content/oci/readonlyoci.go",
		Old: "\tslices.Sort(tags)\n\n\treturn fn(tags)", New: "\tif last != \"\" {\n\t\tslices.Sort(tags)\n\t}\n\n\treturn fn(tags)", Expect: "C15.R4"},
	{Name: "listtags-last-inclusive", File: "content/oci/readonlyoci.go",
		Old: "\t\tif last != \"\" && tag <= last {", New: "\t\tif last != \"\" && tag < last {", Expect: "C15.R4"},
}
