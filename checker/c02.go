package main

// C02 — destination stays link-closed; failures surface.
// Rules: R1 wait-before-push, R2 done-closed-only-on-success,
// R3 error surfacing, R4 no unbounded blocking / permit typestate.

import (
	"fmt"
	"go/token"
	"go/types"
	"strings"

	"golang.org/x/tools/go/ssa"
)

func init() {
	register(&propDef{
		ID: "C02",
		Explain: "Decided: (R1) in the copy traversal function (closure, method or plain function; role: claims the node with Tracker.TryCommit and dispatches with syncutil.Go, possibly through helpers) every feasible path to a push effect either has no successors or has dispatched them and then " +
			"waited, per successor, on the tracker's done channel in a select whose only alternative is ctx.Done() returning an error — inline, or in in-module helpers summarised as 'a nil-error return implies every element was waited for'; " +
			"(R2) a tracker channel is closed only in a deferred closure under err==nil of the enclosing error result, or explicitly where only `return nil` can follow; (R3) every error of a source read, " +
			"destination existence check/write, callback or internal copy helper in copy.go/extendedcopy.go (and what the entry points statically reach) is propagated — directly, or through a helper that maps nil/tolerated to nil and anything else to non-nil; tolerated sentinels attach to the callback identity; " +
			"syncutil.Go forwards the first error and returns context.Cause; (R4) no permit is held across the blocking dispatch/wait (typestate followed through helpers that receive the region) and the goroutine body " +
			"always releases its permit. NOT decided (not applicable to static analysis): wall-clock boundedness, goroutine counts, that a re-run completes, faults inside user stores.",
		Run:     runC02,
		Mutants: c02Mutants,
	})
}

const (
	nTryCommit = "(*~/internal/status.Tracker).TryCommit"
	nGo        = "~/internal/syncutil.Go"
	nEnd       = "(*~/internal/syncutil.LimitedRegion).End"
	nStart     = "(*~/internal/syncutil.LimitedRegion).Start"
)

var pushInvokes = map[string]bool{
	"(~/content.Pusher).Push":                    true,
	"(~/registry.Mounter).Mount":                 true,
	"(~/registry.ReferencePusher).PushReference": true,
}

func isPushEffect(c ssa.CallInstruction) bool {
	if pushInvokes[CalleeName(c)] {
		return true
	}
	if g := StaticCallee(c); g != nil && inModule(g) {
		return reachesCall(g, 3, func(n string, _ ssa.CallInstruction) bool { return pushInvokes[n] })
	}
	return false
}

// traversalClosures: the copy traversal function(s) of the root package
// (role-based anchor): a function — closure, method or plain function — that
// claims a node in the tracker (Tracker.TryCommit) and dispatches successors
// with syncutil.Go, directly or through a helper it statically calls.  When
// several functions qualify (e.g. an extracted helper that dispatches and
// waits), the ones that are themselves handed to syncutil.Go as the task
// function are the traversal.
func traversalClosures(p *Prog) []*ssa.Function {
	goT := map[*ssa.Function]bool{}
	for _, t := range c02GoTargets(p) {
		goT[t] = true
	}
	var direct, tasks []*ssa.Function
	for _, f := range p.FuncsOfPkg("") {
		if len(CallsTo(f, nTryCommit)) == 0 {
			continue
		}
		if len(CallsTo(f, nGo)) > 0 {
			direct = append(direct, f)
			if goT[f] {
				tasks = append(tasks, f)
			}
		} else if goT[f] && (c02ReachesStatic(f, 2, func(in ssa.Instruction) bool { return c02IsCallTo(in, nGo) }) || c02ClosureBody(f) != nil || c02StepTable(f) != nil) {
			tasks = append(tasks, f)
		}
	}
	if len(tasks) > 0 {
		return tasks
	}
	return direct
}

// lenZeroEdges: edges on which len(s)==0 for s denoting the same value as S
// (either operand order, any of the equivalent comparisons with 0 / 1).
func lenZeroEdges(fn *ssa.Function, S ssa.Value) []Edge {
	var out []Edge
	isLen := func(v ssa.Value) bool {
		ln, ok := v.(*ssa.Call)
		return ok && CalleeName(ln) == "builtin:len" && SameValue(ln.Call.Args[0], S)
	}
	for _, i := range Ifs(fn) {
		cond, t, f := ifEdges(i)
		bo, ok := cond.(*ssa.BinOp)
		if !ok {
			continue
		}
		x, y, op := bo.X, bo.Y, bo.Op
		if !isLen(x) && isLen(y) { // k op len(s)  ->  len(s) op' k
			x, y = y, x
			switch op {
			case token.LSS:
				op = token.GTR
			case token.GTR:
				op = token.LSS
			case token.LEQ:
				op = token.GEQ
			case token.GEQ:
				op = token.LEQ
			}
		}
		if !isLen(x) {
			continue
		}
		k, ok := constInt(y)
		if !ok {
			continue
		}
		switch {
		case op == token.NEQ && k == 0, op == token.GTR && k == 0, op == token.GEQ && k == 1:
			out = append(out, f)
		case op == token.EQL && k == 0, op == token.LSS && k == 1, op == token.LEQ && k == 0:
			out = append(out, t)
		}
	}
	return out
}

func variadicArg(c ssa.CallInstruction) ssa.Value {
	args := c.Common().Args
	if len(args) == 0 {
		return nil
	}
	return args[len(args)-1]
}

func runC02(c *Ctx) {
	c02P = c.P
	c02R1R4(c)
	c02R2(c)
	c02R3(c)
	c02ToleratedSentinels(c)
	c02TaskContext(c)
	c02Go(c)
}

func c02R1R4(c *Ctx) {
	const R1, R4 = "C02.R1.wait-before-push", "C02.R4.permit-typestate"
	c.Expect(R1, 4)
	c.Expect(R4, 3)
	ts := traversalClosures(c.P)
	if len(ts) == 0 {
		c.LostAnchor(R1, "traversal function (claims the node with Tracker.TryCommit and dispatches with syncutil.Go) in package ~")
		return
	}
	c.Expect("C02.R1.done-implies-present", 1)
	for _, T0 := range ts {
		c02DonePresent(c, T0)
		if st := c02StepTable(T0); st != nil && len(c02DispatchedSlices(T0)) == 0 && c02ClosureBody(T0) == nil {
			c02R1StepTable(c, T0, st)
			continue
		}
		// the function that dispatches the successors and pushes the node: the
		// traversal function itself, or the helper it hands the claimed node to
		T := c02DispatchBody(T0, 2)
		if T == nil {
			c.LostAnchor(R1, FnName(T0)+": the slice dispatched with syncutil.Go")
			continue
		}
		// pushes the traversal function makes outside that helper are ordered by
		// the helper's summary: "a nil return implies all successors were waited for"
		var outerPushes, bodyCalls []ssa.CallInstruction
		if T != T0 {
			for _, call := range Calls(T0, func(string) bool { return true }) {
				if _, isDefer := call.(*ssa.Defer); isDefer {
					continue
				}
				if g, _ := c02CalleeOf(call); g == T {
					bodyCalls = append(bodyCalls, call)
				}
			}
			if wb := c02ClosureBody(T0); wb != nil && wb.Body == T {
				bodyCalls = append(bodyCalls, wb.Call) // the wrapper that runs the closure and returns nil only if it did
			}
			bad := false
			for _, p := range c02Pushes(T0, nil) {
				if g, _ := c02CalleeOf(p); g == nil || c02DispatchBody(g, 1) != T {
					outerPushes = append(outerPushes, p)
					if len(bodyCalls) == 0 {
						c.Undecided(R1, FnName(T0)+"|push:"+CalleeName(p), p.Pos(), "the traversal function pushes outside the helper ("+FnName(T)+") that dispatches and waits for the successors, and does not call that helper directly; their order cannot be decided")
						bad = true
					}
				}
			}
			if bad {
				continue
			}
		}
		tn := FnName(T)
		slices := c02DispatchedSlices(T)
		except := map[ssa.Instruction]bool{}
		for _, S := range slices {
			for _, d := range c02DispatchCalls(T, S, 0) {
				except[d.(ssa.Instruction)] = true
			}
		}
		pushes := c02Pushes(T, except)
		if len(pushes) == 0 && len(outerPushes) == 0 {
			c.LostAnchor(R1, tn+": no push effect found")
			continue
		}
		for _, S := range slices {
			sites := c02SliceWaits(c, T, S, true, pushes, 0)
			if len(sites) == 0 {
				if l := c02UnknownWaitLoop(T, nil); l != nil {
					c.Undecided(R1, tn+"|wait-loop", blockPos(l.Header), "a loop consults the tracker but is not a recognised loop over the dispatched successors (range, or index counting from 0 to len)")
				} else {
					c.Violation(R1, tn+"|wait-loop", T.Pos(), "no loop over the dispatched successors slice: parents do not wait for their successors")
				}
			}
			cutR1 := newCut().Edges(lenZeroEdges(T, S)...)
			isSite := map[ssa.Instruction]bool{}
			okErrs := map[ssa.Value]bool{}
			for _, st := range sites {
				cutR1.Edges(st.Edges...)
				cutR1.Instr(st.Instr)
				isSite[st.At] = true
				if st.Err != nil {
					okErrs[st.Err] = true
				}
			}
			if len(outerPushes) > 0 {
				okSum := len(sites) > 0
				if ErrResultIndex(T.Signature) >= 0 {
					for _, a := range c02NilableAtoms(T) {
						if okErrs[a.Val] || okErrs[strip(a.Val)] {
							continue // the wait's own error is returned
						}
						if !AtomMustPass(a, cutR1) {
							if must, _ := c02MustPassPS(T, a.Ret, cutR1, okErrs); !must {
								okSum = false
							}
						}
					}
				} else {
					for _, r := range Returns(T) {
						if !MustPass(r, cutR1) {
							okSum = false
						}
					}
				}
				c.Check(R1, tn+"|nil-return-implies-all-waited", T.Pos(), okSum,
					ifelse(okSum, "every nil-error return of the helper has no successors or has completed the wait for all of them",
						"the helper that dispatches the successors can return nil before every successor was waited for"))
			}
			for _, p := range pushes {
				if isSite[p.(ssa.Instruction)] {
					continue
				}
				ok := len(sites) > 0 && MustPass(p.(ssa.Instruction), cutR1)
				if !ok && len(sites) > 0 {
					// path-sensitive: `if err == nil { err = next() }` chains
					var exceeded bool
					if ok, exceeded = c02MustPassPS(T, p.(ssa.Instruction), cutR1, okErrs); exceeded {
						c.Undecided(R1, tn+"|push:"+CalleeName(p), p.Pos(), "too many distinct paths to this push effect")
						continue
					}
				}
				c.Check(R1, tn+"|push:"+CalleeName(p), p.Pos(), ok,
					ifelse(ok, "every path to the push takes the len(successors)==0 edge or leaves the wait for all successors on its success edge",
						"a path reaches this push effect without waiting for the node's successors (neither the empty-successors edge nor the completed wait is on it)"))
				for _, st := range sites {
					if st.Loop != nil {
						c.Check(R1, tn+"|push-outside-wait-loop:"+CalleeName(p), p.Pos(), !st.Loop.Contains(p.(ssa.Instruction)), "push effect inside the wait loop")
					}
				}
			}
		}
		for _, g := range CallsTo(T, nGo) {
			r := c02ErrFlow(g, ErrFlowOpts{}, 0)
			c.Check(R1, tn+"|dispatch-error-returned", g.Pos(), r.OK, r.How+r.Detail)
		}
		// the traversal function's own pushes lie behind a successful return of the helper
		if len(outerPushes) > 0 {
			ct := newCut()
			okErrs := map[ssa.Value]bool{}
			// `if len(successors) != 0 { run(body) }` in the traversal function itself:
			// the slice as the traversal function sees it (the variable the body closure captured)
			if wb := c02ClosureBody(T0); wb != nil && wb.Body == T {
				for _, a := range wb.Call.Common().Args {
					mc, isMC := a.(*ssa.MakeClosure)
					if !isMC || mc.Fn != T {
						continue
					}
					for _, bnd := range mc.Bindings {
						if al, isAlloc := bnd.(*ssa.Alloc); isAlloc && c02IsSliceType(al.Type().(*types.Pointer).Elem()) {
							for _, st := range storesTo(al) {
								ct.Edges(lenZeroEdges(T0, st.Val)...)
							}
						}
					}
				}
			}
			for _, bc := range bodyCalls {
				if e := ErrOf(bc); e != nil {
					ne, _, _ := NilTests(T0, c02MustAliases(e))
					ct.Edges(ne...)
					okErrs[e] = true
				} else if ErrResultIndex(T.Signature) < 0 {
					ct.Instr(bc.(ssa.Instruction))
				}
			}
			for _, p := range outerPushes {
				ok := MustPass(p.(ssa.Instruction), ct)
				if !ok {
					ok, _ = c02MustPassPS(T0, p.(ssa.Instruction), ct, okErrs)
				}
				c.Check(R1, FnName(T0)+"|push:"+CalleeName(p), p.Pos(), ok,
					ifelse(ok, "every path to the push takes the success edge of "+tn+", which returns nil only without successors or after waiting for all of them",
						"a path reaches this push effect without a successful return of "+tn+" (which dispatches and waits for the node's successors)"))
			}
		}
	}
	// R4(b): the task functions handed to syncutil.Go start with the permit
	// held; functions that receive the region from them are analysed with the
	// state at the call.
	pa := newC02PermitAnalysis(c)
	for _, T := range c02GoTargets(c.P) {
		if k := c02RegionParam(T); k >= 0 {
			pa.run(T, k, c02Permit{s: c02Held}, 0)
		}
	}
	for _, f := range c.P.FuncsOfPkg("") {
		if c02RegionParam(f) >= 0 && !pa.Analysed[f] {
			c.Undecided(R4, FnName(f)+"|region-function-not-reached", f.Pos(), "the function receives a *syncutil.LimitedRegion but is neither a task function passed to syncutil.Go nor called from one with the region")
		}
	}
	if len(pa.Analysed) < 2 {
		c.LostAnchor(R4, "task functions with a *syncutil.LimitedRegion parameter (expected the traversal function and the ExtendedCopyGraph per-root function)")
	}
}

func c02RegionParam(f *ssa.Function) int {
	for i, prm := range f.Params {
		if isPtrToRegion(prm.Type()) {
			return i
		}
	}
	return -1
}

// c02PermitTypestate: in a function running under a limiter permit, every
// blocking operation happens in the released state, and storage effects after
// a release need a successful re-acquire (see c02PermitAnalysis).
func c02PermitTypestate(c *Ctx, T *ssa.Function) {
	if k := c02RegionParam(T); k >= 0 {
		newC02PermitAnalysis(c).run(T, k, c02Permit{s: c02Held}, 0)
	}
}

func storageEffects(fn *ssa.Function) []ssa.CallInstruction {
	var out []ssa.CallInstruction
	for _, call := range Calls(fn, func(string) bool { return true }) {
		if _, isDefer := call.(*ssa.Defer); isDefer {
			continue
		}
		n := CalleeName(call)
		if cc := call.Common(); cc.IsInvoke() && isFieldLoad(cc.Value, "Cache") {
			continue // the in-memory cache is neither a source read nor a destination operation
		}
		if isPushEffect(call) || strings.HasSuffix(n, ").Exists") || strings.HasSuffix(n, ").Fetch") {
			out = append(out, call)
		}
	}
	return out
}

func instrLabel(in ssa.Instruction) string {
	switch x := in.(type) {
	case ssa.CallInstruction:
		return CalleeName(x)
	case *ssa.Select:
		return "select"
	}
	return fmt.Sprintf("%T", in)
}

func ifelse(b bool, x, y string) string {
	if b {
		return x
	}
	return y
}

// c02WaitLoop checks the body of a wait loop over S (kept for callers that
// have a loop in hand; the work is done by c02ElemWait).
func c02WaitLoop(c *Ctx, T *ssa.Function, l *Loop, S ssa.Value, pushes []ssa.CallInstruction) {
	for _, sl := range c02LoopsOver(T, S) {
		if sl.L.Header == l.Header {
			c02ElemWait(c, &c02Scope{fn: T, loop: sl.L, startB: sl.Body.To, header: sl.L.Header.Instrs[0]}, sl.Elem, pushes, 0)
			return
		}
	}
	c.Undecided("C02.R1.wait-before-push", FnName(T)+"|wait-loop", blockPos(l.Header), "not a recognised loop over the successors slice")
}

func isCtxErr(v ssa.Value) bool {
	call, ok := v.(*ssa.Call)
	return ok && (CalleeName(call) == "(context.Context).Err" || CalleeName(call) == "context.Cause")
}

// ---------- R2 ----------

// freeVarBindings returns the values bound to free variable fv at every
// MakeClosure of its function.
func freeVarBindings(fv *ssa.FreeVar) []ssa.Value {
	f := fv.Parent()
	idx := -1
	for i, x := range f.FreeVars {
		if x == fv {
			idx = i
		}
	}
	var out []ssa.Value
	if f.Parent() == nil || idx < 0 {
		return nil
	}
	AllInstrs(f.Parent(), func(in ssa.Instruction) {
		if mc, ok := in.(*ssa.MakeClosure); ok && mc.Fn == f {
			out = append(out, mc.Bindings[idx])
		}
	})
	return out
}

// derivesFromCall: v (resolved through cells, free variables and phis) is
// result #idx of a call to name.
func derivesFromCall(v ssa.Value, name string, idx int, depth int) bool {
	if depth > 5 {
		return false
	}
	for _, r := range Roots(v) {
		switch u := r.(type) {
		case *ssa.Extract:
			if call, ok := u.Tuple.(*ssa.Call); ok && CalleeName(call) == name && u.Index == idx {
				return true
			}
		case *ssa.Call:
			if CalleeName(u) == name && idx == 0 {
				return true
			}
		case *ssa.UnOp:
			if u.Op == token.MUL {
				if fv, ok := u.X.(*ssa.FreeVar); ok {
					for _, b := range freeVarBindings(fv) {
						if a, ok := b.(*ssa.Alloc); ok {
							for _, s := range storesTo(a) {
								if derivesFromCall(s.Val, name, idx, depth+1) {
									return true
								}
							}
						}
					}
				}
			}
		case *ssa.TypeAssert:
			if derivesFromCall(u.X, name, idx, depth+1) {
				return true
			}
		}
	}
	return false
}

// c02FromTracker: v is a tracker channel (first result of TryCommit, or the
// value loaded from the tracker's sync.Map), also when it reaches a closure as
// an argument of its (deferred) call.
func c02FromTracker(v ssa.Value, depth int) bool {
	if depth > 3 {
		return false
	}
	if derivesFromCall(v, nTryCommit, 0, 0) {
		return true
	}
	for _, n := range []string{"(*sync.Map).LoadOrStore", "(*sync.Map).Load", "(*sync.Map).LoadAndDelete", "(*sync.Map).Swap"} {
		if derivesFromCall(v, n, 0, 0) {
			return true
		}
	}
	for _, r := range Roots(v) {
		prm, ok := r.(*ssa.Parameter)
		if !ok {
			continue
		}
		if prm.Parent().Parent() == nil {
			// parameter of a named function: what its call sites pass
			if c02P == nil {
				continue
			}
			idx := -1
			for i, q := range prm.Parent().Params {
				if q == prm {
					idx = i
				}
			}
			for _, site := range c02CallSitesIn(c02P, prm.Parent()) {
				_, off := c02CalleeOf(site)
				if a := site.Common().Args; idx-off >= 0 && idx-off < len(a) && c02FromTracker(a[idx-off], depth+1) {
					return true
				}
			}
			continue
		}
		f := prm.Parent()
		idx := -1
		for i, q := range f.Params {
			if q == prm {
				idx = i
			}
		}
		found := false
		AllInstrs(f.Parent(), func(in ssa.Instruction) {
			call, ok := in.(ssa.CallInstruction)
			if !ok {
				return
			}
			if mc, ok := call.Common().Value.(*ssa.MakeClosure); ok && mc.Fn == f && idx < len(call.Common().Args) {
				if c02FromTracker(call.Common().Args[idx], depth+1) {
					found = true
				}
			}
		})
		if found {
			return true
		}
	}
	return false
}

// c02AfterCloseOK (shape B): after the close, the function can only return a
// nil error and performs no fallible work.
func c02AfterCloseOK(f *ssa.Function, cl ssa.Instruction) (bool, string) {
	errIdx := ErrResultIndex(f.Signature)
	if errIdx < 0 {
		return false, "the closing function has no error result"
	}
	type state struct{ b, pred *ssa.BasicBlock }
	visited := map[state]bool{}
	why := ""
	var walk func(b *ssa.BasicBlock, i int, pred *ssa.BasicBlock)
	walk = func(b *ssa.BasicBlock, i int, pred *ssa.BasicBlock) {
		if why != "" {
			return
		}
		if i == 0 {
			if visited[state{b, pred}] {
				return
			}
			visited[state{b, pred}] = true
		}
		for ; i < len(b.Instrs); i++ {
			switch x := b.Instrs[i].(type) {
			case *ssa.Call:
				if _, isBuiltin := x.Call.Value.(*ssa.Builtin); isBuiltin {
					continue
				}
				if isPushEffect(x) || (x.Call.Signature() != nil && ErrResultIndex(x.Call.Signature()) >= 0) {
					why = "the call of " + CalleeName(x) + " can still fail after the done channel was closed"
					return
				}
			case *ssa.Return:
				for _, val := range resolveAt(x.Results[errIdx], b, pred, x, map[ssa.Value]bool{}) {
					if ErrNilStatus(val, 0) != IsNil {
						why = "a return after the close yields " + describe(val)
						return
					}
				}
				return
			}
		}
		for _, sc := range b.Succs {
			walk(sc, 0, b)
		}
	}
	walk(cl.Block(), instrIndex(cl)+1, nil)
	return why == "", why
}

func c02R2(c *Ctx) {
	const R2 = "C02.R2.done-closed-only-on-success"
	c.Expect(R2, 1)
	found := 0
	for _, pkg := range c02TrackerPkgs {
		for _, f := range c.P.FuncsOfPkg(pkg) {
			// close sites: close(x) itself, and calls of in-module helpers that
			// close the channel they receive (Tracker.Abort(desc, done), a local
			// closure, ...) — who-may-close over every value flowing from the tracker
			for _, cl := range c02CloseSites(c.P, f) {
				found++
				key := FnName(f) + "|close"
				if CalleeName(cl) != "builtin:close" {
					key = FnName(f) + "|close-via:" + CalleeName(cl)
				}
				_, closeDeferred := cl.(*ssa.Defer)
				par := f.Parent()
				deferred := false
				if par != nil {
					AllInstrs(par, func(in ssa.Instruction) {
						if d, ok := in.(*ssa.Defer); ok {
							if mc, ok := d.Call.Value.(*ssa.MakeClosure); ok && mc.Fn == f {
								deferred = true
							}
						}
					})
					AllInstrs(par, func(in ssa.Instruction) {
						if mc, ok := in.(*ssa.MakeClosure); ok && mc.Fn == f {
							for _, r := range *mc.Referrers() {
								if _, isDefer := r.(*ssa.Defer); !isDefer {
									if _, isDbg := r.(*ssa.DebugRef); !isDbg {
										deferred = false
									}
								}
							}
						}
					})
				}
				if !deferred {
					// shape B: explicit close on the success path of the owning function
					if closeDeferred {
						if ok, decided := c02DeferredHelperCloseOK(f, cl); decided {
							c.Check(R2, key, cl.Pos(), ok,
								ifelse(ok, "the deferred helper receives the address of the function's error result and closes the channel only where *result == nil",
									"the deferred helper can close the tracker's done channel although the function's error result is non-nil"))
							continue
						}
						c.Violation(R2, key, cl.Pos(), "the tracker's done channel is closed by an unconditional defer: it is closed although the node's copy failed (a waiting parent would then push with a missing successor)")
						continue
					}
					ok, why := c02AfterCloseOK(f, cl.(ssa.Instruction))
					c.Check(R2, key, cl.Pos(), ok,
						ifelse(ok, "after close(done) the function only returns nil and does no fallible work",
							"the tracker's done channel can be closed although the node's copy failed (a waiting parent would then push with a missing successor): "+why))
					continue
				}
				// shape A: deferred closure guarding on the enclosing function's error result == nil.
				// the error cell of the parent: the Alloc its Returns load from
				errIdx := ErrResultIndex(par.Signature)
				errCells := map[ssa.Value]bool{}
				allFromCell := errIdx >= 0
				if errIdx >= 0 {
					for _, r := range Returns(par) {
						// only returns that run the deferred closure matter
						runs := false
						AllInstrs(par, func(in ssa.Instruction) {
							if d, ok := in.(*ssa.Defer); ok {
								if mc, ok := d.Call.Value.(*ssa.MakeClosure); ok && mc.Fn == f && Reachable(d, r) {
									runs = true
								}
							}
						})
						if a := cellOf(r.Results[errIdx]); a != nil {
							errCells[a] = true
						} else if runs {
							allFromCell = false
						}
					}
				}
				if len(errCells) != 1 || !allFromCell {
					c.Undecided(R2, key, cl.Pos(), "the deferred closure cannot observe the enclosing function's error result (the result is not a single variable that every return after the defer yields)")
					continue
				}
				errLoads := map[ssa.Value]bool{}
				for _, fv := range f.FreeVars {
					isErr := false
					for _, b := range freeVarBindings(fv) {
						if errCells[b] {
							isErr = true
						}
					}
					if !isErr {
						continue
					}
					for _, r := range *fv.Referrers() {
						if ld, ok := r.(*ssa.UnOp); ok && ld.Op == token.MUL {
							errLoads[ld] = true
						}
					}
				}
				nilE, _, _ := NilTests(f, errLoads)
				ok := len(nilE) > 0 && MustPass(cl.(ssa.Instruction), newCut().Edges(nilE...)) && !closeDeferred
				c.Check(R2, key, cl.Pos(), ok,
					ifelse(ok, "close(done) runs in a deferred closure, only on the edge where the enclosing function's error result is nil",
						"the tracker's done channel can be closed although the node's copy failed (a waiting parent would then push with a missing successor)"))
			}
		}
	}
	if found == 0 {
		c.LostAnchor(R2, "close() of a tracker channel")
	}
	c02TrackerStores(c)
}

// ---------- R3 ----------

// c02Monitored decides whether a call's error matters for C02 and which
// sentinels are tolerated at it.
func c02Monitored(call ssa.CallInstruction) (bool, []string) {
	n := CalleeName(call)
	if call.Common().Signature() == nil || ErrResultIndex(call.Common().Signature()) < 0 {
		return false, nil
	}
	if cc := call.Common(); cc.IsInvoke() && isFieldLoad(cc.Value, "Cache") {
		// the proxy's cache is best-effort: on a cache failure the node is copied from the source instead
		return false, nil
	}
	switch {
	case n == "(io.Closer).Close":
		return false, nil
	case n == "(~/content.Pusher).Push", n == "(~/registry.ReferencePusher).PushReference":
		return true, []string{"~/errdef.ErrAlreadyExists"}
	case n == "(~/registry.Mounter).Mount":
		return true, []string{"local:skip_source"}
	case n == "field:~.CopyGraphOptions.PreCopy":
		return true, nil // the SkipNode tolerance attaches to the callback identity (c02CallbackTolerance)
	case strings.HasPrefix(n, "field:~."):
		return true, nil
	case strings.HasPrefix(n, "(~/content."), strings.HasPrefix(n, "(~/registry."), strings.HasPrefix(n, "(*~/internal/cas."), strings.HasPrefix(n, "(*~/internal/registryutil."):
		return true, nil
	case strings.HasPrefix(n, "dyn:freevar:"), strings.HasPrefix(n, "dyn:local:"), strings.HasPrefix(n, "dyn:param:"):
		// captured previous callbacks (preCopy, postCopy, onCopySkipped, mapRoot, fp); a callback received as an argument
		return true, nil
	}
	if g := StaticCallee(call); g != nil && inModule(g) {
		if v := call.Value(); v != nil && ErrNilStatus(v, 0) == NonNil {
			return false, nil // error constructor (newCopyError): nothing to propagate
		}
		return true, nil
	}
	return false, nil
}

// c02CallbackTolerance: the sentinels a callback may return to mean "no
// failure", by the struct field the callback was loaded from.
var c02CallbackTolerance = map[string][]string{
	"field:~.CopyGraphOptions.PreCopy":           {"~.SkipNode"},
	"(~/content.Pusher).Push":                    {"~/errdef.ErrAlreadyExists"},
	"(~/registry.ReferencePusher).PushReference": {"~/errdef.ErrAlreadyExists"},
}

// c02R3Funcs: the functions whose calls are monitored — everything declared
// in copy.go / extendedcopy.go, plus every function of the root package
// reachable from the four entry points (so that moving a helper to another
// file does not drop it).
func c02R3Funcs(p *Prog) []*ssa.Function {
	files := map[string]bool{"copy.go": true, "extendedcopy.go": true}
	in := map[*ssa.Function]bool{}
	var work []*ssa.Function
	push := func(f *ssa.Function) {
		if f == nil {
			return
		}
		f, _ = c02Unwrap(f)
		if in[f] || len(f.Blocks) == 0 || fnPkgPath(f) != Mod {
			return
		}
		in[f] = true
		work = append(work, f)
	}
	for _, n := range []string{"Copy", "CopyGraph", "ExtendedCopy", "ExtendedCopyGraph"} {
		push(p.Fn("", n))
	}
	for len(work) > 0 {
		f := work[len(work)-1]
		work = work[:len(work)-1]
		AllInstrs(f, func(ins ssa.Instruction) {
			for _, op := range ins.Operands(nil) {
				if op == nil || *op == nil {
					continue
				}
				switch x := (*op).(type) {
				case *ssa.Function:
					push(x)
				case *ssa.MakeClosure:
					push(x.Fn.(*ssa.Function))
				}
			}
			if mc, ok := ins.(*ssa.MakeClosure); ok {
				push(mc.Fn.(*ssa.Function))
			}
		})
	}
	var out []*ssa.Function
	for _, f := range p.FuncsOfPkg("") {
		file := p.Fset.Position(f.Pos()).Filename
		if files[file[strings.LastIndex(file, "/")+1:]] || in[f] {
			out = append(out, f)
		}
	}
	return out
}

func c02R3(c *Ctx) {
	const R3 = "C02.R3.error-surfacing"
	c.Expect(R3, 30)
	for _, f := range c02R3Funcs(c.P) {
		c02DeferredResultWrites(c, f)
		seen := map[string]int{}
		for _, call := range Calls(f, func(string) bool { return true }) {
			mon, tol := c02Monitored(call)
			if !mon {
				continue
			}
			if _, isDefer := call.(*ssa.Defer); isDefer {
				continue
			}
			n := CalleeName(call)
			seen[n]++
			key := fmt.Sprintf("%s|%s#%d", FnName(f), n, seen[n])
			if n == "(~/registry.Mounter).Mount" {
				// tolerated: the sentinel(s) that the getContent callback handed to
				// Mount returns to say "skip this source" (a local errors.New or a
				// package-level variable); failing that, the errors.New of the function
				tol = c02CallbackSentinels(call)
				if len(tol) == 0 {
					for _, e := range CallsTo(f, "errors.New") {
						tol = append(tol, "local:"+localName(e.Value()))
					}
				}
			}
			// a callback keeps its tolerated sentinels wherever it is finally
			// invoked: through a nil-safe helper that receives the field value,
			// a method of the options struct, a parameter of a helper
			if ids := c02ErrIdentities(c.P, call, nil, 0); len(ids) > 0 {
				var common []string
				first, all := true, true
				for id := range ids {
					t, ok := c02CallbackTolerance[id]
					if !ok {
						all = false
						break
					}
					if first {
						common, first = t, false
					} else if !sameStrings(sortedCopy(common), sortedCopy(t)) {
						all = false
					}
				}
				if all {
					tol = append(tol, common...)
				}
			}
			r := c02ErrFlow(call, ErrFlowOpts{Tolerated: tol}, 0)
			pos := call.Pos()
			if !r.OK && r.At.IsValid() {
				pos = r.At
			}
			c.Check(R3, key, pos, r.OK, r.How+r.Detail)
		}
	}
}

// ---------- syncutil.Go ----------

func c02Go(c *Ctx) {
	const R = "C02.R3.go-forwards-first-error"
	c.Expect(R, 3)
	gen := c.P.Fn("internal/syncutil", "Go")
	if gen == nil {
		c.LostAnchor(R, "~/internal/syncutil.Go")
		return
	}
	insts := c.P.Instances(gen)
	if len(insts) == 0 {
		c.LostAnchor(R, "instantiation of ~/internal/syncutil.Go")
		return
	}
	for _, G := range insts {
		gn := FnName(G)
		// the function result is context.Cause(ctx') with ctx' from WithCancelCause
		wcc := CallsTo(G, "context.WithCancelCause")
		okCause := len(wcc) == 1
		if okCause {
			ctx2 := ResultOf(wcc[0], 0)
			for _, a := range RetAtoms(G, 0) {
				call, ok := a.Val.(*ssa.Call)
				if !ok || CalleeName(call) != "context.Cause" || ctx2 == nil || !SameValue(call.Call.Args[0], ctx2) {
					okCause = false
				}
			}
		}
		c.Check(R, gn+"|returns-cause", G.Pos(), okCause,
			ifelse(okCause, "every return yields context.Cause of the WithCancelCause context", "syncutil.Go may return something else than the recorded first failure (an error could be reported as success)"))
		// eg.Wait() on every path to return
		waits := CallsTo(G, "(*golang.org/x/sync/errgroup.Group).Wait")
		okWait := len(waits) > 0
		for _, r := range Returns(G) {
			if !MustPass(r, newCut().Calls(waits)) {
				okWait = false
			}
		}
		c.Check(R, gn+"|waits-for-all", G.Pos(), okWait, "every return is preceded by errgroup.Wait()")
		// the goroutine body (whatever is handed to errgroup.Group.Go: a closure,
		// the result of a closure factory, a method value): the task function's
		// error is returned to the errgroup (and recorded as the cancel cause,
		// there or after eg.Wait()); lr.End() on every exit
		egGo := c02FindCalls(G, "(*golang.org/x/sync/errgroup.Group).Go", nil, 0) // in G or a helper it calls (spawn)
		var bodies []*ssa.Function
		for _, eg := range egGo {
			g := eg.call
			if args := g.Common().Args; len(args) == 2 {
				for _, t := range c02FuncTargets(args[1], 0) {
					if len(t.Fn.Blocks) > 0 {
						bodies = append(bodies, t.Fn)
					}
				}
			}
		}
		if len(bodies) == 0 {
			c.LostAnchor(R, gn+": goroutine body (the function handed to errgroup.Group.Go)")
			continue
		}
		// eg.Wait()'s error recorded as the cause
		waitCancelled := false
		for _, w := range waits {
			if e := ErrOf(w); e != nil && flowsToCancel(Aliases(e)) {
				waitCancelled = true
			}
		}
		for _, body := range bodies {
			ucs := c02TaskCalls(body, nil, 0)
			if len(ucs) == 0 {
				c.LostAnchor(R, gn+": call of the task function (a dynamic call receiving the LimitedRegion) in the goroutine body")
				continue
			}
			for _, uc := range ucs {
				r := c02ErrFlow(uc.call, ErrFlowOpts{}, 0)
				for _, up := range uc.chain {
					if r.OK {
						r = c02ErrFlow(up, ErrFlowOpts{}, 0)
					}
				}
				e := ErrOf(uc.call)
				okCancel := e != nil && (flowsToCancel(Aliases(e)) || waitCancelled)
				c.Check(R, gn+"|body-forwards-error", uc.call.Pos(), r.OK && okCancel,
					ifelse(r.OK && okCancel, "fn's error is returned to the errgroup and recorded with cancel(err)", "fn's error is not both recorded with cancel(err) and returned: "+r.Detail))
			}
			okEnd := c02EndsOnEveryExit(body, 0)
			c.Check("C02.R4.permit-typestate", gn+"|body-releases-permit", body.Pos(), okEnd,
				ifelse(okEnd, "lr.End() runs (deferred or explicit, possibly in a helper receiving the region) on every exit of the goroutine body", "a path leaves the goroutine body without releasing its permit (later copies starve)"))
		}
		// a successful region.Start() (direct, or inside a helper that returns nil
		// only after it) precedes eg.Go
		okStart := len(egGo) > 0
		for _, eg := range egGo {
			// in the function that spawns, or at the call (in the caller) that leads there
			ok := false
			at := eg.call.(ssa.Instruction)
			for i := 0; ; i++ {
				if es := c02AcquireEdges(at.Parent()); len(es) > 0 && MustPass(at, newCut().Edges(es...)) {
					ok = true
				}
				if ok || i >= len(eg.chain) {
					break
				}
				at = eg.chain[i].(ssa.Instruction)
			}
			if !ok {
				okStart = false
			}
		}
		c.Check("C02.R4.permit-typestate", gn+"|acquire-before-spawn", G.Pos(), okStart,
			ifelse(okStart, "a successful region.Start() dominates every eg.Go", "a goroutine can be spawned without holding a permit"))
	}
}

var c02Mutants = []Mutant{
	{Name: "deferred-start-overwrites-root-error", File: "extendedcopy.go",
		Old:    "\treturn syncutil.Go(ctx, limiter, func(ctx context.Context, region *syncutil.LimitedRegion, root ocispec.Descriptor) error {\n\t\t// As a root can be a predecessor of other roots, release the limit here\n\t\t// for dispatching, to avoid dead locks where predecessor roots are\n\t\t// handled first and are waiting for its successors to complete.\n\t\tregion.End()\n\t\tif err := copyGraph(ctx, src, dst, root, proxy, limiter, tracker, opts.CopyGraphOptions); err != nil {\n\t\t\treturn err\n\t\t}\n\t\treturn region.Start()\n\t}, roots...)",
		New:    "\treturn syncutil.Go(ctx, limiter, func(ctx context.Context, region *syncutil.LimitedRegion, root ocispec.Descriptor) (err error) {\n\t\tregion.End()\n\t\tdefer func() {\n\t\t\terr = region.Start()\n\t\t}()\n\t\treturn copyGraph(ctx, src, dst, root, proxy, limiter, tracker, opts.CopyGraphOptions)\n\t}, roots...)",
		Expect: "C02.R3.error-surfacing"},
	{Name: "foreign-layer-marked-done-unpushed", File: "copy.go",
		Old:    "\t\t// find successors while non-leaf nodes will be fetched and cached\n",
		New:    "\t\tif descriptor.IsForeignLayer(desc) {\n\t\t\treturn nil\n\t\t}\n\t\t// find successors while non-leaf nodes will be fetched and cached\n",
		Expect: "C02.R1.done-implies-present"},
	{Name: "task-ignores-its-context", File: "copy.go",
		Old:    "\tfn = func(ctx context.Context, region *syncutil.LimitedRegion, desc ocispec.Descriptor) (err error) {",
		New:    "\tfn = func(_ context.Context, region *syncutil.LimitedRegion, desc ocispec.Descriptor) (err error) {",
		Expect: "C02.R4.task-context"},
	{Name: "abort-closes-done-on-failure", File: "copy.go",
		Old:    "\t\t\tif err == nil {\n\t\t\t\t// mark the content as done on success\n\t\t\t\tclose(done)\n\t\t\t}",
		New:    "\t\t\tabort := func(ch chan struct{}) { close(ch) }\n\t\t\tif err == nil {\n\t\t\t\tclose(done)\n\t\t\t} else {\n\t\t\t\tabort(done)\n\t\t\t}",
		Expect: "C02.R2"},
	{Name: "tracker-stores-closed-channel", File: "internal/status/tracker.go",
		Old:    "\tstatus, exists := t.status.LoadOrStore(key, make(chan struct{}))",
		New:    "\tch := make(chan struct{})\n\tif target.Size == 0 {\n\t\tclose(ch)\n\t}\n\tstatus, exists := t.status.LoadOrStore(key, ch)",
		Expect: "C02.R2"},
	{Name: "duplicate-name-wraps-already-exists", File: "content/file/errors.go",
		Old:    "import \"errors\"\n\nvar (\n\tErrMissingName             = errors.New(\"missing name\")\n\tErrDuplicateName           = errors.New(\"duplicate name\")",
		New:    "import (\n\t\"errors\"\n\t\"fmt\"\n\n\t\"oras.land/oras-go/v2/errdef\"\n)\n\nvar (\n\tErrMissingName             = errors.New(\"missing name\")\n\tErrDuplicateName           = fmt.Errorf(\"duplicate name: %w\", errdef.ErrAlreadyExists)",
		Expect: "C02.R3.tolerated-sentinel-not-aliased"},
	{Name: "close-unconditional", File: "copy.go", Old: "\t\t\tif err == nil {\n\t\t\t\t// mark the content as done on success\n\t\t\t\tclose(done)\n\t\t\t}", New: "\t\t\tclose(done)", Expect: "C02.R2"},
	{Name: "drop-select", File: "copy.go", Old: "\t\t\t\tselect {\n\t\t\t\tcase <-done:\n\t\t\t\tcase <-ctx.Done():\n\t\t\t\t\treturn ctx.Err()\n\t\t\t\t}\n", New: "\t\t\t\t_ = done\n", Expect: "C02.R1"},
	{Name: "no-ctx-case", File: "copy.go", Old: "\t\t\t\tselect {\n\t\t\t\tcase <-done:\n\t\t\t\tcase <-ctx.Done():\n\t\t\t\t\treturn ctx.Err()\n\t\t\t\t}\n", New: "\t\t\t\t<-done\n", Expect: "C02.R4.cancellable-wait"},
	{Name: "exists-error-swallowed", File: "copy.go", Old: "\t\t\treturn newCopyError(\"Exists\", CopyErrorOriginDestination, err)", New: "\t\t\treturn nil", Expect: "C02.R3"},
	{Name: "no-region-end", File: "copy.go", Old: "\t\t\tregion.End()\n\t\t\tif err := syncutil.Go(ctx, limiter, fn, successors...); err != nil {", New: "\t\t\tif err := syncutil.Go(ctx, limiter, fn, successors...); err != nil {", Expect: "C02.R4.permit-typestate"},
	{Name: "go-returns-nil", File: "internal/syncutil/limit.go", Old: "\treturn context.Cause(ctx)", New: "\t_ = context.Cause(ctx)\n\treturn nil", Expect: "C02.R3.go-forwards-first-error"},
	{Name: "wait-skipped-on-committed", File: "copy.go", Old: "\t\t\t\tif committed {\n\t\t\t\t\treturn fmt.Errorf(\"%s: %s: successor not committed\", desc.Digest, node.Digest)\n\t\t\t\t}", New: "\t\t\t\tif committed {\n\t\t\t\t\tcontinue\n\t\t\t\t}", Expect: "C02.R1"},
	{Name: "push-error-dropped", File: "copy.go", Old: "\tif err != nil && !errors.Is(err, errdef.ErrAlreadyExists) {\n\t\treturn newCopyError(\"Push\", CopyErrorOriginDestination, err)\n\t}", New: "\tif err != nil && !errors.Is(err, errdef.ErrAlreadyExists) && !errors.Is(err, errdef.ErrNotFound) {\n\t\treturn newCopyError(\"Push\", CopyErrorOriginDestination, err)\n\t}", Expect: "C02.R3"},
	{Name: "extcopy-no-region-end", File: "extendedcopy.go", Old: "\t\tregion.End()\n\t\tif err := copyGraph(", New: "\t\tif err := copyGraph(", Expect: "C02.R4.permit-typestate"},
	{Name: "start-dropped-after-wait", File: "copy.go", Old: "\t\t\tif err := region.Start(); err != nil {\n\t\t\t\treturn err\n\t\t\t}\n\t\t}\n\n\t\texists, err = proxy.Cache.Exists(ctx, desc)", New: "\t\t}\n\n\t\texists, err = proxy.Cache.Exists(ctx, desc)", Expect: "C02.R4.permit-typestate"},
}
