package main

// C02 — destination stays link-closed; failures surface.
// Rules: R1 wait-before-push, R2 done-closed-only-on-success,
// R3 error surfacing, R4 no unbounded blocking / permit typestate.

import (
	"fmt"
	"go/token"
	"go/types"
	"strings"

	"golang.org/x/tools/go/ssa"
)

func init() {
	register(&propDef{
		ID: "C02",
		Explain: "Decided: (R1) in the copy traversal closure every path to a push effect either has no successors or has dispatched them and then " +
			"waited, per successor, on the tracker's done channel in a select whose only alternative is ctx.Done() returning an error; " +
			"(R2) a tracker channel is closed only in a deferred closure under err==nil of the enclosing named result; (R3) every error of a source read, " +
			"destination existence check/write, callback or internal copy helper in copy.go/extendedcopy.go is propagated (tolerated idioms enumerated), " +
			"syncutil.Go forwards the first error and returns context.Cause; (R4) no permit is held across the blocking dispatch/wait and the goroutine body " +
			"always releases its permit. NOT decided (not applicable to static analysis): wall-clock boundedness, goroutine counts, that a re-run completes, faults inside user stores.",
		Run:     runC02,
		Mutants: c02Mutants,
	})
}

const (
	nTryCommit = "(*~/internal/status.Tracker).TryCommit"
	nGo        = "~/internal/syncutil.Go"
	nEnd       = "(*~/internal/syncutil.LimitedRegion).End"
	nStart     = "(*~/internal/syncutil.LimitedRegion).Start"
)

var pushInvokes = map[string]bool{
	"(~/content.Pusher).Push":                    true,
	"(~/registry.Mounter).Mount":                 true,
	"(~/registry.ReferencePusher).PushReference": true,
}

func isPushEffect(c ssa.CallInstruction) bool {
	if pushInvokes[CalleeName(c)] {
		return true
	}
	if g := StaticCallee(c); g != nil && inModule(g) {
		return reachesCall(g, 3, func(n string, _ ssa.CallInstruction) bool { return pushInvokes[n] })
	}
	return false
}

// traversalClosures: functions of the root package that both claim a node in
// the tracker and dispatch successors with syncutil.Go (role-based anchor).
func traversalClosures(p *Prog) []*ssa.Function {
	var out []*ssa.Function
	for _, f := range p.FuncsOfPkg("") {
		if len(CallsTo(f, nTryCommit)) > 0 && len(CallsTo(f, nGo)) > 0 {
			out = append(out, f)
		}
	}
	return out
}

// lenZeroEdges: edges on which len(s)==0 for s denoting the same value as S.
func lenZeroEdges(fn *ssa.Function, S ssa.Value) []Edge {
	var out []Edge
	for _, i := range Ifs(fn) {
		cond, t, f := ifEdges(i)
		bo, ok := cond.(*ssa.BinOp)
		if !ok {
			continue
		}
		ln, ok := bo.X.(*ssa.Call)
		if !ok || CalleeName(ln) != "builtin:len" || !SameValue(ln.Call.Args[0], S) {
			continue
		}
		k, ok := constInt(bo.Y)
		if !ok {
			continue
		}
		switch {
		case bo.Op == token.NEQ && k == 0, bo.Op == token.GTR && k == 0, bo.Op == token.GEQ && k == 1:
			out = append(out, f)
		case bo.Op == token.EQL && k == 0, bo.Op == token.LSS && k == 1, bo.Op == token.LEQ && k == 0:
			out = append(out, t)
		}
	}
	return out
}

func variadicArg(c ssa.CallInstruction) ssa.Value {
	args := c.Common().Args
	if len(args) == 0 {
		return nil
	}
	return args[len(args)-1]
}

func runC02(c *Ctx) {
	c02R1R4(c)
	c02R2(c)
	c02R3(c)
	c02Go(c)
}

func c02R1R4(c *Ctx) {
	const R1, R4 = "C02.R1.wait-before-push", "C02.R4.permit-typestate"
	c.Expect(R1, 4)
	c.Expect(R4, 3)
	ts := traversalClosures(c.P)
	if len(ts) == 0 {
		c.LostAnchor(R1, "traversal closure (calls Tracker.TryCommit and syncutil.Go) in package ~")
		return
	}
	for _, T := range ts {
		tn := FnName(T)
		goCalls := CallsTo(T, nGo)
		var pushes []ssa.CallInstruction
		for _, call := range Calls(T, func(string) bool { return true }) {
			if _, isDefer := call.(*ssa.Defer); isDefer {
				continue
			}
			if isPushEffect(call) && CalleeName(call) != nGo {
				pushes = append(pushes, call)
			}
		}
		if len(pushes) == 0 {
			c.LostAnchor(R1, tn+": no push effect found")
			continue
		}
		// successors slice: the variadic argument of the dispatch
		var S ssa.Value
		for _, g := range goCalls {
			S = variadicArg(g)
		}
		var waitLoops []*Loop
		for _, l := range Loops(T) {
			if r, _, _, _, ok := l.RangeIndex(); ok && SameValue(r, S) {
				waitLoops = append(waitLoops, l)
			}
		}
		if len(waitLoops) == 0 {
			c.Violation(R1, tn+"|wait-loop", T.Pos(), "no loop over the dispatched successors slice: parents do not wait for their successors")
		}
		cutR1 := newCut().Edges(lenZeroEdges(T, S)...)
		for _, l := range waitLoops {
			_, _, _, exit, _ := l.RangeIndex()
			cutR1.Edges(exit)
		}
		for _, p := range pushes {
			ok := len(waitLoops) > 0 && MustPass(p.(ssa.Instruction), cutR1)
			c.Check(R1, tn+"|push:"+CalleeName(p), p.Pos(), ok,
				ifelse(ok, "every path to the push takes the len(successors)==0 edge or the exit edge of the wait loop",
					"a path reaches this push effect without waiting for the node's successors (neither the empty-successors edge nor the wait-loop exit is on it)"))
			for _, l := range waitLoops {
				c.Check(R1, tn+"|push-outside-wait-loop:"+CalleeName(p), p.Pos(), !l.Contains(p.(ssa.Instruction)), "push effect inside the wait loop")
			}
		}
		// dispatch precedes the wait loop, with the same slice, recursion on the same fn, error propagated
		for _, l := range waitLoops {
			first := l.Header.Instrs[0]
			ok := len(goCalls) > 0 && MustPass(first, newCut().Calls(goCalls))
			c.Check(R1, tn+"|dispatch-before-wait", blockPos(l.Header), ok, "syncutil.Go(successors...) must precede the wait loop on every path")
			c02WaitLoop(c, T, l, S, pushes)
		}
		for _, g := range goCalls {
			r := ErrFlow(g, ErrFlowOpts{})
			c.Check(R1, tn+"|dispatch-error-returned", g.Pos(), r.OK, r.How+r.Detail)
		}
	}
	// R4(b) for every function of the package that receives a *LimitedRegion
	nfns := 0
	for _, f := range c.P.FuncsOfPkg("") {
		for _, prm := range f.Params {
			if strings.HasSuffix(prm.Type().String(), "syncutil.LimitedRegion") {
				nfns++
				c02PermitTypestate(c, f)
			}
		}
	}
	if nfns < 2 {
		c.LostAnchor(R4, "functions with a *syncutil.LimitedRegion parameter (expected the traversal closure and the ExtendedCopyGraph closure)")
	}
}

// c02PermitTypestate: in a function running under a limiter permit, every
// blocking operation (a call that reaches syncutil.Go, a blocking select)
// happens in the released state, and storage effects after a release need a
// successful re-acquire.
func c02PermitTypestate(c *Ctx, T *ssa.Function) {
	const R4 = "C02.R4.permit-typestate"
	tn := FnName(T)
	ends, starts := CallsTo(T, nEnd), CallsTo(T, nStart)
	var blockers []ssa.Instruction
	for _, call := range Calls(T, func(string) bool { return true }) {
		if _, isDefer := call.(*ssa.Defer); isDefer {
			continue
		}
		if CalleeName(call) == nGo {
			blockers = append(blockers, call.(ssa.Instruction))
		} else if g := StaticCallee(call); g != nil && inModule(g) && reachesCall(g, 3, func(n string, _ ssa.CallInstruction) bool { return n == nGo }) {
			blockers = append(blockers, call.(ssa.Instruction))
		}
	}
	AllInstrs(T, func(in ssa.Instruction) {
		if s, ok := in.(*ssa.Select); ok && s.Blocking {
			blockers = append(blockers, s)
		}
	})
	for _, b := range blockers {
		ok := MustPass(b, newCut().Calls(ends))
		for _, s := range starts {
			if Reachable(s.(ssa.Instruction), b) && !MustPassBetween(s.(ssa.Instruction), b, newCut().Calls(ends)) {
				ok = false
			}
		}
		c.Check(R4, tn+"|released-at:"+instrLabel(b), b.Pos(), ok,
			ifelse(ok, "region.End() precedes the blocking operation on every path with no Start in between",
				"the limiter permit may still be held at this blocking operation (with Concurrency=1 the copy deadlocks)"))
	}
	// after an End, storage effects need a successful Start
	var startOK []Edge
	for _, s := range starts {
		if e := ErrOf(s); e != nil {
			ne, _, _ := NilTests(T, Aliases(e))
			startOK = append(startOK, ne...)
		}
	}
	isBlocker := map[ssa.Instruction]bool{}
	for _, b := range blockers {
		isBlocker[b] = true
	}
	for _, e := range ends {
		for _, p := range storageEffects(T) {
			if p == e || isBlocker[p.(ssa.Instruction)] || !Reachable(e.(ssa.Instruction), p.(ssa.Instruction)) {
				continue
			}
			ok := MustPassBetween(e.(ssa.Instruction), p.(ssa.Instruction), newCut().Edges(startOK...))
			c.Check(R4, tn+"|held-at:"+CalleeName(p), p.Pos(), ok,
				ifelse(ok, "a successful region.Start() lies between region.End() and this storage effect",
					"storage effect reachable after region.End() without re-acquiring the permit (concurrency bound exceeded)"))
		}
	}
}

func storageEffects(fn *ssa.Function) []ssa.CallInstruction {
	var out []ssa.CallInstruction
	for _, call := range Calls(fn, func(string) bool { return true }) {
		if _, isDefer := call.(*ssa.Defer); isDefer {
			continue
		}
		n := CalleeName(call)
		if cc := call.Common(); cc.IsInvoke() && isFieldLoad(cc.Value, "Cache") {
			continue // the in-memory cache is neither a source read nor a destination operation
		}
		if isPushEffect(call) || strings.HasSuffix(n, ").Exists") || strings.HasSuffix(n, ").Fetch") {
			out = append(out, call)
		}
	}
	return out
}

func instrLabel(in ssa.Instruction) string {
	switch x := in.(type) {
	case ssa.CallInstruction:
		return CalleeName(x)
	case *ssa.Select:
		return "select"
	}
	return fmt.Sprintf("%T", in)
}

func ifelse(b bool, x, y string) string {
	if b {
		return x
	}
	return y
}

// c02WaitLoop checks the body of the wait loop.
func c02WaitLoop(c *Ctx, T *ssa.Function, l *Loop, S ssa.Value, pushes []ssa.CallInstruction) {
	const R1, R4 = "C02.R1.wait-before-push", "C02.R4.permit-typestate"
	tn := FnName(T)
	_, idx, body, _, _ := l.RangeIndex()
	header := l.Header.Instrs[0]
	// the element of this iteration
	elem := map[ssa.Value]bool{}
	for _, r := range *idx.Referrers() {
		if ia, ok := r.(*ssa.IndexAddr); ok && SameValue(ia.X, S) {
			for _, r2 := range *ia.Referrers() {
				if ld, ok := r2.(*ssa.UnOp); ok && ld.Op == token.MUL {
					for a := range Aliases(ld) {
						elem[a] = true
					}
				}
			}
		}
	}
	var tcs []ssa.CallInstruction
	for _, tc := range CallsTo(T, nTryCommit) {
		if !l.Contains(tc.(ssa.Instruction)) {
			continue
		}
		arg := tc.Common().Args[len(tc.Common().Args)-1]
		okArg := false
		for _, r := range Roots(arg) {
			if elem[r] {
				okArg = true
			}
		}
		if okArg {
			tcs = append(tcs, tc)
		}
	}
	if !c.Check(R1, tn+"|wait-loop-channel", blockPos(l.Header), len(tcs) == 1,
		ifelse(len(tcs) == 1, "the loop obtains the tracker channel of the current successor", "the wait loop does not obtain the tracker channel of the successor it iterates over")) {
		return
	}
	tc := tcs[0]
	ch := ResultOf(tc, 0)
	committed := ResultOf(tc, 1)
	if ch == nil {
		c.Violation(R1, tn+"|wait-loop-select", tc.Pos(), "the done channel returned by TryCommit is discarded")
		return
	}
	chAliases := Aliases(ch)
	var sel *ssa.Select
	AllInstrs(T, func(in ssa.Instruction) {
		if s, ok := in.(*ssa.Select); ok && l.Contains(s) && selectRecvIndex(s, chAliases) >= 0 {
			sel = s
		}
	})
	var recvUnOp ssa.Instruction
	if sel == nil { // plain receive <-done is a wait without cancellation
		AllInstrs(T, func(in ssa.Instruction) {
			if u, ok := in.(*ssa.UnOp); ok && u.Op == token.ARROW && chAliases[u.X] && l.Contains(u) {
				recvUnOp = u
			}
		})
	}
	if sel == nil {
		if recvUnOp != nil {
			c.OK(R1, tn+"|wait-loop-select", recvUnOp.Pos(), "plain receive on the done channel")
			c.Violation("C02.R4.cancellable-wait", tn+"|select", recvUnOp.Pos(), "the wait on the successor's done channel has no ctx.Done() alternative: a failed sibling leaves the parent blocked forever")
			c.Check(R1, tn+"|wait-on-every-iteration", header.Pos(), !reach(body.To, 0, header, newCut().Instr(recvUnOp)), "every path through the loop body receives from the done channel")
		} else {
			c.Violation(R1, tn+"|wait-loop-select", header.Pos(), "the loop body never receives from the successor's done channel")
		}
		return
	}
	c.OK(R1, tn+"|wait-loop-select", sel.Pos(), "select receives from the successor's done channel")
	// every path body-entry -> header passes the select
	ok := !reach(body.To, 0, header, newCut().Instr(sel))
	c.Check(R1, tn+"|wait-on-every-iteration", sel.Pos(), ok,
		ifelse(ok, "every path through the loop body executes the select", "a path through the loop body reaches the next iteration without waiting on the done channel"))
	// from the select, only the recv case continues the loop
	k := selectRecvIndex(sel, chAliases)
	if e, found := selectCaseEdge(sel, k); found {
		ok := !reach(sel.Block(), instrIndex(sel)+1, header, newCut().Edges(e))
		c.Check(R1, tn+"|only-done-continues", sel.Pos(), ok,
			ifelse(ok, "only the done-channel case leads to the next iteration", "a select case other than the done channel continues the loop (the successor may not be finished)"))
	} else {
		c.Undecided(R1, tn+"|only-done-continues", sel.Pos(), "cannot resolve the select's case dispatch")
	}
	// R4(a): blocking select, other cases are ctx.Done()
	okSel := sel.Blocking && len(sel.States) >= 2
	for i, st := range sel.States {
		if i == k {
			continue
		}
		call, isCall := st.Chan.(*ssa.Call)
		if !isCall || CalleeName(call) != "(context.Context).Done" || st.Dir != types.RecvOnly {
			okSel = false
		}
	}
	c.Check("C02.R4.cancellable-wait", tn+"|select", sel.Pos(), okSel,
		ifelse(okSel, "the wait is a select over the done channel and ctx.Done()", "the wait has no ctx.Done() alternative (or is non-blocking): a failed sibling leaves the parent blocked, or the parent does not wait"))
	// ctx.Done case must return a non-nil error, never reach pushes
	for i := range sel.States {
		if i == k {
			continue
		}
		if e, found := selectCaseEdge(sel, i); found {
			bad := false
			for _, p := range pushes {
				if reach(e.To, 0, p.(ssa.Instruction), nil) {
					bad = true
				}
			}
			errIdx := ErrResultIndex(T.Signature)
			if a := findNilReturnFrom(T, e, errIdx, newCut(), map[ssa.Value]bool{}); a != nil {
				if !isCtxErr(a.Val) {
					bad = true
				}
			}
			c.Check("C02.R4.cancellable-wait", tn+"|ctx-done-returns-error", sel.Pos(), !bad,
				ifelse(!bad, "the ctx.Done() case returns ctx.Err() and reaches no push", "the ctx.Done() case can reach a push effect or return nil"))
		}
	}
	// committed==true in the wait loop: nobody owns the node -> must return an error
	if committed != nil {
		te, _ := BoolTests(T, Aliases(committed))
		if len(te) == 0 {
			c.Violation(R1, tn+"|unowned-successor-is-error", tc.Pos(), "the `committed` result of TryCommit(successor) is not tested: if nobody claimed the successor the parent would wait forever or proceed")
		}
		for _, e := range te {
			bad := reach(e.To, 0, header, nil)
			for _, p := range pushes {
				if reach(e.To, 0, p.(ssa.Instruction), nil) {
					bad = true
				}
			}
			if a := findNilReturnFrom(T, e, ErrResultIndex(T.Signature), newCut(), map[ssa.Value]bool{}); a != nil {
				bad = true
			}
			c.Check(R1, tn+"|unowned-successor-is-error", tc.Pos(), !bad,
				ifelse(!bad, "a successor nobody claimed makes the parent return an error", "when TryCommit(successor) commits (nobody copied it) the parent continues instead of failing"))
		}
	} else {
		c.Violation(R1, tn+"|unowned-successor-is-error", tc.Pos(), "the `committed` result of TryCommit(successor) is discarded")
	}
}

func isCtxErr(v ssa.Value) bool {
	call, ok := v.(*ssa.Call)
	return ok && (CalleeName(call) == "(context.Context).Err" || CalleeName(call) == "context.Cause")
}

// ---------- R2 ----------

// freeVarBindings returns the values bound to free variable fv at every
// MakeClosure of its function.
func freeVarBindings(fv *ssa.FreeVar) []ssa.Value {
	f := fv.Parent()
	idx := -1
	for i, x := range f.FreeVars {
		if x == fv {
			idx = i
		}
	}
	var out []ssa.Value
	if f.Parent() == nil || idx < 0 {
		return nil
	}
	AllInstrs(f.Parent(), func(in ssa.Instruction) {
		if mc, ok := in.(*ssa.MakeClosure); ok && mc.Fn == f {
			out = append(out, mc.Bindings[idx])
		}
	})
	return out
}

// derivesFromCall: v (resolved through cells, free variables and phis) is
// result #idx of a call to name.
func derivesFromCall(v ssa.Value, name string, idx int, depth int) bool {
	if depth > 5 {
		return false
	}
	for _, r := range Roots(v) {
		switch u := r.(type) {
		case *ssa.Extract:
			if call, ok := u.Tuple.(*ssa.Call); ok && CalleeName(call) == name && u.Index == idx {
				return true
			}
		case *ssa.Call:
			if CalleeName(u) == name && idx == 0 {
				return true
			}
		case *ssa.UnOp:
			if u.Op == token.MUL {
				if fv, ok := u.X.(*ssa.FreeVar); ok {
					for _, b := range freeVarBindings(fv) {
						if a, ok := b.(*ssa.Alloc); ok {
							for _, s := range storesTo(a) {
								if derivesFromCall(s.Val, name, idx, depth+1) {
									return true
								}
							}
						}
					}
				}
			}
		case *ssa.TypeAssert:
			if derivesFromCall(u.X, name, idx, depth+1) {
				return true
			}
		}
	}
	return false
}

func c02R2(c *Ctx) {
	const R2 = "C02.R2.done-closed-only-on-success"
	c.Expect(R2, 1)
	found := 0
	for _, pkg := range []string{"", "internal/status", "internal/syncutil", "internal/graph"} {
		for _, f := range c.P.FuncsOfPkg(pkg) {
			for _, cl := range CallsTo(f, "builtin:close") {
				arg := cl.Common().Args[0]
				if !derivesFromCall(arg, nTryCommit, 0, 0) && !derivesFromCall(arg, "(*sync.Map).LoadOrStore", 0, 0) {
					continue
				}
				found++
				key := FnName(f) + "|close"
				// shape A: deferred closure guarding on the enclosing named error result == nil
				par := f.Parent()
				if par == nil {
					c.Undecided(R2, key, cl.Pos(), "tracker channel closed outside a deferred closure: shape not recognised")
					continue
				}
				deferred := false
				AllInstrs(par, func(in ssa.Instruction) {
					if d, ok := in.(*ssa.Defer); ok {
						if mc, ok := d.Call.Value.(*ssa.MakeClosure); ok && mc.Fn == f {
							deferred = true
						}
					}
					if mc, ok := in.(*ssa.MakeClosure); ok && mc.Fn == f {
						for _, r := range *mc.Referrers() {
							if _, isDefer := r.(*ssa.Defer); !isDefer {
								if _, isDbg := r.(*ssa.DebugRef); !isDbg {
									deferred = false
								}
							}
						}
					}
				})
				// the error cell of the parent: the Alloc its Returns load from
				errIdx := ErrResultIndex(par.Signature)
				errCells := map[ssa.Value]bool{}
				if errIdx >= 0 {
					for _, r := range Returns(par) {
						if a := cellOf(r.Results[errIdx]); a != nil {
							errCells[a] = true
						}
					}
				}
				errLoads := map[ssa.Value]bool{}
				for _, fv := range f.FreeVars {
					isErr := false
					for _, b := range freeVarBindings(fv) {
						if errCells[b] {
							isErr = true
						}
					}
					if !isErr {
						continue
					}
					for _, r := range *fv.Referrers() {
						if ld, ok := r.(*ssa.UnOp); ok && ld.Op == token.MUL {
							errLoads[ld] = true
						}
					}
				}
				nilE, _, _ := NilTests(f, errLoads)
				ok := deferred && len(nilE) > 0 && MustPass(cl.(ssa.Instruction), newCut().Edges(nilE...))
				c.Check(R2, key, cl.Pos(), ok,
					ifelse(ok, "close(done) runs in a deferred closure, only on the edge where the enclosing function's error result is nil",
						"the tracker's done channel can be closed although the node's copy failed (a waiting parent would then push with a missing successor)"))
			}
		}
	}
	if found == 0 {
		c.LostAnchor(R2, "close() of a tracker channel")
	}
}

// ---------- R3 ----------

// c02Monitored decides whether a call's error matters for C02 and which
// sentinels are tolerated at it.
func c02Monitored(call ssa.CallInstruction) (bool, []string) {
	n := CalleeName(call)
	if call.Common().Signature() == nil || ErrResultIndex(call.Common().Signature()) < 0 {
		return false, nil
	}
	if cc := call.Common(); cc.IsInvoke() && isFieldLoad(cc.Value, "Cache") {
		// the proxy's cache is best-effort: on a cache failure the node is copied from the source instead
		return false, nil
	}
	switch {
	case n == "(io.Closer).Close":
		return false, nil
	case n == "(~/content.Pusher).Push", n == "(~/registry.ReferencePusher).PushReference":
		return true, []string{"~/errdef.ErrAlreadyExists"}
	case n == "(~/registry.Mounter).Mount":
		return true, []string{"local:skip_source"}
	case n == "field:~.CopyGraphOptions.PreCopy":
		return true, []string{"~.SkipNode"}
	case strings.HasPrefix(n, "field:~."):
		return true, nil
	case strings.HasPrefix(n, "(~/content."), strings.HasPrefix(n, "(~/registry."), strings.HasPrefix(n, "(*~/internal/cas."), strings.HasPrefix(n, "(*~/internal/registryutil."):
		return true, nil
	case strings.HasPrefix(n, "dyn:freevar:"), strings.HasPrefix(n, "dyn:local:"):
		// captured previous callbacks (preCopy, postCopy, onCopySkipped, mapRoot, fp)
		return true, nil
	}
	if g := StaticCallee(call); g != nil && inModule(g) {
		if v := call.Value(); v != nil && ErrNilStatus(v, 0) == NonNil {
			return false, nil // error constructor (newCopyError): nothing to propagate
		}
		return true, nil
	}
	return false, nil
}

func c02R3(c *Ctx) {
	const R3 = "C02.R3.error-surfacing"
	c.Expect(R3, 30)
	files := map[string]bool{"copy.go": true, "extendedcopy.go": true}
	for _, f := range c.P.FuncsOfPkg("") {
		file := c.P.Fset.Position(f.Pos()).Filename
		if !files[file[strings.LastIndex(file, "/")+1:]] {
			continue
		}
		seen := map[string]int{}
		for _, call := range Calls(f, func(string) bool { return true }) {
			mon, tol := c02Monitored(call)
			if !mon {
				continue
			}
			if _, isDefer := call.(*ssa.Defer); isDefer {
				continue
			}
			n := CalleeName(call)
			seen[n]++
			key := fmt.Sprintf("%s|%s#%d", FnName(f), n, seen[n])
			if n == "(~/registry.Mounter).Mount" {
				// the local sentinel is the errors.New in the same function
				tol = nil
				for _, e := range CallsTo(f, "errors.New") {
					tol = append(tol, "local:"+localName(e.Value()))
				}
			}
			r := ErrFlow(call, ErrFlowOpts{Tolerated: tol})
			pos := call.Pos()
			if !r.OK && r.At.IsValid() {
				pos = r.At
			}
			c.Check(R3, key, pos, r.OK, r.How+r.Detail)
		}
	}
}

// ---------- syncutil.Go ----------

func c02Go(c *Ctx) {
	const R = "C02.R3.go-forwards-first-error"
	c.Expect(R, 3)
	gen := c.P.Fn("internal/syncutil", "Go")
	if gen == nil {
		c.LostAnchor(R, "~/internal/syncutil.Go")
		return
	}
	insts := c.P.Instances(gen)
	if len(insts) == 0 {
		c.LostAnchor(R, "instantiation of ~/internal/syncutil.Go")
		return
	}
	for _, G := range insts {
		gn := FnName(G)
		// the function result is context.Cause(ctx') with ctx' from WithCancelCause
		wcc := CallsTo(G, "context.WithCancelCause")
		okCause := len(wcc) == 1
		if okCause {
			ctx2 := ResultOf(wcc[0], 0)
			for _, a := range RetAtoms(G, 0) {
				call, ok := a.Val.(*ssa.Call)
				if !ok || CalleeName(call) != "context.Cause" || ctx2 == nil || !SameValue(call.Call.Args[0], ctx2) {
					okCause = false
				}
			}
		}
		c.Check(R, gn+"|returns-cause", G.Pos(), okCause,
			ifelse(okCause, "every return yields context.Cause of the WithCancelCause context", "syncutil.Go may return something else than the recorded first failure (an error could be reported as success)"))
		// eg.Wait() on every path to return
		waits := CallsTo(G, "(*golang.org/x/sync/errgroup.Group).Wait")
		okWait := len(waits) > 0
		for _, r := range Returns(G) {
			if !MustPass(r, newCut().Calls(waits)) {
				okWait = false
			}
		}
		c.Check(R, gn+"|waits-for-all", G.Pos(), okWait, "every return is preceded by errgroup.Wait()")
		// the goroutine body: fn's error is passed to cancel and returned; lr.End() on every exit
		var body *ssa.Function
		for _, a := range Anons(G) {
			if len(Calls(a, func(n string) bool { return strings.HasPrefix(n, "dyn:freevar:") || strings.HasPrefix(n, "dyn:param:") })) > 0 &&
				ErrResultIndex(a.Signature) == 0 && len(a.Params) == 0 {
				body = a
			}
		}
		if body == nil {
			c.LostAnchor(R, gn+": goroutine body closure")
			continue
		}
		for _, call := range Calls(body, func(n string) bool { return strings.HasPrefix(n, "dyn:freevar:") || strings.HasPrefix(n, "dyn:param:") }) {
			if ErrResultIndex(call.Common().Signature()) < 0 {
				continue
			}
			r := ErrFlow(call, ErrFlowOpts{})
			e := ErrOf(call)
			okCancel := e != nil && flowsToCancel(Aliases(e))
			c.Check(R, gn+"|body-forwards-error", call.Pos(), r.OK && okCancel,
				ifelse(r.OK && okCancel, "fn's error is handed to cancel(err) and returned to the errgroup", "fn's error is not both recorded with cancel(err) and returned: "+r.Detail))
		}
		ends := CallsTo(body, nEnd)
		okEnd := len(ends) > 0
		for _, r := range Returns(body) {
			if !MustPass(r, newCut().Calls(ends)) {
				okEnd = false
			}
		}
		c.Check("C02.R4.permit-typestate", gn+"|body-releases-permit", body.Pos(), okEnd,
			ifelse(okEnd, "lr.End() runs (deferred or explicit) on every exit of the goroutine body", "a path leaves the goroutine body without releasing its permit (later copies starve)"))
		// region.Start() precedes eg.Go and its failure cancels
		starts := CallsTo(G, nStart)
		egGo := CallsTo(G, "(*golang.org/x/sync/errgroup.Group).Go")
		okStart := len(starts) > 0 && len(egGo) > 0
		for _, g := range egGo {
			var okEdges []Edge
			for _, s := range starts {
				if e := ErrOf(s); e != nil {
					ne, _, _ := NilTests(G, Aliases(e))
					okEdges = append(okEdges, ne...)
				}
			}
			if !MustPass(g.(ssa.Instruction), newCut().Edges(okEdges...)) {
				okStart = false
			}
		}
		c.Check("C02.R4.permit-typestate", gn+"|acquire-before-spawn", G.Pos(), okStart,
			ifelse(okStart, "a successful region.Start() dominates every eg.Go", "a goroutine can be spawned without holding a permit"))
	}
}

var c02Mutants = []Mutant{
	{Name: "close-unconditional", File: "copy.go", Old: "\t\t\tif err == nil {\n\t\t\t\t// mark the content as done on success\n\t\t\t\tclose(done)\n\t\t\t}", New: "\t\t\tclose(done)", Expect: "C02.R2"},
	{Name: "drop-select", File: "copy.go", Old: "\t\t\t\tselect {\n\t\t\t\tcase <-done:\n\t\t\t\tcase <-ctx.Done():\n\t\t\t\t\treturn ctx.Err()\n\t\t\t\t}\n", New: "\t\t\t\t_ = done\n", Expect: "C02.R1"},
	{Name: "no-ctx-case", File: "copy.go", Old: "\t\t\t\tselect {\n\t\t\t\tcase <-done:\n\t\t\t\tcase <-ctx.Done():\n\t\t\t\t\treturn ctx.Err()\n\t\t\t\t}\n", New: "\t\t\t\t<-done\n", Expect: "C02.R4.cancellable-wait"},
	{Name: "exists-error-swallowed", File: "copy.go", Old: "\t\t\treturn newCopyError(\"Exists\", CopyErrorOriginDestination, err)", New: "\t\t\treturn nil", Expect: "C02.R3"},
	{Name: "no-region-end", File: "copy.go", Old: "\t\t\tregion.End()\n\t\t\tif err := syncutil.Go(ctx, limiter, fn, successors...); err != nil {", New: "\t\t\tif err := syncutil.Go(ctx, limiter, fn, successors...); err != nil {", Expect: "C02.R4.permit-typestate"},
	{Name: "go-returns-nil", File: "internal/syncutil/limit.go", Old: "\treturn context.Cause(ctx)", New: "\t_ = context.Cause(ctx)\n\treturn nil", Expect: "C02.R3.go-forwards-first-error"},
	{Name: "wait-skipped-on-committed", File: "copy.go", Old: "\t\t\t\tif committed {\n\t\t\t\t\treturn fmt.Errorf(\"%s: %s: successor not committed\", desc.Digest, node.Digest)\n\t\t\t\t}", New: "\t\t\t\tif committed {\n\t\t\t\t\tcontinue\n\t\t\t\t}", Expect: "C02.R1"},
	{Name: "push-error-dropped", File: "copy.go", Old: "\tif err != nil && !errors.Is(err, errdef.ErrAlreadyExists) {\n\t\treturn newCopyError(\"Push\", CopyErrorOriginDestination, err)\n\t}", New: "\tif err != nil && !errors.Is(err, errdef.ErrAlreadyExists) && !errors.Is(err, errdef.ErrNotFound) {\n\t\treturn newCopyError(\"Push\", CopyErrorOriginDestination, err)\n\t}", Expect: "C02.R3"},
	{Name: "extcopy-no-region-end", File: "extendedcopy.go", Old: "\t\tregion.End()\n\t\tif err := copyGraph(", New: "\t\tif err := copyGraph(", Expect: "C02.R4.permit-typestate"},
	{Name: "start-dropped-after-wait", File: "copy.go", Old: "\t\t\tif err := region.Start(); err != nil {\n\t\t\t\treturn err\n\t\t\t}\n\t\t}\n\n\t\texists, err = proxy.Cache.Exists(ctx, desc)", New: "\t\t}\n\n\t\texists, err = proxy.Cache.Exists(ctx, desc)", Expect: "C02.R4.permit-typestate"},
}
