package main

// C02 helpers: interprocedural generalisations used by c02.go.
//
//   * function-value resolution (closure, method value, closure factory, cell)
//   * loop-form independent "iterates over the whole slice S" recognition
//   * wait summaries: "a nil-error return of H implies every element of its
//     slice parameter was waited for" / "... its element parameter was waited for"
//   * error flow through mapping helpers, callback identity through helpers
//   * permit typestate as a forward data-flow with callee summaries

import (
	"fmt"
	"go/token"
	"go/types"
	"strings"

	"golang.org/x/tools/go/ssa"
)

// ---------- function values ----------

// c02Unwrap: a bound-method wrapper denotes the method it wraps.
func c02Unwrap(f *ssa.Function) (*ssa.Function, int) {
	if f != nil && strings.HasPrefix(f.Synthetic, "bound method wrapper") {
		if obj, ok := f.Object().(*types.Func); ok {
			if g := f.Prog.FuncValue(obj); g != nil && len(g.Blocks) > 0 {
				return g, 1
			}
		}
	}
	return f, 0
}

type c02Target struct {
	Fn  *ssa.Function
	Off int // Params[i+Off] receives call argument i (1 for method values: the receiver is bound)
}

// c02CellValues: the values stored into the variable cell b (an Alloc, or a
// free variable bound to one further up).
func c02CellValues(b ssa.Value, depth int) []ssa.Value {
	if depth > 4 {
		return nil
	}
	var out []ssa.Value
	switch x := b.(type) {
	case *ssa.Alloc:
		for _, s := range storesTo(x) {
			out = append(out, s.Val)
		}
	case *ssa.FreeVar:
		for _, bb := range freeVarBindings(x) {
			out = append(out, c02CellValues(bb, depth+1)...)
		}
	}
	return out
}

// c02FuncTargets resolves a function-typed value to the functions it may
// denote: function constants, closures, method values, results of in-module
// closure factories, variables (cells) holding one of those.
func c02FuncTargets(v ssa.Value, depth int) []c02Target {
	var out []c02Target
	if depth > 5 || v == nil {
		return nil
	}
	seen := map[*ssa.Function]bool{}
	add := func(f *ssa.Function) {
		g, off := c02Unwrap(f)
		if g != nil && !seen[g] {
			seen[g] = true
			out = append(out, c02Target{g, off})
		}
	}
	addAll := func(ts []c02Target) {
		for _, t := range ts {
			if !seen[t.Fn] {
				seen[t.Fn] = true
				out = append(out, t)
			}
		}
	}
	for _, r := range Roots(v) {
		switch u := r.(type) {
		case *ssa.Function:
			add(u)
		case *ssa.MakeClosure:
			add(u.Fn.(*ssa.Function))
		case *ssa.UnOp:
			if u.Op != token.MUL {
				continue
			}
			switch x := u.X.(type) {
			case *ssa.FreeVar, *ssa.Alloc:
				for _, val := range c02CellValues(x, 0) {
					addAll(c02FuncTargets(val, depth+1))
				}
			}
		case *ssa.Call:
			if g := StaticCallee(u); g != nil && inModule(g) && len(g.Blocks) > 0 && g.Signature.Results().Len() == 1 {
				for _, a := range RetAtoms(g, 0) {
					addAll(c02FuncTargets(a.Val, depth+1))
				}
			}
		case *ssa.Parameter:
			// a function received as an argument: what the call sites pass
			if c02P != nil && u.Parent() != nil && inModule(u.Parent()) {
				for _, a := range c02ParamArgs(c02P, u) {
					addAll(c02FuncTargets(a, depth+2))
				}
			}
		}
	}
	return out
}

// c02P: the program under analysis (set by runC02), for resolutions that need
// the call sites of a function.
var c02P *Prog

// c02CalleeOf resolves the in-module function a call executes (static call,
// immediately applied closure, local closure variable, method value).
func c02CalleeOf(call ssa.CallInstruction) (*ssa.Function, int) {
	cc := call.Common()
	if cc.IsInvoke() {
		return nil, 0
	}
	if g := StaticCallee(call); g != nil {
		if inModule(g) && len(g.Blocks) > 0 {
			return g, 0
		}
		return nil, 0
	}
	if _, isBuiltin := cc.Value.(*ssa.Builtin); isBuiltin {
		return nil, 0
	}
	ts := c02FuncTargets(cc.Value, 0)
	if len(ts) == 1 && inModule(ts[0].Fn) && len(ts[0].Fn.Blocks) > 0 {
		return ts[0].Fn, ts[0].Off
	}
	return nil, 0
}

// c02ArgParam maps call argument i to the callee's parameter.
func c02ArgParam(g *ssa.Function, off, i int) *ssa.Parameter {
	if i+off < 0 || i+off >= len(g.Params) {
		return nil
	}
	return g.Params[i+off]
}

func c02RootedIn(v ssa.Value, set map[ssa.Value]bool) bool {
	if set[v] {
		return true
	}
	for _, r := range Roots(v) {
		if set[r] {
			return true
		}
	}
	return false
}

// c02GoTargets: the task functions of the root package, i.e. what is passed
// as fn to syncutil.Go.
func c02GoTargets(p *Prog) []*ssa.Function {
	var out []*ssa.Function
	seen := map[*ssa.Function]bool{}
	for _, f := range p.FuncsOfPkg("") {
		for _, g := range CallsTo(f, nGo) {
			args := g.Common().Args
			if len(args) < 3 {
				continue
			}
			for _, t := range c02FuncTargets(args[2], 0) {
				if !seen[t.Fn] && len(t.Fn.Blocks) > 0 {
					seen[t.Fn] = true
					out = append(out, t.Fn)
				}
			}
		}
	}
	return out
}

// c02ReachesStatic: fn, or a function it statically calls (not closures it
// merely creates), to the given depth, has an instruction satisfying pred.
func c02ReachesStatic(fn *ssa.Function, depth int, pred func(in ssa.Instruction) bool) bool {
	seen := map[*ssa.Function]bool{}
	var rec func(f *ssa.Function, d int) bool
	rec = func(f *ssa.Function, d int) bool {
		if f == nil || seen[f] || len(f.Blocks) == 0 {
			return false
		}
		seen[f] = true
		for _, b := range f.Blocks {
			for _, in := range b.Instrs {
				if pred(in) {
					return true
				}
				if call, ok := in.(ssa.CallInstruction); ok && d > 0 {
					if _, isDefer := call.(*ssa.Defer); isDefer {
						continue
					}
					if g, _ := c02CalleeOf(call); g != nil && rec(g, d-1) {
						return true
					}
				}
			}
		}
		return false
	}
	return rec(fn, depth)
}

func c02IsCallTo(in ssa.Instruction, name string) bool {
	call, ok := in.(ssa.CallInstruction)
	return ok && CalleeName(call) == name
}

// c02MustAliases: the values that denote v on every execution — v, its
// representation wrappers, and the loads of a local variable that only the
// store of v reaches (no phi, no variable a closure writes).  Used wherever an
// edge is taken as proof ("the nil edge of this call's error").
func c02MustAliases(v ssa.Value) map[ssa.Value]bool {
	out := map[ssa.Value]bool{v: true}
	work := []ssa.Value{v}
	for len(work) > 0 {
		x := work[len(work)-1]
		work = work[:len(work)-1]
		refs := x.Referrers()
		if refs == nil {
			continue
		}
		for _, r := range *refs {
			switch u := r.(type) {
			case *ssa.Store:
				a, ok := u.Addr.(*ssa.Alloc)
				if u.Val != x || !ok || len(closureWriters(a)) > 0 {
					continue
				}
				for _, lr := range *a.Referrers() {
					ld, ok := lr.(*ssa.UnOp)
					if !ok || ld.Op != token.MUL || out[ld] {
						continue
					}
					if rs := ReachingStores(a, ld); len(rs) == 1 && rs[0] == u {
						out[ld] = true
						work = append(work, ld)
					}
				}
			case *ssa.ChangeType, *ssa.ChangeInterface, *ssa.MakeInterface:
				if val := r.(ssa.Value); !out[val] {
					out[val] = true
					work = append(work, val)
				}
			}
		}
	}
	return out
}

// ---------- loops over a slice ----------

type c02SliceLoop struct {
	L          *Loop
	Elem       map[ssa.Value]bool // values denoting the element of the current iteration
	Body, Exit Edge               // Exit: the edge taken when every element has been visited
}

// c02LenOf: v is len(S') with S' the same value as S.
func c02LenOf(v ssa.Value, S ssa.Value) bool {
	for _, r := range Roots(v) {
		ln, ok := r.(*ssa.Call)
		if !ok || CalleeName(ln) != "builtin:len" || !SameValue(ln.Call.Args[0], S) {
			return false
		}
	}
	return len(Roots(v)) > 0
}

// c02LoopsOver returns the loops of fn that visit every element of S in
// order: `for range S` (with or without value), `for i := 0; i < len(S); i++`
// (also with the bound hoisted, `!=`, or the comparison reversed).
func c02LoopsOver(fn *ssa.Function, S ssa.Value) []*c02SliceLoop {
	var out []*c02SliceLoop
	for _, l := range Loops(fn) {
		var idx ssa.Value
		var body, exit Edge
		if r, i, b, e, ok := l.RangeIndex(); ok {
			if !c02SameSlice(r, S) {
				continue
			}
			idx, body, exit = i, b, e
		} else {
			h := l.Header
			if len(h.Instrs) == 0 {
				continue
			}
			ifi, isIf := h.Instrs[len(h.Instrs)-1].(*ssa.If)
			if !isIf {
				continue
			}
			cond, t, f := ifEdges(ifi)
			bo, isBin := cond.(*ssa.BinOp)
			if !isBin {
				continue
			}
			x, y, op := bo.X, bo.Y, bo.Op
			if c02LenOf(x, S) { // len(S) op i  ->  i op' len(S)
				x, y = y, x
				switch op {
				case token.GTR:
					op = token.LSS
				case token.LEQ:
					op = token.GEQ
				case token.LSS, token.GEQ:
					continue
				}
			}
			if !c02LenOf(y, S) {
				continue
			}
			switch op {
			case token.LSS, token.NEQ:
				body, exit = t, f
			case token.GEQ, token.EQL:
				body, exit = f, t
			default:
				continue
			}
			phi, isPhi := x.(*ssa.Phi)
			if !isPhi || phi.Block() != h || !l.Blocks[body.To] || l.Blocks[exit.To] {
				continue
			}
			okCounter := true
			for i, e := range phi.Edges {
				if l.Blocks[h.Preds[i]] { // back edge: i+1
					inc, ok := e.(*ssa.BinOp)
					k, isK := int64(0), false
					if ok {
						k, isK = constInt(inc.Y)
					}
					if !ok || inc.Op != token.ADD || inc.X != phi || !isK || k != 1 {
						okCounter = false
					}
				} else if k, ok := constInt(e); !ok || k != 0 {
					okCounter = false
				}
			}
			if !okCounter {
				continue
			}
			idx = phi
		}
		sl := &c02SliceLoop{L: l, Elem: map[ssa.Value]bool{}, Body: body, Exit: exit}
		AllInstrs(fn, func(in ssa.Instruction) {
			ia, ok := in.(*ssa.IndexAddr)
			if !ok || !l.Contains(ia) || ia.Index != idx || !SameValue(ia.X, S) {
				return
			}
			for _, r2 := range *ia.Referrers() {
				if ld, ok := r2.(*ssa.UnOp); ok && ld.Op == token.MUL {
					for a := range Aliases(ld) {
						sl.Elem[a] = true
					}
				}
			}
		})
		out = append(out, sl)
	}
	return out
}

// ---------- nil-able returns ----------

// c02CtxDoneEdges: edges of fn on which the context is known to be done (the
// <-ctx.Done() case of a select, the non-nil side of a test of ctx.Err()).
func c02CtxDoneEdges(fn *ssa.Function) []Edge {
	var out []Edge
	AllInstrs(fn, func(in ssa.Instruction) {
		switch x := in.(type) {
		case *ssa.Select:
			for i, st := range x.States {
				if call, ok := st.Chan.(*ssa.Call); ok && CalleeName(call) == "(context.Context).Done" && st.Dir == types.RecvOnly {
					if e, found := selectCaseEdge(x, i); found {
						out = append(out, e)
					}
				}
			}
		case *ssa.Call:
			if isCtxErr(x) {
				_, nn, _ := NilTests(fn, Aliases(x))
				out = append(out, nn...)
			}
		}
	})
	return out
}

// c02KnownNonNil: the error value v returned by ret is non-nil on every path
// that returns it.
func c02KnownNonNil(fn *ssa.Function, v ssa.Value, ret *ssa.Return) bool {
	if ErrNilStatus(v, 0) == NonNil {
		return true
	}
	if _, isZero := v.(zeroMarker); isZero {
		return false
	}
	if _, isConst := v.(*ssa.Const); isConst {
		return false
	}
	al := Aliases(v)
	if rs := Roots(v); len(rs) == 1 && rs[0] != v {
		// a load of the error variable: the value it holds, and that value's other loads
		if ErrNilStatus(rs[0], 0) == NonNil {
			return true
		}
		for a := range Aliases(rs[0]) {
			al[a] = true
		}
	}
	if _, nn, _ := NilTests(fn, al); len(nn) > 0 && MustPass(ret, newCut().Edges(nn...)) {
		return true // returned on the non-nil side of its own test
	}
	if isCtxErr(v) {
		if es := c02CtxDoneEdges(fn); len(es) > 0 && MustPass(ret, newCut().Edges(es...)) {
			return true // ctx.Err() after <-ctx.Done()
		}
	}
	// a wrapping constructor (nil -> nil, non-nil -> non-nil, e.g. newCopyError)
	// applied to an error that is known non-nil here
	if call, ok := v.(*ssa.Call); ok {
		if g, off := c02CalleeOf(call); g != nil && g != fn {
			for i, a := range call.Call.Args {
				prm := c02ArgParam(g, off, i)
				if prm == nil || !isErrorType(a.Type()) {
					continue
				}
				if _, isCall := a.(*ssa.Call); isCall && a == v {
					continue
				}
				if ok, _ := c02MapsError(g, prm, nil); ok && c02KnownNonNil(fn, a, ret) {
					return true
				}
			}
		}
	}
	return false
}

// c02NilableAtoms: the return atoms of fn's error result that may be nil.
func c02NilableAtoms(fn *ssa.Function) []RetAtom {
	idx := ErrResultIndex(fn.Signature)
	if idx < 0 {
		return nil
	}
	var out []RetAtom
	for _, a := range RetAtoms(fn, idx) {
		if !c02KnownNonNil(fn, a.Val, a.Ret) {
			out = append(out, a)
		}
	}
	return out
}

// c02NilReturnFrom explores forward from instruction index i of block b
// (entered from pred, may be nil) and returns a reachable Return whose error
// may be nil, avoiding the cut.  Functions without an error result "return
// nil" at every Return.
func c02NilReturnFrom(fn *ssa.Function, b *ssa.BasicBlock, i int, pred *ssa.BasicBlock, ct *cut) *RetAtom {
	errIdx := ErrResultIndex(fn.Signature)
	type state struct{ b, pred *ssa.BasicBlock }
	visited := map[state]bool{}
	var bad *RetAtom
	var walk func(b *ssa.BasicBlock, i int, pred *ssa.BasicBlock)
	walk = func(b *ssa.BasicBlock, i int, pred *ssa.BasicBlock) {
		if bad != nil {
			return
		}
		if i == 0 {
			st := state{b, pred}
			if visited[st] {
				return
			}
			visited[st] = true
		}
		for ; i < len(b.Instrs); i++ {
			in := b.Instrs[i]
			if ct != nil && ct.instrs[in] {
				return
			}
			r, ok := in.(*ssa.Return)
			if !ok {
				continue
			}
			if errIdx < 0 {
				bad = &RetAtom{Ret: r}
				return
			}
			for _, val := range resolveAt(r.Results[errIdx], b, pred, r, map[ssa.Value]bool{}) {
				if !c02KnownNonNil(fn, val, r) {
					bad = &RetAtom{Ret: r, Val: val}
					return
				}
			}
			return
		}
		for _, s := range b.Succs {
			if ct != nil && ct.edges[Edge{b, s}] {
				continue
			}
			walk(s, 0, b)
		}
	}
	walk(b, i, pred)
	return bad
}

// ---------- wait scopes ----------

// c02Scope is the region in which one element is waited for: the body of a
// loop over the slice, or a whole helper function receiving the element.
type c02Scope struct {
	fn     *ssa.Function
	loop   *Loop // nil: whole function
	startB *ssa.BasicBlock
	header ssa.Instruction
}

func (s *c02Scope) contains(in ssa.Instruction) bool { return s.loop == nil || s.loop.Contains(in) }

// next: the success continuation of the scope (next iteration; a nil-able
// return of the helper) is reachable from (b,i) avoiding the cut.
func (s *c02Scope) next(b *ssa.BasicBlock, i int, ct *cut) bool {
	if s.loop != nil {
		return reach(b, i, s.header, ct)
	}
	return c02NilReturnFrom(s.fn, b, i, nil, ct) != nil
}

func (s *c02Scope) pos() token.Pos {
	if s.loop != nil {
		return blockPos(s.loop.Header)
	}
	return s.fn.Pos()
}

func (s *c02Scope) what() string {
	if s.loop != nil {
		return "the next iteration"
	}
	return "a nil return"
}

func c02Pushes(fn *ssa.Function, except map[ssa.Instruction]bool) []ssa.CallInstruction {
	var pushes []ssa.CallInstruction
	for _, call := range Calls(fn, func(string) bool { return true }) {
		if _, isDefer := call.(*ssa.Defer); isDefer {
			continue
		}
		if except[call.(ssa.Instruction)] {
			continue
		}
		if isPushEffect(call) && CalleeName(call) != nGo {
			pushes = append(pushes, call)
		}
	}
	return pushes
}

func c02ReachesTryCommit(g *ssa.Function) bool {
	return c02ReachesStatic(g, 3, func(in ssa.Instruction) bool { return c02IsCallTo(in, nTryCommit) })
}

// c02ElemWait checks that the scope waits for the element denoted by elem:
// it obtains the element's tracker channel, fails if nobody owns the element,
// and receives from the channel in a select whose only alternative is
// ctx.Done() returning an error — inline, or through a helper that receives
// the element (checked as a scope of its own, on the nil edge of its error).
func c02ElemWait(c *Ctx, sc *c02Scope, elem map[ssa.Value]bool, pushes []ssa.CallInstruction, depth int) {
	const R1 = "C02.R1.wait-before-push"
	T := sc.fn
	tn := FnName(T)
	var tcs []ssa.CallInstruction
	for _, tc := range CallsTo(T, nTryCommit) {
		if !sc.contains(tc.(ssa.Instruction)) {
			continue
		}
		args := tc.Common().Args
		if c02RootedIn(args[len(args)-1], elem) {
			tcs = append(tcs, tc)
		}
	}
	if len(tcs) == 0 && depth < 3 {
		// the element handed to a helper that waits for it
		for _, call := range Calls(T, func(string) bool { return true }) {
			if _, isDefer := call.(*ssa.Defer); isDefer || !sc.contains(call.(ssa.Instruction)) {
				continue
			}
			g, off := c02CalleeOf(call)
			if g == nil || g == T || !c02ReachesTryCommit(g) {
				continue
			}
			for i, a := range call.Common().Args {
				prm := c02ArgParam(g, off, i)
				if prm == nil || !c02RootedIn(a, elem) {
					continue
				}
				c.OK(R1, tn+"|wait-loop-channel", call.Pos(), "the successor is handed to "+FnName(g)+", which is checked as the wait for it")
				c02ElemWait(c, &c02Scope{fn: g, startB: g.Blocks[0]}, Aliases(prm), c02Pushes(g, nil), depth+1)
				c02HelperGates(c, sc, call, g)
				return
			}
		}
	}
	if !c.Check(R1, tn+"|wait-loop-channel", sc.pos(), len(tcs) == 1,
		ifelse(len(tcs) == 1, "the wait obtains the tracker channel of the current successor", "the wait loop does not obtain the tracker channel of the successor it iterates over")) {
		return
	}
	tc := tcs[0]
	ch := ResultOf(tc, 0)
	committed := ResultOf(tc, 1)
	errIdx := ErrResultIndex(T.Signature)
	// committed==true: nobody owns the node -> must return an error
	if committed == nil {
		c.Violation(R1, tn+"|unowned-successor-is-error", tc.Pos(), "the `committed` result of TryCommit(successor) is discarded")
	} else {
		te, _ := BoolTests(T, Aliases(committed))
		if len(te) == 0 {
			c.Violation(R1, tn+"|unowned-successor-is-error", tc.Pos(), "the `committed` result of TryCommit(successor) is not tested: if nobody claimed the successor the parent would wait forever or proceed")
		}
		for _, e := range te {
			bad := sc.next(e.To, 0, nil)
			for _, p := range pushes {
				if reach(e.To, 0, p.(ssa.Instruction), nil) {
					bad = true
				}
			}
			if errIdx < 0 {
				bad = true
			} else if a := findNilReturnFrom(T, e, errIdx, newCut(), map[ssa.Value]bool{}); a != nil {
				bad = true
			}
			c.Check(R1, tn+"|unowned-successor-is-error", tc.Pos(), !bad,
				ifelse(!bad, "a successor nobody claimed makes the parent return an error", "when TryCommit(successor) commits (nobody copied it) the parent continues instead of failing"))
		}
	}
	if ch == nil {
		c.Violation(R1, tn+"|wait-loop-select", tc.Pos(), "the done channel returned by TryCommit is discarded")
		return
	}
	c02ChanWait(c, sc, Aliases(ch), pushes, depth)
}

// c02HelperGates: in scope sc, only the nil result of the helper call (or, for
// a helper without error result, its execution) leads to the success
// continuation.
func c02HelperGates(c *Ctx, sc *c02Scope, call ssa.CallInstruction, g *ssa.Function) {
	const R1 = "C02.R1.wait-before-push"
	T := sc.fn
	var nilE []Edge
	if e := ErrOf(call); e != nil {
		nilE, _, _ = NilTests(T, c02MustAliases(e))
	}
	ok := len(nilE) > 0 && !sc.next(sc.startB, 0, newCut().Edges(nilE...))
	if ErrResultIndex(g.Signature) < 0 {
		// a helper without an error result: it must be executed on every path
		ok = !sc.next(sc.startB, 0, newCut().Instr(call.(ssa.Instruction)))
	}
	c.Check(R1, FnName(T)+"|wait-on-every-iteration", call.Pos(), ok,
		ifelse(ok, "every path to "+sc.what()+" takes the nil edge of the wait helper's error",
			"a path reaches "+sc.what()+" without a successful return of the wait helper "+FnName(g)))
}

// c02ChanWait checks that scope sc waits on the tracker channel denoted by
// chAliases: a select receiving from it whose only alternative is ctx.Done()
// returning an error, on every path to the success continuation — inline, or
// in a helper that receives the channel.
func c02ChanWait(c *Ctx, sc *c02Scope, chAliases map[ssa.Value]bool, pushes []ssa.CallInstruction, depth int) {
	const R1 = "C02.R1.wait-before-push"
	T := sc.fn
	tn := FnName(T)
	var sel *ssa.Select
	var recvUnOp ssa.Instruction
	AllInstrs(T, func(in ssa.Instruction) {
		if s, ok := in.(*ssa.Select); ok && sc.contains(s) && selectRecvIndex(s, chAliases) >= 0 {
			sel = s
		}
		if u, ok := in.(*ssa.UnOp); ok && u.Op == token.ARROW && chAliases[u.X] && sc.contains(u) {
			recvUnOp = u
		}
	})
	if sel == nil && recvUnOp == nil && depth < 3 {
		// the channel handed to a helper that waits on it
		for _, call := range Calls(T, func(string) bool { return true }) {
			if _, isDefer := call.(*ssa.Defer); isDefer || !sc.contains(call.(ssa.Instruction)) {
				continue
			}
			g, off := c02CalleeOf(call)
			if g == nil || g == T {
				continue
			}
			for i, a := range call.Common().Args {
				prm := c02ArgParam(g, off, i)
				if prm == nil || !c02RootedIn(a, chAliases) {
					continue
				}
				if _, isChan := prm.Type().Underlying().(*types.Chan); !isChan {
					continue
				}
				c.OK(R1, tn+"|wait-loop-select", call.Pos(), "the done channel is handed to "+FnName(g)+", which is checked as the wait on it")
				c02ChanWait(c, &c02Scope{fn: g, startB: g.Blocks[0]}, Aliases(prm), c02Pushes(g, nil), depth+1)
				c02HelperGates(c, sc, call, g)
				return
			}
		}
	}
	if sel == nil {
		if recvUnOp != nil { // plain receive <-done is a wait without cancellation
			c.OK(R1, tn+"|wait-loop-select", recvUnOp.Pos(), "plain receive on the done channel")
			c.Violation("C02.R4.cancellable-wait", tn+"|select", recvUnOp.Pos(), "the wait on the successor's done channel has no ctx.Done() alternative: a failed sibling leaves the parent blocked forever")
			c.Check(R1, tn+"|wait-on-every-iteration", recvUnOp.Pos(), !sc.next(sc.startB, 0, newCut().Instr(recvUnOp)), "every path through the wait receives from the done channel")
		} else {
			c.Violation(R1, tn+"|wait-loop-select", sc.pos(), "the wait never receives from the successor's done channel")
		}
		return
	}
	c.OK(R1, tn+"|wait-loop-select", sel.Pos(), "select receives from the successor's done channel")
	ok := !sc.next(sc.startB, 0, newCut().Instr(sel))
	c.Check(R1, tn+"|wait-on-every-iteration", sel.Pos(), ok,
		ifelse(ok, "every path to "+sc.what()+" executes the select", "a path reaches "+sc.what()+" without waiting on the done channel"))
	k := selectRecvIndex(sel, chAliases)
	if e, found := selectCaseEdge(sel, k); found {
		ok := !sc.next(sel.Block(), instrIndex(sel)+1, newCut().Edges(e))
		c.Check(R1, tn+"|only-done-continues", sel.Pos(), ok,
			ifelse(ok, "only the done-channel case leads to "+sc.what(), "a select case other than the done channel continues (the successor may not be finished)"))
	} else {
		c.Undecided(R1, tn+"|only-done-continues", sel.Pos(), "cannot resolve the select's case dispatch")
	}
	// R4(a): blocking select, other cases are ctx.Done()
	okSel := sel.Blocking && len(sel.States) >= 2
	for i, st := range sel.States {
		if i == k {
			continue
		}
		call, isCall := st.Chan.(*ssa.Call)
		if !isCall || CalleeName(call) != "(context.Context).Done" || st.Dir != types.RecvOnly {
			okSel = false
		}
	}
	c.Check("C02.R4.cancellable-wait", tn+"|select", sel.Pos(), okSel,
		ifelse(okSel, "the wait is a select over the done channel and ctx.Done()", "the wait has no ctx.Done() alternative (or is non-blocking): a failed sibling leaves the parent blocked, or the parent does not wait"))
	errIdx := ErrResultIndex(T.Signature)
	for i := range sel.States {
		if i == k {
			continue
		}
		if e, found := selectCaseEdge(sel, i); found {
			bad := false
			for _, p := range pushes {
				if reach(e.To, 0, p.(ssa.Instruction), nil) {
					bad = true
				}
			}
			if errIdx < 0 {
				bad = true
			} else if a := findNilReturnFrom(T, e, errIdx, newCut(), map[ssa.Value]bool{}); a != nil {
				if !isCtxErr(a.Val) {
					bad = true
				}
			}
			c.Check("C02.R4.cancellable-wait", tn+"|ctx-done-returns-error", sel.Pos(), !bad,
				ifelse(!bad, "the ctx.Done() case returns ctx.Err() and reaches no push", "the ctx.Done() case can reach a push effect or return nil"))
		}
	}
}

// ---------- slice waits ----------

type c02WaitSite struct {
	At    ssa.Instruction // loop header's first instruction, or the helper call
	Edges []Edge          // taken only when all elements have been waited for
	Instr ssa.Instruction // (helper without error result) executed => waited
	Err   ssa.Value       // (helper with error result) its error: nil => waited
	Loop  *Loop
}

// c02DispatchesParam: g hands parameter k to syncutil.Go (directly, or through
// a helper), i.e. calling g dispatches the slice.
func c02DispatchesParam(g *ssa.Function, k int, depth int) bool {
	if depth > 2 || k >= len(g.Params) {
		return false
	}
	return len(c02DispatchCalls(g, g.Params[k], depth)) > 0
}

// c02DispatchCalls: the calls of fn that dispatch slice S to syncutil.Go.
func c02DispatchCalls(fn *ssa.Function, S ssa.Value, depth int) []ssa.CallInstruction {
	var out []ssa.CallInstruction
	for _, call := range Calls(fn, func(string) bool { return true }) {
		if _, isDefer := call.(*ssa.Defer); isDefer {
			continue
		}
		if CalleeName(call) == nGo {
			if v := variadicArg(call); v != nil && c02SameSlice(v, S) {
				out = append(out, call)
			}
			continue
		}
		g, off := c02CalleeOf(call)
		if g == nil || g == fn {
			continue
		}
		for i, a := range call.Common().Args {
			if prm := c02ArgParam(g, off, i); prm != nil && c02IsSlice(a) && c02SameSlice(a, S) && c02DispatchesParam(g, i+off, depth+1) {
				out = append(out, call)
				break
			}
		}
	}
	return out
}

func c02IsSlice(v ssa.Value) bool {
	_, ok := v.Type().Underlying().(*types.Slice)
	return ok
}

// c02DispatchedSlices: the slices fn dispatches, as values of fn.
func c02DispatchedSlices(fn *ssa.Function) []ssa.Value {
	var out []ssa.Value
	add := func(v ssa.Value) {
		for _, o := range out {
			if SameValue(o, v) {
				return
			}
		}
		out = append(out, v)
	}
	for _, call := range Calls(fn, func(string) bool { return true }) {
		if _, isDefer := call.(*ssa.Defer); isDefer {
			continue
		}
		if CalleeName(call) == nGo {
			if v := variadicArg(call); v != nil {
				add(v)
			}
			continue
		}
		g, off := c02CalleeOf(call)
		if g == nil || g == fn {
			continue
		}
		for i, a := range call.Common().Args {
			if prm := c02ArgParam(g, off, i); prm != nil && c02IsSlice(a) && c02DispatchesParam(g, i+off, 1) {
				add(a)
			}
		}
	}
	return out
}

// c02SliceWaits finds, checks and returns the places of fn after which every
// element of S has been waited for.
func c02SliceWaits(c *Ctx, fn *ssa.Function, S ssa.Value, needDispatch bool, pushes []ssa.CallInstruction, depth int) []c02WaitSite {
	const R1 = "C02.R1.wait-before-push"
	tn := FnName(fn)
	disp := c02DispatchCalls(fn, S, 0)
	var sites []c02WaitSite
	loops := c02LoopsOver(fn, S)
	// prefer the loops that look at the tracker; if none does, all of them are
	// reported (a loop over the successors that does not wait)
	var waitLoops []*c02SliceLoop
	for _, sl := range loops {
		l := sl.L
		if c02ReachesStaticIn(fn, l, func(in ssa.Instruction) bool { return c02IsCallTo(in, nTryCommit) }) {
			waitLoops = append(waitLoops, sl)
		}
	}
	if len(waitLoops) == 0 {
		waitLoops = loops
	}
	for _, sl := range waitLoops {
		l := sl.L
		first := l.Header.Instrs[0]
		if needDispatch {
			ok := len(disp) > 0 && MustPass(first, newCut().Calls(disp))
			c.Check(R1, tn+"|dispatch-before-wait", blockPos(l.Header), ok, "syncutil.Go(successors...) must precede the wait loop on every path")
		}
		c02ElemWait(c, &c02Scope{fn: fn, loop: l, startB: sl.Body.To, header: first}, sl.Elem, pushes, depth)
		sites = append(sites, c02WaitSite{At: first, Edges: []Edge{sl.Exit}, Loop: l})
	}
	if depth >= 3 {
		return sites
	}
	// helpers that receive the slice (as an argument, or a local closure that
	// captured it) and wait for all of it
	for _, call := range Calls(fn, func(string) bool { return true }) {
		if _, isDefer := call.(*ssa.Defer); isDefer {
			continue
		}
		g, off := c02CalleeOf(call)
		if g == nil || g == fn || !c02ReachesTryCommit(g) {
			continue
		}
		Ps := c02SliceInCallee(fn, call, g, off, S)
		if len(Ps) == 0 {
			continue
		}
		in := call.(ssa.Instruction)
		inner := needDispatch
		if needDispatch {
			var others []ssa.CallInstruction
			for _, d := range disp {
				if d != call {
					others = append(others, d)
				}
			}
			if len(others) > 0 && MustPass(in, newCut().Calls(others)) {
				inner = false
				c.OK(R1, tn+"|dispatch-before-wait", call.Pos(), "syncutil.Go(successors...) precedes the call of the wait helper "+FnName(g)+" on every path")
			}
		}
		c02SliceSummary(c, g, Ps, inner, depth+1)
		site := c02WaitSite{At: in}
		if e := ErrOf(call); e != nil {
			site.Edges, _, _ = NilTests(fn, c02MustAliases(e))
			site.Err = e
		} else if ErrResultIndex(g.Signature) < 0 {
			site.Instr = in
		}
		sites = append(sites, site)
	}
	return sites
}

// c02ReachesStaticIn: an instruction of loop l in fn, or of a function
// statically called from there, satisfies pred.
func c02ReachesStaticIn(fn *ssa.Function, l *Loop, pred func(in ssa.Instruction) bool) bool {
	found := false
	AllInstrs(fn, func(in ssa.Instruction) {
		if found || !l.Contains(in) {
			return
		}
		if pred(in) {
			found = true
			return
		}
		if call, ok := in.(ssa.CallInstruction); ok {
			if g, _ := c02CalleeOf(call); g != nil && g != fn && c02ReachesStatic(g, 2, pred) {
				found = true
			}
		}
	})
	return found
}

// c02SliceSummary checks helper g: every nil-able return (and every push
// effect in g) lies behind "len(P)==0" or a complete wait over P, where P is
// the slice as g sees it (its parameter, or the loads of the captured variable).
func c02SliceSummary(c *Ctx, g *ssa.Function, Ps []ssa.Value, needDispatch bool, depth int) {
	const R1 = "C02.R1.wait-before-push"
	gn := FnName(g)
	except := map[ssa.Instruction]bool{}
	for _, P := range Ps {
		for _, d := range c02DispatchCalls(g, P, 0) {
			except[d.(ssa.Instruction)] = true
		}
	}
	pushes := c02Pushes(g, except)
	var sites []c02WaitSite
	ct := newCut()
	for _, P := range Ps {
		sites = append(sites, c02SliceWaits(c, g, P, needDispatch, pushes, depth)...)
		ct.Edges(lenZeroEdges(g, P)...)
	}
	if len(sites) == 0 {
		c.Violation(R1, gn+"|wait-loop", g.Pos(), "the helper receives the dispatched successors but has no loop over them that waits")
		return
	}
	for _, s := range sites {
		ct.Edges(s.Edges...)
		ct.Instr(s.Instr)
		except[s.At] = true
	}
	ok := true
	siteErr := map[ssa.Value]bool{}
	for _, s := range sites {
		if s.Err != nil {
			for a := range c02MustAliases(s.Err) {
				siteErr[a] = true
			}
		}
	}
	if ErrResultIndex(g.Signature) >= 0 {
		for _, a := range c02NilableAtoms(g) {
			if siteErr[a.Val] || siteErr[strip(a.Val)] {
				continue // the wait helper's own error is returned: nil means waited
			}
			if !AtomMustPass(a, ct) {
				ok = false
			}
		}
	} else {
		for _, r := range Returns(g) {
			if !MustPass(r, ct) {
				ok = false
			}
		}
	}
	c.Check(R1, gn+"|nil-return-implies-all-waited", g.Pos(), ok,
		ifelse(ok, "every nil-error return of the helper has no successors or has left the wait loop through its exit edge",
			"the helper can return nil before every successor was waited for"))
	for _, p := range c02Pushes(g, except) {
		okp := MustPass(p.(ssa.Instruction), ct)
		c.Check(R1, gn+"|push:"+CalleeName(p), p.Pos(), okp,
			ifelse(okp, "every path to the push takes the len(successors)==0 edge or a completed wait", "a push effect in the wait helper is reachable before the wait completed"))
	}
}

// c02SliceInCallee: how callee g of `call` (in fn) sees the slice S of fn: as
// the parameter receiving it, or — for a local closure — as the loads of the
// captured variable that holds S when the call is made.
func c02SliceInCallee(fn *ssa.Function, call ssa.CallInstruction, g *ssa.Function, off int, S ssa.Value) []ssa.Value {
	for i, a := range call.Common().Args {
		if prm := c02ArgParam(g, off, i); prm != nil && c02IsSlice(a) && c02SameSlice(a, S) {
			return []ssa.Value{prm}
		}
	}
	if g.Parent() != fn {
		return nil
	}
	var out []ssa.Value
	for _, r := range Roots(call.Common().Value) {
		mc, ok := r.(*ssa.MakeClosure)
		if !ok || mc.Fn != g {
			continue
		}
		for i, bnd := range mc.Bindings {
			a, ok := bnd.(*ssa.Alloc)
			if !ok || !c02IsSliceType(a.Type().(*types.Pointer).Elem()) || freeVarWritten(g, g.FreeVars[i]) {
				continue
			}
			rs := ReachingStores(a, call.(ssa.Instruction))
			if len(rs) != 1 || rs[0] == nil || !SameValue(rs[0].Val, S) {
				continue
			}
			for _, ref := range *g.FreeVars[i].Referrers() {
				if ld, ok := ref.(*ssa.UnOp); ok && ld.Op == token.MUL {
					out = append(out, ld)
				}
			}
		}
	}
	return out
}

func c02IsSliceType(t types.Type) bool {
	_, ok := t.Underlying().(*types.Slice)
	return ok
}

// c02UnknownWaitLoop: a loop of fn that looks at the tracker but is not a
// recognised loop over S (shape not decidable).
func c02UnknownWaitLoop(fn *ssa.Function, known []c02WaitSite) *Loop {
	for _, l := range Loops(fn) {
		isKnown := false
		for _, s := range known {
			if s.Loop != nil && s.Loop.Header == l.Header {
				isKnown = true
			}
		}
		if isKnown {
			continue
		}
		if c02ReachesStaticIn(fn, l, func(in ssa.Instruction) bool { return c02IsCallTo(in, nTryCommit) }) {
			return l
		}
	}
	return nil
}

// ---------- error flow through helpers ----------

// c02MapsError: helper g maps its error parameter p faithfully: whenever p is
// non-nil and not one of the tolerated sentinels, g's error result is non-nil.
func c02MapsError(g *ssa.Function, p *ssa.Parameter, tolerated []string) (bool, string) {
	errIdx := ErrResultIndex(g.Signature)
	if errIdx < 0 || !isErrorType(p.Type()) {
		return false, ""
	}
	aliases := Aliases(p)
	_, nonNilE, ifs := NilTests(g, aliases)
	if len(ifs) == 0 {
		// no nil test of the parameter (ignoreX(err): `if errors.Is(err, X) { return nil }; return err`):
		// every return reachable without taking a tolerated edge yields the parameter, a wrap of it or a non-nil error
		ct := newCut().Edges(c02ToleratedEdges(g, aliases, tolerated)...)
		visited := map[*ssa.BasicBlock]bool{}
		why := ""
		var walk func(b *ssa.BasicBlock)
		walk = func(b *ssa.BasicBlock) {
			if visited[b] || why != "" {
				return
			}
			visited[b] = true
			for _, in := range b.Instrs {
				if r, ok := in.(*ssa.Return); ok {
					for _, v := range Roots(r.Results[errIdx]) {
						if aliases[v] || aliases[strip(v)] || ErrNilStatus(v, 0) == NonNil || derivesFromAny(v, aliases, 0) {
							continue
						}
						why = fmt.Sprintf("%s can return %s for a non-nil, non-tolerated argument", FnName(g), describe(v))
					}
					return
				}
			}
			for _, sc := range b.Succs {
				if !ct.edges[Edge{b, sc}] {
					walk(sc)
				}
			}
		}
		walk(g.Blocks[0])
		return why == "", why
	}
	ct := newCut().Edges(c02ToleratedEdges(g, aliases, tolerated)...)
	for _, ne := range nonNilE {
		if bad := findNilReturnFrom(g, ne, errIdx, ct, aliases); bad != nil {
			return false, fmt.Sprintf("%s returns %s for a non-nil, non-tolerated argument (return at %s)", FnName(g), describe(bad.Val), posLine(g, bad.Ret.Pos()))
		}
	}
	return true, ""
}

// c02NilReturnAfterFailure is findNilReturnFrom with one path fact: walking
// from the non-nil edge `from` of a test of `tested`, the tested value — and,
// when it was loaded from a local error variable, that variable until it is
// assigned again — is known non-nil, so later tests of it (`if err == nil {
// next step }` chains, a phi selected by the edge taken) follow only their
// non-nil edge, and a return of it is a non-nil return.
func c02NilReturnAfterFailure(fn *ssa.Function, from Edge, tested ssa.Value, errIdx int, ct *cut, aliases map[ssa.Value]bool) *RetAtom {
	var A *ssa.Alloc
	if a := cellOf(tested); a != nil && len(closureWriters(a)) == 0 {
		A = a
	}
	type state struct {
		b, pred *ssa.BasicBlock
		holds   bool
	}
	visited := map[state]bool{}
	var bad *RetAtom
	nonNilVal := func(v ssa.Value) bool {
		return aliases[v] || aliases[strip(v)] || ErrNilStatus(v, 0) == NonNil || derivesFromAny(v, aliases, 0)
	}
	var walk func(b, pred *ssa.BasicBlock, holds bool)
	walk = func(b, pred *ssa.BasicBlock, holds bool) {
		if bad != nil {
			return
		}
		st := state{b, pred, holds}
		if visited[st] {
			return
		}
		visited[st] = true
		known := map[ssa.Value]bool{} // values known non-nil in this block on this path
		if holds {
			known[tested] = true
		}
		exact := func(v ssa.Value) bool {
			if known[v] {
				return true
			}
			if phi, ok := v.(*ssa.Phi); ok && phi.Block() == b && pred != nil {
				for i, p := range b.Preds {
					if p == pred {
						e := phi.Edges[i]
						return known[e] || (holds && e == tested)
					}
				}
			}
			return false
		}
		for _, in := range b.Instrs {
			if ct.instrs[in] {
				return
			}
			switch x := in.(type) {
			case *ssa.Store:
				if A != nil && x.Addr == A {
					holds = nonNilVal(x.Val) || known[x.Val]
				}
			case *ssa.UnOp:
				if A != nil && x.Op == token.MUL && x.X == A && holds {
					known[x] = true
				}
			case *ssa.Return:
				v := x.Results[errIdx]
				if exact(v) {
					return
				}
				for _, val := range resolveAt(v, b, pred, x, aliases) {
					if nonNilVal(val) || known[val] {
						continue
					}
					bad = &RetAtom{Ret: x, Val: val}
					return
				}
				return
			case *ssa.If:
				cond, t, f := ifEdges(x)
				if bo, ok := cond.(*ssa.BinOp); ok && (bo.Op == token.EQL || bo.Op == token.NEQ) {
					var v ssa.Value
					if isNilConst(bo.Y) {
						v = bo.X
					} else if isNilConst(bo.X) {
						v = bo.Y
					}
					if v != nil && exact(v) {
						nn := t // edge taken when v != nil
						if bo.Op == token.EQL {
							nn = f
						}
						if !ct.edges[nn] {
							walk(nn.To, b, holds)
						}
						return
					}
				}
			}
		}
		for _, sc := range b.Succs {
			if ct.edges[Edge{b, sc}] {
				continue
			}
			walk(sc, b, holds)
		}
	}
	walk(from.To, from.From, true)
	return bad
}

// c02ErrFlowCore is a copy of ErrFlow (errflow.go) that explores the failure
// paths with c02NilReturnAfterFailure instead of findNilReturnFrom.
func c02ErrFlowCore(c ssa.CallInstruction, o ErrFlowOpts) ErrFlowResult {
	fn := c.Parent()
	errIdx := ErrResultIndex(fn.Signature)
	e := ErrOf(c)
	if _, isDefer := c.(*ssa.Defer); isDefer || e == nil || errIdx < 0 {
		return ErrFlow(c, o)
	}
	aliases := Aliases(e)
	_, nonNilE, ifs := NilTests(fn, aliases)
	if len(ifs) == 0 {
		return ErrFlow(c, o)
	}
	tolE := c02ToleratedEdges(fn, aliases, o.Tolerated)
	cutTol := newCut().Edges(tolE...)
	cutTol.Instr(c.(ssa.Instruction))
	for i, ne := range nonNilE {
		var tested ssa.Value
		if bo, ok := func() (*ssa.BinOp, bool) { cnd, _, _ := ifEdges(ifs[i]); b, ok := cnd.(*ssa.BinOp); return b, ok }(); ok {
			if aliases[bo.X] {
				tested = bo.X
			} else {
				tested = bo.Y
			}
		}
		if bad := c02NilReturnAfterFailure(fn, ne, tested, errIdx, cutTol, aliases); bad != nil {
			return ErrFlowResult{OK: false, At: bad.Ret.Pos(),
				Detail: fmt.Sprintf("after the error of %s is found non-nil (edge %s) a path reaches the return at %s whose error result is %s",
					CalleeName(c), ne, posLine(fn, bad.Ret.Pos()), describe(bad.Val))}
		}
	}
	how := "tested; every failure path returns a non-nil error"
	if len(tolE) > 0 {
		how += fmt.Sprintf(" (tolerated: %v)", o.Tolerated)
	}
	return ErrFlowResult{OK: true, How: how}
}

// c02ErrFlow is ErrFlow, extended: an error that is neither tested nor
// returned but handed to an in-module helper which maps it faithfully is
// analysed through the helper (the helper's result must then surface).
func c02ErrFlow(call ssa.CallInstruction, o ErrFlowOpts, depth int) ErrFlowResult {
	if yr, handled := c02YieldErrFlow(call, o); handled {
		return yr
	}
	r := c02ErrFlowCore(call, o)
	if r.OK || depth > 2 {
		return r
	}
	if _, isDefer := call.(*ssa.Defer); isDefer {
		return r
	}
	e := ErrOf(call)
	if e == nil {
		return r
	}
	fn := call.Parent()
	aliases := Aliases(e)
	if c02AssignedToOuterResult(fn, aliases) {
		return ErrFlowResult{OK: true, How: "assigned, in a deferred closure, to the enclosing function's error result"}
	}
	if _, _, ifs := NilTests(fn, aliases); len(ifs) > 0 {
		return r // tested here: ErrFlow's verdict stands
	}
	var detail string
	for _, m := range Calls(fn, func(string) bool { return true }) {
		if m == call {
			continue
		}
		if _, isDefer := m.(*ssa.Defer); isDefer {
			continue
		}
		g, off := c02CalleeOf(m)
		if g == nil {
			continue
		}
		for i, a := range m.Common().Args {
			if !aliases[a] {
				continue
			}
			prm := c02ArgParam(g, off, i)
			if prm == nil {
				continue
			}
			ok, why := c02MapsError(g, prm, o.Tolerated)
			if !ok {
				if why != "" {
					detail = why
				}
				continue
			}
			r2 := c02ErrFlow(m, ErrFlowOpts{AllowCancel: o.AllowCancel}, depth+1)
			if r2.OK {
				how := "mapped by " + FnName(g) + " (nil"
				if len(o.Tolerated) > 0 {
					how += fmt.Sprintf(" or tolerated %v", o.Tolerated)
				}
				return ErrFlowResult{OK: true, How: how + " -> nil, anything else -> non-nil), whose result is " + r2.How}
			}
			detail = "the error is mapped by " + FnName(g) + " but that result does not surface: " + r2.Detail
		}
	}
	if detail != "" {
		r.Detail = detail
	}
	return r
}

// c02AssignedToOuterResult: fn is a closure deferred by its parent, and the
// error (one of aliases) is stored into the parent's error result variable —
// the variable every return of the parent yields — without being overwritten
// afterwards: the parent returns it.
func c02AssignedToOuterResult(fn *ssa.Function, aliases map[ssa.Value]bool) bool {
	par := fn.Parent()
	if par == nil || ErrResultIndex(fn.Signature) >= 0 {
		return false
	}
	errIdx := ErrResultIndex(par.Signature)
	if errIdx < 0 {
		return false
	}
	var cell *ssa.Alloc
	for _, r := range Returns(par) {
		a := cellOf(r.Results[errIdx])
		if a == nil || (cell != nil && a != cell) {
			return false
		}
		cell = a
	}
	deferred := false
	var fv *ssa.FreeVar
	AllInstrs(par, func(in ssa.Instruction) {
		d, ok := in.(*ssa.Defer)
		if !ok {
			return
		}
		if mc, ok := d.Call.Value.(*ssa.MakeClosure); ok && mc.Fn == fn {
			deferred = true
			for i, b := range mc.Bindings {
				if b == ssa.Value(cell) {
					fv = fn.FreeVars[i]
				}
			}
		}
	})
	if !deferred || fv == nil || cell == nil {
		return false
	}
	for _, ref := range *fv.Referrers() {
		st, ok := ref.(*ssa.Store)
		if !ok || st.Addr != ssa.Value(fv) || !(aliases[st.Val] || aliases[strip(st.Val)]) {
			continue
		}
		overwritten := false
		for _, ref2 := range *fv.Referrers() {
			if st2, ok := ref2.(*ssa.Store); ok && st2 != st && st2.Addr == ssa.Value(fv) && Reachable(st, st2) {
				overwritten = true
			}
		}
		if !overwritten {
			return true
		}
	}
	return false
}

// c02CallSites: the calls of g in the functions of its package (static calls,
// immediately applied or locally bound closures, method values; cached — the
// resolution must not itself go through call sites).
func c02CallSites(p *Prog, g *ssa.Function) []ssa.CallInstruction {
	path := strings.TrimPrefix(strings.TrimPrefix(fnPkgPath(g), Mod), "/")
	if c02CallSiteProg != p {
		c02CallSiteCache = map[string]map[*ssa.Function][]ssa.CallInstruction{}
		c02CallSiteProg = p
	}
	idx, ok := c02CallSiteCache[path]
	if !ok {
		idx = map[*ssa.Function][]ssa.CallInstruction{}
		for _, f := range p.FuncsOfPkg(path) {
			for _, call := range Calls(f, func(string) bool { return true }) {
				cc := call.Common()
				if cc.IsInvoke() {
					continue
				}
				h := StaticCallee(call)
				if h == nil {
					for _, r := range Roots(cc.Value) {
						if mc, ok := r.(*ssa.MakeClosure); ok {
							h = mc.Fn.(*ssa.Function)
						}
					}
				}
				if h == nil {
					continue
				}
				h, _ = c02Unwrap(h)
				idx[h] = append(idx[h], call)
			}
		}
		c02CallSiteCache[path] = idx
	}
	return idx[g]
}

var (
	c02CallSiteCache = map[string]map[*ssa.Function][]ssa.CallInstruction{}
	c02CallSiteProg  *Prog
)

// c02ErrIdentities: the callback fields (struct field a function value was
// loaded from) whose error the call may return unchanged — the callback
// itself, or an in-module helper that invokes it and returns its result.
// argOf maps parameters of the function containing `call` to the argument
// values of the call under analysis (context), nil = all call sites.
func c02ErrIdentities(p *Prog, call ssa.CallInstruction, argOf map[*ssa.Parameter]ssa.Value, depth int, inHelper ...bool) map[string]bool {
	out := map[string]bool{}
	if depth > 4 {
		return out
	}
	cc := call.Common()
	if cc.IsInvoke() {
		// a store / registry operation: identified by its interface method — when it
		// is the call itself or what a function value (closure, method value) passed
		// around performs.  An operation a named helper performs on its own is the
		// helper's business: the helper has to handle the tolerated sentinel itself.
		if len(inHelper) > 0 && inHelper[0] {
			out["?"] = true
		} else {
			out[CalleeName(call)] = true
		}
		return out
	}
	if g, off := c02CalleeOf(call); g != nil && StaticCallee(call) != nil {
		// an immediately applied func literal of the calling function is a
		// function value, not a named helper
		literal := g.Parent() != nil && g.Parent() == call.Parent()
		if _, isMC := cc.Value.(*ssa.MakeClosure); literal && isMC {
			return c02FnErrIdentities(p, g, nil, depth+1, inHelper...)
		}
		binding := map[*ssa.Parameter]ssa.Value{}
		for i, a := range cc.Args {
			if prm := c02ArgParam(g, off, i); prm != nil {
				binding[prm] = a
			}
		}
		return c02FnErrIdentities(p, g, binding, depth+1, true)
	}
	if StaticCallee(call) != nil {
		return out
	}
	if _, isBuiltin := cc.Value.(*ssa.Builtin); isBuiltin {
		return out
	}
	for _, r := range Roots(cc.Value) {
		prm, ok := r.(*ssa.Parameter)
		if !ok {
			for k := range c02ValueIdentities(p, r, depth) {
				out[k] = true
			}
			continue
		}
		var vals []ssa.Value
		if argOf != nil {
			if v, ok := argOf[prm]; ok {
				vals = append(vals, v)
			}
		}
		if len(vals) == 0 {
			vals = c02ParamArgs(p, prm)
		}
		if len(vals) == 0 {
			out["?"] = true
		}
		for _, v := range vals {
			for k := range c02ValueIdentities(p, v, depth) {
				out[k] = true
			}
		}
	}
	return out
}

// c02ParamArgs: the argument values parameter prm receives at the call sites
// of its function (in its package).
func c02ParamArgs(p *Prog, prm *ssa.Parameter) []ssa.Value {
	idx := -1
	for i, q := range prm.Parent().Params {
		if q == prm {
			idx = i
		}
	}
	var vals []ssa.Value
	for _, site := range c02CallSites(p, prm.Parent()) {
		off := 0
		if StaticCallee(site) == nil {
			for _, r := range Roots(site.Common().Value) {
				if mc, ok := r.(*ssa.MakeClosure); ok {
					_, off = c02Unwrap(mc.Fn.(*ssa.Function))
				}
			}
		}
		if a := site.Common().Args; idx-off >= 0 && idx-off < len(a) {
			vals = append(vals, a[idx-off])
		}
	}
	return vals
}

// c02ValueIdentities: the identities of the errors a function value returns:
// the callback field it was loaded from, or — for a closure / method value —
// the operations whose error it returns unchanged ("?" when unknown).
func c02ValueIdentities(p *Prog, v ssa.Value, depth int) map[string]bool {
	out := map[string]bool{}
	named := false
	for _, rr := range Roots(v) {
		for _, f := range c02OriginFields(p, rr, 0) {
			out["field:"+f] = true
			named = true
		}
	}
	for _, t := range c02FuncTargets(v, 0) {
		if len(t.Fn.Blocks) == 0 {
			continue
		}
		named = true
		for k := range c02FnErrIdentities(p, t.Fn, nil, depth+1) {
			out[k] = true
		}
	}
	if !named {
		out["?"] = true
	}
	return out
}

// c02FnErrIdentities: the identities of the call results g returns as its error.
func c02FnErrIdentities(p *Prog, g *ssa.Function, binding map[*ssa.Parameter]ssa.Value, depth int, inHelper ...bool) map[string]bool {
	out := map[string]bool{}
	errIdx := ErrResultIndex(g.Signature)
	if errIdx < 0 || depth > 4 {
		return out
	}
	for _, a := range RetAtoms(g, errIdx) {
		var u ssa.CallInstruction
		switch x := strip(a.Val).(type) {
		case *ssa.Call:
			u = x
		case *ssa.Extract:
			if cl, ok := x.Tuple.(*ssa.Call); ok {
				u = cl
			}
		}
		if u == nil {
			continue
		}
		for k := range c02ErrIdentities(p, u, binding, depth+1, inHelper...) {
			out[k] = true
		}
	}
	return out
}

// ---------- permit typestate ----------

const (
	c02Bot int8 = iota
	c02Held
	c02Released
	c02Mixed
)

func c02StateName(s int8) string {
	return [...]string{"unreachable", "held", "released", "held on some paths and released on others"}[s]
}

type c02Permit struct {
	s       int8
	last    ssa.Instruction // the transition that produced s, if the same on all paths
	touched bool            // some End/Start happened on a path to here
}

func c02Join(a, b c02Permit) c02Permit {
	if a.s == c02Bot {
		return b
	}
	if b.s == c02Bot {
		return a
	}
	out := c02Permit{s: a.s, last: a.last, touched: a.touched || b.touched}
	if a.s != b.s {
		out.s = c02Mixed
	}
	if a.last != b.last {
		out.last = nil
	}
	return out
}

type c02PermitKey struct {
	fn      *ssa.Function
	k       int
	s       int8
	touched bool
	work    *ssa.Function // the closure handed to fn as a function argument (run-the-work wrappers)
}

type c02PermitSummary struct{ exitNil, exitAny int8 }

type c02PermitAnalysis struct {
	work     *ssa.Function // closure argument of the call being followed (set around a kPass run)
	c        *Ctx
	memo     map[c02PermitKey]c02PermitSummary
	visiting map[c02PermitKey]bool
	Analysed map[*ssa.Function]bool
}

func newC02PermitAnalysis(c *Ctx) *c02PermitAnalysis {
	return &c02PermitAnalysis{c: c, memo: map[c02PermitKey]c02PermitSummary{}, visiting: map[c02PermitKey]bool{}, Analysed: map[*ssa.Function]bool{}}
}

func c02IsRegionType(t types.Type) bool {
	return strings.HasSuffix(t.String(), "syncutil.LimitedRegion")
}

// c02ReachesBlocking: g (through static calls) dispatches with syncutil.Go or
// blocks on a channel.
func c02ReachesBlocking(g *ssa.Function) bool {
	return c02ReachesStatic(g, 3, c02IsBlockingInstr)
}

func c02IsBlockingInstr(in ssa.Instruction) bool {
	switch x := in.(type) {
	case *ssa.Select:
		return x.Blocking
	case *ssa.UnOp:
		return x.Op == token.ARROW
	case *ssa.Call:
		return CalleeName(x) == nGo
	}
	return false
}

// run analyses fn, whose parameter k is the task's LimitedRegion, entered in
// state entry; it records the obligations of fn and returns the state at its
// nil-error returns and at all returns.
func (pa *c02PermitAnalysis) run(fn *ssa.Function, k int, entry c02Permit, depth int) c02PermitSummary {
	const R4 = "C02.R4.permit-typestate"
	c := pa.c
	work := pa.work
	pa.work = nil
	key := c02PermitKey{fn, k, entry.s, entry.touched, work}
	if s, ok := pa.memo[key]; ok {
		return s
	}
	workParams := map[ssa.Value]bool{}
	if work != nil {
		for _, prm := range fn.Params {
			if _, isSig := prm.Type().Underlying().(*types.Signature); isSig {
				for al := range Aliases(prm) {
					workParams[al] = true
				}
			}
		}
	}
	tn := FnName(fn)
	if pa.visiting[key] || depth > 4 {
		c.Undecided(R4, tn+"|region-passed-recursively", fn.Pos(), "the LimitedRegion is handed down a recursive or too deep call chain")
		return c02PermitSummary{c02Mixed, c02Mixed}
	}
	pa.visiting[key] = true
	defer delete(pa.visiting, key)
	pa.Analysed[fn] = true

	// the region as fn sees it: parameter k, or (k < 0, a deferred closure)
	// the loads of the captured variable -(k+1)
	R := map[ssa.Value]bool{}
	if k >= 0 {
		R = Aliases(fn.Params[k])
	} else {
		for _, ref := range *fn.FreeVars[-(k + 1)].Referrers() {
			if ld, ok := ref.(*ssa.UnOp); ok && ld.Op == token.MUL {
				for a := range Aliases(ld) {
					R[a] = true
				}
			}
		}
	}
	isRegion := func(v ssa.Value) bool { return c02RootedIn(v, R) }
	// deferred closures of fn that captured the region: they run at RunDefers
	type deferredRegion struct {
		g *ssa.Function
		k int
	}
	var deferredClosures []deferredRegion
	handled := map[*ssa.MakeClosure]bool{}
	AllInstrs(fn, func(ins ssa.Instruction) {
		d, ok := ins.(*ssa.Defer)
		if !ok {
			return
		}
		mc, ok := d.Call.Value.(*ssa.MakeClosure)
		if !ok {
			return
		}
		for j, bnd := range mc.Bindings {
			a, isAlloc := bnd.(*ssa.Alloc)
			if !isAlloc || !isPtrToRegion(a.Type().(*types.Pointer).Elem()) {
				continue
			}
			holds := false
			for _, st := range storesTo(a) {
				if isRegion(st.Val) {
					holds = true
				}
			}
			if holds && !freeVarWritten(mc.Fn.(*ssa.Function), mc.Fn.(*ssa.Function).FreeVars[j]) {
				deferredClosures = append(deferredClosures, deferredRegion{mc.Fn.(*ssa.Function), -(j + 1)})
				handled[mc] = true
			}
		}
	})

	stepTable := c02StepTable(fn)
	if stepTable != nil && !stepTable.regionOK(isRegion) {
		c.Undecided(R4, tn+"|step-table", stepTable.Loop.Call.Pos(), "a step table starts the region in a step that is not the last one; the permit state cannot be followed")
		stepTable = nil
	}
	effects := map[ssa.Instruction]bool{}
	for _, p := range storageEffects(fn) {
		effects[p.(ssa.Instruction)] = true
	}

	// classify: what an instruction does to / requires of the permit
	type kind int
	const (
		kNone kind = iota
		kEnd
		kStart
		kPass // region handed to an in-module callee
		kBlock
		kEffect
	)
	classify := func(in ssa.Instruction) (kind, *ssa.Function, int) {
		if _, isDefer := in.(*ssa.Defer); isDefer {
			return kNone, nil, 0
		}
		if call, ok := in.(ssa.CallInstruction); ok {
			n := CalleeName(call)
			args := call.Common().Args
			if (n == nEnd || n == nStart) && len(args) > 0 && isRegion(args[0]) {
				if n == nEnd {
					return kEnd, nil, 0
				}
				return kStart, nil, 0
			}
			if g, off := c02CalleeOf(call); g != nil {
				for i, a := range args {
					if prm := c02ArgParam(g, off, i); prm != nil && isPtrToRegion(a.Type()) && isRegion(a) {
						return kPass, g, i + off
					}
				}
				if n != nGo && c02ReachesBlocking(g) {
					return kBlock, nil, 0
				}
			}
			if n == nGo {
				return kBlock, nil, 0
			}
			if stepTable != nil && in == ssa.Instruction(stepTable.Loop.Call) && stepTable.Blocks {
				return kBlock, nil, 0 // the steps of the table dispatch / wait
			}
			// the call of a function parameter for which the caller handed a closure that blocks
			if work != nil && !call.Common().IsInvoke() && c02RootedIn(call.Common().Value, workParams) && c02ReachesBlocking(work) {
				return kBlock, nil, 0
			}
			if effects[in] {
				return kEffect, nil, 0
			}
			return kNone, nil, 0
		}
		if c02IsBlockingInstr(in) {
			return kBlock, nil, 0
		}
		return kNone, nil, 0
	}

	passSummary := map[ssa.Instruction]c02PermitSummary{}
	seenAt := map[ssa.Instruction]map[int8]bool{} // permit states reaching a blocker / storage effect
	var order []ssa.Instruction
	sum := c02PermitSummary{}
	errIdx := ErrResultIndex(fn.Signature)
	// nilMeans: the state when the error of the last transition (a Start, a
	// callee that received the region) turns out nil
	nilMeans := func(u c02Permit, v ssa.Value) (int8, bool) {
		lc, ok := u.last.(ssa.CallInstruction)
		if !ok || v == nil {
			return 0, false
		}
		if e := ErrOf(lc); e == nil || (e != v && e != strip(v)) {
			return 0, false
		}
		if CalleeName(lc) == nStart {
			return c02Held, true
		}
		if ps, ok := passSummary[u.last]; ok {
			return ps.exitNil, true
		}
		return 0, false
	}
	ex := newC02Explorer(fn)
	ex.instr = func(ins ssa.Instruction, env *c02Env) bool {
		st := &env.user
		kd, g, gi := classify(ins)
		switch kd {
		case kBlock, kEffect:
			if kd == kEffect && !st.touched {
				break
			}
			if seenAt[ins] == nil {
				seenAt[ins] = map[int8]bool{}
				order = append(order, ins)
			}
			seenAt[ins][st.s] = true
		case kEnd:
			*st = c02Permit{s: c02Released, last: ins, touched: true}
		case kStart:
			*st = c02Permit{s: st.s, last: ins, touched: true}
		case kPass:
			for _, a := range ins.(ssa.CallInstruction).Common().Args {
				if mc, isMC := a.(*ssa.MakeClosure); isMC {
					pa.work = mc.Fn.(*ssa.Function)
				}
			}
			ps := pa.run(g, gi, c02Permit{s: st.s, touched: st.touched}, depth+1)
			pa.work = nil
			passSummary[ins] = ps
			*st = c02Permit{s: ps.exitAny, last: ins, touched: true}
			if ErrResultIndex(g.Signature) < 0 {
				st.s = ps.exitNil
			}
		}
		if _, ok := ins.(*ssa.RunDefers); ok {
			for i := len(deferredClosures) - 1; i >= 0; i-- {
				dc := deferredClosures[i]
				ps := pa.run(dc.g, dc.k, c02Permit{s: st.s, touched: st.touched}, depth+1)
				*st = c02Permit{s: ps.exitAny, touched: true}
			}
		}
		if r, ok := ins.(*ssa.Return); ok {
			sum.exitAny = c02Join(c02Permit{s: sum.exitAny}, c02Permit{s: st.s}).s
			s, nilable := st.s, true
			if errIdx >= 0 {
				v := r.Results[errIdx]
				switch ex.nilness(v, env) {
				case 2:
					nilable = false
				case 0:
					if ns, ok := nilMeans(*st, ex.res(v, env)); ok {
						s = ns
					}
				}
			}
			if nilable {
				sum.exitNil = c02Join(c02Permit{s: sum.exitNil}, c02Permit{s: s}).s
			}
		}
		return true
	}
	ex.edge = func(e Edge, tested ssa.Value, isNil bool, env *c02Env) bool {
		if tested != nil && isNil {
			if ns, ok := nilMeans(env.user, tested); ok {
				env.user.s = ns
			}
		}
		if stepTable != nil && e == stepTable.Loop.Done && stepTable.StartLast {
			env.user.s = c02Held // every step ran, the last one being a successful region.Start()
			env.user.touched = true
		}
		return true
	}
	ex.run(entry)
	if ex.exceeded {
		c.Undecided(R4, tn+"|path-budget", fn.Pos(), "too many distinct paths to follow the permit state")
	}
	for _, ins := range order {
		states := seenAt[ins]
		var names []string
		for _, s := range []int8{c02Held, c02Released, c02Mixed} {
			if states[s] {
				names = append(names, c02StateName(s))
			}
		}
		if kd, _, _ := classify(ins); kd == kBlock {
			ok := len(states) == 1 && states[c02Released]
			c.Check(R4, tn+"|released-at:"+instrLabel(ins), ins.Pos(), ok,
				ifelse(ok, "the permit is released (region.End(), no Start since) on every path to this blocking operation",
					"the limiter permit may still be held at this blocking operation (with Concurrency=1 the copy deadlocks); state: "+strings.Join(names, " / ")))
		} else {
			ok := len(states) == 1 && states[c02Held]
			c.Check(R4, tn+"|held-at:"+instrLabel(ins), ins.Pos(), ok,
				ifelse(ok, "the permit is held (a successful region.Start() after every region.End()) at this storage effect",
					"storage effect reachable after region.End() without re-acquiring the permit (concurrency bound exceeded); state: "+strings.Join(names, " / ")))
		}
	}
	// a closure that captures the region and ends/starts it is out of reach
	AllInstrs(fn, func(ins ssa.Instruction) {
		mc, ok := ins.(*ssa.MakeClosure)
		if !ok || handled[mc] {
			return
		}
		if stepTable != nil && stepTable.startAt >= 0 && stepTable.Loop.Steps[stepTable.startAt] == ssa.Value(mc) {
			return // the region.Start step of the table, accounted for on its Done edge
		}
		for _, bnd := range mc.Bindings {
			captured := isRegion(bnd)
			if a, isAlloc := bnd.(*ssa.Alloc); isAlloc {
				for _, s := range storesTo(a) {
					if isRegion(s.Val) {
						captured = true
					}
				}
			}
			if captured && reachesCall(mc.Fn.(*ssa.Function), 2, func(n string, _ ssa.CallInstruction) bool { return n == nEnd || n == nStart }) {
				c.Undecided(R4, tn+"|region-captured", mc.Pos(), "the LimitedRegion is captured by a closure that ends or starts it; the permit state cannot be followed")
			}
		}
	})
	if sum.exitNil == c02Bot {
		sum.exitNil = sum.exitAny
	}
	pa.memo[key] = sum
	return sum
}

func isPtrToRegion(t types.Type) bool {
	p, ok := t.Underlying().(*types.Pointer)
	return ok && c02IsRegionType(p.Elem())
}

// c02EndsOnEveryExit: every return of fn is preceded by region.End() — a
// direct or deferred call, or a call (or deferred call) of an in-module helper
// that itself ends the region on every exit.
func c02EndsOnEveryExit(fn *ssa.Function, depth int) bool {
	if depth > 2 {
		return false
	}
	ct := newCut()
	n := 0
	for _, call := range Calls(fn, func(string) bool { return true }) {
		if CalleeName(call) == nEnd {
			ct.Instr(call.(ssa.Instruction))
			n++
			continue
		}
		g, _ := c02CalleeOf(call)
		if g == nil || g == fn {
			continue
		}
		passes := false
		for _, a := range call.Common().Args {
			if isPtrToRegion(a.Type()) {
				passes = true
			}
		}
		if passes && c02EndsOnEveryExit(g, depth+1) {
			ct.Instr(call.(ssa.Instruction))
			n++
		}
	}
	if n == 0 {
		return false
	}
	for _, r := range Returns(fn) {
		if !MustPass(r, ct) {
			return false
		}
	}
	return true
}

// c02TaskCall is a call of the task function (the dynamic callee that
// receives the LimitedRegion) found in the goroutine body or in a helper the
// body statically calls; chain lists the calls leading from the body to it.
type c02TaskCall struct {
	call  ssa.CallInstruction
	chain []ssa.CallInstruction // innermost first
}

func c02TaskCalls(f *ssa.Function, chain []ssa.CallInstruction, depth int) []c02TaskCall {
	var out []c02TaskCall
	for _, call := range Calls(f, func(string) bool { return true }) {
		if _, isDefer := call.(*ssa.Defer); isDefer {
			continue
		}
		cc := call.Common()
		if cc.IsInvoke() {
			continue
		}
		if _, isBuiltin := cc.Value.(*ssa.Builtin); isBuiltin {
			continue
		}
		passesRegion := false
		for _, a := range cc.Args {
			if isPtrToRegion(a.Type()) {
				passesRegion = true
			}
		}
		g, _ := c02CalleeOf(call)
		if g == nil {
			if passesRegion && StaticCallee(call) == nil && ErrResultIndex(cc.Signature()) >= 0 {
				out = append(out, c02TaskCall{call, chain})
			}
			continue
		}
		if depth < 2 && g != f {
			out = append(out, c02TaskCalls(g, append([]ssa.CallInstruction{call}, chain...), depth+1)...)
		}
	}
	return out
}

// c02DispatchBody: the function in which fn's node dispatches its successors:
// fn itself, or the unique in-module function it statically calls (to the
// given depth) that does.
func c02DispatchBody(fn *ssa.Function, depth int) *ssa.Function {
	if len(c02DispatchedSlices(fn)) > 0 {
		return fn
	}
	if wb := c02ClosureBody(fn); wb != nil {
		return wb.Body
	}
	if depth == 0 {
		return nil
	}
	var found []*ssa.Function
	for _, call := range Calls(fn, func(string) bool { return true }) {
		if _, isDefer := call.(*ssa.Defer); isDefer {
			continue
		}
		g, _ := c02CalleeOf(call)
		if g == nil || g == fn {
			continue
		}
		if b := c02DispatchBody(g, depth-1); b != nil {
			dup := false
			for _, f := range found {
				if f == b {
					dup = true
				}
			}
			if !dup {
				found = append(found, b)
			}
		}
	}
	if len(found) == 1 {
		return found[0]
	}
	return nil
}

// ---------- feasible-path exploration ----------

// c02Env is what is known on the path being explored: the nil-ness of
// error-typed SSA values established by the branches taken, and the current
// content of the function's local error variables.
type c02Env struct {
	nilOf   map[ssa.Value]int8       // 1 nil, 2 non-nil
	alias   map[ssa.Value]ssa.Value  // load of an error variable / phi -> the value it denotes on this path
	holder  map[*ssa.Alloc]ssa.Value // current content of a tracked error variable (nil: unknown)
	cellNil map[*ssa.Alloc]int8
	boolOf  map[ssa.Value]int8 // 1 true, 2 false: booleans decided by the edges taken (`a && b` lowered to a phi)
	user    c02Permit
}

func (e *c02Env) clone() *c02Env {
	n := &c02Env{nilOf: map[ssa.Value]int8{}, alias: map[ssa.Value]ssa.Value{}, holder: map[*ssa.Alloc]ssa.Value{}, cellNil: map[*ssa.Alloc]int8{}, boolOf: map[ssa.Value]int8{}, user: e.user}
	for k, v := range e.boolOf {
		n.boolOf[k] = v
	}
	for k, v := range e.nilOf {
		n.nilOf[k] = v
	}
	for k, v := range e.alias {
		n.alias[k] = v
	}
	for k, v := range e.holder {
		n.holder[k] = v
	}
	for k, v := range e.cellNil {
		n.cellNil[k] = v
	}
	return n
}

// c02Explorer walks the feasible paths of fn from its entry: a branch on
// `v == nil` whose outcome is already known on the path (v was tested before,
// v is the error variable that still holds a value tested before, v is a phi
// selected by the edge taken) follows only the feasible edge.
type c02Explorer struct {
	fn       *ssa.Function
	tracked  map[*ssa.Alloc]bool
	ids      map[any]int
	visited  map[string]bool
	budget   int
	exceeded bool
	instr    func(in ssa.Instruction, env *c02Env) bool
	edge     func(e Edge, tested ssa.Value, isNil bool, env *c02Env) bool
}

func newC02Explorer(fn *ssa.Function) *c02Explorer {
	ex := &c02Explorer{fn: fn, tracked: map[*ssa.Alloc]bool{}, ids: map[any]int{}, visited: map[string]bool{}, budget: 20000}
	AllInstrs(fn, func(in ssa.Instruction) {
		if a, ok := in.(*ssa.Alloc); ok && isErrorType(a.Type().(*types.Pointer).Elem()) && len(closureWriters(a)) == 0 {
			onlyCell := true
			for _, r := range *a.Referrers() {
				switch u := r.(type) {
				case *ssa.Store:
					if u.Addr != a {
						onlyCell = false
					}
				case *ssa.UnOp, *ssa.MakeClosure, *ssa.DebugRef:
				default:
					onlyCell = false // address escapes
				}
			}
			if onlyCell {
				ex.tracked[a] = true
			}
		}
	})
	return ex
}

func (ex *c02Explorer) id(x any) int {
	if n, ok := ex.ids[x]; ok {
		return n
	}
	n := len(ex.ids) + 1
	ex.ids[x] = n
	return n
}

// res: the value v denotes on this path (through wrappers, loads of error
// variables and phis resolved when their block was entered).
func (ex *c02Explorer) res(v ssa.Value, env *c02Env) ssa.Value {
	for i := 0; i < 8 && v != nil; i++ {
		v = strip(v)
		a, ok := env.alias[v]
		if !ok || a == nil {
			break
		}
		v = a
	}
	return v
}

func (ex *c02Explorer) nilness(v ssa.Value, env *c02Env) int8 {
	if n := env.nilOf[v]; n != 0 {
		return n
	}
	r := ex.res(v, env)
	if r == nil {
		return 0
	}
	if n := env.nilOf[r]; n != 0 {
		return n
	}
	switch ErrNilStatus(r, 0) {
	case IsNil:
		return 1
	case NonNil:
		return 2
	}
	return 0
}

func (ex *c02Explorer) key(b, pred *ssa.BasicBlock, env *c02Env) string {
	var parts []string
	for k, v := range env.nilOf {
		parts = append(parts, fmt.Sprintf("n%d=%d", ex.id(k), v))
	}
	for k, v := range env.alias {
		parts = append(parts, fmt.Sprintf("a%d=%d", ex.id(k), ex.id(v)))
	}
	for k, v := range env.holder {
		parts = append(parts, fmt.Sprintf("h%d=%d", ex.id(k), ex.id(v)))
	}
	for k, v := range env.cellNil {
		parts = append(parts, fmt.Sprintf("c%d=%d", ex.id(k), v))
	}
	for k, v := range env.boolOf {
		parts = append(parts, fmt.Sprintf("b%d=%d", ex.id(k), v))
	}
	sortStrings(parts)
	pi := -1
	if pred != nil {
		pi = pred.Index
	}
	return fmt.Sprintf("%d<%d|%d,%d,%v|%s", b.Index, pi, env.user.s, ex.id(env.user.last), env.user.touched, strings.Join(parts, ","))
}

func sortStrings(a []string) {
	for i := 1; i < len(a); i++ {
		for j := i; j > 0 && a[j] < a[j-1]; j-- {
			a[j], a[j-1] = a[j-1], a[j]
		}
	}
}

func (ex *c02Explorer) run(user c02Permit) {
	env := &c02Env{nilOf: map[ssa.Value]int8{}, alias: map[ssa.Value]ssa.Value{}, holder: map[*ssa.Alloc]ssa.Value{}, cellNil: map[*ssa.Alloc]int8{}, boolOf: map[ssa.Value]int8{}, user: user}
	ex.walk(ex.fn.Blocks[0], nil, env)
}

// forget drops what was known about a value that is being (re)defined.
func (ex *c02Explorer) forget(v ssa.Value, env *c02Env) {
	delete(env.nilOf, v)
	delete(env.alias, v)
	delete(env.boolOf, v)
	for a, h := range env.holder {
		if h == v {
			env.holder[a] = nil
		}
	}
	for k, h := range env.alias {
		if h == v {
			delete(env.alias, k)
		}
	}
}

func (ex *c02Explorer) walk(b, pred *ssa.BasicBlock, env *c02Env) {
	if ex.exceeded {
		return
	}
	// phis of this block denote the value coming in over the edge taken
	type phiVal struct {
		phi *ssa.Phi
		v   ssa.Value
		n   int8
	}
	var phis []phiVal
	if pred != nil {
		for _, in := range b.Instrs {
			phi, ok := in.(*ssa.Phi)
			if !ok {
				break
			}
			if !isErrorType(phi.Type()) {
				continue
			}
			for i, p := range b.Preds {
				if p == pred {
					phis = append(phis, phiVal{phi, ex.res(phi.Edges[i], env), ex.nilness(phi.Edges[i], env)})
				}
			}
		}
	}
	// boolean phis: the value selected by the edge taken
	if pred != nil {
		type bphi struct {
			phi *ssa.Phi
			v   int8
		}
		var bs []bphi
		for _, in := range b.Instrs {
			phi, ok := in.(*ssa.Phi)
			if !ok {
				break
			}
			if bt, isB := phi.Type().Underlying().(*types.Basic); !isB || bt.Kind() != types.Bool {
				continue
			}
			for i, p := range b.Preds {
				if p != pred {
					continue
				}
				var v int8
				if cst, isC := phi.Edges[i].(*ssa.Const); isC && cst.Value != nil {
					v = 2
					if cst.Value.String() == "true" {
						v = 1
					}
				} else {
					v = env.boolOf[phi.Edges[i]]
				}
				bs = append(bs, bphi{phi, v})
			}
		}
		for _, x := range bs {
			delete(env.boolOf, x.phi)
			if x.v != 0 {
				env.boolOf[x.phi] = x.v
			}
		}
	}
	for _, pv := range phis {
		ex.forget(pv.phi, env)
	}
	for _, pv := range phis {
		if pv.v != nil && pv.v != ssa.Value(pv.phi) {
			env.alias[pv.phi] = pv.v
		}
		if pv.n != 0 {
			env.nilOf[pv.phi] = pv.n
		}
	}
	k := ex.key(b, pred, env)
	if ex.visited[k] {
		return
	}
	ex.visited[k] = true
	ex.budget--
	if ex.budget < 0 {
		ex.exceeded = true
		return
	}
	take := func(e Edge, tested ssa.Value, isNil bool, env *c02Env) {
		if ex.edge != nil && !ex.edge(e, tested, isNil, env) {
			return
		}
		ex.walk(e.To, e.From, env)
	}
	for _, in := range b.Instrs {
		if _, isPhi := in.(*ssa.Phi); isPhi {
			continue
		}
		if v, ok := in.(ssa.Value); ok && isErrorTypeOrTuple(v.Type()) {
			ex.forget(v, env)
		} else if ok {
			delete(env.boolOf, v)
		}
		switch x := in.(type) {
		case *ssa.Alloc:
			if ex.tracked[x] {
				env.holder[x] = nil
				env.cellNil[x] = 1
			}
		case *ssa.Store:
			if a, ok := x.Addr.(*ssa.Alloc); ok && ex.tracked[a] {
				env.holder[a] = ex.res(x.Val, env)
				env.cellNil[a] = ex.nilness(x.Val, env)
			}
		case *ssa.UnOp:
			if a, ok := x.X.(*ssa.Alloc); ok && x.Op == token.MUL && ex.tracked[a] {
				if h := env.holder[a]; h != nil {
					env.alias[x] = h
				}
				if n := env.cellNil[a]; n != 0 {
					env.nilOf[x] = n
				}
			}
		}
		if ex.instr != nil && !ex.instr(in, env) {
			return
		}
		switch x := in.(type) {
		case *ssa.Return, *ssa.Panic:
			return
		case *ssa.If:
			cond, t, f := ifEdges(x)
			if bo, ok := cond.(*ssa.BinOp); ok && (bo.Op == token.EQL || bo.Op == token.NEQ) {
				var v ssa.Value
				if isNilConst(bo.Y) {
					v = bo.X
				} else if isNilConst(bo.X) {
					v = bo.Y
				}
				if v != nil && isErrorType(v.Type()) {
					nilE, nonNilE := t, f
					if bo.Op == token.NEQ {
						nilE, nonNilE = f, t
					}
					r := ex.res(v, env)
					n := ex.nilness(v, env)
					for _, br := range []struct {
						e Edge
						n int8
					}{{nilE, 1}, {nonNilE, 2}} {
						if n != 0 && n != br.n {
							continue // infeasible on this path
						}
						ne := env.clone()
						ne.nilOf[v] = br.n
						if r != nil {
							ne.nilOf[r] = br.n
							for a, h := range ne.holder {
								if h == r {
									ne.cellNil[a] = br.n
								}
							}
						}
						take(br.e, r, br.n == 1, ne)
					}
					return
				}
			}
			if known := env.boolOf[cond]; known == 1 {
				take(t, nil, false, env.clone())
			} else if known == 2 {
				take(f, nil, false, env.clone())
			} else {
				_, isPhi := cond.(*ssa.Phi)
				te, fe := env.clone(), env.clone()
				if !isPhi { // remember the outcome of a plain boolean for a later `&&` phi
					te.boolOf[cond], fe.boolOf[cond] = 1, 2
				}
				take(t, nil, false, te)
				take(f, nil, false, fe)
			}
			return
		}
	}
	for _, sc := range b.Succs {
		take(Edge{b, sc}, nil, false, env.clone())
	}
}

func isErrorTypeOrTuple(t types.Type) bool {
	if isErrorType(t) {
		return true
	}
	if tup, ok := t.(*types.Tuple); ok {
		for i := 0; i < tup.Len(); i++ {
			if isErrorType(tup.At(i).Type()) {
				return true
			}
		}
	}
	return false
}

// c02MustPassPS: every feasible path from the entry of fn to target takes a
// static cut edge / executes a cut instruction, or takes the nil edge of a test
// of one of the error values in okErrs (the error result of a completed wait).
func c02MustPassPS(fn *ssa.Function, target ssa.Instruction, ct *cut, okErrs map[ssa.Value]bool) (must bool, exceeded bool) {
	ex := newC02Explorer(fn)
	found := false
	ex.instr = func(in ssa.Instruction, env *c02Env) bool {
		if in == target {
			found = true
			return false
		}
		return !found && !ct.instrs[in]
	}
	ex.edge = func(e Edge, tested ssa.Value, isNil bool, env *c02Env) bool {
		if found || ct.edges[e] {
			return false
		}
		if tested != nil && isNil && (okErrs[tested] || okErrs[strip(tested)]) {
			return false
		}
		return true
	}
	ex.run(c02Permit{})
	return !found, ex.exceeded
}

// c02SentinelNames names the sentinel error(s) v denotes (as sentinelName
// does), also through a captured variable and through a parameter (what the
// call sites pass).
func c02SentinelNames(v ssa.Value, depth int) []string {
	if depth > 3 {
		return nil
	}
	if n := sentinelName(v); n != "" {
		return []string{n}
	}
	var out []string
	for _, r := range Roots(v) {
		switch u := r.(type) {
		case *ssa.UnOp:
			if fv, ok := u.X.(*ssa.FreeVar); ok && u.Op == token.MUL {
				for _, val := range c02CellValues(fv, 0) {
					out = append(out, c02SentinelNames(val, depth+1)...)
				}
			}
		case *ssa.Parameter:
			if c02P != nil && u.Parent() != nil && inModule(u.Parent()) {
				for _, a := range c02ParamArgs(c02P, u) {
					out = append(out, c02SentinelNames(a, depth+1)...)
				}
			}
		}
	}
	return out
}

// c02ToleratedEdges is toleratedEdges (errflow.go) with c02SentinelNames: the
// edges on which the error is known to be a tolerated sentinel.
func c02ToleratedEdges(fn *ssa.Function, aliases map[ssa.Value]bool, tolerated []string) []Edge {
	out := toleratedEdges(fn, aliases, tolerated)
	if len(tolerated) == 0 {
		return out
	}
	tol := map[string]bool{}
	for _, t := range tolerated {
		tol[t] = true
	}
	isTol := func(v ssa.Value) bool {
		ns := c02SentinelNames(v, 0)
		for _, n := range ns {
			if !tol[n] {
				return false
			}
		}
		return len(ns) > 0
	}
	have := map[Edge]bool{}
	for _, e := range out {
		have[e] = true
	}
	for _, i := range Ifs(fn) {
		cond, t, f := ifEdges(i)
		var e Edge
		switch c := cond.(type) {
		case *ssa.Call:
			if CalleeName(c) != "errors.Is" || len(c.Call.Args) != 2 || !aliases[c.Call.Args[0]] || !isTol(c.Call.Args[1]) {
				continue
			}
			e = t
		case *ssa.BinOp:
			if c.Op != token.EQL && c.Op != token.NEQ {
				continue
			}
			var other ssa.Value
			if aliases[c.X] {
				other = c.Y
			} else if aliases[c.Y] {
				other = c.X
			} else {
				continue
			}
			if !isTol(other) {
				continue
			}
			e = t
			if c.Op == token.NEQ {
				e = f
			}
		default:
			continue
		}
		if !have[e] {
			have[e] = true
			out = append(out, e)
		}
	}
	return out
}

// c02CallbackSentinels: the skip sentinels that a function-typed argument of
// the call (a closure created in the caller, possibly delegating to further
// function values) can return: local errors.New values and unexported
// package-level variables of the root package.
func c02CallbackSentinels(call ssa.CallInstruction) []string {
	var out []string
	seen := map[string]bool{}
	visited := map[*ssa.Function]bool{}
	var rec func(fn *ssa.Function, depth int)
	rec = func(fn *ssa.Function, depth int) {
		idx := ErrResultIndex(fn.Signature)
		if idx < 0 || len(fn.Blocks) == 0 || visited[fn] || depth > 3 {
			return
		}
		visited[fn] = true
		for _, at := range RetAtoms(fn, idx) {
			var cl *ssa.Call
			switch x := strip(at.Val).(type) {
			case *ssa.Call:
				cl = x
			case *ssa.Extract:
				cl, _ = x.Tuple.(*ssa.Call)
			}
			if cl != nil && CalleeName(cl) != "errors.New" {
				if cl.Call.IsInvoke() {
					continue
				}
				if g := StaticCallee(cl); g != nil {
					if inModule(g) {
						rec(g, depth+1)
					}
					continue
				}
				for _, t := range c02FuncTargets(cl.Call.Value, 0) {
					rec(t.Fn, depth+1)
				}
				continue
			}
			for _, n := range c02SentinelNames(at.Val, 0) {
				local := strings.HasPrefix(n, "local:")
				if rest := strings.TrimPrefix(n, "~."); rest != n && rest != "" && !strings.Contains(rest, ".") && rest[0] >= 'a' && rest[0] <= 'z' {
					local = true
				}
				if local && !seen[n] {
					seen[n] = true
					out = append(out, n)
				}
			}
		}
	}
	for _, a := range call.Common().Args {
		if _, ok := a.Type().Underlying().(*types.Signature); !ok {
			continue
		}
		for _, t := range c02FuncTargets(a, 0) {
			rec(t.Fn, 0)
		}
	}
	return out
}

// c02StartsOnSuccess: every nil-error return of h lies behind a successful
// region.Start() (h returns Start's error, or returns after its nil edge).
func c02StartsOnSuccess(h *ssa.Function) bool {
	starts := CallsTo(h, nStart)
	if len(starts) == 0 || ErrResultIndex(h.Signature) < 0 {
		return false
	}
	ct := newCut()
	isStartErr := map[ssa.Value]bool{}
	for _, st := range starts {
		if e := ErrOf(st); e != nil {
			ma := c02MustAliases(e)
			ne, _, _ := NilTests(h, ma)
			ct.Edges(ne...)
			for a := range ma {
				isStartErr[a] = true
			}
		}
	}
	for _, a := range c02NilableAtoms(h) {
		if isStartErr[a.Val] || isStartErr[strip(a.Val)] {
			continue
		}
		if !AtomMustPass(a, ct) {
			return false
		}
	}
	return true
}

// c02AcquireEdges: the edges of G on which a permit has been acquired.
func c02AcquireEdges(G *ssa.Function) []Edge {
	var out []Edge
	for _, call := range Calls(G, func(string) bool { return true }) {
		if _, isDefer := call.(*ssa.Defer); isDefer {
			continue
		}
		ok := CalleeName(call) == nStart
		if !ok {
			if h, _ := c02CalleeOf(call); h != nil && h != G && c02StartsOnSuccess(h) {
				ok = true
			}
		}
		if ok {
			if e := ErrOf(call); e != nil {
				ne, _, _ := NilTests(G, c02MustAliases(e))
				out = append(out, ne...)
			}
		}
	}
	return out
}

// c02OriginFields: the struct field(s) a function value was loaded from.  A
// field of an unexported struct of the root package that merely carries
// values copied from other fields (a "copier" struct filled from the options)
// resolves to those fields.
func c02OriginFields(p *Prog, v ssa.Value, depth int) []string {
	var t types.Type
	fieldIdx := -1
	switch u := v.(type) {
	case *ssa.UnOp:
		if fa, ok := u.X.(*ssa.FieldAddr); ok && u.Op == token.MUL {
			t, fieldIdx = fa.X.Type(), fa.Field
		}
	case *ssa.Field:
		t, fieldIdx = u.X.Type(), u.Field
	}
	name := fieldOfFuncValue(v)
	if name == "" {
		return nil
	}
	if t == nil || depth > 2 {
		return []string{name}
	}
	if pt, ok := t.Underlying().(*types.Pointer); ok {
		t = pt.Elem()
	}
	n, ok := t.(*types.Named)
	if !ok || n.Obj().Exported() || n.Obj().Pkg() == nil || n.Obj().Pkg().Path() != Mod {
		return []string{name}
	}
	// every store into this field, anywhere in the root package
	var out []string
	stores := 0
	for _, f := range p.FuncsOfPkg("") {
		AllInstrs(f, func(in ssa.Instruction) {
			st, ok := in.(*ssa.Store)
			if !ok {
				return
			}
			dst, ok := st.Addr.(*ssa.FieldAddr)
			if !ok || dst.Field != fieldIdx || fieldName(dst.X.Type(), dst.Field) != name {
				return
			}
			stores++
			for _, r := range Roots(st.Val) {
				out = append(out, c02OriginFields(p, r, depth+1)...)
			}
		})
	}
	if stores == 0 || len(out) == 0 {
		return []string{name}
	}
	return out
}

// ---------- tolerated sentinels are not aliased ----------

// c02ToleratedGlobals: the package-level sentinels C02 tolerates at a
// monitored call (package path relative to the module, variable name, where).
var c02ToleratedGlobals = []struct{ pkg, name, where string }{
	{"errdef", "ErrAlreadyExists", "after Pusher.Push / ReferencePusher.PushReference"},
	{"", "SkipNode", "after the PreCopy callback"},
}

// c02ToleratedSentinels (R3, soundness of the tolerated idioms): a sentinel
// that the copy tolerates with errors.Is / == must denote exactly its own
// condition.  No other package-level error value of the module may be built to
// match it under errors.Is — initialised from it directly, by fmt.Errorf with
// a %w verb, errors.Join or any other wrapping constructor — and no error type
// of the module may match it in an Is / Unwrap method: a store could then
// return that value for a different condition ("duplicate name") and the copy
// would drop the node and report success.
func c02ToleratedSentinels(c *Ctx) {
	const R = "C02.R3.tolerated-sentinel-not-aliased"
	c.Expect(R, len(c02ToleratedGlobals))
	for _, tg := range c02ToleratedGlobals {
		sp := c.P.SPkgs[pkgPath(tg.pkg)]
		var S *ssa.Global
		if sp != nil {
			S = sp.Var(tg.name)
		}
		sn := short(pkgPath(tg.pkg) + "." + tg.name)
		if S == nil {
			c.LostAnchor(R, "tolerated sentinel "+sn)
			continue
		}
		scanned, bad := 0, 0
		for path, pk := range c.P.SPkgs {
			if !strings.HasPrefix(path, Mod) {
				continue
			}
			// (a) package-level variables whose initial value derives from S
			if init := pk.Func("init"); init != nil {
				loads := map[ssa.Value]bool{}
				AllInstrs(init, func(in ssa.Instruction) {
					if u, ok := in.(*ssa.UnOp); ok && u.Op == token.MUL && u.X == ssa.Value(S) {
						loads[u] = true
					}
				})
				AllInstrs(init, func(in ssa.Instruction) {
					st, ok := in.(*ssa.Store)
					if !ok {
						return
					}
					g, ok := st.Addr.(*ssa.Global)
					if !ok || g == S {
						return
					}
					scanned++
					if len(loads) == 0 || !c02WrapsSentinel(st.Val, loads, 0) {
						return
					}
					bad++
					c.Violation(R, sn+"|"+short(g.Pkg.Pkg.Path()+"."+g.Name()), st.Pos(),
						fmt.Sprintf("package-level error %s is built from %s (%s), so errors.Is(err, %s) — which the copy tolerates %s — also matches it: a store returning it for its own condition makes the copy drop the node and report success",
							short(g.Pkg.Pkg.Path()+"."+g.Name()), sn, describe(st.Val), sn, tg.where))
				})
			}
			// (b) Is / Unwrap methods of module types that consult S
			for f := range c.P.All {
				if f.Pkg != pk || f.Signature.Recv() == nil || len(f.Blocks) == 0 {
					continue
				}
				if n := f.Name(); n != "Is" && n != "Unwrap" {
					continue
				}
				reads := false
				AllInstrs(f, func(in ssa.Instruction) {
					if u, ok := in.(*ssa.UnOp); ok && u.Op == token.MUL && u.X == ssa.Value(S) {
						reads = true
					}
				})
				scanned++
				if reads {
					bad++
					c.Violation(R, sn+"|"+FnName(f), f.Pos(),
						fmt.Sprintf("%s makes errors of its type match %s under errors.Is, which the copy tolerates %s", FnName(f), sn, tg.where))
				}
			}
		}
		if bad == 0 {
			c.OK(R, sn+"|no-alias", S.Pos(), fmt.Sprintf("no other package-level error value (%d initialisers and Is/Unwrap methods of the module examined) wraps or matches the sentinel tolerated %s", scanned, tg.where))
		}
	}
}

// c02WrapsSentinel: v is (or is constructed from) one of the loads of the
// sentinel in a way that keeps it visible to errors.Is: the value itself, any
// constructor receiving it — except fmt.Errorf whose constant format has no %w.
func c02WrapsSentinel(v ssa.Value, loads map[ssa.Value]bool, depth int) bool {
	if depth > 6 || v == nil {
		return false
	}
	for _, r := range Roots(v) {
		if loads[r] {
			return true
		}
		switch u := r.(type) {
		case *ssa.Call:
			if CalleeName(u) == "fmt.Errorf" && len(u.Call.Args) > 0 {
				if f, ok := constString(u.Call.Args[0]); ok && !strings.Contains(f, "%w") {
					continue
				}
			}
			for _, a := range u.Call.Args {
				if c02WrapsSentinel(a, loads, depth+1) {
					return true
				}
			}
		case *ssa.Slice:
			if c02WrapsSentinel(u.X, loads, depth+1) {
				return true
			}
		case *ssa.Alloc:
			for _, ref := range *u.Referrers() {
				switch a := ref.(type) {
				case *ssa.FieldAddr, *ssa.IndexAddr:
					for _, r2 := range *a.(ssa.Value).Referrers() {
						if st, ok := r2.(*ssa.Store); ok && c02WrapsSentinel(st.Val, loads, depth+1) {
							return true
						}
					}
				case *ssa.Store:
					if a.Addr == ssa.Value(u) && c02WrapsSentinel(a.Val, loads, depth+1) {
						return true
					}
				}
			}
		}
	}
	return false
}

// c02FindCalls: the calls of `name` in f or in the in-module functions f
// statically calls (depth 2), with the chain of calls leading there
// (innermost first).
func c02FindCalls(f *ssa.Function, name string, chain []ssa.CallInstruction, depth int) []c02TaskCall {
	var out []c02TaskCall
	for _, call := range Calls(f, func(string) bool { return true }) {
		if _, isDefer := call.(*ssa.Defer); isDefer {
			continue
		}
		if CalleeName(call) == name {
			out = append(out, c02TaskCall{call, chain})
			continue
		}
		if depth < 2 {
			if g, _ := c02CalleeOf(call); g != nil && g != f {
				out = append(out, c02FindCalls(g, name, append([]ssa.CallInstruction{call}, chain...), depth+1)...)
			}
		}
	}
	return out
}

// ---------- range-over-func yield bodies ----------

// c02YieldBody: fn is the yield closure go/ssa synthesises for the body of a
// `for x := range seq` loop over a function iterator: a closure returning
// bool that captured the synthesized jump variable of its parent.  Returns
// the parent's MakeClosure and the jump variable.
func c02YieldBody(fn *ssa.Function) (*ssa.MakeClosure, *ssa.Alloc) {
	par := fn.Parent()
	if par == nil || fn.Signature.Results().Len() != 1 {
		return nil, nil
	}
	if b, ok := fn.Signature.Results().At(0).Type().Underlying().(*types.Basic); !ok || b.Kind() != types.Bool {
		return nil, nil
	}
	var mc *ssa.MakeClosure
	AllInstrs(par, func(in ssa.Instruction) {
		if m, ok := in.(*ssa.MakeClosure); ok && m.Fn == fn {
			mc = m
		}
	})
	if mc == nil {
		return nil, nil
	}
	for _, b := range mc.Bindings {
		if a, ok := b.(*ssa.Alloc); ok && strings.HasPrefix(a.Comment, "jump$") {
			return mc, a
		}
	}
	return nil, nil
}

// c02YieldErrFlow decides the error discipline of a call inside a
// range-over-func loop body.  There "return ..., err" is lowered to: store
// the results into the enclosing function's (captured) result variables, set
// the jump variable to the exit code k, return false from the yield closure;
// the enclosing function, after the iterator call, returns those variables on
// the `jump == k` branch.  The failure surfaces iff, on every path from the
// non-nil edge (or from the call, when the error is stored untested), the body
// stores the error (or a wrapper) into the captured error result, is not
// followed by another store there, leaves with `return false` and an exit
// code whose branch in the enclosing function returns that variable.
func c02YieldErrFlow(call ssa.CallInstruction, o ErrFlowOpts) (ErrFlowResult, bool) {
	fn := call.Parent()
	mc, jumpVar := c02YieldBody(fn)
	if mc == nil {
		return ErrFlowResult{}, false
	}
	if _, isDefer := call.(*ssa.Defer); isDefer {
		return ErrFlowResult{}, false
	}
	e := ErrOf(call)
	if e == nil {
		return ErrFlowResult{OK: false, Detail: "error result is discarded (never extracted)", At: call.Pos()}, true
	}
	par := fn.Parent()
	if pm, _ := c02YieldBody(par); pm != nil {
		return ErrFlowResult{OK: false, Detail: "nested range-over-func bodies: exit protocol not followed (undecided shape)", At: call.Pos()}, true
	}
	parErrIdx := ErrResultIndex(par.Signature)
	if parErrIdx < 0 {
		return ErrFlowResult{OK: false, Detail: "the function enclosing the range-over-func loop has no error result", At: call.Pos()}, true
	}
	binding := map[*ssa.FreeVar]*ssa.Alloc{}
	for i, b := range mc.Bindings {
		if a, ok := b.(*ssa.Alloc); ok {
			binding[fn.FreeVars[i]] = a
		}
	}
	aliases := Aliases(e)
	carries := func(v ssa.Value) bool {
		return aliases[v] || aliases[strip(v)] || derivesFromAny(v, aliases, 0)
	}
	cutTol := newCut().Edges(c02ToleratedEdges(fn, aliases, o.Tolerated)...)
	type st struct {
		b      *ssa.BasicBlock
		cell   *ssa.Alloc // the parent's variable that currently holds the error
		jump   int64
		hasJmp bool
	}
	visited := map[st]bool{}
	var fail string
	var failAt token.Pos
	var walk func(b *ssa.BasicBlock, i int, cell *ssa.Alloc, jump int64, hasJmp bool)
	walk = func(b *ssa.BasicBlock, i int, cell *ssa.Alloc, jump int64, hasJmp bool) {
		if fail != "" {
			return
		}
		if i == 0 {
			k := st{b, cell, jump, hasJmp}
			if visited[k] {
				return
			}
			visited[k] = true
		}
		for ; i < len(b.Instrs); i++ {
			switch x := b.Instrs[i].(type) {
			case *ssa.Store:
				fv, ok := x.Addr.(*ssa.FreeVar)
				if !ok {
					continue
				}
				a := binding[fv]
				if a == nil {
					continue
				}
				if a == jumpVar {
					if k, ok := constInt(x.Val); ok {
						jump, hasJmp = k, true
					} else {
						hasJmp = false
					}
					continue
				}
				if isErrorType(a.Type().(*types.Pointer).Elem()) {
					if carries(x.Val) {
						cell = a
					} else if a == cell {
						cell = nil // overwritten
					}
				}
			case *ssa.Call:
				if ssa.Instruction(x) == call.(ssa.Instruction) {
					return // a new error value
				}
			case *ssa.Return:
				failAt = x.Pos()
				if c, ok := x.Results[0].(*ssa.Const); !ok || c.Value == nil || c.Value.String() != "false" {
					fail = "after the failure the loop body continues with the next element (the error is dropped)"
					return
				}
				if cell == nil {
					fail = "the loop body leaves the loop without storing the error into the enclosing function's error result"
					return
				}
				if !hasJmp || !c02ExitReturnsCell(par, jumpVar, jump, cell, parErrIdx) {
					fail = "the loop is left, but the enclosing function does not return the variable holding the error on that exit"
					return
				}
				failAt = token.NoPos
				return
			case *ssa.Panic:
				return
			}
		}
		for _, sc := range b.Succs {
			if cutTol.edges[Edge{b, sc}] {
				continue
			}
			walk(sc, 0, cell, jump, hasJmp)
		}
	}
	_, nonNilE, ifs := NilTests(fn, aliases)
	how := "range-over-func body: stored into the enclosing function's error result and the loop is left on the exit that returns it"
	if len(ifs) == 0 {
		walk(call.Block(), instrIndex(call.(ssa.Instruction))+1, nil, 0, false)
	} else {
		for _, ne := range nonNilE {
			walk(ne.To, 0, nil, 0, false)
		}
		how = "tested; " + how
	}
	if fail != "" {
		at := call.Pos()
		if failAt.IsValid() {
			at = failAt
		}
		return ErrFlowResult{OK: false, Detail: "in a range-over-func loop body: " + fail, At: at}, true
	}
	return ErrFlowResult{OK: true, How: how}, true
}

// c02ExitReturnsCell: in par, on the branch `jump == k` taken after the
// iterator call, every return yields the content of cell as the error result
// and nothing is stored into cell before.
func c02ExitReturnsCell(par *ssa.Function, jumpVar *ssa.Alloc, k int64, cell *ssa.Alloc, errIdx int) bool {
	found := false
	ok := true
	for _, ifi := range Ifs(par) {
		cond, t, _ := ifEdges(ifi)
		bo, isBin := cond.(*ssa.BinOp)
		if !isBin || bo.Op != token.EQL {
			continue
		}
		ld, isLoad := bo.X.(*ssa.UnOp)
		if !isLoad || ld.Op != token.MUL || ld.X != ssa.Value(jumpVar) {
			continue
		}
		if kk, isK := constInt(bo.Y); !isK || kk != k {
			continue
		}
		found = true
		visited := map[*ssa.BasicBlock]bool{}
		var walk func(b *ssa.BasicBlock)
		walk = func(b *ssa.BasicBlock) {
			if visited[b] || !ok {
				return
			}
			visited[b] = true
			for _, in := range b.Instrs {
				switch x := in.(type) {
				case *ssa.Store:
					if x.Addr == ssa.Value(cell) {
						ok = false
						return
					}
				case *ssa.Return:
					if errIdx >= len(x.Results) || cellOf(x.Results[errIdx]) != cell {
						ok = false
					}
					return
				}
			}
			for _, sc := range b.Succs {
				walk(sc)
			}
		}
		walk(t.To)
	}
	return found && ok
}

// ---------- who may close a tracker channel ----------

var c02TrackerPkgs = []string{"", "internal/status", "internal/syncutil", "internal/graph"}

// c02ClosesParam: g closes the channel it receives as parameter k (directly,
// deferred, or by handing it to a function that does).
func c02ClosesParam(g *ssa.Function, k int, depth int) bool {
	if depth > 2 || k >= len(g.Params) || len(g.Blocks) == 0 {
		return false
	}
	P := Aliases(g.Params[k])
	for _, call := range Calls(g, func(string) bool { return true }) {
		args := call.Common().Args
		if CalleeName(call) == "builtin:close" {
			if c02RootedIn(args[0], P) {
				return true
			}
			continue
		}
		if h, off := c02CalleeOf(call); h != nil && h != g {
			for i, a := range args {
				if c02RootedIn(a, P) && c02ArgParam(h, off, i) != nil && c02ClosesParam(h, i+off, depth+1) {
					return true
				}
			}
		}
	}
	return false
}

// c02CallSitesIn: static (or resolvable) calls of g in the tracker packages.
func c02CallSitesIn(p *Prog, g *ssa.Function) []ssa.CallInstruction {
	var out []ssa.CallInstruction
	for _, pkg := range c02TrackerPkgs {
		for _, f := range p.FuncsOfPkg(pkg) {
			for _, call := range Calls(f, func(string) bool { return true }) {
				if call.Common().IsInvoke() {
					continue
				}
				if h, _ := c02CalleeOf(call); h == g {
					out = append(out, call)
				}
			}
		}
	}
	return out
}

// c02CloseSites: the instructions of f that close a tracker channel:
// close(x) with x flowing from the tracker, and calls handing such an x to an
// in-module function that closes it.  A close(param) inside such a closing
// helper is judged at the helper's call sites, not in the helper.
func c02CloseSites(p *Prog, f *ssa.Function) []ssa.CallInstruction {
	var out []ssa.CallInstruction
	for _, call := range Calls(f, func(string) bool { return true }) {
		args := call.Common().Args
		if CalleeName(call) == "builtin:close" {
			if !c02FromTracker(args[0], 0) {
				continue
			}
			// parameter of f, and f's call sites are visible: judged there
			viaParam := false
			for _, r := range Roots(args[0]) {
				if prm, ok := r.(*ssa.Parameter); ok && prm.Parent() == f && len(c02CallSitesIn(p, f)) > 0 {
					viaParam = true
				}
			}
			if !viaParam {
				out = append(out, call)
			}
			continue
		}
		h, off := c02CalleeOf(call)
		if h == nil || h == f {
			continue
		}
		for i, a := range args {
			if _, isChan := a.Type().Underlying().(*types.Chan); !isChan {
				continue
			}
			if c02ArgParam(h, off, i) != nil && c02ClosesParam(h, i+off, 0) && c02FromTracker(a, 0) {
				out = append(out, call)
				break
			}
		}
	}
	return out
}

// c02TrackerStores: what the tracker stores as a node's completion signal is
// an open channel: the value handed to sync.Map.Store / LoadOrStore / Swap /
// CompareAndSwap in package internal/status is never a channel that is closed
// outside the success path (a closed-channel sentinel would release every
// waiter at once).
func c02TrackerStores(c *Ctx) {
	const R2 = "C02.R2.done-closed-only-on-success"
	valueArg := map[string]int{
		"(*sync.Map).Store": 2, "(*sync.Map).LoadOrStore": 2, "(*sync.Map).Swap": 2, "(*sync.Map).CompareAndSwap": 3,
	}
	for _, f := range c.P.FuncsOfPkg("internal/status") {
		for _, call := range Calls(f, func(n string) bool { _, ok := valueArg[n]; return ok }) {
			args := call.Common().Args
			idx := valueArg[CalleeName(call)]
			if idx >= len(args) {
				continue
			}
			v := args[idx]
			isChan := false
			for _, r := range Roots(v) {
				if _, ok := r.Type().Underlying().(*types.Chan); ok {
					isChan = true
				}
			}
			if !isChan {
				continue
			}
			bad := ""
			for _, r := range Roots(v) {
				switch u := r.(type) {
				case *ssa.MakeChan:
					al := Aliases(u)
					for _, cl := range CallsTo(f, "builtin:close") {
						if c02RootedIn(cl.Common().Args[0], al) {
							bad = "the channel stored for the node may already be closed (close at " + c.P.Pos(cl.Pos()) + ")"
						}
					}
				case *ssa.UnOp:
					if g, ok := u.X.(*ssa.Global); ok && u.Op == token.MUL {
						for fn := range c.P.All {
							if !inModule(fn) {
								continue
							}
							for _, cl := range CallsTo(fn, "builtin:close") {
								for _, rr := range Roots(cl.Common().Args[0]) {
									if ld, ok := rr.(*ssa.UnOp); ok && ld.X == ssa.Value(g) {
										bad = "a package-level channel that is closed in " + FnName(fn) + " is stored as the node's completion signal"
									}
								}
							}
						}
					}
				}
			}
			c.Check(R2, FnName(f)+"|stores-open-channel:"+CalleeName(call), call.Pos(), bad == "",
				ifelse(bad == "", "the completion signal stored for a node is a fresh, open channel", bad+": every waiter is released although the node was not copied"))
		}
	}
}

// ---------- a node is marked done only when it is present ----------

// c02DonePresent (R1): in the traversal function (the one that claims its own
// node with TryCommit) every nil-able return — which closes the node's done
// channel and lets the parents push — lies behind one of: the node was not
// claimed (`committed` false), the destination already has it (true edge of a
// destination Exists check), or a call that pushes the node returned nil (its
// error is returned directly, or its nil edge is taken).  An early `return nil`
// for some class of nodes leaves the node absent while its parents are pushed.
func c02DonePresent(c *Ctx, T0 *ssa.Function) {
	const R = "C02.R1.done-implies-present"
	tn := FnName(T0)
	params := map[ssa.Value]bool{}
	for _, p := range T0.Params {
		for a := range Aliases(p) {
			params[a] = true
		}
	}
	var claim ssa.CallInstruction
	for _, tc := range CallsTo(T0, nTryCommit) {
		args := tc.Common().Args
		if c02RootedIn(args[len(args)-1], params) {
			claim = tc
		}
	}
	if claim == nil {
		c.LostAnchor(R, tn+": TryCommit of the task's own node")
		return
	}
	ct := newCut()
	if committed := ResultOf(claim, 1); committed != nil {
		_, fe := BoolTests(T0, Aliases(committed))
		ct.Edges(fe...)
	}
	isDispatch := map[ssa.Instruction]bool{}
	for _, S := range c02DispatchedSlices(T0) {
		for _, d := range c02DispatchCalls(T0, S, 0) {
			isDispatch[d.(ssa.Instruction)] = true
		}
	}
	okErr := map[ssa.Value]bool{}
	nProof := 0
	for _, call := range Calls(T0, func(string) bool { return true }) {
		if _, isDefer := call.(*ssa.Defer); isDefer || call == claim {
			continue
		}
		n := CalleeName(call)
		cc := call.Common()
		// destination existence check (not the metadata cache)
		isExists := cc.IsInvoke() && strings.HasSuffix(n, ").Exists") && !isFieldLoad(cc.Value, "Cache")
		if g, _ := c02CalleeOf(call); g != nil && !isExists {
			if sig := g.Signature; sig.Results().Len() >= 1 {
				if b, ok := sig.Results().At(0).Type().Underlying().(*types.Basic); ok && b.Kind() == types.Bool {
					isExists = c02ReachesStatic(g, 2, func(in ssa.Instruction) bool {
						ic, ok := in.(ssa.CallInstruction)
						return ok && ic.Common().IsInvoke() && strings.HasSuffix(CalleeName(ic), ").Exists") && !isFieldLoad(ic.Common().Value, "Cache")
					})
				}
			}
		}
		if isExists {
			if r0 := ResultOf(call, 0); r0 != nil {
				te, _ := BoolTests(T0, Aliases(r0))
				ct.Edges(te...)
			}
			continue
		}
		if n == nGo || isDispatch[call.(ssa.Instruction)] || !c02IsPushCall(call) {
			continue
		}
		if g, _ := c02CalleeOf(call); g != nil {
			// a helper that only dispatches/waits is no proof that the node was pushed
			ex := map[ssa.Instruction]bool{}
			for _, S := range c02DispatchedSlices(g) {
				for _, d := range c02DispatchCalls(g, S, 0) {
					ex[d.(ssa.Instruction)] = true
				}
			}
			if len(c02Pushes(g, ex)) == 0 {
				continue
			}
		}
		if e := ErrOf(call); e != nil {
			ma := c02MustAliases(e)
			ne, _, _ := NilTests(T0, ma)
			ct.Edges(ne...)
			for a := range ma {
				okErr[a] = true
			}
			okErr[e] = true
			nProof++
		}
	}
	if nProof == 0 {
		c.LostAnchor(R, tn+": no push effect whose error is observed")
		return
	}
	ok := true
	var at token.Pos = T0.Pos()
	for _, a := range c02NilableAtoms(T0) {
		if okErr[a.Val] || okErr[strip(a.Val)] {
			continue
		}
		if AtomMustPass(a, ct) {
			continue
		}
		if must, exceeded := c02MustPassPS(T0, a.Ret, ct, okErr); must && !exceeded {
			continue
		}
		ok = false
		at = a.Ret.Pos()
	}
	c.Check(R, tn+"|nil-return-implies-present", at, ok,
		ifelse(ok, "every nil-error return of the traversal function lies behind `not claimed`, `already in the destination`, or the success of a call that pushes the node",
			"the traversal function can return nil (closing the node's done channel, so its parents push) although the node was neither found in the destination nor pushed"))
}

// c02IsPushCall: isPushEffect, also for a call of a local closure variable or
// method value (which isPushEffect's static resolution does not see).
func c02IsPushCall(call ssa.CallInstruction) bool {
	if isPushEffect(call) {
		return true
	}
	if StaticCallee(call) != nil {
		return false
	}
	if g, _ := c02CalleeOf(call); g != nil {
		return reachesCall(g, 3, func(n string, _ ssa.CallInstruction) bool { return pushInvokes[n] })
	}
	return false
}

// ---------- the task's context reaches every dispatch and wait ----------

type c02CtxAnalysis struct {
	c    *Ctx
	seen map[*ssa.Function]bool
	n    int
}

func c02IsContextType(t types.Type) bool {
	n, ok := t.(*types.Named)
	return ok && n.Obj().Pkg() != nil && n.Obj().Pkg().Path() == "context" && n.Obj().Name() == "Context"
}

var c02CtxDerivers = map[string]bool{
	"context.WithCancel": true, "context.WithCancelCause": true, "context.WithValue": true, "context.WithTimeout": true,
	"context.WithDeadline": true, "context.WithoutCancel": false, "golang.org/x/sync/errgroup.WithContext": true,
}

// derives: 1 = v derives from the task context (ok set), 0 = from something
// else (an outer context), -1 = cannot tell (struct field, ...).
func (ca *c02CtxAnalysis) derives(v ssa.Value, ok map[ssa.Value]bool, depth int) int {
	if depth > 5 {
		return -1
	}
	res := 1
	for _, r := range Roots(v) {
		if ok[r] {
			continue
		}
		switch u := r.(type) {
		case *ssa.Extract:
			if call, isCall := u.Tuple.(*ssa.Call); isCall && c02CtxDerivers[CalleeName(call)] {
				for _, a := range call.Call.Args {
					if c02IsContextType(a.Type()) {
						if d := ca.derives(a, ok, depth+1); d < res {
							res = d
						}
					}
				}
				continue
			}
			return -1
		case *ssa.Call:
			if c02CtxDerivers[CalleeName(u)] {
				for _, a := range u.Call.Args {
					if c02IsContextType(a.Type()) {
						if d := ca.derives(a, ok, depth+1); d < res {
							res = d
						}
					}
				}
				continue
			}
			return -1
		case *ssa.Parameter:
			return 0 // another parameter than the task context
		case *ssa.UnOp:
			if _, isFV := u.X.(*ssa.FreeVar); isFV {
				return 0 // a context captured from an enclosing function
			}
			return -1
		default:
			return -1
		}
	}
	return res
}

// run checks function f whose task context is the value set ok.
func (ca *c02CtxAnalysis) run(f *ssa.Function, ok map[ssa.Value]bool, depth int) {
	const R = "C02.R4.task-context"
	if ca.seen[f] || depth > 4 {
		return
	}
	ca.seen[f] = true
	c := ca.c
	fname := FnName(f)
	verdict := func(key string, pos token.Pos, v ssa.Value, what string) {
		ca.n++
		switch ca.derives(v, ok, 0) {
		case 1:
			c.OK(R, key, pos, what+" uses the context the task received from syncutil.Go (cancelled when a sibling task fails)")
		case 0:
			c.Violation(R, key, pos, what+" uses a context that is not derived from the one the task received from syncutil.Go: a failure elsewhere in the graph does not cancel it, the copy hangs instead of returning the error")
		default:
			c.Undecided(R, key, pos, what+": cannot tell whether its context derives from the task's context")
		}
	}
	if st := c02StepTable(f); st != nil {
		for _, w := range st.Closures {
			if c02ReachesBlocking(w.Fn.(*ssa.Function)) {
				ca.run(w.Fn.(*ssa.Function), ca.capturedContexts(w, ok), depth+1)
			}
		}
	}
	AllInstrs(f, func(in ssa.Instruction) {
		switch x := in.(type) {
		case *ssa.Select:
			if !x.Blocking {
				return
			}
			for _, st := range x.States {
				if call, isCall := st.Chan.(*ssa.Call); isCall && CalleeName(call) == "(context.Context).Done" {
					verdict(fname+"|wait-context", x.Pos(), call.Call.Value, "the wait on a successor")
				}
			}
		case ssa.CallInstruction:
			if _, isDefer := x.(*ssa.Defer); isDefer {
				return
			}
			cc := x.Common()
			if CalleeName(x) == nGo {
				if len(cc.Args) > 0 {
					verdict(fname+"|dispatch-context", x.Pos(), cc.Args[0], "the dispatch of the successors")
				}
				return
			}
			for _, a := range cc.Args {
				if mc, isMC := a.(*ssa.MakeClosure); isMC && mc.Fn.(*ssa.Function).Parent() == f && c02ReachesBlocking(mc.Fn.(*ssa.Function)) {
					ca.run(mc.Fn.(*ssa.Function), ca.capturedContexts(mc, ok), depth+1)
				}
			}
			g, off := c02CalleeOf(x)
			if g == nil || g == f || !c02ReachesBlocking(g) {
				return
			}
			passed := false
			for i, a := range cc.Args {
				prm := c02ArgParam(g, off, i)
				if prm == nil || !c02IsContextType(a.Type()) {
					continue
				}
				passed = true
				if ca.derives(a, ok, 0) == 1 {
					ca.run(g, Aliases(prm), depth+1)
				} else {
					verdict(fname+"|dispatch-context:"+CalleeName(x), x.Pos(), a, "the call of "+FnName(g)+" (which dispatches or waits)")
				}
			}
			if !passed && g.Parent() == f {
				// a local closure: the contexts it captured from f
				okIn := map[ssa.Value]bool{}
				for _, r := range Roots(cc.Value) {
					mc, isMC := r.(*ssa.MakeClosure)
					if !isMC || mc.Fn != g {
						continue
					}
					for j, bnd := range mc.Bindings {
						a, isAlloc := bnd.(*ssa.Alloc)
						if !isAlloc || !c02IsContextType(a.Type().(*types.Pointer).Elem()) {
							continue
						}
						all := len(storesTo(a)) > 0
						for _, st := range storesTo(a) {
							if ca.derives(st.Val, ok, 0) != 1 {
								all = false
							}
						}
						if all {
							for _, ref := range *g.FreeVars[j].Referrers() {
								if ld, isLd := ref.(*ssa.UnOp); isLd && ld.Op == token.MUL {
									for al := range Aliases(ld) {
										okIn[al] = true
									}
								}
							}
						}
					}
				}
				ca.run(g, okIn, depth+1)
			}
		}
	})
}

// c02TaskContext (R4): in every task function handed to syncutil.Go, and in
// the functions it calls with its context, each further dispatch and each
// cancellable wait uses a context derived from the task's own context.
func c02TaskContext(c *Ctx) {
	const R = "C02.R4.task-context"
	c.Expect(R, 2)
	ca := &c02CtxAnalysis{c: c, seen: map[*ssa.Function]bool{}}
	for _, T := range c02GoTargets(c.P) {
		var ctxParam *ssa.Parameter
		for _, p := range T.Params {
			if c02IsContextType(p.Type()) {
				ctxParam = p
				break
			}
		}
		if ctxParam == nil {
			c.Undecided(R, FnName(T)+"|context-parameter", T.Pos(), "the task function has no context parameter")
			continue
		}
		ca.run(T, Aliases(ctxParam), 0)
	}
}

// c02DeferredResultWrites (R3): a deferred closure that assigns the enclosing
// function's named error result runs after the return value was set.  Each
// such assignment must keep a failure: it stores a non-nil value, or a value
// built from the current result (errors.Join(err, x), cmp.Or(err, x), a
// wrapper of err), or it executes only where the current result was tested
// nil (`if err == nil { err = x }`).  `defer func() { err = region.Start() }()`
// replaces the copy's error by nil.
func c02DeferredResultWrites(c *Ctx, f *ssa.Function) {
	const R3 = "C02.R3.error-surfacing"
	for i, w := range DeferredResultWrites(f) {
		c.Check(R3, fmt.Sprintf("%s|deferred-result-write#%d", FnName(w.Writer), i+1), w.Store.Pos(), w.Keeps != "",
			ifelse(w.Keeps != "", "the deferred assignment of the enclosing function's error result keeps a failure: "+w.Keeps,
				"the deferred code overwrites the error result of "+FnName(f)+" after the return value was set: a failure of the function body is replaced by "+describe(w.Store.Val)+", which may be nil (the call reports success, or a waiting task is never released)"))
	}
}

// c02DeferredHelperCloseOK: `defer closeOnSuccess(done, &err)`: the deferred
// in-module function receives the address of f's named error result and
// closes the channel parameter only on the nil edge of a test of *result.
func c02DeferredHelperCloseOK(f *ssa.Function, site ssa.CallInstruction) (ok, decided bool) {
	d, isDefer := site.(*ssa.Defer)
	if !isDefer {
		return false, false
	}
	g := StaticCallee(d)
	if g == nil || !inModule(g) || len(g.Blocks) == 0 {
		return false, false
	}
	errIdx := ErrResultIndex(f.Signature)
	if errIdx < 0 {
		return false, false
	}
	cells := map[ssa.Value]bool{}
	for _, r := range Returns(f) {
		if Reachable(d, r) {
			a := cellOf(r.Results[errIdx])
			if a == nil {
				return false, false // a return after the defer does not yield the named result
			}
			cells[a] = true
		}
	}
	if len(cells) != 1 {
		return false, false
	}
	var errp *ssa.Parameter
	for j, a := range d.Call.Args {
		if cells[a] && j < len(g.Params) {
			errp = g.Params[j]
		}
	}
	if errp == nil {
		return false, false
	}
	loads := map[ssa.Value]bool{}
	stores := 0
	for _, ref := range *errp.Referrers() {
		switch u := ref.(type) {
		case *ssa.UnOp:
			if u.Op == token.MUL {
				for al := range Aliases(u) {
					loads[al] = true
				}
			}
		case *ssa.Store:
			if u.Addr == ssa.Value(errp) {
				stores++
			}
		case *ssa.DebugRef:
		default:
			return false, false // the pointer is handed on
		}
	}
	nilE, _, _ := NilTests(g, loads)
	chans := map[ssa.Value]bool{}
	for _, prm := range g.Params {
		if _, isChan := prm.Type().Underlying().(*types.Chan); isChan {
			for al := range Aliases(prm) {
				chans[al] = true
			}
		}
	}
	n := 0
	ok = true
	for _, cl := range CallsTo(g, "builtin:close") {
		if !c02RootedIn(cl.Common().Args[0], chans) {
			continue
		}
		n++
		if _, dd := cl.(*ssa.Defer); dd || len(nilE) == 0 || !MustPass(cl.(ssa.Instruction), newCut().Edges(nilE...)) {
			ok = false
		}
	}
	if n == 0 {
		return false, false
	}
	return ok && stores == 0, true
}

// c02CallsParamOnSuccess: every nil-able return of h lies behind the nil edge
// of the error of a call of its function parameter k (h = run-the-work wrapper
// such as outsideRegion(region, work)).
func c02CallsParamOnSuccess(h *ssa.Function, k int) bool {
	if k >= len(h.Params) || ErrResultIndex(h.Signature) < 0 {
		return false
	}
	P := Aliases(h.Params[k])
	ct := newCut()
	okErr := map[ssa.Value]bool{}
	n := 0
	for _, call := range Calls(h, func(string) bool { return true }) {
		if _, isDefer := call.(*ssa.Defer); isDefer || call.Common().IsInvoke() || !c02RootedIn(call.Common().Value, P) {
			continue
		}
		if e := ErrOf(call); e != nil {
			ma := c02MustAliases(e)
			ne, _, _ := NilTests(h, ma)
			ct.Edges(ne...)
			for a := range ma {
				okErr[a] = true
			}
			n++
		}
	}
	if n == 0 {
		return false
	}
	for _, a := range c02NilableAtoms(h) {
		if okErr[a.Val] || okErr[strip(a.Val)] || AtomMustPass(a, ct) {
			continue
		}
		return false
	}
	return true
}

// c02ClosureBody: the closure created in fn that dispatches the successors
// and is handed to a wrapper that runs it and returns nil only if it did
// (outsideRegion(region, func() error { Go(...); return await(...) })).
// Returns the closure and the wrapper call.
func c02ClosureBody(fn *ssa.Function) *c02WrappedBody {
	for _, call := range Calls(fn, func(string) bool { return true }) {
		if _, isDefer := call.(*ssa.Defer); isDefer {
			continue
		}
		h, off := c02CalleeOf(call)
		if h == nil || h == fn {
			continue
		}
		for i, a := range call.Common().Args {
			mc, ok := a.(*ssa.MakeClosure)
			if !ok {
				continue
			}
			w := mc.Fn.(*ssa.Function)
			if w.Parent() != fn || len(c02DispatchedSlices(w)) == 0 || !c02CallsParamOnSuccess(h, i+off) {
				continue
			}
			return &c02WrappedBody{Body: w, Call: call, Wrapper: h}
		}
	}
	return nil
}

type c02WrappedBody struct {
	Body    *ssa.Function
	Call    ssa.CallInstruction
	Wrapper *ssa.Function
}

// c02SameSlice: SameValue, also for two loads of the same captured variable
// that the closure never writes.
func c02SameSlice(a, b ssa.Value) bool {
	if SameValue(a, b) {
		return true
	}
	fvOf := func(v ssa.Value) *ssa.FreeVar {
		rs := Roots(v)
		if len(rs) != 1 {
			return nil
		}
		u, ok := rs[0].(*ssa.UnOp)
		if !ok || u.Op != token.MUL {
			return nil
		}
		fv, _ := u.X.(*ssa.FreeVar)
		return fv
	}
	fa, fb := fvOf(a), fvOf(b)
	return fa != nil && fa == fb && !freeVarWritten(fa.Parent(), fa)
}

// capturedContexts: the loads, inside the closure made by mc, of captured
// context variables whose every stored value derives from the task context.
func (ca *c02CtxAnalysis) capturedContexts(mc *ssa.MakeClosure, ok map[ssa.Value]bool) map[ssa.Value]bool {
	g := mc.Fn.(*ssa.Function)
	okIn := map[ssa.Value]bool{}
	for j, bnd := range mc.Bindings {
		a, isAlloc := bnd.(*ssa.Alloc)
		if !isAlloc || !c02IsContextType(a.Type().(*types.Pointer).Elem()) {
			continue
		}
		all := len(storesTo(a)) > 0
		for _, st := range storesTo(a) {
			if ca.derives(st.Val, ok, 0) != 1 {
				all = false
			}
		}
		if all {
			for _, ref := range *g.FreeVars[j].Referrers() {
				if ld, isLd := ref.(*ssa.UnOp); isLd && ld.Op == token.MUL {
					for al := range Aliases(ld) {
						okIn[al] = true
					}
				}
			}
		}
	}
	return okIn
}

// ---------- step tables (impl-D's c11StepLoops) ----------

// c02Steps: `for _, step := range []func() error{ dispatch, wait, region.Start } { if err := step(); err != nil { return err } }`
// in fn: the steps are fn's straight-line code; the Done edge means every step returned nil.
type c02Steps struct {
	Loop      c11StepLoop
	Closures  []*ssa.MakeClosure // the steps that are closures of fn, in order
	Index     map[*ssa.MakeClosure]int
	Blocks    bool // some step dispatches or waits
	StartLast bool // the last step is the method value region.Start
	startAt   int
	startRecv ssa.Value
	onlyNil   bool // only the nil edge of step()'s error continues the loop
}

func (st *c02Steps) regionOK(isRegion func(ssa.Value) bool) bool {
	if st.startAt < 0 {
		return true
	}
	return st.StartLast && st.startRecv != nil && isRegion(st.startRecv)
}

var c02StepCache = map[*ssa.Function]*c02Steps{}

func c02StepTable(fn *ssa.Function) *c02Steps {
	if st, ok := c02StepCache[fn]; ok {
		return st
	}
	var out *c02Steps
	for _, sl := range c11StepLoops(fn) {
		st := &c02Steps{Loop: sl, Index: map[*ssa.MakeClosure]int{}, startAt: -1}
		hasGo := false
		for i, s := range sl.Steps {
			if recv := c11BoundMethodStep(s, "Start"); recv != nil {
				st.startAt, st.startRecv = i, recv
				continue
			}
			mc, ok := s.(*ssa.MakeClosure)
			if !ok {
				continue
			}
			w := mc.Fn.(*ssa.Function)
			if w.Parent() != fn {
				continue
			}
			st.Closures = append(st.Closures, mc)
			st.Index[mc] = i
			if c02ReachesBlocking(w) {
				st.Blocks = true
			}
			if len(CallsTo(w, nGo)) > 0 {
				hasGo = true
			}
		}
		st.StartLast = st.startAt == len(sl.Steps)-1
		// the loop continues only on the nil edge of step()'s error
		if e := ErrOf(sl.Call); e != nil {
			nilE, _, _ := NilTests(fn, c02MustAliases(e))
			hdr := sl.Loop.Header.Instrs[0]
			st.onlyNil = len(nilE) > 0 && !reach(sl.Call.Block(), instrIndex(sl.Call)+1, hdr, newCut().Edges(nilE...))
		}
		if hasGo && st.onlyNil {
			out = st
		}
	}
	c02StepCache[fn] = out
	return out
}

// c02R1StepTable: R1 for a traversal function whose dispatch and wait are
// steps of a table: a step dispatches the captured successors, a LATER step
// waits for all of them (checked as a wait helper), and every push of the
// traversal function lies behind len(successors)==0 or the table's Done edge.
func c02R1StepTable(c *Ctx, T *ssa.Function, st *c02Steps) {
	const R1 = "C02.R1.wait-before-push"
	tn := FnName(T)
	cellOfLoad := func(w *ssa.MakeClosure, v ssa.Value) *ssa.Alloc {
		for _, r := range Roots(v) {
			u, ok := r.(*ssa.UnOp)
			if !ok || u.Op != token.MUL {
				continue
			}
			fv, ok := u.X.(*ssa.FreeVar)
			if !ok {
				continue
			}
			g := w.Fn.(*ssa.Function)
			for j, f2 := range g.FreeVars {
				if f2 == fv && !freeVarWritten(g, fv) {
					a, _ := w.Bindings[j].(*ssa.Alloc)
					return a
				}
			}
		}
		return nil
	}
	var cell *ssa.Alloc
	dispatchAt := -1
	for _, w := range st.Closures {
		for _, g := range CallsTo(w.Fn.(*ssa.Function), nGo) {
			if a := cellOfLoad(w, variadicArg(g)); a != nil {
				cell, dispatchAt = a, st.Index[w]
				r := c02ErrFlow(g, ErrFlowOpts{}, 0)
				c.Check(R1, tn+"|dispatch-error-returned", g.Pos(), r.OK, r.How+r.Detail)
			}
		}
	}
	if cell == nil {
		c.LostAnchor(R1, tn+": the slice dispatched by a step of the table")
		return
	}
	waited := false
	for _, w := range st.Closures {
		g := w.Fn.(*ssa.Function)
		if st.Index[w] <= dispatchAt || !c02ReachesTryCommit(g) {
			continue
		}
		var Ps []ssa.Value
		for j, bnd := range w.Bindings {
			if bnd == ssa.Value(cell) && !freeVarWritten(g, g.FreeVars[j]) {
				for _, ref := range *g.FreeVars[j].Referrers() {
					if ld, ok := ref.(*ssa.UnOp); ok && ld.Op == token.MUL {
						Ps = append(Ps, ld)
					}
				}
			}
		}
		if len(Ps) == 0 {
			continue
		}
		c.OK(R1, tn+"|dispatch-before-wait", w.Pos(), "the dispatching step precedes the waiting step in the table")
		c02SliceSummary(c, g, Ps, false, 1)
		waited = true
	}
	if !waited {
		c.Violation(R1, tn+"|wait-loop", T.Pos(), "no step after the dispatching step waits for the dispatched successors")
	}
	ct := newCut().Edges(st.Loop.Done)
	for _, s := range storesTo(cell) {
		ct.Edges(lenZeroEdges(T, s.Val)...)
	}
	pushes := c02Pushes(T, map[ssa.Instruction]bool{ssa.Instruction(st.Loop.Call): true})
	if len(pushes) == 0 {
		c.LostAnchor(R1, tn+": no push effect found")
	}
	for _, p := range pushes {
		ok := waited && MustPass(p.(ssa.Instruction), ct)
		c.Check(R1, tn+"|push:"+CalleeName(p), p.Pos(), ok,
			ifelse(ok, "every path to the push takes the len(successors)==0 edge or the 'all steps succeeded' exit of the step table",
				"a path reaches this push effect without the step table (dispatch, wait) having completed"))
		c.Check(R1, tn+"|push-outside-wait-loop:"+CalleeName(p), p.Pos(), !st.Loop.Loop.Contains(p.(ssa.Instruction)), "push effect inside the step loop")
	}
}
