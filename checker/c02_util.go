package main

// C02 helpers: interprocedural generalisations used by c02.go.
//
//   * function-value resolution (closure, method value, closure factory, cell)
//   * loop-form independent "iterates over the whole slice S" recognition
//   * wait summaries: "a nil-error return of H implies every element of its
//     slice parameter was waited for" / "... its element parameter was waited for"
//   * error flow through mapping helpers, callback identity through helpers
//   * permit typestate as a forward data-flow with callee summaries

import (
	"fmt"
	"go/token"
	"go/types"
	"strings"

	"golang.org/x/tools/go/ssa"
)

// ---------- function values ----------

// c02Unwrap: a bound-method wrapper denotes the method it wraps.
func c02Unwrap(f *ssa.Function) (*ssa.Function, int) {
	if f != nil && strings.HasPrefix(f.Synthetic, "bound method wrapper") {
		if obj, ok := f.Object().(*types.Func); ok {
			if g := f.Prog.FuncValue(obj); g != nil && len(g.Blocks) > 0 {
				return g, 1
			}
		}
	}
	return f, 0
}

type c02Target struct {
	Fn  *ssa.Function
	Off int // Params[i+Off] receives call argument i (1 for method values: the receiver is bound)
}

// c02CellValues: the values stored into the variable cell b (an Alloc, or a
// free variable bound to one further up).
func c02CellValues(b ssa.Value, depth int) []ssa.Value {
	if depth > 4 {
		return nil
	}
	var out []ssa.Value
	switch x := b.(type) {
	case *ssa.Alloc:
		for _, s := range storesTo(x) {
			out = append(out, s.Val)
		}
	case *ssa.FreeVar:
		for _, bb := range freeVarBindings(x) {
			out = append(out, c02CellValues(bb, depth+1)...)
		}
	}
	return out
}

// c02FuncTargets resolves a function-typed value to the functions it may
// denote: function constants, closures, method values, results of in-module
// closure factories, variables (cells) holding one of those.
func c02FuncTargets(v ssa.Value, depth int) []c02Target {
	var out []c02Target
	if depth > 5 || v == nil {
		return nil
	}
	seen := map[*ssa.Function]bool{}
	add := func(f *ssa.Function) {
		g, off := c02Unwrap(f)
		if g != nil && !seen[g] {
			seen[g] = true
			out = append(out, c02Target{g, off})
		}
	}
	addAll := func(ts []c02Target) {
		for _, t := range ts {
			if !seen[t.Fn] {
				seen[t.Fn] = true
				out = append(out, t)
			}
		}
	}
	for _, r := range Roots(v) {
		switch u := r.(type) {
		case *ssa.Function:
			add(u)
		case *ssa.MakeClosure:
			add(u.Fn.(*ssa.Function))
		case *ssa.UnOp:
			if u.Op != token.MUL {
				continue
			}
			switch x := u.X.(type) {
			case *ssa.FreeVar, *ssa.Alloc:
				for _, val := range c02CellValues(x, 0) {
					addAll(c02FuncTargets(val, depth+1))
				}
			}
		case *ssa.Call:
			if g := StaticCallee(u); g != nil && inModule(g) && len(g.Blocks) > 0 && g.Signature.Results().Len() == 1 {
				for _, a := range RetAtoms(g, 0) {
					addAll(c02FuncTargets(a.Val, depth+1))
				}
			}
		}
	}
	return out
}

// c02CalleeOf resolves the in-module function a call executes (static call,
// immediately applied closure, local closure variable, method value).
func c02CalleeOf(call ssa.CallInstruction) (*ssa.Function, int) {
	cc := call.Common()
	if cc.IsInvoke() {
		return nil, 0
	}
	if g := StaticCallee(call); g != nil {
		if inModule(g) && len(g.Blocks) > 0 {
			return g, 0
		}
		return nil, 0
	}
	if _, isBuiltin := cc.Value.(*ssa.Builtin); isBuiltin {
		return nil, 0
	}
	ts := c02FuncTargets(cc.Value, 0)
	if len(ts) == 1 && inModule(ts[0].Fn) && len(ts[0].Fn.Blocks) > 0 {
		return ts[0].Fn, ts[0].Off
	}
	return nil, 0
}

// c02ArgParam maps call argument i to the callee's parameter.
func c02ArgParam(g *ssa.Function, off, i int) *ssa.Parameter {
	if i+off < 0 || i+off >= len(g.Params) {
		return nil
	}
	return g.Params[i+off]
}

func c02RootedIn(v ssa.Value, set map[ssa.Value]bool) bool {
	if set[v] {
		return true
	}
	for _, r := range Roots(v) {
		if set[r] {
			return true
		}
	}
	return false
}

// c02GoTargets: the task functions of the root package, i.e. what is passed
// as fn to syncutil.Go.
func c02GoTargets(p *Prog) []*ssa.Function {
	var out []*ssa.Function
	seen := map[*ssa.Function]bool{}
	for _, f := range p.FuncsOfPkg("") {
		for _, g := range CallsTo(f, nGo) {
			args := g.Common().Args
			if len(args) < 3 {
				continue
			}
			for _, t := range c02FuncTargets(args[2], 0) {
				if !seen[t.Fn] && len(t.Fn.Blocks) > 0 {
					seen[t.Fn] = true
					out = append(out, t.Fn)
				}
			}
		}
	}
	return out
}

// c02ReachesStatic: fn, or a function it statically calls (not closures it
// merely creates), to the given depth, has an instruction satisfying pred.
func c02ReachesStatic(fn *ssa.Function, depth int, pred func(in ssa.Instruction) bool) bool {
	seen := map[*ssa.Function]bool{}
	var rec func(f *ssa.Function, d int) bool
	rec = func(f *ssa.Function, d int) bool {
		if f == nil || seen[f] || len(f.Blocks) == 0 {
			return false
		}
		seen[f] = true
		for _, b := range f.Blocks {
			for _, in := range b.Instrs {
				if pred(in) {
					return true
				}
				if call, ok := in.(ssa.CallInstruction); ok && d > 0 {
					if _, isDefer := call.(*ssa.Defer); isDefer {
						continue
					}
					if g, _ := c02CalleeOf(call); g != nil && rec(g, d-1) {
						return true
					}
				}
			}
		}
		return false
	}
	return rec(fn, depth)
}

func c02IsCallTo(in ssa.Instruction, name string) bool {
	call, ok := in.(ssa.CallInstruction)
	return ok && CalleeName(call) == name
}

// ---------- loops over a slice ----------

type c02SliceLoop struct {
	L          *Loop
	Elem       map[ssa.Value]bool // values denoting the element of the current iteration
	Body, Exit Edge               // Exit: the edge taken when every element has been visited
}

// c02LenOf: v is len(S') with S' the same value as S.
func c02LenOf(v ssa.Value, S ssa.Value) bool {
	for _, r := range Roots(v) {
		ln, ok := r.(*ssa.Call)
		if !ok || CalleeName(ln) != "builtin:len" || !SameValue(ln.Call.Args[0], S) {
			return false
		}
	}
	return len(Roots(v)) > 0
}

// c02LoopsOver returns the loops of fn that visit every element of S in
// order: `for range S` (with or without value), `for i := 0; i < len(S); i++`
// (also with the bound hoisted, `!=`, or the comparison reversed).
func c02LoopsOver(fn *ssa.Function, S ssa.Value) []*c02SliceLoop {
	var out []*c02SliceLoop
	for _, l := range Loops(fn) {
		var idx ssa.Value
		var body, exit Edge
		if r, i, b, e, ok := l.RangeIndex(); ok {
			if !SameValue(r, S) {
				continue
			}
			idx, body, exit = i, b, e
		} else {
			h := l.Header
			if len(h.Instrs) == 0 {
				continue
			}
			ifi, isIf := h.Instrs[len(h.Instrs)-1].(*ssa.If)
			if !isIf {
				continue
			}
			cond, t, f := ifEdges(ifi)
			bo, isBin := cond.(*ssa.BinOp)
			if !isBin {
				continue
			}
			x, y, op := bo.X, bo.Y, bo.Op
			if c02LenOf(x, S) { // len(S) op i  ->  i op' len(S)
				x, y = y, x
				switch op {
				case token.GTR:
					op = token.LSS
				case token.LEQ:
					op = token.GEQ
				case token.LSS, token.GEQ:
					continue
				}
			}
			if !c02LenOf(y, S) {
				continue
			}
			switch op {
			case token.LSS, token.NEQ:
				body, exit = t, f
			case token.GEQ, token.EQL:
				body, exit = f, t
			default:
				continue
			}
			phi, isPhi := x.(*ssa.Phi)
			if !isPhi || phi.Block() != h || !l.Blocks[body.To] || l.Blocks[exit.To] {
				continue
			}
			okCounter := true
			for i, e := range phi.Edges {
				if l.Blocks[h.Preds[i]] { // back edge: i+1
					inc, ok := e.(*ssa.BinOp)
					k, isK := int64(0), false
					if ok {
						k, isK = constInt(inc.Y)
					}
					if !ok || inc.Op != token.ADD || inc.X != phi || !isK || k != 1 {
						okCounter = false
					}
				} else if k, ok := constInt(e); !ok || k != 0 {
					okCounter = false
				}
			}
			if !okCounter {
				continue
			}
			idx = phi
		}
		sl := &c02SliceLoop{L: l, Elem: map[ssa.Value]bool{}, Body: body, Exit: exit}
		AllInstrs(fn, func(in ssa.Instruction) {
			ia, ok := in.(*ssa.IndexAddr)
			if !ok || !l.Contains(ia) || ia.Index != idx || !SameValue(ia.X, S) {
				return
			}
			for _, r2 := range *ia.Referrers() {
				if ld, ok := r2.(*ssa.UnOp); ok && ld.Op == token.MUL {
					for a := range Aliases(ld) {
						sl.Elem[a] = true
					}
				}
			}
		})
		out = append(out, sl)
	}
	return out
}

// ---------- nil-able returns ----------

// c02CtxDoneEdges: edges of fn on which the context is known to be done (the
// <-ctx.Done() case of a select, the non-nil side of a test of ctx.Err()).
func c02CtxDoneEdges(fn *ssa.Function) []Edge {
	var out []Edge
	AllInstrs(fn, func(in ssa.Instruction) {
		switch x := in.(type) {
		case *ssa.Select:
			for i, st := range x.States {
				if call, ok := st.Chan.(*ssa.Call); ok && CalleeName(call) == "(context.Context).Done" && st.Dir == types.RecvOnly {
					if e, found := selectCaseEdge(x, i); found {
						out = append(out, e)
					}
				}
			}
		case *ssa.Call:
			if isCtxErr(x) {
				_, nn, _ := NilTests(fn, Aliases(x))
				out = append(out, nn...)
			}
		}
	})
	return out
}

// c02KnownNonNil: the error value v returned by ret is non-nil on every path
// that returns it.
func c02KnownNonNil(fn *ssa.Function, v ssa.Value, ret *ssa.Return) bool {
	if ErrNilStatus(v, 0) == NonNil {
		return true
	}
	if _, isZero := v.(zeroMarker); isZero {
		return false
	}
	if _, isConst := v.(*ssa.Const); isConst {
		return false
	}
	if _, nn, _ := NilTests(fn, Aliases(v)); len(nn) > 0 && MustPass(ret, newCut().Edges(nn...)) {
		return true // returned on the non-nil side of its own test
	}
	if isCtxErr(v) {
		if es := c02CtxDoneEdges(fn); len(es) > 0 && MustPass(ret, newCut().Edges(es...)) {
			return true // ctx.Err() after <-ctx.Done()
		}
	}
	return false
}

// c02NilableAtoms: the return atoms of fn's error result that may be nil.
func c02NilableAtoms(fn *ssa.Function) []RetAtom {
	idx := ErrResultIndex(fn.Signature)
	if idx < 0 {
		return nil
	}
	var out []RetAtom
	for _, a := range RetAtoms(fn, idx) {
		if !c02KnownNonNil(fn, a.Val, a.Ret) {
			out = append(out, a)
		}
	}
	return out
}

// c02NilReturnFrom explores forward from instruction index i of block b
// (entered from pred, may be nil) and returns a reachable Return whose error
// may be nil, avoiding the cut.  Functions without an error result "return
// nil" at every Return.
func c02NilReturnFrom(fn *ssa.Function, b *ssa.BasicBlock, i int, pred *ssa.BasicBlock, ct *cut) *RetAtom {
	errIdx := ErrResultIndex(fn.Signature)
	type state struct{ b, pred *ssa.BasicBlock }
	visited := map[state]bool{}
	var bad *RetAtom
	var walk func(b *ssa.BasicBlock, i int, pred *ssa.BasicBlock)
	walk = func(b *ssa.BasicBlock, i int, pred *ssa.BasicBlock) {
		if bad != nil {
			return
		}
		if i == 0 {
			st := state{b, pred}
			if visited[st] {
				return
			}
			visited[st] = true
		}
		for ; i < len(b.Instrs); i++ {
			in := b.Instrs[i]
			if ct != nil && ct.instrs[in] {
				return
			}
			r, ok := in.(*ssa.Return)
			if !ok {
				continue
			}
			if errIdx < 0 {
				bad = &RetAtom{Ret: r}
				return
			}
			for _, val := range resolveAt(r.Results[errIdx], b, pred, r, map[ssa.Value]bool{}) {
				if !c02KnownNonNil(fn, val, r) {
					bad = &RetAtom{Ret: r, Val: val}
					return
				}
			}
			return
		}
		for _, s := range b.Succs {
			if ct != nil && ct.edges[Edge{b, s}] {
				continue
			}
			walk(s, 0, b)
		}
	}
	walk(b, i, pred)
	return bad
}

// ---------- wait scopes ----------

// c02Scope is the region in which one element is waited for: the body of a
// loop over the slice, or a whole helper function receiving the element.
type c02Scope struct {
	fn     *ssa.Function
	loop   *Loop // nil: whole function
	startB *ssa.BasicBlock
	header ssa.Instruction
}

func (s *c02Scope) contains(in ssa.Instruction) bool { return s.loop == nil || s.loop.Contains(in) }

// next: the success continuation of the scope (next iteration; a nil-able
// return of the helper) is reachable from (b,i) avoiding the cut.
func (s *c02Scope) next(b *ssa.BasicBlock, i int, ct *cut) bool {
	if s.loop != nil {
		return reach(b, i, s.header, ct)
	}
	return c02NilReturnFrom(s.fn, b, i, nil, ct) != nil
}

func (s *c02Scope) pos() token.Pos {
	if s.loop != nil {
		return blockPos(s.loop.Header)
	}
	return s.fn.Pos()
}

func (s *c02Scope) what() string {
	if s.loop != nil {
		return "the next iteration"
	}
	return "a nil return"
}

func c02Pushes(fn *ssa.Function, except map[ssa.Instruction]bool) []ssa.CallInstruction {
	var pushes []ssa.CallInstruction
	for _, call := range Calls(fn, func(string) bool { return true }) {
		if _, isDefer := call.(*ssa.Defer); isDefer {
			continue
		}
		if except[call.(ssa.Instruction)] {
			continue
		}
		if isPushEffect(call) && CalleeName(call) != nGo {
			pushes = append(pushes, call)
		}
	}
	return pushes
}

func c02ReachesTryCommit(g *ssa.Function) bool {
	return c02ReachesStatic(g, 3, func(in ssa.Instruction) bool { return c02IsCallTo(in, nTryCommit) })
}

// c02ElemWait checks that the scope waits for the element denoted by elem:
// it obtains the element's tracker channel, fails if nobody owns the element,
// and receives from the channel in a select whose only alternative is
// ctx.Done() returning an error — inline, or through a helper that receives
// the element (checked as a scope of its own, on the nil edge of its error).
func c02ElemWait(c *Ctx, sc *c02Scope, elem map[ssa.Value]bool, pushes []ssa.CallInstruction, depth int) {
	const R1 = "C02.R1.wait-before-push"
	T := sc.fn
	tn := FnName(T)
	var tcs []ssa.CallInstruction
	for _, tc := range CallsTo(T, nTryCommit) {
		if !sc.contains(tc.(ssa.Instruction)) {
			continue
		}
		args := tc.Common().Args
		if c02RootedIn(args[len(args)-1], elem) {
			tcs = append(tcs, tc)
		}
	}
	if len(tcs) == 0 && depth < 3 {
		// the element handed to a helper that waits for it
		for _, call := range Calls(T, func(string) bool { return true }) {
			if _, isDefer := call.(*ssa.Defer); isDefer || !sc.contains(call.(ssa.Instruction)) {
				continue
			}
			g, off := c02CalleeOf(call)
			if g == nil || g == T || !c02ReachesTryCommit(g) {
				continue
			}
			for i, a := range call.Common().Args {
				prm := c02ArgParam(g, off, i)
				if prm == nil || !c02RootedIn(a, elem) {
					continue
				}
				c.OK(R1, tn+"|wait-loop-channel", call.Pos(), "the successor is handed to "+FnName(g)+", which is checked as the wait for it")
				c02ElemWait(c, &c02Scope{fn: g, startB: g.Blocks[0]}, Aliases(prm), c02Pushes(g, nil), depth+1)
				// only the nil result of the helper continues
				var nilE []Edge
				if e := ErrOf(call); e != nil {
					nilE, _, _ = NilTests(T, Aliases(e))
				}
				ct := newCut().Edges(nilE...)
				ok := len(nilE) > 0 && !sc.next(sc.startB, 0, ct)
				if ErrResultIndex(g.Signature) < 0 {
					// a helper without an error result: it must be executed on every path
					ok = !sc.next(sc.startB, 0, newCut().Instr(call.(ssa.Instruction)))
				}
				c.Check(R1, tn+"|wait-on-every-iteration", call.Pos(), ok,
					ifelse(ok, "every path to "+sc.what()+" takes the nil edge of the wait helper's error",
						"a path reaches "+sc.what()+" without a successful return of the wait helper "+FnName(g)))
				return
			}
		}
	}
	if !c.Check(R1, tn+"|wait-loop-channel", sc.pos(), len(tcs) == 1,
		ifelse(len(tcs) == 1, "the wait obtains the tracker channel of the current successor", "the wait loop does not obtain the tracker channel of the successor it iterates over")) {
		return
	}
	tc := tcs[0]
	ch := ResultOf(tc, 0)
	committed := ResultOf(tc, 1)
	if ch == nil {
		c.Violation(R1, tn+"|wait-loop-select", tc.Pos(), "the done channel returned by TryCommit is discarded")
		return
	}
	chAliases := Aliases(ch)
	var sel *ssa.Select
	var recvUnOp ssa.Instruction
	AllInstrs(T, func(in ssa.Instruction) {
		if s, ok := in.(*ssa.Select); ok && sc.contains(s) && selectRecvIndex(s, chAliases) >= 0 {
			sel = s
		}
		if u, ok := in.(*ssa.UnOp); ok && u.Op == token.ARROW && chAliases[u.X] && sc.contains(u) {
			recvUnOp = u
		}
	})
	if sel == nil {
		if recvUnOp != nil { // plain receive <-done is a wait without cancellation
			c.OK(R1, tn+"|wait-loop-select", recvUnOp.Pos(), "plain receive on the done channel")
			c.Violation("C02.R4.cancellable-wait", tn+"|select", recvUnOp.Pos(), "the wait on the successor's done channel has no ctx.Done() alternative: a failed sibling leaves the parent blocked forever")
			c.Check(R1, tn+"|wait-on-every-iteration", recvUnOp.Pos(), !sc.next(sc.startB, 0, newCut().Instr(recvUnOp)), "every path through the wait receives from the done channel")
		} else {
			c.Violation(R1, tn+"|wait-loop-select", sc.pos(), "the wait never receives from the successor's done channel")
		}
		return
	}
	c.OK(R1, tn+"|wait-loop-select", sel.Pos(), "select receives from the successor's done channel")
	ok := !sc.next(sc.startB, 0, newCut().Instr(sel))
	c.Check(R1, tn+"|wait-on-every-iteration", sel.Pos(), ok,
		ifelse(ok, "every path to "+sc.what()+" executes the select", "a path reaches "+sc.what()+" without waiting on the done channel"))
	k := selectRecvIndex(sel, chAliases)
	if e, found := selectCaseEdge(sel, k); found {
		ok := !sc.next(sel.Block(), instrIndex(sel)+1, newCut().Edges(e))
		c.Check(R1, tn+"|only-done-continues", sel.Pos(), ok,
			ifelse(ok, "only the done-channel case leads to "+sc.what(), "a select case other than the done channel continues (the successor may not be finished)"))
	} else {
		c.Undecided(R1, tn+"|only-done-continues", sel.Pos(), "cannot resolve the select's case dispatch")
	}
	// R4(a): blocking select, other cases are ctx.Done()
	okSel := sel.Blocking && len(sel.States) >= 2
	for i, st := range sel.States {
		if i == k {
			continue
		}
		call, isCall := st.Chan.(*ssa.Call)
		if !isCall || CalleeName(call) != "(context.Context).Done" || st.Dir != types.RecvOnly {
			okSel = false
		}
	}
	c.Check("C02.R4.cancellable-wait", tn+"|select", sel.Pos(), okSel,
		ifelse(okSel, "the wait is a select over the done channel and ctx.Done()", "the wait has no ctx.Done() alternative (or is non-blocking): a failed sibling leaves the parent blocked, or the parent does not wait"))
	errIdx := ErrResultIndex(T.Signature)
	for i := range sel.States {
		if i == k {
			continue
		}
		if e, found := selectCaseEdge(sel, i); found {
			bad := false
			for _, p := range pushes {
				if reach(e.To, 0, p.(ssa.Instruction), nil) {
					bad = true
				}
			}
			if errIdx < 0 {
				bad = true
			} else if a := findNilReturnFrom(T, e, errIdx, newCut(), map[ssa.Value]bool{}); a != nil {
				if !isCtxErr(a.Val) {
					bad = true
				}
			}
			c.Check("C02.R4.cancellable-wait", tn+"|ctx-done-returns-error", sel.Pos(), !bad,
				ifelse(!bad, "the ctx.Done() case returns ctx.Err() and reaches no push", "the ctx.Done() case can reach a push effect or return nil"))
		}
	}
	// committed==true: nobody owns the node -> must return an error
	if committed == nil {
		c.Violation(R1, tn+"|unowned-successor-is-error", tc.Pos(), "the `committed` result of TryCommit(successor) is discarded")
		return
	}
	te, _ := BoolTests(T, Aliases(committed))
	if len(te) == 0 {
		c.Violation(R1, tn+"|unowned-successor-is-error", tc.Pos(), "the `committed` result of TryCommit(successor) is not tested: if nobody claimed the successor the parent would wait forever or proceed")
	}
	for _, e := range te {
		bad := sc.next(e.To, 0, nil)
		for _, p := range pushes {
			if reach(e.To, 0, p.(ssa.Instruction), nil) {
				bad = true
			}
		}
		if errIdx < 0 {
			bad = true
		} else if a := findNilReturnFrom(T, e, errIdx, newCut(), map[ssa.Value]bool{}); a != nil {
			bad = true
		}
		c.Check(R1, tn+"|unowned-successor-is-error", tc.Pos(), !bad,
			ifelse(!bad, "a successor nobody claimed makes the parent return an error", "when TryCommit(successor) commits (nobody copied it) the parent continues instead of failing"))
	}
}

// ---------- slice waits ----------

type c02WaitSite struct {
	At    ssa.Instruction // loop header's first instruction, or the helper call
	Edges []Edge          // taken only when all elements have been waited for
	Instr ssa.Instruction // (helper without error result) executed => waited
	Loop  *Loop
}

// c02DispatchesParam: g hands parameter k to syncutil.Go (directly, or through
// a helper), i.e. calling g dispatches the slice.
func c02DispatchesParam(g *ssa.Function, k int, depth int) bool {
	if depth > 2 || k >= len(g.Params) {
		return false
	}
	return len(c02DispatchCalls(g, g.Params[k], depth)) > 0
}

// c02DispatchCalls: the calls of fn that dispatch slice S to syncutil.Go.
func c02DispatchCalls(fn *ssa.Function, S ssa.Value, depth int) []ssa.CallInstruction {
	var out []ssa.CallInstruction
	for _, call := range Calls(fn, func(string) bool { return true }) {
		if _, isDefer := call.(*ssa.Defer); isDefer {
			continue
		}
		if CalleeName(call) == nGo {
			if v := variadicArg(call); v != nil && SameValue(v, S) {
				out = append(out, call)
			}
			continue
		}
		g, off := c02CalleeOf(call)
		if g == nil || g == fn {
			continue
		}
		for i, a := range call.Common().Args {
			if prm := c02ArgParam(g, off, i); prm != nil && c02IsSlice(a) && SameValue(a, S) && c02DispatchesParam(g, i+off, depth+1) {
				out = append(out, call)
				break
			}
		}
	}
	return out
}

func c02IsSlice(v ssa.Value) bool {
	_, ok := v.Type().Underlying().(*types.Slice)
	return ok
}

// c02DispatchedSlices: the slices fn dispatches, as values of fn.
func c02DispatchedSlices(fn *ssa.Function) []ssa.Value {
	var out []ssa.Value
	add := func(v ssa.Value) {
		for _, o := range out {
			if SameValue(o, v) {
				return
			}
		}
		out = append(out, v)
	}
	for _, call := range Calls(fn, func(string) bool { return true }) {
		if _, isDefer := call.(*ssa.Defer); isDefer {
			continue
		}
		if CalleeName(call) == nGo {
			if v := variadicArg(call); v != nil {
				add(v)
			}
			continue
		}
		g, off := c02CalleeOf(call)
		if g == nil || g == fn {
			continue
		}
		for i, a := range call.Common().Args {
			if prm := c02ArgParam(g, off, i); prm != nil && c02IsSlice(a) && c02DispatchesParam(g, i+off, 1) {
				add(a)
			}
		}
	}
	return out
}

// c02SliceWaits finds, checks and returns the places of fn after which every
// element of S has been waited for.
func c02SliceWaits(c *Ctx, fn *ssa.Function, S ssa.Value, needDispatch bool, pushes []ssa.CallInstruction, depth int) []c02WaitSite {
	const R1 = "C02.R1.wait-before-push"
	tn := FnName(fn)
	disp := c02DispatchCalls(fn, S, 0)
	var sites []c02WaitSite
	loops := c02LoopsOver(fn, S)
	// prefer the loops that look at the tracker; if none does, all of them are
	// reported (a loop over the successors that does not wait)
	var waitLoops []*c02SliceLoop
	for _, sl := range loops {
		l := sl.L
		if c02ReachesStaticIn(fn, l, func(in ssa.Instruction) bool { return c02IsCallTo(in, nTryCommit) }) {
			waitLoops = append(waitLoops, sl)
		}
	}
	if len(waitLoops) == 0 {
		waitLoops = loops
	}
	for _, sl := range waitLoops {
		l := sl.L
		first := l.Header.Instrs[0]
		if needDispatch {
			ok := len(disp) > 0 && MustPass(first, newCut().Calls(disp))
			c.Check(R1, tn+"|dispatch-before-wait", blockPos(l.Header), ok, "syncutil.Go(successors...) must precede the wait loop on every path")
		}
		c02ElemWait(c, &c02Scope{fn: fn, loop: l, startB: sl.Body.To, header: first}, sl.Elem, pushes, depth)
		sites = append(sites, c02WaitSite{At: first, Edges: []Edge{sl.Exit}, Loop: l})
	}
	if depth >= 3 {
		return sites
	}
	// helpers that receive the slice and wait for all of it
	for _, call := range Calls(fn, func(string) bool { return true }) {
		if _, isDefer := call.(*ssa.Defer); isDefer {
			continue
		}
		g, off := c02CalleeOf(call)
		if g == nil || g == fn || !c02ReachesTryCommit(g) {
			continue
		}
		for i, a := range call.Common().Args {
			prm := c02ArgParam(g, off, i)
			if prm == nil || !c02IsSlice(a) || !SameValue(a, S) {
				continue
			}
			in := call.(ssa.Instruction)
			inner := needDispatch
			if needDispatch {
				var others []ssa.CallInstruction
				for _, d := range disp {
					if d != call {
						others = append(others, d)
					}
				}
				if len(others) > 0 && MustPass(in, newCut().Calls(others)) {
					inner = false
					c.OK(R1, tn+"|dispatch-before-wait", call.Pos(), "syncutil.Go(successors...) precedes the call of the wait helper "+FnName(g)+" on every path")
				}
			}
			c02SliceSummary(c, g, prm, inner, depth+1)
			site := c02WaitSite{At: in}
			if e := ErrOf(call); e != nil {
				site.Edges, _, _ = NilTests(fn, Aliases(e))
			} else if ErrResultIndex(g.Signature) < 0 {
				site.Instr = in
			}
			sites = append(sites, site)
			break
		}
	}
	return sites
}

// c02ReachesStaticIn: an instruction of loop l in fn, or of a function
// statically called from there, satisfies pred.
func c02ReachesStaticIn(fn *ssa.Function, l *Loop, pred func(in ssa.Instruction) bool) bool {
	found := false
	AllInstrs(fn, func(in ssa.Instruction) {
		if found || !l.Contains(in) {
			return
		}
		if pred(in) {
			found = true
			return
		}
		if call, ok := in.(ssa.CallInstruction); ok {
			if g, _ := c02CalleeOf(call); g != nil && g != fn && c02ReachesStatic(g, 2, pred) {
				found = true
			}
		}
	})
	return found
}

// c02SliceSummary checks helper g: every nil-able return (and every push
// effect in g) lies behind "len(P)==0" or a complete wait over parameter P.
func c02SliceSummary(c *Ctx, g *ssa.Function, P *ssa.Parameter, needDispatch bool, depth int) {
	const R1 = "C02.R1.wait-before-push"
	gn := FnName(g)
	except := map[ssa.Instruction]bool{}
	for _, d := range c02DispatchCalls(g, P, 0) {
		except[d.(ssa.Instruction)] = true
	}
	pushes := c02Pushes(g, except)
	sites := c02SliceWaits(c, g, P, needDispatch, pushes, depth)
	if len(sites) == 0 {
		c.Violation(R1, gn+"|wait-loop", g.Pos(), "the helper receives the dispatched successors but has no loop over them that waits")
		return
	}
	ct := newCut().Edges(lenZeroEdges(g, P)...)
	for _, s := range sites {
		ct.Edges(s.Edges...)
		ct.Instr(s.Instr)
		except[s.At] = true
	}
	ok := true
	if ErrResultIndex(g.Signature) >= 0 {
		for _, a := range c02NilableAtoms(g) {
			if !AtomMustPass(a, ct) {
				ok = false
			}
		}
	} else {
		for _, r := range Returns(g) {
			if !MustPass(r, ct) {
				ok = false
			}
		}
	}
	c.Check(R1, gn+"|nil-return-implies-all-waited", g.Pos(), ok,
		ifelse(ok, "every nil-error return of the helper has no successors or has left the wait loop through its exit edge",
			"the helper can return nil before every successor was waited for"))
	for _, p := range c02Pushes(g, except) {
		okp := MustPass(p.(ssa.Instruction), ct)
		c.Check(R1, gn+"|push:"+CalleeName(p), p.Pos(), okp,
			ifelse(okp, "every path to the push takes the len(successors)==0 edge or a completed wait", "a push effect in the wait helper is reachable before the wait completed"))
	}
}

// c02UnknownWaitLoop: a loop of fn that looks at the tracker but is not a
// recognised loop over S (shape not decidable).
func c02UnknownWaitLoop(fn *ssa.Function, known []c02WaitSite) *Loop {
	for _, l := range Loops(fn) {
		isKnown := false
		for _, s := range known {
			if s.Loop != nil && s.Loop.Header == l.Header {
				isKnown = true
			}
		}
		if isKnown {
			continue
		}
		if c02ReachesStaticIn(fn, l, func(in ssa.Instruction) bool { return c02IsCallTo(in, nTryCommit) }) {
			return l
		}
	}
	return nil
}

// ---------- error flow through helpers ----------

// c02MapsError: helper g maps its error parameter p faithfully: whenever p is
// non-nil and not one of the tolerated sentinels, g's error result is non-nil.
func c02MapsError(g *ssa.Function, p *ssa.Parameter, tolerated []string) (bool, string) {
	errIdx := ErrResultIndex(g.Signature)
	if errIdx < 0 || !isErrorType(p.Type()) {
		return false, ""
	}
	aliases := Aliases(p)
	_, nonNilE, ifs := NilTests(g, aliases)
	if len(ifs) == 0 {
		for _, a := range RetAtoms(g, errIdx) {
			if aliases[a.Val] || aliases[strip(a.Val)] || ErrNilStatus(a.Val, 0) == NonNil || derivesFromAny(a.Val, aliases, 0) {
				continue
			}
			return false, fmt.Sprintf("%s can return %s for a non-nil argument", FnName(g), describe(a.Val))
		}
		return true, ""
	}
	ct := newCut().Edges(toleratedEdges(g, aliases, tolerated)...)
	for _, ne := range nonNilE {
		if bad := findNilReturnFrom(g, ne, errIdx, ct, aliases); bad != nil {
			return false, fmt.Sprintf("%s returns %s for a non-nil, non-tolerated argument (return at %s)", FnName(g), describe(bad.Val), posLine(g, bad.Ret.Pos()))
		}
	}
	return true, ""
}

// c02ErrFlow is ErrFlow, extended: an error that is neither tested nor
// returned but handed to an in-module helper which maps it faithfully is
// analysed through the helper (the helper's result must then surface).
func c02ErrFlow(call ssa.CallInstruction, o ErrFlowOpts, depth int) ErrFlowResult {
	r := ErrFlow(call, o)
	if r.OK || depth > 2 {
		return r
	}
	if _, isDefer := call.(*ssa.Defer); isDefer {
		return r
	}
	e := ErrOf(call)
	if e == nil {
		return r
	}
	fn := call.Parent()
	aliases := Aliases(e)
	if _, _, ifs := NilTests(fn, aliases); len(ifs) > 0 {
		return r // tested here: ErrFlow's verdict stands
	}
	var detail string
	for _, m := range Calls(fn, func(string) bool { return true }) {
		if m == call {
			continue
		}
		if _, isDefer := m.(*ssa.Defer); isDefer {
			continue
		}
		g, off := c02CalleeOf(m)
		if g == nil {
			continue
		}
		for i, a := range m.Common().Args {
			if !aliases[a] {
				continue
			}
			prm := c02ArgParam(g, off, i)
			if prm == nil {
				continue
			}
			ok, why := c02MapsError(g, prm, o.Tolerated)
			if !ok {
				if why != "" {
					detail = why
				}
				continue
			}
			r2 := c02ErrFlow(m, ErrFlowOpts{AllowCancel: o.AllowCancel}, depth+1)
			if r2.OK {
				how := "mapped by " + FnName(g) + " (nil"
				if len(o.Tolerated) > 0 {
					how += fmt.Sprintf(" or tolerated %v", o.Tolerated)
				}
				return ErrFlowResult{OK: true, How: how + " -> nil, anything else -> non-nil), whose result is " + r2.How}
			}
			detail = "the error is mapped by " + FnName(g) + " but that result does not surface: " + r2.Detail
		}
	}
	if detail != "" {
		r.Detail = detail
	}
	return r
}

// c02CallSites: the calls of g in the functions of its package.
func c02CallSites(p *Prog, g *ssa.Function) []ssa.CallInstruction {
	var out []ssa.CallInstruction
	path := strings.TrimPrefix(strings.TrimPrefix(fnPkgPath(g), Mod), "/")
	for _, f := range p.FuncsOfPkg(path) {
		for _, call := range Calls(f, func(string) bool { return true }) {
			if h, _ := c02CalleeOf(call); h == g {
				out = append(out, call)
			}
		}
	}
	return out
}

// c02ErrIdentities: the callback fields (struct field a function value was
// loaded from) whose error the call may return unchanged — the callback
// itself, or an in-module helper that invokes it and returns its result.
// argOf maps parameters of the function containing `call` to the argument
// values of the call under analysis (context), nil = all call sites.
func c02ErrIdentities(p *Prog, call ssa.CallInstruction, argOf map[*ssa.Parameter]ssa.Value, depth int) map[string]bool {
	out := map[string]bool{}
	if depth > 3 {
		return out
	}
	cc := call.Common()
	if cc.IsInvoke() {
		return out
	}
	if g, off := c02CalleeOf(call); g != nil && StaticCallee(call) != nil {
		errIdx := ErrResultIndex(g.Signature)
		if errIdx < 0 {
			return out
		}
		binding := map[*ssa.Parameter]ssa.Value{}
		for i, a := range cc.Args {
			if prm := c02ArgParam(g, off, i); prm != nil {
				binding[prm] = a
			}
		}
		for _, a := range RetAtoms(g, errIdx) {
			var u ssa.CallInstruction
			switch x := strip(a.Val).(type) {
			case *ssa.Call:
				u = x
			case *ssa.Extract:
				if cl, ok := x.Tuple.(*ssa.Call); ok {
					u = cl
				}
			}
			if u == nil {
				continue
			}
			for k := range c02ErrIdentities(p, u, binding, depth+1) {
				out[k] = true
			}
		}
		// identities seen from inside g are expressed in g's caller: resolve
		// them if they are still parameters of the enclosing function
		return out
	}
	for _, r := range Roots(cc.Value) {
		if f := fieldOfFuncValue(r); f != "" {
			out["field:"+f] = true
			continue
		}
		prm, ok := r.(*ssa.Parameter)
		if !ok {
			continue
		}
		var vals []ssa.Value
		if argOf != nil {
			if v, ok := argOf[prm]; ok {
				vals = append(vals, v)
			}
		} else {
			idx := -1
			for i, q := range prm.Parent().Params {
				if q == prm {
					idx = i
				}
			}
			for _, site := range c02CallSites(p, prm.Parent()) {
				_, off := c02CalleeOf(site)
				if a := site.Common().Args; idx-off >= 0 && idx-off < len(a) {
					vals = append(vals, a[idx-off])
				}
			}
		}
		for _, v := range vals {
			named := false
			for _, rr := range Roots(v) {
				if f := fieldOfFuncValue(rr); f != "" {
					out["field:"+f] = true
					named = true
				}
			}
			if !named {
				out["?"] = true
			}
		}
	}
	return out
}

// ---------- permit typestate ----------

const (
	c02Bot int8 = iota
	c02Held
	c02Released
	c02Mixed
)

func c02StateName(s int8) string {
	return [...]string{"unreachable", "held", "released", "held on some paths and released on others"}[s]
}

type c02Permit struct {
	s       int8
	last    ssa.Instruction // the transition that produced s, if the same on all paths
	touched bool            // some End/Start happened on a path to here
}

func c02Join(a, b c02Permit) c02Permit {
	if a.s == c02Bot {
		return b
	}
	if b.s == c02Bot {
		return a
	}
	out := c02Permit{s: a.s, last: a.last, touched: a.touched || b.touched}
	if a.s != b.s {
		out.s = c02Mixed
	}
	if a.last != b.last {
		out.last = nil
	}
	return out
}

type c02PermitKey struct {
	fn      *ssa.Function
	k       int
	s       int8
	touched bool
}

type c02PermitSummary struct{ exitNil, exitAny int8 }

type c02PermitAnalysis struct {
	c        *Ctx
	memo     map[c02PermitKey]c02PermitSummary
	visiting map[c02PermitKey]bool
	Analysed map[*ssa.Function]bool
}

func newC02PermitAnalysis(c *Ctx) *c02PermitAnalysis {
	return &c02PermitAnalysis{c: c, memo: map[c02PermitKey]c02PermitSummary{}, visiting: map[c02PermitKey]bool{}, Analysed: map[*ssa.Function]bool{}}
}

func c02IsRegionType(t types.Type) bool {
	return strings.HasSuffix(t.String(), "syncutil.LimitedRegion")
}

// c02ReachesBlocking: g (through static calls) dispatches with syncutil.Go or
// blocks on a channel.
func c02ReachesBlocking(g *ssa.Function) bool {
	return c02ReachesStatic(g, 3, c02IsBlockingInstr)
}

func c02IsBlockingInstr(in ssa.Instruction) bool {
	switch x := in.(type) {
	case *ssa.Select:
		return x.Blocking
	case *ssa.UnOp:
		return x.Op == token.ARROW
	case *ssa.Call:
		return CalleeName(x) == nGo
	}
	return false
}

// run analyses fn, whose parameter k is the task's LimitedRegion, entered in
// state entry; it records the obligations of fn and returns the state at its
// nil-error returns and at all returns.
func (pa *c02PermitAnalysis) run(fn *ssa.Function, k int, entry c02Permit, depth int) c02PermitSummary {
	const R4 = "C02.R4.permit-typestate"
	c := pa.c
	key := c02PermitKey{fn, k, entry.s, entry.touched}
	if s, ok := pa.memo[key]; ok {
		return s
	}
	tn := FnName(fn)
	if pa.visiting[key] || depth > 4 {
		c.Undecided(R4, tn+"|region-passed-recursively", fn.Pos(), "the LimitedRegion is handed down a recursive or too deep call chain")
		return c02PermitSummary{c02Mixed, c02Mixed}
	}
	pa.visiting[key] = true
	defer delete(pa.visiting, key)
	pa.Analysed[fn] = true

	R := Aliases(fn.Params[k])
	isRegion := func(v ssa.Value) bool { return c02RootedIn(v, R) }

	// overrides[e][call] = state on edge e when the last transition was `call`
	// (the nil edge of a Start / of a callee that received the region)
	overrides := map[Edge]map[ssa.Instruction]int8{}
	setOverride := func(call ssa.CallInstruction, s int8) {
		if e := ErrOf(call); e != nil {
			ne, _, _ := NilTests(fn, Aliases(e))
			for _, ed := range ne {
				if overrides[ed] == nil {
					overrides[ed] = map[ssa.Instruction]int8{}
				}
				overrides[ed][call.(ssa.Instruction)] = s
			}
		}
	}
	effects := map[ssa.Instruction]bool{}
	for _, p := range storageEffects(fn) {
		effects[p.(ssa.Instruction)] = true
	}

	// classify: what an instruction does to / requires of the permit
	type kind int
	const (
		kNone kind = iota
		kEnd
		kStart
		kPass // region handed to an in-module callee
		kBlock
		kEffect
	)
	classify := func(in ssa.Instruction) (kind, *ssa.Function, int) {
		if _, isDefer := in.(*ssa.Defer); isDefer {
			return kNone, nil, 0
		}
		if call, ok := in.(ssa.CallInstruction); ok {
			n := CalleeName(call)
			args := call.Common().Args
			if (n == nEnd || n == nStart) && len(args) > 0 && isRegion(args[0]) {
				if n == nEnd {
					return kEnd, nil, 0
				}
				return kStart, nil, 0
			}
			if g, off := c02CalleeOf(call); g != nil {
				for i, a := range args {
					if prm := c02ArgParam(g, off, i); prm != nil && isPtrToRegion(a.Type()) && isRegion(a) {
						return kPass, g, i + off
					}
				}
				if n != nGo && c02ReachesBlocking(g) {
					return kBlock, nil, 0
				}
			}
			if n == nGo {
				return kBlock, nil, 0
			}
			if effects[in] {
				return kEffect, nil, 0
			}
			return kNone, nil, 0
		}
		if c02IsBlockingInstr(in) {
			return kBlock, nil, 0
		}
		return kNone, nil, 0
	}

	in := map[*ssa.BasicBlock]c02Permit{}
	out := map[*ssa.BasicBlock]c02Permit{}
	passSummary := map[ssa.Instruction]c02PermitSummary{}
	transfer := func(b *ssa.BasicBlock, st c02Permit, report bool) c02Permit {
		for _, ins := range b.Instrs {
			kd, g, gi := classify(ins)
			switch kd {
			case kBlock:
				if report {
					ok := st.s == c02Released
					c.Check(R4, tn+"|released-at:"+instrLabel(ins), ins.Pos(), ok,
						ifelse(ok, "the permit is released (region.End(), no Start since) on every path to this blocking operation",
							"the limiter permit may still be held at this blocking operation (with Concurrency=1 the copy deadlocks); state: "+c02StateName(st.s)))
				}
			case kEffect:
				if report && st.touched {
					ok := st.s == c02Held
					c.Check(R4, tn+"|held-at:"+instrLabel(ins), ins.Pos(), ok,
						ifelse(ok, "the permit is held (a successful region.Start() after every region.End()) at this storage effect",
							"storage effect reachable after region.End() without re-acquiring the permit (concurrency bound exceeded); state: "+c02StateName(st.s)))
				}
			case kEnd:
				st = c02Permit{s: c02Released, last: ins, touched: true}
			case kStart:
				st = c02Permit{s: st.s, last: ins, touched: true}
				if !report {
					setOverride(ins.(ssa.CallInstruction), c02Held)
				}
			case kPass:
				var sum c02PermitSummary
				if report {
					sum = passSummary[ins]
				} else {
					sum = pa.run(g, gi, c02Permit{s: st.s, touched: st.touched}, depth+1)
					passSummary[ins] = sum
					setOverride(ins.(ssa.CallInstruction), sum.exitNil)
				}
				st = c02Permit{s: sum.exitAny, last: ins, touched: true}
				if ErrResultIndex(g.Signature) < 0 {
					st.s = sum.exitNil
				}
			}
		}
		return st
	}
	edgeState := func(p, b *ssa.BasicBlock) c02Permit {
		st := out[p]
		if st.s == c02Bot {
			return st
		}
		if st.last != nil {
			if s, ok := overrides[Edge{p, b}][st.last]; ok {
				return c02Permit{s: s, last: st.last, touched: true}
			}
		}
		return st
	}
	// fixpoint (the summaries of callees depend on the entry state, so iterate
	// with memoised callee runs; the lattice has height 3)
	for iter := 0; iter < 50; iter++ {
		changed := false
		for _, b := range fn.Blocks {
			var st c02Permit
			if b == fn.Blocks[0] {
				st = entry
			}
			for _, p := range b.Preds {
				st = c02Join(st, edgeState(p, b))
			}
			if st.s == c02Bot {
				continue
			}
			o := transfer(b, st, false)
			if in[b] != st || out[b] != o {
				in[b], out[b] = st, o
				changed = true
			}
		}
		if !changed {
			break
		}
	}
	for _, b := range fn.Blocks {
		if in[b].s != c02Bot {
			transfer(b, in[b], true)
		}
	}
	// a closure that captures the region and ends/starts it is out of reach
	AllInstrs(fn, func(ins ssa.Instruction) {
		mc, ok := ins.(*ssa.MakeClosure)
		if !ok {
			return
		}
		for _, bnd := range mc.Bindings {
			captured := isRegion(bnd)
			if a, isAlloc := bnd.(*ssa.Alloc); isAlloc {
				for _, s := range storesTo(a) {
					if isRegion(s.Val) {
						captured = true
					}
				}
			}
			if captured && reachesCall(mc.Fn.(*ssa.Function), 2, func(n string, _ ssa.CallInstruction) bool { return n == nEnd || n == nStart }) {
				c.Undecided(R4, tn+"|region-captured", mc.Pos(), "the LimitedRegion is captured by a closure that ends or starts it; the permit state cannot be followed")
			}
		}
	})
	// exit states
	sum := c02PermitSummary{}
	retState := map[*ssa.Return]c02Permit{}
	for _, r := range Returns(fn) {
		if in[r.Block()].s != c02Bot {
			retState[r] = out[r.Block()]
			sum.exitAny = c02Join(c02Permit{s: sum.exitAny}, out[r.Block()]).s
		}
	}
	errIdx := ErrResultIndex(fn.Signature)
	if errIdx < 0 {
		sum.exitNil = sum.exitAny
	} else {
		acc := c02Permit{}
		for _, a := range c02NilableAtoms(fn) {
			st, ok := retState[a.Ret]
			if !ok {
				continue
			}
			if len(a.Edges) > 0 {
				e := a.Edges[len(a.Edges)-1]
				if es := edgeState(e.From, e.To); es.s != c02Bot {
					st = es
				}
			}
			// the returned value is the error of a Start / of a callee that
			// received the region: nil means that call succeeded
			if st.last != nil {
				if lc, ok := st.last.(ssa.CallInstruction); ok {
					if e := ErrOf(lc); e != nil && (Aliases(e)[a.Val] || Aliases(e)[strip(a.Val)]) {
						if CalleeName(lc) == nStart {
							st.s = c02Held
						} else if ps, ok := passSummary[st.last]; ok {
							st.s = ps.exitNil
						}
					}
				}
			}
			acc = c02Join(acc, st)
		}
		sum.exitNil = acc.s
		if sum.exitNil == c02Bot {
			sum.exitNil = sum.exitAny
		}
	}
	pa.memo[key] = sum
	return sum
}

func isPtrToRegion(t types.Type) bool {
	p, ok := t.Underlying().(*types.Pointer)
	return ok && c02IsRegionType(p.Elem())
}

// c02EndsOnEveryExit: every return of fn is preceded by region.End() — a
// direct or deferred call, or a call (or deferred call) of an in-module helper
// that itself ends the region on every exit.
func c02EndsOnEveryExit(fn *ssa.Function, depth int) bool {
	if depth > 2 {
		return false
	}
	ct := newCut()
	n := 0
	for _, call := range Calls(fn, func(string) bool { return true }) {
		if CalleeName(call) == nEnd {
			ct.Instr(call.(ssa.Instruction))
			n++
			continue
		}
		g, _ := c02CalleeOf(call)
		if g == nil || g == fn {
			continue
		}
		passes := false
		for _, a := range call.Common().Args {
			if isPtrToRegion(a.Type()) {
				passes = true
			}
		}
		if passes && c02EndsOnEveryExit(g, depth+1) {
			ct.Instr(call.(ssa.Instruction))
			n++
		}
	}
	if n == 0 {
		return false
	}
	for _, r := range Returns(fn) {
		if !MustPass(r, ct) {
			return false
		}
	}
	return true
}

// c02TaskCall is a call of the task function (the dynamic callee that
// receives the LimitedRegion) found in the goroutine body or in a helper the
// body statically calls; chain lists the calls leading from the body to it.
type c02TaskCall struct {
	call  ssa.CallInstruction
	chain []ssa.CallInstruction // innermost first
}

func c02TaskCalls(f *ssa.Function, chain []ssa.CallInstruction, depth int) []c02TaskCall {
	var out []c02TaskCall
	for _, call := range Calls(f, func(string) bool { return true }) {
		if _, isDefer := call.(*ssa.Defer); isDefer {
			continue
		}
		cc := call.Common()
		if cc.IsInvoke() {
			continue
		}
		if _, isBuiltin := cc.Value.(*ssa.Builtin); isBuiltin {
			continue
		}
		passesRegion := false
		for _, a := range cc.Args {
			if isPtrToRegion(a.Type()) {
				passesRegion = true
			}
		}
		g, _ := c02CalleeOf(call)
		if g == nil {
			if passesRegion && StaticCallee(call) == nil && ErrResultIndex(cc.Signature()) >= 0 {
				out = append(out, c02TaskCall{call, chain})
			}
			continue
		}
		if depth < 2 && g != f {
			out = append(out, c02TaskCalls(g, append([]ssa.CallInstruction{call}, chain...), depth+1)...)
		}
	}
	return out
}
