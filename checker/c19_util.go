package main

// Path-sensitive symbolic evaluation of small functions ("sx"), used by C19
// and C20 (DESIGN E3 "acyclic path enumeration with φ-resolution and pruning on
// constant/boolean branch conditions" + E9 value identity).
//
// sxPaths(fn) enumerates the paths of fn's CFG (every block at most twice per
// path), evaluating each instruction into a symbolic term: parameters,
// constants, entry contents of memory (`init(p)`), fields, struct values with
// overridden fields, call results (identified by the call instruction, with
// the argument terms recorded), operators.  Local cells and pointees are
// tracked in a per-path store with whole-struct normalisation, so that
// `manifest.Config.MediaType` at a call site is the very term that was
// validated earlier on the same path.  Branch conditions become facts; a path
// that would need a condition both true and false is infeasible and dropped
// (this resolves flags such as `emptyBlobExists`).
//
// Nothing here executes repository code.  Constructs the evaluator does not
// model become sxUnknown terms; rules that meet one where it matters report
// Undecided.

import (
	"fmt"
	"go/constant"
	"go/token"
	"go/types"
	"sort"
	"strings"

	"golang.org/x/tools/go/ssa"
)

type sxVal interface{ key() string }

type (
	sxConst     struct{ c *ssa.Const }
	sxParam     struct{ p *ssa.Parameter }
	sxFreeVar   struct{ v *ssa.FreeVar }
	sxGlobal    struct{ g *ssa.Global } // address of a package-level variable
	sxAlloc     struct{ a *ssa.Alloc }  // address of a local cell
	sxFieldAddr struct {
		base  sxVal
		field int
		name  string
	}
	sxIndexAddr struct {
		base sxVal
		idx  sxVal
	}
	sxInit  struct{ addr sxVal } // contents of *addr at function entry
	sxField struct {
		x     sxVal
		field int
		name  string
	}
	sxStruct struct { // struct/array value: base with some fields replaced
		base   sxVal // nil: zero value
		fields map[int]sxVal
		names  map[int]string
	}
	sxZero struct{ t types.Type }
	sxCall struct {
		rec *sxCallRec
		idx int
	}
	sxOp struct {
		op   string
		args []sxVal
	}
	sxClosure struct {
		fn       *ssa.Function
		bindings []sxVal
		ssaBind  []ssa.Value // the SSA values bound (for pattern resolution)
	}
	sxList   struct{ elems []sxVal } // slice value with known elements (append of literals)
	sxMapLit struct {                // immutable package-level map literal
		g          *ssa.Global
		keys, vals []sxVal
	}
	sxFunc    struct{ fn *ssa.Function }
	sxTuple   struct{ vals []sxVal } // results of an inlined multi-result call
	sxUnknown struct {
		why string
		id  int
	}
)

func (v sxConst) key() string {
	if v.c.Value == nil {
		return "nil"
	}
	return "const:" + v.c.Value.ExactString()
}
func (v sxParam) key() string   { return "param:" + v.p.Name() }
func (v sxFreeVar) key() string { return "freevar:" + v.v.Name() }
func (v sxGlobal) key() string  { return "&" + short(v.g.Pkg.Pkg.Path()) + "." + v.g.Name() }
func (v sxAlloc) key() string {
	return "&local:" + v.a.Parent().Name() + "." + v.a.Name() + "(" + v.a.Comment + ")"
}
func (v sxFieldAddr) key() string { return "&(" + v.base.key() + ")." + v.name }
func (v sxIndexAddr) key() string { return "&(" + v.base.key() + ")[" + v.idx.key() + "]" }
func (v sxInit) key() string      { return "init(" + v.addr.key() + ")" }
func (v sxField) key() string     { return "(" + v.x.key() + ")." + v.name }
func (v sxZero) key() string      { return "zero" }
func (v sxCall) key() string      { return fmt.Sprintf("call:%s#%d", v.rec.id, v.idx) }
func (v sxFunc) key() string      { return "func:" + FnName(v.fn) }
func (v sxMapLit) key() string    { return "maplit:" + short(v.g.Pkg.Pkg.Path()) + "." + v.g.Name() }
func (v sxList) key() string {
	parts := make([]string, len(v.elems))
	for i, a := range v.elems {
		parts[i] = a.key()
	}
	return "list[" + strings.Join(parts, ",") + "]"
}
func (v sxTuple) key() string {
	parts := make([]string, len(v.vals))
	for i, a := range v.vals {
		parts[i] = a.key()
	}
	return "tuple(" + strings.Join(parts, ",") + ")"
}
func (v sxUnknown) key() string { return fmt.Sprintf("unknown%d:%s", v.id, v.why) }
func (v sxStruct) key() string {
	var ks []int
	for k := range v.fields {
		ks = append(ks, k)
	}
	sort.Ints(ks)
	var sb strings.Builder
	sb.WriteString("struct{")
	if v.base != nil {
		sb.WriteString("base=" + v.base.key() + ";")
	}
	for _, k := range ks {
		fmt.Fprintf(&sb, "%s=%s;", v.names[k], v.fields[k].key())
	}
	sb.WriteString("}")
	return sb.String()
}
func (v sxOp) key() string {
	parts := make([]string, len(v.args))
	for i, a := range v.args {
		if a == nil {
			parts[i] = "_"
		} else {
			parts[i] = a.key()
		}
	}
	return v.op + "(" + strings.Join(parts, ",") + ")"
}
func (v sxClosure) key() string {
	parts := make([]string, len(v.bindings))
	for i, a := range v.bindings {
		parts[i] = a.key()
	}
	return "closure:" + FnName(v.fn) + "[" + strings.Join(parts, ",") + "]"
}

func sxSame(a, b sxVal) bool { return a != nil && b != nil && a.key() == b.key() }

// sxCallRec is one executed call on a path.
type sxCallRec struct {
	Call     ssa.CallInstruction
	Name     string        // CalleeName, or the resolved method for bound-method values
	Callee   *ssa.Function // static callee / closure body when resolved on this path
	Recv     sxVal         // receiver for bound-method values
	RecvSSA  ssa.Value     // the SSA value of that receiver, where known
	Args     []sxVal
	NFacts   int // number of facts established before the call
	Mem      map[string]sxVal
	Deferred bool
	id       string
}

// Result returns the term of result #idx (negative: from the end).
func (r *sxCallRec) Result(idx int) sxVal {
	if idx < 0 {
		idx += r.Call.Common().Signature().Results().Len()
	}
	return sxCall{r, idx}
}

type sxFact struct {
	Key  string
	Val  bool
	Cond sxVal
}

type sxMapUpdate struct {
	Map, Key, Val sxVal
	NFacts        int
}

// sxPath is one feasible path from entry to a Return or Panic.
type sxPath struct {
	Fn       *ssa.Function
	Blocks   []*ssa.BasicBlock
	Calls    []*sxCallRec
	Facts    []sxFact
	Updates  []sxMapUpdate
	Ret      []sxVal // nil when the path ends in panic
	RetInstr *ssa.Return
	Mem      map[string]sxVal
}

// Fact looks up a fact established among the first n facts (n<0: all).
func (p *sxPath) Fact(n int, key string) (val, known bool) {
	if n < 0 || n > len(p.Facts) {
		n = len(p.Facts)
	}
	for i := 0; i < n; i++ {
		if p.Facts[i].Key == key {
			return p.Facts[i].Val, true
		}
	}
	return false, false
}

func sxEqKey(a, b sxVal) string {
	ka, kb := a.key(), b.key()
	if ka > kb {
		ka, kb = kb, ka
	}
	return "==(" + ka + "," + kb + ")"
}

var sxNil = sxConst{c: &ssa.Const{}}

func sxStr(s string) sxVal {
	return sxConst{c: ssa.NewConst(constant.MakeString(s), types.Typ[types.String])}
}
func sxInt(n int64) sxVal {
	return sxConst{c: ssa.NewConst(constant.MakeInt64(n), types.Typ[types.Int])}
}

// KnownEq: (a == b) is known true/false among the first n facts.
func (p *sxPath) KnownEq(n int, a, b sxVal) (val, known bool) {
	if sxSame(a, b) {
		return true, true
	}
	ca, okA := a.(sxConst)
	cb, okB := b.(sxConst)
	if okA && okB {
		return ca.key() == cb.key(), true
	}
	return p.Fact(n, sxEqKey(a, b))
}

// IsNil / NonNil: v is known nil / non-nil before fact index n.
func (p *sxPath) IsNil(n int, v sxVal) bool {
	val, known := p.KnownEq(n, v, sxNil)
	return known && val
}
func (p *sxPath) NonNil(n int, v sxVal) bool {
	val, known := p.KnownEq(n, v, sxNil)
	return known && !val
}

// ErrNil: the error result of call r is known nil before fact index n.
func (p *sxPath) ErrNil(n int, r *sxCallRec) bool {
	i := ErrResultIndex(r.Call.Common().Signature())
	return i >= 0 && p.IsNil(n, sxCall{r, i})
}

// IsEmptyString: v == "" known true before n (also len(v)==0).
func (p *sxPath) IsEmptyString(n int, v sxVal) bool {
	if val, known := p.KnownEq(n, v, sxStr("")); known && val {
		return true
	}
	if val, known := p.KnownEq(n, sxOp{"len", []sxVal{v}}, sxInt(0)); known && val {
		return true
	}
	return false
}

// CallsNamed returns the calls of the path whose name is one of names.
func (p *sxPath) CallsNamed(names ...string) []*sxCallRec {
	var out []*sxCallRec
	for _, r := range p.Calls {
		for _, n := range names {
			if r.Name == n {
				out = append(out, r)
			}
		}
	}
	return out
}

// ---------- executor ----------

const (
	sxMaxPaths  = 50000
	sxMaxVisits = 2
	sxMaxSteps  = 4000
)

type sxState struct {
	fn      *ssa.Function
	regs    map[ssa.Value]sxVal
	mem     map[string]sxVal
	facts   []sxFact
	factIdx map[string]bool
	calls   []*sxCallRec
	updates []sxMapUpdate
	blocks  []*ssa.BasicBlock
	visits  map[*ssa.BasicBlock]int
	nUnk    *int
	nCall   map[ssa.Instruction]int
	steps   int
}

func (s *sxState) clone() *sxState {
	c := &sxState{fn: s.fn, nUnk: s.nUnk, steps: s.steps,
		regs: make(map[ssa.Value]sxVal, len(s.regs)), mem: make(map[string]sxVal, len(s.mem)),
		factIdx: make(map[string]bool, len(s.factIdx)), visits: make(map[*ssa.BasicBlock]int, len(s.visits)),
		nCall: make(map[ssa.Instruction]int, len(s.nCall))}
	for k, v := range s.regs {
		c.regs[k] = v
	}
	for k, v := range s.mem {
		c.mem[k] = v
	}
	for k, v := range s.factIdx {
		c.factIdx[k] = v
	}
	for k, v := range s.visits {
		c.visits[k] = v
	}
	for k, v := range s.nCall {
		c.nCall[k] = v
	}
	c.facts = append([]sxFact(nil), s.facts...)
	c.calls = append([]*sxCallRec(nil), s.calls...)
	c.updates = append([]sxMapUpdate(nil), s.updates...)
	c.blocks = append([]*ssa.BasicBlock(nil), s.blocks...)
	return c
}

func (s *sxState) unknown(why string) sxVal {
	*s.nUnk++
	return sxUnknown{why: why, id: *s.nUnk}
}

// sxResult is the outcome of enumerating fn.
type sxResult struct {
	Paths  []*sxPath
	Err    string // non-empty: enumeration gave up (caller reports Undecided)
	Pruned int
}

type sxCacheKey struct {
	fn  *ssa.Function
	tag string
}

var sxCache = map[sxCacheKey]*sxResult{}

// sxFrame is one activation on the inline stack.
type sxFrame struct {
	fn     *ssa.Function
	parent *sxFrame
	depth  int
}

func (f *sxFrame) active(fn *ssa.Function) bool {
	for x := f; x != nil; x = x.parent {
		if x.fn == fn {
			return true
		}
	}
	return false
}

const (
	sxInlineDepth  = 7
	sxInlineBlocks = 60
)

// sxPaths enumerates the feasible paths of fn without inlining any callee.
func sxPaths(fn *ssa.Function) *sxResult { return sxPathsInline(fn, "", nil) }

// sxPathsInline enumerates the feasible paths of fn; static in-module callees
// with a body for which inline(callee) holds are executed in place (depth ≤ 3,
// no recursion), so that extracting a helper does not change what a rule
// sees.  tag names the inlining policy (cache key).
func sxPathsInline(fn *ssa.Function, tag string, inline func(*ssa.Function) bool) *sxResult {
	ck := sxCacheKey{fn, tag}
	if r, ok := sxCache[ck]; ok {
		return r
	}
	res := &sxResult{}
	sxCache[ck] = res
	if len(fn.Blocks) == 0 {
		res.Err = "function has no body"
		return res
	}
	n := 0
	st := &sxState{fn: fn, regs: map[ssa.Value]sxVal{}, mem: map[string]sxVal{}, factIdx: map[string]bool{},
		visits: map[*ssa.BasicBlock]int{}, nUnk: &n, nCall: map[ssa.Instruction]int{}}
	type cont func(s *sxState, ret *ssa.Return, results []sxVal)
	var runBlock func(s *sxState, fr *sxFrame, b, pred *ssa.BasicBlock, k cont)
	var runInstrs func(s *sxState, fr *sxFrame, b *ssa.BasicBlock, from int, k cont)
	// branch explores cond == true and cond == false, pruning what the facts
	// of the path (and library contracts) exclude.
	branch := func(s *sxState, cond sxVal, each func(ns *sxState, truth bool)) {
		key, neg, constant, cval := sxCondKey(cond)
		for i := 0; i < 2; i++ {
			truth := i == 0
			if constant {
				if cval != truth {
					res.Pruned++
					continue
				}
				each(s.clone(), truth)
				continue
			}
			fv := truth != neg // value of the canonical (positive) condition
			if old, ok := s.factIdx[key]; ok && old != fv {
				res.Pruned++
				continue
			}
			// facts implied by library contracts (strings.Cut: !found ⇒ after == "")
			implied := sxImplied(cond, key, fv)
			conflict := false
			for _, f := range implied {
				if old, ok := s.factIdx[f.Key]; ok && old != f.Val {
					conflict = true
				}
			}
			for k2, v2 := range s.factIdx {
				for _, f := range sxImpliedBy(s, k2, v2) {
					if f.Key == key && f.Val != fv {
						conflict = true
					}
				}
			}
			if conflict {
				res.Pruned++
				continue
			}
			ns := s.clone()
			if _, ok := ns.factIdx[key]; !ok {
				ns.factIdx[key] = fv
				ns.facts = append(ns.facts, sxFact{Key: key, Val: fv, Cond: cond})
			}
			for _, f := range implied {
				if _, ok := ns.factIdx[f.Key]; !ok {
					ns.factIdx[f.Key] = f.Val
					ns.facts = append(ns.facts, f)
				}
			}
			each(ns, truth)
		}
	}
	runBlock = func(s *sxState, fr *sxFrame, b, pred *ssa.BasicBlock, k cont) {
		if res.Err != "" {
			return
		}
		s.steps++
		if s.steps > sxMaxSteps {
			res.Err = fmt.Sprintf("a path of %s exceeds %d blocks (unbounded loop?)", FnName(fn), sxMaxSteps)
			return
		}
		if fr.parent == nil {
			s.blocks = append(s.blocks, b)
		}
		// phis are evaluated simultaneously on block entry
		phiVals := map[*ssa.Phi]sxVal{}
		for _, in := range b.Instrs {
			phi, ok := in.(*ssa.Phi)
			if !ok {
				break
			}
			for i, p := range b.Preds {
				if p == pred {
					phiVals[phi] = s.eval(phi.Edges[i])
				}
			}
			if phiVals[phi] == nil {
				phiVals[phi] = s.unknown("phi without matching predecessor")
			}
		}
		for phi, v := range phiVals {
			s.regs[phi] = v
		}
		runInstrs(s, fr, b, 0, k)
	}
	runInstrs = func(s *sxState, fr *sxFrame, b *ssa.BasicBlock, from int, k cont) {
		for idx := from; idx < len(b.Instrs); idx++ {
			in := b.Instrs[idx]
			switch t := in.(type) {
			case *ssa.Phi, *ssa.DebugRef, *ssa.RunDefers:
			case *ssa.Jump:
				runBlock(s, fr, b.Succs[0], b, k)
				return
			case *ssa.If:
				cond := s.eval(t.Cond)
				if _, _, constant, _ := sxCondKey(cond); !constant {
					// loop bound: every undecided branch point at most twice per activation
					// (branches decided by constants — counted loops over literals — unroll fully)
					if s.visits[b] >= sxMaxVisits {
						return
					}
					s.visits[b]++
				} else {
					// the header of a counted loop: each iteration gets a fresh budget for the
					// undecided branches of its body
					header := false
					for _, p := range b.Preds {
						if b.Dominates(p) {
							header = true
						}
					}
					if header {
						for _, x := range b.Parent().Blocks {
							if x != b && b.Dominates(x) {
								delete(s.visits, x)
							}
						}
					}
				}
				blk := b
				branch(s, cond, func(ns *sxState, truth bool) {
					succ := blk.Succs[1]
					if truth {
						succ = blk.Succs[0]
					}
					runBlock(ns, fr, succ, blk, k)
				})
				return
			case *ssa.Lookup:
				// lookup in an immutable package-level map literal: one path per entry
				if ml, ok := s.eval(t.X).(sxMapLit); ok {
					look, blk, next := t, b, idx+1
					index := s.eval(t.Index)
					var try func(s *sxState, i int)
					set := func(s *sxState, v sxVal, found bool) {
						if look.CommaOk {
							s.regs[look] = sxTuple{[]sxVal{v, sxConst{ssa.NewConst(constant.MakeBool(found), types.Typ[types.Bool])}}}
						} else {
							s.regs[look] = v
						}
						runInstrs(s, fr, blk, next, k)
					}
					try = func(s *sxState, i int) {
						if i == len(ml.keys) {
							set(s, sxZeroOf(look.X.Type().Underlying().(*types.Map).Elem()), false)
							return
						}
						branch(s, sxOp{"==", []sxVal{index, ml.keys[i]}}, func(ns *sxState, truth bool) {
							if truth {
								set(ns, ml.vals[i], true)
							} else {
								try(ns, i+1)
							}
						})
					}
					try(s, 0)
					return
				}
				s.exec(in)
			case *ssa.Return:
				results := make([]sxVal, len(t.Results))
				for i, r := range t.Results {
					results[i] = s.eval(r)
				}
				k(s, t, results)
				return
			case *ssa.Panic:
				res.Paths = append(res.Paths, &sxPath{Fn: fn, Blocks: s.blocks, Calls: s.calls, Facts: s.facts, Updates: s.updates, Mem: s.mem})
				return
			case *ssa.Call:
				g := StaticCallee(t)
				var bindings []sxVal
				if inline != nil && !t.Call.IsInvoke() {
					// a function literal (bound to a local or applied in place) is a helper like any other
					switch cl := s.eval(t.Call.Value).(type) {
					case sxClosure:
						g, bindings = cl.fn, cl.bindings
						if strings.HasPrefix(g.Synthetic, "bound method wrapper") {
							g = nil // exported-API method values stay summarised (resolved in call())
						}
					case sxFunc: // a function taken from a table
						g = cl.fn
					}
				}
				// cmp.Or(a, b, …) of strings: the first non-empty operand
				if CalleeName(t) == "cmp.Or" && len(t.Call.Args) == 1 && isStringType(t.Type()) {
					if elems, ok := sxSliceElems(s.eval(t.Call.Args[0]), s.mem); ok && len(elems) > 0 {
						call, blk, next := t, b, idx+1
						var try func(s *sxState, i int)
						try = func(s *sxState, i int) {
							if i == len(elems)-1 {
								s.regs[call] = elems[i]
								runInstrs(s, fr, blk, next, k)
								return
							}
							branch(s, sxOp{"==", []sxVal{elems[i], sxStr("")}}, func(ns *sxState, empty bool) {
								if empty {
									try(ns, i+1)
								} else {
									ns.regs[call] = elems[i]
									runInstrs(ns, fr, blk, next, k)
								}
							})
						}
						try(s, 0)
						return
					}
				}
				if inline != nil && g != nil {
					if inModule(g) && len(g.Blocks) > 0 && len(g.Blocks) <= sxInlineBlocks && len(g.FreeVars) == len(bindings) &&
						len(g.Params) == len(t.Call.Args) && fr.depth < sxInlineDepth && !fr.active(g) && inline(g) {
						args := make([]sxVal, len(t.Call.Args))
						for i, a := range t.Call.Args {
							args[i] = s.eval(a)
						}
						for i, p := range g.Params {
							s.regs[p] = args[i]
						}
						for i, fv := range g.FreeVars {
							s.regs[fv] = bindings[i]
						}
						for _, gb := range g.Blocks {
							delete(s.visits, gb)
						}
						nf := &sxFrame{fn: g, parent: fr, depth: fr.depth + 1}
						call, blk, next := t, b, idx+1
						runBlock(s, nf, g.Blocks[0], nil, func(s2 *sxState, _ *ssa.Return, results []sxVal) {
							switch len(results) {
							case 0:
								s2.regs[call] = sxZero{}
							case 1:
								s2.regs[call] = results[0]
							default:
								s2.regs[call] = sxTuple{results}
							}
							runInstrs(s2, fr, blk, next, k)
						})
						return
					}
				}
				s.exec(in)
			default:
				s.exec(in)
			}
		}
	}
	root := &sxFrame{fn: fn}
	runBlock(st, root, fn.Blocks[0], nil, func(s *sxState, ret *ssa.Return, results []sxVal) {
		p := &sxPath{Fn: fn, Blocks: s.blocks, Calls: s.calls, Facts: s.facts, Updates: s.updates, Mem: s.mem, RetInstr: ret, Ret: results}
		res.Paths = append(res.Paths, p)
		if len(res.Paths) > sxMaxPaths {
			res.Err = fmt.Sprintf("more than %d paths", sxMaxPaths)
		}
	})
	return res
}

// sxImplied: further facts that follow from (cond == fv) by the documented
// contract of the standard library.  strings.Cut(s, sep): found == false
// implies after == "" (and before == s).
func sxImplied(cond sxVal, key string, fv bool) []sxFact {
	for {
		op, ok := cond.(sxOp)
		if !ok || op.op != "!" {
			break
		}
		cond = op.args[0]
	}
	cl, ok := cond.(sxCall)
	if !ok || cl.rec.Name != "strings.Cut" || cl.idx != 2 || fv || key != cl.key() {
		return nil
	}
	after := sxCall{cl.rec, 1}
	return []sxFact{{Key: sxEqKey(after, sxStr("")), Val: true, Cond: sxOp{"==", []sxVal{after, sxStr("")}}}}
}

// sxImpliedBy: the converse direction for facts already recorded: a known
// after != "" of strings.Cut implies found == true.
func sxImpliedBy(s *sxState, key string, val bool) []sxFact {
	if val {
		return nil
	}
	for _, f := range s.facts {
		if f.Key != key {
			continue
		}
		op, ok := f.Cond.(sxOp)
		for ok && op.op == "!" {
			op, ok = op.args[0].(sxOp)
		}
		if !ok || (op.op != "==" && op.op != "!=") {
			return nil
		}
		for i := 0; i < 2; i++ {
			cl, isCall := op.args[i].(sxCall)
			if isCall && cl.rec.Name == "strings.Cut" && cl.idx == 1 && sxSame(op.args[1-i], sxStr("")) {
				return []sxFact{{Key: sxCall{cl.rec, 2}.key(), Val: true}}
			}
		}
	}
	return nil
}

// sxCondKeyRec: sxCondKey of c under an outer negation.
func sxCondKeyRec(c sxVal, neg bool) (string, bool, bool, bool) {
	key, n2, isConst, cval := sxCondKey(c)
	if isConst {
		return "", false, true, cval != neg
	}
	return key, n2 != neg, false, false
}

// sxHelper: functions that are executed in place: function literals and
// unexported functions/methods.
func sxHelper(g *ssa.Function) bool { return g.Parent() != nil || !token.IsExported(g.Name()) }

// sxCondKey canonicalises a branch condition: returns the fact key of the
// positive form, whether the condition is its negation, or a constant.
func sxCondKey(c sxVal) (key string, neg bool, isConst bool, cval bool) {
	intOf := func(v sxVal) (int64, bool) {
		k, ok := v.(sxConst)
		if !ok || k.c.Value == nil || k.c.Value.Kind() != constant.Int {
			return 0, false
		}
		n, exact := constant.Int64Val(k.c.Value)
		return n, exact
	}
	nonNeg := func(v sxVal) bool { // len / cap terms
		op, ok := v.(sxOp)
		return ok && (op.op == "len" || op.op == "strlen" || op.op == "cap")
	}
	eq := func(a, b sxVal, neg bool) (string, bool, bool, bool) {
		// len(s) == 0 of a string is s == ""
		for i := 0; i < 2; i++ {
			if op, ok := a.(sxOp); ok && op.op == "strlen" {
				if n, isInt := intOf(b); isInt {
					if n == 0 {
						a, b = op.args[0], sxStr("")
					} else if n < 0 {
						return "", false, true, neg
					}
				}
			}
			a, b = b, a
		}
		if n, isInt := intOf(b); isInt && n < 0 && nonNeg(a) {
			return "", false, true, neg
		}
		if n, isInt := intOf(a); isInt && n < 0 && nonNeg(b) {
			return "", false, true, neg
		}
		ca, okA := a.(sxConst)
		cb, okB := b.(sxConst)
		if okA && okB {
			return "", false, true, (ca.key() == cb.key()) != neg
		}
		// x == true is x, x == false is !x
		for i := 0; i < 2; i++ {
			if k, ok := b.(sxConst); ok && k.c.Value != nil && k.c.Value.Kind() == constant.Bool {
				if !constant.BoolVal(k.c.Value) {
					neg = !neg
				}
				return sxCondKeyRec(a, neg)
			}
			a, b = b, a
		}
		if sxSame(a, b) {
			return "", false, true, !neg
		}
		if (sxSame(a, sxNil) && sxKnownNonNil(b)) || (sxSame(b, sxNil) && sxKnownNonNil(a)) {
			return "", false, true, neg
		}
		return sxEqKey(a, b), neg, false, false
	}
	for {
		switch u := c.(type) {
		case sxConst:
			if u.c.Value != nil && u.c.Value.Kind() == constant.Bool {
				return "", false, true, constant.BoolVal(u.c.Value) != neg
			}
		case sxOp:
			switch u.op {
			case "!":
				c, neg = u.args[0], !neg
				continue
			case "==", "!=":
				if u.op == "!=" {
					neg = !neg
				}
				return eq(u.args[0], u.args[1], neg)
			case "<", ">", "<=", ">=":
				// canonical form  lo < hi  (possibly negated)
				lo, hi := u.args[0], u.args[1]
				switch u.op {
				case ">":
					lo, hi = hi, lo
				case "<=": // a <= b  ⇔  !(b < a)
					lo, hi, neg = hi, lo, !neg
				case ">=": // a >= b  ⇔  !(a < b)
					neg = !neg
				}
				nl, okL := intOf(lo)
				nh, okH := intOf(hi)
				switch {
				case okL && okH:
					return "", false, true, (nl < nh) != neg
				case okH && nonNeg(lo): // len < k
					if nh <= 0 {
						return "", false, true, neg
					}
					if nh == 1 { // len < 1  ⇔  len == 0
						return eq(lo, sxInt(0), neg)
					}
				case okL && nonNeg(hi): // k < len
					if nl < 0 {
						return "", false, true, !neg
					}
					if nl == 0 { // 0 < len  ⇔  len != 0
						return eq(hi, sxInt(0), !neg)
					}
				}
				return "<(" + lo.key() + "," + hi.key() + ")", neg, false, false
			}
		}
		return c.key(), neg, false, false
	}
}

// sxFoldInt folds integer arithmetic and comparisons of constants (loop
// counters over literals).
func sxFoldInt(op token.Token, x, y sxVal, t types.Type) sxVal {
	cx, okX := x.(sxConst)
	cy, okY := y.(sxConst)
	if !okX || !okY || cx.c.Value == nil || cy.c.Value == nil || cx.c.Value.Kind() != constant.Int || cy.c.Value.Kind() != constant.Int {
		return nil
	}
	switch op {
	case token.ADD, token.SUB, token.MUL:
		return sxConst{ssa.NewConst(constant.BinaryOp(cx.c.Value, op, cy.c.Value), t)}
	case token.LSS, token.LEQ, token.GTR, token.GEQ, token.EQL, token.NEQ:
		return sxConst{ssa.NewConst(constant.MakeBool(constant.Compare(cx.c.Value, op, cy.c.Value)), types.Typ[types.Bool])}
	}
	return nil
}

var sxGlobalCache = map[*ssa.Global]sxVal{}

// sxGlobalValue resolves a package-level variable of function or map type that
// is initialised once (in the package initialiser) and never written again:
// a function, a bound method value (isValid = pattern.MatchString) or a map
// literal with constant keys (dispatch / lookup tables).  nil: not resolvable.
func sxGlobalValue(g *ssa.Global) sxVal {
	if v, ok := sxGlobalCache[g]; ok {
		return v
	}
	sxGlobalCache[g] = nil
	elem := g.Type().(*types.Pointer).Elem().Underlying()
	_, isFunc := elem.(*types.Signature)
	_, isMap := elem.(*types.Map)
	_, isStruct := elem.(*types.Struct)
	if !isFunc && !isMap && !isStruct {
		return nil
	}
	init := g.Pkg.Func("init")
	if init == nil {
		return nil
	}
	var val ssa.Value
	n := 0
	AllInstrs(init, func(in ssa.Instruction) {
		if st, ok := in.(*ssa.Store); ok && st.Addr == ssa.Value(g) {
			val, n = st.Val, n+1
		}
	})
	if n != 1 {
		return nil
	}
	// never written (nor the map updated / handed out) outside init
	for _, m := range g.Pkg.Members {
		f, ok := m.(*ssa.Function)
		if !ok {
			continue
		}
		for _, ff := range append([]*ssa.Function{f}, Anons(f)...) {
			bad := false
			AllInstrs(ff, func(in ssa.Instruction) {
				if st, ok := in.(*ssa.Store); ok && st.Addr == ssa.Value(g) && ff != init {
					bad = true
				}
				if isStruct && ff != init {
					// a computed-once struct: only whole loads and field loads
					if fa, ok := in.(*ssa.FieldAddr); ok && fa.X == ssa.Value(g) {
						for _, r := range *fa.Referrers() {
							if ld, ok := r.(*ssa.UnOp); !ok || ld.Op != token.MUL {
								if _, dbg := r.(*ssa.DebugRef); !dbg {
									bad = true
								}
							}
						}
					}
					for _, op := range in.Operands(nil) {
						if op != nil && *op == ssa.Value(g) {
							switch x := in.(type) {
							case *ssa.UnOp:
								if x.Op != token.MUL {
									bad = true
								}
							case *ssa.FieldAddr, *ssa.DebugRef:
							default:
								bad = true // address handed out
							}
						}
					}
				}
				ld, ok := in.(*ssa.UnOp)
				if !ok || ld.X != ssa.Value(g) || !isMap || ff == init {
					return
				}
				for _, r := range *ld.Referrers() {
					switch r.(type) {
					case *ssa.Lookup, *ssa.DebugRef:
					default:
						bad = true // ranged over, updated, passed on …
					}
				}
			})
			if bad {
				return nil
			}
		}
	}
	lit := func(v ssa.Value) sxVal {
		switch u := v.(type) {
		case *ssa.Const:
			return sxConst{u}
		case *ssa.Function:
			return sxFunc{u}
		case *ssa.ChangeType:
			if f, ok := u.X.(*ssa.Function); ok {
				return sxFunc{f}
			}
		case *ssa.MakeClosure:
			cl := sxClosure{fn: u.Fn.(*ssa.Function), ssaBind: u.Bindings}
			for _, b := range u.Bindings {
				ld, ok := b.(*ssa.UnOp)
				if !ok || ld.Op != token.MUL {
					return nil
				}
				bg, ok := ld.X.(*ssa.Global)
				if !ok {
					return nil
				}
				cl.bindings = append(cl.bindings, sxInit{sxGlobal{bg}})
			}
			return cl
		}
		return nil
	}
	var out sxVal
	switch u := val.(type) {
	case *ssa.MakeMap:
		ml := sxMapLit{g: g}
		for _, r := range *u.Referrers() {
			switch x := r.(type) {
			case *ssa.MapUpdate:
				k, v := lit(x.Key), lit(x.Value)
				if _, isConst := k.(sxConst); !isConst || v == nil {
					return nil
				}
				ml.keys, ml.vals = append(ml.keys, k), append(ml.vals, v)
			case *ssa.Store, *ssa.DebugRef:
			default:
				return nil
			}
		}
		out = ml
	case *ssa.Call:
		// a struct computed once from constants (e.g. the descriptor of a constant blob)
		if isStruct {
			rec := &sxCallRec{Call: u, Name: CalleeName(u), Callee: StaticCallee(u), id: "init:" + short(g.Pkg.Pkg.Path()) + "." + g.Name()}
			for _, a := range u.Call.Args {
				var t sxVal
				switch x := a.(type) {
				case *ssa.Const:
					t = sxConst{x}
				case *ssa.Convert:
					if k, ok := x.X.(*ssa.Const); ok {
						if isStringType(x.X.Type()) && isStringType(x.Type()) {
							t = sxConst{k}
						} else {
							t = sxOp{"convert:" + stTypeName(x.Type()), []sxVal{sxConst{k}}}
						}
					}
				}
				if t == nil {
					return nil
				}
				rec.Args = append(rec.Args, t)
			}
			out = sxCall{rec, 0}
		}
	default:
		if isFunc {
			out = lit(val)
		}
	}
	sxGlobalCache[g] = out
	return out
}

// sxKnownNonNil: terms that cannot be nil (fresh errors, sentinel errors,
// addresses of variables, function values, freshly made maps/slices).
func sxKnownNonNil(v sxVal) bool {
	switch u := v.(type) {
	case sxCall:
		return u.idx == 0 && (u.rec.Name == "fmt.Errorf" || u.rec.Name == "errors.New")
	case sxInit:
		if g, ok := u.addr.(sxGlobal); ok {
			return isErrorType(g.g.Type().(*types.Pointer).Elem())
		}
	case sxAlloc, sxGlobal, sxFieldAddr, sxClosure, sxFunc:
		return true
	case sxOp:
		return strings.HasPrefix(u.op, "make:")
	}
	return false
}

func (s *sxState) eval(v ssa.Value) sxVal {
	switch u := v.(type) {
	case *ssa.Const:
		return sxConst{u}
	case *ssa.Parameter:
		if r, ok := s.regs[v]; ok {
			return r // bound to the argument of an inlined call
		}
		return sxParam{u}
	case *ssa.FreeVar:
		if r, ok := s.regs[v]; ok {
			return r // bound to the captured variable of an inlined function literal
		}
		return sxFreeVar{u}
	case *ssa.Global:
		return sxGlobal{u}
	case *ssa.Function:
		return sxFunc{u}
	case *ssa.Builtin:
		return sxOp{op: "builtin:" + u.Name()}
	}
	if r, ok := s.regs[v]; ok {
		return r
	}
	return s.unknown("value " + v.Name() + " used before evaluation")
}

// sxZeroOf: the zero value of t as a term — a constant for basic and
// nil-able types (so that a never-assigned flag reads as false), sxZero for
// aggregates.
func sxZeroOf(t types.Type) sxVal {
	if t == nil {
		return sxZero{}
	}
	switch u := t.Underlying().(type) {
	case *types.Basic:
		switch {
		case u.Info()&types.IsBoolean != 0:
			return sxConst{ssa.NewConst(constant.MakeBool(false), t)}
		case u.Info()&types.IsString != 0:
			return sxConst{ssa.NewConst(constant.MakeString(""), t)}
		case u.Info()&types.IsInteger != 0:
			return sxConst{ssa.NewConst(constant.MakeInt64(0), t)}
		}
	case *types.Pointer, *types.Interface, *types.Slice, *types.Map, *types.Chan, *types.Signature:
		return sxNil
	}
	return sxZero{t}
}

func sxFieldOf(v sxVal, f int, name string, ft types.Type) sxVal {
	switch u := v.(type) {
	case sxStruct:
		if x, ok := u.fields[f]; ok {
			return x
		}
		if u.base == nil {
			return sxZeroOf(ft)
		}
		return sxFieldOf(u.base, f, name, ft)
	case sxZero:
		return sxZeroOf(ft)
	}
	return sxField{x: v, field: f, name: name}
}

func sxWithField(v sxVal, f int, name string, x sxVal) sxVal {
	ns := sxStruct{fields: map[int]sxVal{}, names: map[int]string{}}
	switch u := v.(type) {
	case sxStruct:
		ns.base = u.base
		for k, y := range u.fields {
			ns.fields[k] = y
			ns.names[k] = u.names[k]
		}
	case sxZero:
	default:
		ns.base = v
	}
	ns.fields[f] = x
	ns.names[f] = name
	return ns
}

// load returns the contents of the cell addr points to.
func (s *sxState) load(addr sxVal, t types.Type) sxVal {
	if v, ok := s.mem[addr.key()]; ok {
		return v
	}
	switch a := addr.(type) {
	case sxFieldAddr:
		return sxFieldOf(s.load(a.base, nil), a.field, a.name, t)
	case sxIndexAddr:
		if c, ok := a.idx.(sxConst); ok && c.c.Value != nil && c.c.Value.Kind() == constant.Int {
			k, _ := constant.Int64Val(c.c.Value)
			if l, isList := a.base.(sxList); isList && k >= 0 && int(k) < len(l.elems) {
				return l.elems[k]
			}
			return sxFieldOf(s.load(a.base, nil), int(k), fmt.Sprintf("[%d]", k), t)
		}
		return sxOp{"index", []sxVal{s.load(a.base, nil), a.idx}}
	case sxAlloc:
		return sxZeroOf(t)
	case sxGlobal:
		if v := sxGlobalValue(a.g); v != nil {
			return v
		}
	}
	return sxInit{addr}
}

func (s *sxState) store(addr sxVal, v sxVal) {
	switch a := addr.(type) {
	case sxFieldAddr:
		s.store(a.base, sxWithField(s.load(a.base, nil), a.field, a.name, v))
		return
	case sxIndexAddr:
		if c, ok := a.idx.(sxConst); ok && c.c.Value != nil && c.c.Value.Kind() == constant.Int {
			k, _ := constant.Int64Val(c.c.Value)
			s.store(a.base, sxWithField(s.load(a.base, nil), int(k), fmt.Sprintf("[%d]", k), v))
			return
		}
		s.store(a.base, s.unknown("store at a non-constant index"))
		return
	}
	s.mem[addr.key()] = v
}

// rootOf returns the root cell of an address term.
func sxRootOf(addr sxVal) sxVal {
	for {
		switch a := addr.(type) {
		case sxFieldAddr:
			addr = a.base
		case sxIndexAddr:
			addr = a.base
		default:
			return addr
		}
	}
}

func sxFieldNameOf(t types.Type, idx int) (string, types.Type) {
	if p, ok := t.Underlying().(*types.Pointer); ok {
		t = p.Elem()
	}
	if st, ok := t.Underlying().(*types.Struct); ok && idx < st.NumFields() {
		return st.Field(idx).Name(), st.Field(idx).Type()
	}
	return fmt.Sprintf("#%d", idx), nil
}

func (s *sxState) exec(in ssa.Instruction) {
	switch u := in.(type) {
	case *ssa.Alloc:
		a := sxAlloc{u}
		delete(s.mem, a.key())
		s.regs[u] = a
	case *ssa.Store:
		s.store(s.eval(u.Addr), s.eval(u.Val))
	case *ssa.UnOp:
		x := s.eval(u.X)
		switch u.Op {
		case token.MUL:
			if g, ok := x.(sxGlobal); ok {
				if _, written := s.mem[x.key()]; !written {
					if v := sxGlobalValue(g.g); v != nil {
						s.regs[u] = v
						break
					}
				}
			}
			s.regs[u] = s.load(x, u.Type())
		case token.NOT:
			s.regs[u] = sxOp{"!", []sxVal{x}}
		default:
			s.regs[u] = sxOp{u.Op.String(), []sxVal{x}}
		}
	case *ssa.BinOp:
		x, y := s.eval(u.X), s.eval(u.Y)
		if f := sxFoldInt(u.Op, x, y, u.Type()); f != nil {
			s.regs[u] = f
		} else {
			s.regs[u] = sxOp{u.Op.String(), []sxVal{x, y}}
		}
	case *ssa.FieldAddr:
		name, _ := sxFieldNameOf(u.X.Type(), u.Field)
		s.regs[u] = sxFieldAddr{base: s.eval(u.X), field: u.Field, name: name}
	case *ssa.Field:
		name, ft := sxFieldNameOf(u.X.Type(), u.Field)
		s.regs[u] = sxFieldOf(s.eval(u.X), u.Field, name, ft)
	case *ssa.IndexAddr:
		base := s.eval(u.X)
		if op, ok := base.(sxOp); ok && op.op == "slice" && op.args[1] == nil {
			if a, ok := op.args[0].(sxAlloc); ok {
				base = a // s[i] of s = arr[:] addresses arr[i]
			}
		}
		s.regs[u] = sxIndexAddr{base: base, idx: s.eval(u.Index)}
	case *ssa.Index:
		x, i := s.eval(u.X), s.eval(u.Index)
		if k, ok := i.(sxConst); ok && k.c.Value != nil && k.c.Value.Kind() == constant.Int {
			n, _ := constant.Int64Val(k.c.Value)
			switch a := x.(type) {
			case sxStruct: // array value built on the path
				var et types.Type
				if arr, ok := u.X.Type().Underlying().(*types.Array); ok {
					et = arr.Elem()
				}
				s.regs[u] = sxFieldOf(a, int(n), fmt.Sprintf("[%d]", n), et)
				return
			case sxList:
				if n >= 0 && int(n) < len(a.elems) {
					s.regs[u] = a.elems[n]
					return
				}
			}
		}
		s.regs[u] = sxOp{"index", []sxVal{x, i}}
	case *ssa.ChangeType:
		s.regs[u] = s.eval(u.X)
	case *ssa.ChangeInterface:
		s.regs[u] = s.eval(u.X)
	case *ssa.MakeInterface:
		s.regs[u] = s.eval(u.X)
	case *ssa.Convert:
		if isStringType(u.X.Type()) && isStringType(u.Type()) {
			s.regs[u] = s.eval(u.X)
		} else {
			s.regs[u] = sxOp{"convert:" + stTypeName(u.Type()), []sxVal{s.eval(u.X)}}
		}
	case *ssa.SliceToArrayPointer:
		s.regs[u] = sxOp{"slice2array", []sxVal{s.eval(u.X)}}
	case *ssa.TypeAssert:
		op := "assert:" + stTypeName(u.AssertedType)
		if u.CommaOk {
			op += ",ok"
		}
		s.regs[u] = sxOp{op, []sxVal{s.eval(u.X)}}
	case *ssa.Slice:
		args := []sxVal{s.eval(u.X), nil, nil, nil}
		if u.Low != nil {
			args[1] = s.eval(u.Low)
		}
		if u.High != nil {
			args[2] = s.eval(u.High)
		}
		if u.Max != nil {
			args[3] = s.eval(u.Max)
		}
		s.regs[u] = sxOp{"slice", args}
	case *ssa.Lookup:
		op := "lookup"
		if u.CommaOk {
			op += ",ok"
		}
		s.regs[u] = sxOp{op, []sxVal{s.eval(u.X), s.eval(u.Index)}}
	case *ssa.Extract:
		t := s.eval(u.Tuple)
		if c, ok := t.(sxCall); ok {
			s.regs[u] = sxCall{c.rec, u.Index}
		} else if tp, ok := t.(sxTuple); ok && u.Index < len(tp.vals) {
			s.regs[u] = tp.vals[u.Index]
		} else {
			s.regs[u] = sxOp{fmt.Sprintf("extract#%d", u.Index), []sxVal{t}}
		}
	case *ssa.MakeMap, *ssa.MakeSlice, *ssa.MakeChan:
		s.nCall[in]++
		s.regs[u.(ssa.Value)] = sxOp{op: fmt.Sprintf("make:%s#%d", u.(ssa.Value).Name(), s.nCall[in])}
	case *ssa.MapUpdate:
		s.updates = append(s.updates, sxMapUpdate{Map: s.eval(u.Map), Key: s.eval(u.Key), Val: s.eval(u.Value), NFacts: len(s.facts)})
	case *ssa.MakeClosure:
		c := sxClosure{fn: u.Fn.(*ssa.Function), ssaBind: u.Bindings}
		for _, b := range u.Bindings {
			c.bindings = append(c.bindings, s.eval(b))
		}
		s.regs[u] = c
	case *ssa.Call:
		s.regs[u] = s.call(u, false)
	case *ssa.Defer:
		s.call(u, true)
	case *ssa.Go:
		s.call(u, true)
	case *ssa.Range:
		s.regs[u] = sxOp{"range", []sxVal{s.eval(u.X)}}
	case *ssa.Next:
		s.nCall[in]++
		s.regs[u] = sxOp{fmt.Sprintf("next#%d", s.nCall[in]), []sxVal{s.eval(u.Iter)}}
	case *ssa.Send:
	default:
		if v, ok := in.(ssa.Value); ok {
			s.regs[v] = s.unknown(fmt.Sprintf("%T", in))
		}
	}
}

func (s *sxState) call(c ssa.CallInstruction, deferred bool) sxVal {
	cc := c.Common()
	in := c.(ssa.Instruction)
	if b, ok := cc.Value.(*ssa.Builtin); ok && (b.Name() == "len" || b.Name() == "cap") && len(cc.Args) == 1 {
		arg := s.eval(cc.Args[0])
		if op, ok := arg.(sxOp); ok && op.op == "slice" && op.args[1] == nil && op.args[2] == nil {
			if a, ok := op.args[0].(sxAlloc); ok {
				if arr, ok := a.a.Type().(*types.Pointer).Elem().Underlying().(*types.Array); ok {
					return sxInt(arr.Len()) // length of a slice literal
				}
			}
		}
		if l, ok := arg.(sxList); ok {
			return sxInt(int64(len(l.elems)))
		}
		if k, ok := arg.(sxConst); ok && k.c.Value == nil {
			return sxInt(0) // len(nil)
		}
		if b.Name() == "len" && isStringType(cc.Args[0].Type()) {
			return sxOp{"strlen", []sxVal{arg}}
		}
		return sxOp{b.Name(), []sxVal{arg}}
	}
	if b, ok := cc.Value.(*ssa.Builtin); ok && b.Name() == "append" && len(cc.Args) == 2 {
		// append to a nil / known slice of literal elements: the element list stays known
		base, more := s.eval(cc.Args[0]), s.eval(cc.Args[1])
		var elems []sxVal
		okBase := false
		switch u := base.(type) {
		case sxList:
			elems, okBase = append(elems, u.elems...), true
		case sxConst:
			okBase = u.c.Value == nil
		default:
			if lit, ok := sxSliceElems(base, s.mem); ok { // append to a slice literal
				elems, okBase = append(elems, lit...), true
			}
		}
		if add, ok := sxSliceElems(more, s.mem); ok && okBase {
			return sxList{append(elems, add...)}
		}
	}
	s.nCall[in]++
	name := ""
	if v := c.Value(); v != nil {
		name = v.Name()
	} else {
		name = fmt.Sprintf("i%d.%d", in.Block().Index, instrIndex(in))
	}
	rec := &sxCallRec{Call: c, Name: CalleeName(c), Callee: StaticCallee(c), NFacts: len(s.facts), Deferred: deferred,
		id: fmt.Sprintf("%s@%s#%d", name, in.Parent().Name(), s.nCall[in])}
	if cc.IsInvoke() {
		rec.Recv = s.eval(cc.Value)
	} else if rec.Callee == nil {
		// dynamic call: resolve the function value on this path
		switch f := s.eval(cc.Value).(type) {
		case sxClosure:
			rec.Callee = f.fn
			rec.Name = fnFullName(f.fn)
			if strings.HasPrefix(f.fn.Synthetic, "bound method wrapper") && len(f.bindings) == 1 {
				rec.Recv = f.bindings[0]
				if len(f.ssaBind) == 1 {
					rec.RecvSSA = f.ssaBind[0]
				}
			}
		case sxFunc:
			rec.Callee = f.fn
			rec.Name = fnFullName(f.fn)
		}
	}
	for _, a := range cc.Args {
		rec.Args = append(rec.Args, s.eval(a))
	}
	// snapshot the store (terms are immutable)
	rec.Mem = make(map[string]sxVal, len(s.mem))
	for k, v := range s.mem {
		rec.Mem[k] = v
	}
	s.calls = append(s.calls, rec)
	// a callee that receives the address of a local may write through it
	var escape func(v sxVal, depth int)
	escape = func(v sxVal, depth int) {
		if depth > 4 || v == nil {
			return
		}
		switch a := v.(type) {
		case sxAlloc, sxFieldAddr, sxIndexAddr:
			root := sxRootOf(a)
			if _, isAlloc := root.(sxAlloc); isAlloc {
				s.mem[root.key()] = s.unknown("cell passed by address to " + rec.Name)
			}
		case sxClosure:
			for _, b := range a.bindings {
				escape(b, depth+1)
			}
		case sxOp:
			if a.op == "slice" {
				escape(a.args[0], depth+1)
			}
		}
	}
	if !sxPureCallee(rec.Name) {
		for _, a := range rec.Args {
			escape(a, 0)
		}
		if cl, ok := s.eval(cc.Value).(sxClosure); ok && !cc.IsInvoke() {
			escape(cl, 0)
		}
	}
	if cc.Signature().Results().Len() == 0 {
		return sxZero{}
	}
	return sxCall{rec, 0}
}

// sxPureCallee: callees known not to write through slice/pointer arguments.
func sxPureCallee(name string) bool {
	switch name {
	case "fmt.Errorf", "fmt.Sprintf", "strings.Join", "bytes.NewReader", "builtin:len", "builtin:append",
		"~/content.NewDescriptorFromBytes", "encoding/json.Marshal", "errors.Is":
		return true
	}
	return false
}

// ---------- term utilities ----------

// sxWalk visits v and its sub-terms (struct fields and bases, operator and
// call arguments); f returning false stops descent into that term.
func sxWalk(v sxVal, f func(sxVal) bool) {
	seen := map[*sxCallRec]bool{}
	var rec func(v sxVal, depth int)
	rec = func(v sxVal, depth int) {
		if v == nil || depth > 12 {
			return
		}
		if !f(v) {
			return
		}
		switch u := v.(type) {
		case sxStruct:
			if u.base != nil {
				rec(u.base, depth+1)
			}
			for _, x := range u.fields {
				rec(x, depth+1)
			}
		case sxField:
			rec(u.x, depth+1)
		case sxInit:
			rec(u.addr, depth+1)
		case sxFieldAddr:
			rec(u.base, depth+1)
		case sxIndexAddr:
			rec(u.base, depth+1)
			rec(u.idx, depth+1)
		case sxOp:
			for _, x := range u.args {
				rec(x, depth+1)
			}
		case sxCall:
			if !seen[u.rec] {
				seen[u.rec] = true
				for _, x := range u.rec.Args {
					rec(x, depth+1)
				}
			}
		case sxClosure:
			for _, x := range u.bindings {
				rec(x, depth+1)
			}
		case sxTuple:
			for _, x := range u.vals {
				rec(x, depth+1)
			}
		case sxList:
			for _, x := range u.elems {
				rec(x, depth+1)
			}
		}
	}
	rec(v, 0)
}

// sxUnknownIn reports the first unknown sub-term of v.
func sxUnknownIn(v sxVal) (string, bool) {
	why, found := "", false
	sxWalk(v, func(x sxVal) bool {
		if u, ok := x.(sxUnknown); ok && !found {
			why, found = u.why, true
		}
		return !found
	})
	return why, found
}

// sxBase strips field overrides: the value a struct term was copied from.
func sxBase(v sxVal) sxVal {
	for {
		s, ok := v.(sxStruct)
		if !ok || s.base == nil {
			return v
		}
		v = s.base
	}
}

// sxOverridden returns the names of fields replaced in a struct term.
func sxOverridden(v sxVal) []string {
	var out []string
	if s, ok := v.(sxStruct); ok {
		for k := range s.fields {
			out = append(out, s.names[k])
		}
	}
	sort.Strings(out)
	return out
}

// sxFieldByName: field `name` of struct-typed term v (type t).
func sxFieldByName(v sxVal, t types.Type, name string) (sxVal, bool) {
	if p, ok := t.Underlying().(*types.Pointer); ok {
		t = p.Elem()
	}
	st, ok := t.Underlying().(*types.Struct)
	if !ok {
		return nil, false
	}
	for i := 0; i < st.NumFields(); i++ {
		if st.Field(i).Name() == name {
			return sxFieldOf(v, i, name, st.Field(i).Type()), true
		}
	}
	return nil, false
}

// sxSliceElems: elements of `slice` of a local array cell, read from the
// store snapshot mem.
func sxSliceElems(v sxVal, mem map[string]sxVal) ([]sxVal, bool) {
	op, ok := v.(sxOp)
	if !ok || op.op != "slice" || op.args[1] != nil || op.args[2] != nil {
		return nil, false
	}
	a, ok := op.args[0].(sxAlloc)
	if !ok {
		return nil, false
	}
	arr, ok := a.a.Type().(*types.Pointer).Elem().Underlying().(*types.Array)
	if !ok {
		return nil, false
	}
	cell := mem[a.key()]
	out := make([]sxVal, arr.Len())
	for i := range out {
		out[i] = sxFieldOf(cell, i, fmt.Sprintf("[%d]", i), arr.Elem())
		if cell == nil {
			out[i] = sxZero{arr.Elem()}
		}
	}
	return out, true
}

func sxDescribe(v sxVal) string {
	if v == nil {
		return "<none>"
	}
	k := v.key()
	if len(k) > 160 {
		k = k[:160] + "…"
	}
	return k
}
